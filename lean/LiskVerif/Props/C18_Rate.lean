/-
C18 — rate limiter and message-protocol clauses: well-formed traffic within the limits is never
penalised; exceeding the limit, malformed envelopes and unknown procedures are penalised, the
penalties accumulate in the gater, and reaching the threshold disconnects the peer.

Theorems about `LiskVerif.Model.RateLimit` (model of pkg/p2p/ratelimit.go and of the penalty paths
of pkg/p2p/message_protocol.go, peer.go).
-/
import LiskVerif.Props.C18

open LiskVerif LiskVerif.ConnGater LiskVerif.RateLimit

/-- the configured limit of a procedure (`none` = not registered) -/
def C18limitOf (n : Node) (name : String) : Option Int := (findCounter n.counters name).map (·.limit)

/-- reference message counts per (procedure, peer) in the current interval -/
abbrev C18Cnt := String → Nat → Nat

def C18inc (c : C18Cnt) (name : String) (pid : Nat) : C18Cnt :=
  fun n p => if n = name ∧ p = pid then c n p + 1 else c n p

/-- **Legal traffic**: every envelope is well formed and names a registered procedure, and in every
interval (between two ticks) each (procedure, peer) sends at most `limit` messages. -/
def C18Legal (lim : String → Option Int) : C18Cnt → List Ev → Prop
  | _, [] => True
  | _, .tick :: r => C18Legal lim (fun _ _ => 0) r
  | c, .msg _ _ _ pid (.proc name) :: r =>
    (∃ L, lim name = some L ∧ ((c name pid + 1 : Nat) : Int) ≤ L) ∧ C18Legal lim (C18inc c name pid) r
  | _, .msg _ _ _ _ .malformed :: _ => False

/-- number of requests in a traffic sequence -/
def C18requests : List Ev → Nat
  | [] => 0
  | .msg _ true _ _ _ :: r => C18requests r + 1
  | _ :: r => C18requests r

/-! ### one-step facts -/

private theorem count_increase (n : Node) (name : String) (pid : Nat) (cfg : Counter)
    (hc : findCounter n.counters name = some cfg) (name' : String) (pid' : Nat) :
    count (increase n name pid) name' pid' =
      if name' = name ∧ pid' = pid then count n name pid + 1 else count n name' pid' := by
  unfold count increase
  simp only
  rw [findCounter_updCounter n.counters name (fun c => { c with counts := setCount c.counts pid (getCount c.counts pid + 1) }) (fun _ => rfl) name']
  by_cases h1 : name = name'
  · subst h1
    simp only [if_true, hc, Option.map_some, true_and, getCount_setCount]
    by_cases h2 : pid = pid'
    · subst h2; simp
    · have : ¬ pid' = pid := fun hh => h2 hh.symm
      simp [h2, this]
  · have : ¬ name' = name := fun hh => h1 hh.symm
    simp [h1, this]

private theorem find_increase (n : Node) (name : String) (pid : Nat) (name' : String) :
    findCounter (increase n name pid).counters name' =
      if name = name' then (findCounter n.counters name).map fun c =>
        { c with counts := setCount c.counts pid (getCount c.counts pid + 1) }
      else findCounter n.counters name' := by
  unfold increase
  simp only
  rw [findCounter_updCounter n.counters name (fun c => { c with counts := setCount c.counts pid (getCount c.counts pid + 1) }) (fun _ => rfl) name']

private theorem limitOf_increase (n : Node) (name : String) (pid : Nat) :
    C18limitOf (increase n name pid) = C18limitOf n := by
  funext name'
  unfold C18limitOf
  rw [find_increase]
  by_cases h : name = name'
  · subst h
    cases findCounter n.counters name <;> simp
  · simp [h]

private theorem limitOf_tick (n : Node) : C18limitOf (tick n) = C18limitOf n := by
  funext name'
  unfold C18limitOf tick
  simp only
  rw [findCounter_map n.counters (fun c => { c with counts := [] }) (fun _ => rfl) name']
  cases findCounter n.counters name' <;> simp

private theorem count_tick (n : Node) (name : String) (pid : Nat) : count (tick n) name pid = 0 := by
  unfold count tick
  simp only
  rw [findCounter_map n.counters (fun c => { c with counts := [] }) (fun _ => rfl) name]
  cases findCounter n.counters name <;> simp [getCount]

/-- the request handler runs -/
def C18bump (n : Node) (isReq : Bool) : Node :=
  if isReq then { n with handled := n.handled + 1 } else n

private theorem checkLimit_within (n : Node) (hmp : n.mpStarted = true) (now : Nat) (remote : Addr)
    (pid : Nat) (name : String) (cfg : Counter) (hc : findCounter n.counters name = some cfg)
    (hle : ¬ ((getCount cfg.counts pid : Nat) : Int) > cfg.limit) :
    checkLimit n now name pid remote = (n, .ok, none) := by
  unfold checkLimit
  simp only [hmp, Bool.not_true, Bool.false_eq_true, if_false, hc, hle]

/-- a well-formed message of a registered procedure within the limit: only the counter moves -/
private theorem receive_legal (n : Node) (hmp : n.mpStarted = true) (now : Nat) (isReq : Bool)
    (remote : Addr) (pid : Nat) (name : String) (cfg : Counter)
    (hc : findCounter n.counters name = some cfg)
    (hle : ((count n name pid + 1 : Nat) : Int) ≤ cfg.limit) :
    receive n now isReq remote pid (.proc name) = C18bump (increase n name pid) isReq := by
  have hcnt : count n name pid = getCount cfg.counts pid := by simp [count, hc]
  have hfind := find_increase n name pid name
  simp only [if_true, hc, Option.map_some] at hfind
  have hcl := checkLimit_within (increase n name pid) hmp now remote pid name _ hfind (by
    simp only [getCount_setCount, if_true]
    rw [← hcnt]; omega)
  unfold receive
  simp only [hc, Option.isNone_some, Bool.false_eq_true, if_false]
  rw [hcl]
  cases isReq <;> rfl

/-! ### legal traffic -/

private theorem legal_run (lim : String → Option Int) (evs : List Ev) (n : Node) (c : C18Cnt)
    (hmp : n.mpStarted = true) (hlim : C18limitOf n = lim)
    (hcnt : ∀ name pid, count n name pid = c name pid) (hl : C18Legal lim c evs) :
    (runEv n evs).g = n.g ∧ (runEv n evs).conns = n.conns ∧ (runEv n evs).closed = n.closed ∧
      (runEv n evs).handled = n.handled + C18requests evs := by
  induction evs generalizing n c with
  | nil => simp [runEv, C18requests]
  | cons ev r ih =>
    cases ev with
    | tick =>
      have hl : C18Legal lim (fun _ _ => 0) r := hl
      have := ih (tick n) (fun _ _ => 0) hmp (by rw [limitOf_tick]; exact hlim)
        (fun name pid => count_tick n name pid) hl
      simp only [runEv, List.foldl, applyEv, C18requests] at this ⊢
      exact this
    | msg now isReq remote pid k =>
      cases k with
      | malformed => exact absurd hl (by intro h; exact h)
      | proc name =>
        have hl : (∃ L, lim name = some L ∧ ((c name pid + 1 : Nat) : Int) ≤ L) ∧
            C18Legal lim (C18inc c name pid) r := hl
        obtain ⟨L, hL, hle⟩ := hl.1
        have hreg : ∃ cfg, findCounter n.counters name = some cfg ∧ cfg.limit = L := by
          have : C18limitOf n name = some L := by rw [hlim]; exact hL
          unfold C18limitOf at this
          cases hf : findCounter n.counters name with
          | none => simp [hf] at this
          | some cfg =>
            simp only [hf, Option.map_some, Option.some.injEq] at this
            exact ⟨cfg, rfl, this⟩
        obtain ⟨cfg, hc, hcl⟩ := hreg
        have hle' : ((count n name pid + 1 : Nat) : Int) ≤ cfg.limit := by
          rw [hcnt, hcl]; exact hle
        have hrec := receive_legal n hmp now isReq remote pid name cfg hc hle'
        have hcnt' : ∀ name' pid', count (increase n name pid) name' pid' = C18inc c name pid name' pid' := by
          intro name' pid'
          rw [count_increase n name pid cfg hc]
          unfold C18inc
          by_cases h : name' = name ∧ pid' = pid
          · obtain ⟨h1, h2⟩ := h
            subst h1; subst h2
            simp [hcnt]
          · simp [h, hcnt]
        have hlim' : C18limitOf (increase n name pid) = lim := by rw [limitOf_increase]; exact hlim
        have hb : (C18bump (increase n name pid) isReq).mpStarted = true := by
          cases isReq <;> exact hmp
        have hlimb : C18limitOf (C18bump (increase n name pid) isReq) = lim := by
          cases isReq <;> exact hlim'
        have hcntb : ∀ name' pid', count (C18bump (increase n name pid) isReq) name' pid' =
            C18inc c name pid name' pid' := by
          cases isReq <;> exact hcnt'
        have := ih (C18bump (increase n name pid) isReq) (C18inc c name pid) hb hlimb hcntb hl.2
        simp only [runEv, List.foldl, applyEv, hrec] at this ⊢
        refine ⟨by rw [this.1]; cases isReq <;> rfl, by rw [this.2.1]; cases isReq <;> rfl,
          by rw [this.2.2.1]; cases isReq <;> rfl, ?_⟩
        rw [this.2.2.2]
        cases isReq
        · simp [C18bump, C18requests, increase]
        · simp only [C18bump, C18requests, increase, if_true]
          omega

/-- **Well-formed traffic within the limits is never penalised.** From a node whose counters are
zero (start of an interval), any sequence of well-formed messages for registered procedures and
interval ticks in which every (procedure, peer) stays within its limit per interval leaves the gater
untouched (no score, no ban), closes no connection, and every request reaches its handler. -/
theorem C18_legal_traffic_never_penalised (n : Node) (hmp : n.mpStarted = true)
    (hz : ∀ name pid, count n name pid = 0) (evs : List Ev)
    (hl : C18Legal (C18limitOf n) (fun _ _ => 0) evs) :
    (runEv n evs).g = n.g ∧ (runEv n evs).conns = n.conns ∧ (runEv n evs).closed = n.closed ∧
      (runEv n evs).handled = n.handled + C18requests evs :=
  legal_run (C18limitOf n) evs n (fun _ _ => 0) hmp rfl hz hl

/-- a small concrete node: one procedure with limit 2 and penalty 50 -/
def C18exampleNode : Node :=
  mpStart (register { g := C18fresh 10 } "blk" (some (2, 50))).1

example : C18Legal (C18limitOf C18exampleNode) (fun _ _ => 0)
    [.msg 1 true ⟨some [1, 2, 3, 4], none⟩ 0 (.proc "blk"), .msg 1 true ⟨some [1, 2, 3, 4], none⟩ 0 (.proc "blk"),
     .tick, .msg 2 false ⟨some [1, 2, 3, 4], none⟩ 0 (.proc "blk")] := by
  refine ⟨⟨2, by decide, by decide⟩, ⟨2, by decide, by decide⟩, ⟨2, by decide, by decide⟩, trivial⟩

/-! ### excess, malformed envelopes, unknown procedures -/

private theorem peerAddPenalty_ok {g : Gater} (hs : g.started = true) (now : Nat) (ip : IP) (p : Nat)
    (s : Int) :
    peerAddPenalty g now ⟨some ip, some p⟩ s =
      ((addPenalty g now ⟨some ip, some p⟩ s).1,
        .ok (if (match find g.peerScore ip with | some i => i.score + s | none => s) ≥ maxPenaltyScore
             then some p else none)) := by
  have h2 : (addPenalty g now ⟨some ip, some p⟩ s).2 =
      .ok (match find g.peerScore ip with | some i => i.score + s | none => s) := by
    rw [addPenalty_ok hs]
    rfl
  unfold peerAddPenalty
  rcases hh : addPenalty g now ⟨some ip, some p⟩ s with ⟨g', r⟩
  rw [hh] at h2
  simp only at h2
  subst h2
  simp only
  split <;> exact (apply_ite (fun x => (g', PenOut.ok x)) _ _ _).symm

private theorem mem_disconnect (n : Node) (p : Nat) (c : Nat × Addr) :
    c ∈ (disconnect n p).conns → c.1 ≠ p := by
  unfold disconnect
  simp only [List.mem_filter, ne_eq, decide_eq_true_eq]
  exact fun h => h.2

/-- **Excess is penalised.** The message that brings the count of (procedure, peer) in the current
interval above the limit makes the rate limiter add the procedure's penalty to the score of the
sender's IP and resets the counter; when the accumulated score thereby reaches the threshold, the IP
is banned and every connection to that peer is closed. -/
theorem C18_excess_penalised (n : Node) (hmp : n.mpStarted = true) (hs : n.g.started = true)
    (name : String) (cfg : Counter) (hc : findCounter n.counters name = some cfg)
    (remote : Addr) (ip : IP) (hip : remote.ip = some ip) (pid now : Nat) (isReq : Bool)
    (hex : ((count n name pid + 1 : Nat) : Int) > cfg.limit) :
    let n' := receive n now isReq remote pid (.proc name)
    let old : Int := match find n.g.peerScore ip with | some i => i.score | none => 0
    (∃ i, find n'.g.peerScore ip = some i ∧ i.score = old + cfg.penalty) ∧
    count n' name pid = 0 ∧
    (old + cfg.penalty ≥ 100 → isBanned n'.g ip = true ∧ ∀ c ∈ n'.conns, c.1 ≠ pid) := by
  intro n' old
  have hcnt : count n name pid = getCount cfg.counts pid := by simp [count, hc]
  have hfind := find_increase n name pid name
  simp only [if_true, hc, Option.map_some] at hfind
  obtain ⟨rip, rpid⟩ := remote
  simp only at hip
  subst hip
  have hmp' : (increase n name pid).mpStarted = true := hmp
  have hgt : (((getCount cfg.counts pid + 1 : Nat) : Int) > cfg.limit) := by rw [← hcnt]; exact hex
  have hg1 : (increase n name pid).g = n.g := rfl
  -- the penalty
  have hpen := peerAddPenalty_ok hs now ip pid cfg.penalty
  have hn' : n' = receive n now isReq ⟨some ip, rpid⟩ pid (.proc name) := rfl
  unfold receive at hn'
  simp only [hc, Option.isNone_some, Bool.false_eq_true, if_false] at hn'
  unfold checkLimit at hn'
  simp only [hmp', Bool.not_true, Bool.false_eq_true, if_false, hfind, getCount_setCount, if_true,
    hgt, nodeAddPenalty, withPid, hg1, hpen] at hn'
  have hscore : find (addPenalty n.g now ⟨some ip, some pid⟩ cfg.penalty).1.peerScore ip =
      some ⟨old + cfg.penalty, if old + cfg.penalty ≥ maxPenaltyScore then ((now + n.g.expSecs : Nat) : Int)
        else (match find n.g.peerScore ip with | some i => i.expiration | none => -1)⟩ := by
    rw [addPenalty_ok hs]
    simp only [find_put, if_true]
    cases hf : find n.g.peerScore ip with
    | none => simp [old, hf]
    | some i => simp [old, hf]
  have hsame : (match find n.g.peerScore ip with | some i => i.score + cfg.penalty | none => cfg.penalty)
      = old + cfg.penalty := by
    cases hf : find n.g.peerScore ip with
    | none => simp [old, hf]
    | some i => simp [old, hf]
  rw [hsame] at hn'
  by_cases hth : old + cfg.penalty ≥ maxPenaltyScore
  · simp only [hth, if_true, applyOut] at hn'
    have hg' : n'.g = (addPenalty n.g now ⟨some ip, some pid⟩ cfg.penalty).1 := by
      rw [hn']; cases isReq <;> rfl
    have hconns : n'.conns = (n.conns.filter (·.1 ≠ pid)) := by
      rw [hn']; cases isReq <;> rfl
    have hcount : count n' name pid = 0 := by
      rw [hn']
      cases isReq <;>
        simp [count, disconnect, findCounter_updCounter, increase, hc, getCount_setCount]
    refine ⟨⟨_, by rw [hg']; exact hscore, rfl⟩, hcount, ?_⟩
    intro _
    refine ⟨?_, ?_⟩
    · rw [hg']
      simp only [isBanned, hscore, PeerInfo.banned, hth, if_true]
      simp only [bne_iff_ne, ne_eq]
      omega
    · intro c hcm
      rw [hconns] at hcm
      simp only [List.mem_filter, ne_eq, decide_eq_true_eq] at hcm
      exact hcm.2
  · simp only [hth, if_false, applyOut] at hn'
    have hg' : n'.g = (addPenalty n.g now ⟨some ip, some pid⟩ cfg.penalty).1 := by
      rw [hn']; cases isReq <;> rfl
    have hcount : count n' name pid = 0 := by
      rw [hn']
      cases isReq <;>
        simp [count, findCounter_updCounter, increase, hc, getCount_setCount]
    refine ⟨⟨_, by rw [hg']; exact hscore, rfl⟩, hcount, ?_⟩
    intro h100
    exact absurd h100 hth

example : (receive (increase (increase C18exampleNode "blk" 0) "blk" 0) 5 true ⟨some [1, 2, 3, 4], none⟩ 0
    (.proc "blk")).g.peerScore = [([1, 2, 3, 4], ⟨50, -1⟩)] := by decide

private theorem burst_prefix (name : String) (pid : Nat) (evs : List Ev)
    (hev : ∀ ev ∈ evs, ∃ now r a, ev = Ev.msg now r a pid (.proc name))
    (n : Node) (hmp : n.mpStarted = true) (cfg : Counter)
    (hc : findCounter n.counters name = some cfg)
    (hle : ((count n name pid + evs.length : Nat) : Int) ≤ cfg.limit) :
    (runEv n evs).g = n.g ∧ (runEv n evs).mpStarted = true ∧ (runEv n evs).conns = n.conns ∧
    (∃ cfg', findCounter (runEv n evs).counters name = some cfg' ∧ cfg'.limit = cfg.limit ∧
      cfg'.penalty = cfg.penalty) ∧
    count (runEv n evs) name pid = count n name pid + evs.length := by
  induction evs generalizing n cfg with
  | nil => exact ⟨rfl, hmp, rfl, ⟨cfg, hc, rfl, rfl⟩, rfl⟩
  | cons ev r ih =>
    obtain ⟨now, isReq, a, hevq⟩ := hev ev List.mem_cons_self
    subst hevq
    simp only [List.length_cons] at hle
    have hrec := receive_legal n hmp now isReq a pid name cfg hc (by omega)
    have hfind := find_increase n name pid name
    simp only [if_true, hc, Option.map_some] at hfind
    have hcount := count_increase n name pid cfg hc name pid
    simp only [and_self, if_true] at hcount
    have hb : (C18bump (increase n name pid) isReq).mpStarted = true := by cases isReq <;> exact hmp
    have hfb : findCounter (C18bump (increase n name pid) isReq).counters name = some
        { cfg with counts := setCount cfg.counts pid (getCount cfg.counts pid + 1) } := by
      cases isReq <;> exact hfind
    have hcb : count (C18bump (increase n name pid) isReq) name pid = count n name pid + 1 := by
      cases isReq <;> exact hcount
    have := ih (fun ev hm => hev ev (List.mem_cons_of_mem _ hm)) (C18bump (increase n name pid) isReq)
      hb _ hfb (by rw [hcb]; simp only; omega)
    simp only [runEv, List.foldl, applyEv, hrec] at this ⊢
    refine ⟨by rw [this.1]; cases isReq <;> rfl, this.2.1, by rw [this.2.2.1]; cases isReq <;> rfl,
      this.2.2.2.1, ?_⟩
    rw [this.2.2.2.2, hcb]
    simp only [List.length_cons]
    omega

/-- **A burst above the limit is penalised once per `limit + 1` messages.** Starting an interval
with a zero counter, `limit` messages of one (procedure, peer) leave the gater untouched and the
next one adds exactly the procedure's penalty to the sender's IP and resets the counter. -/
theorem C18_excess_penalised_burst (n : Node) (hmp : n.mpStarted = true) (hs : n.g.started = true)
    (name : String) (cfg : Counter) (hc : findCounter n.counters name = some cfg) (pid : Nat) (ip : IP)
    (hz : count n name pid = 0) (hL : 0 ≤ cfg.limit)
    (evs : List Ev) (hev : ∀ ev ∈ evs, ∃ now r a, ev = Ev.msg now r a pid (.proc name))
    (hlen : (evs.length : Int) = cfg.limit)
    (now : Nat) (isReq : Bool) (remote : Addr) (hip : remote.ip = some ip) :
    let n' := runEv n (evs ++ [.msg now isReq remote pid (.proc name)])
    let old : Int := match find n.g.peerScore ip with | some i => i.score | none => 0
    (runEv n evs).g = n.g ∧
    (∃ i, find n'.g.peerScore ip = some i ∧ i.score = old + cfg.penalty) ∧ count n' name pid = 0 := by
  intro n' old
  have hpre := burst_prefix name pid evs hev n hmp cfg hc (by rw [hz]; omega)
  obtain ⟨hg, hmp', _, ⟨cfg', hc', hl', hp'⟩, hcnt⟩ := hpre
  have hn' : n' = receive (runEv n evs) now isReq remote pid (.proc name) := by
    show runEv n (evs ++ _) = _
    simp [runEv, List.foldl_append, applyEv]
  have hex := C18_excess_penalised (runEv n evs) hmp' (by rw [hg]; exact hs) name cfg' hc' remote ip hip
    pid now isReq (by rw [hcnt, hz, hl']; omega)
  simp only [hg, hp'] at hex
  rw [← hn'] at hex
  exact ⟨hg, hex.1, hex.2.1⟩

/-- **Malformed envelopes and unknown procedures are penalised.** An undecodable envelope or one
naming an unregistered procedure, received from a peer whose address has an IP with non-negative
score, bans that IP (all gates refuse it afterwards), closes every connection to the sending peer
and does not reach any handler. -/
theorem C18_bad_message_banned (n : Node) (hs : n.g.started = true) (remote : Addr) (ip : IP)
    (hip : remote.ip = some ip) (pid now : Nat) (isReq : Bool) (k : MsgKind)
    (hk : k = .malformed ∨ ∃ name, k = .proc name ∧ findCounter n.counters name = none)
    (hnonneg : ∀ i, find n.g.peerScore ip = some i → 0 ≤ i.score) (q : Nat) (apid : Option Nat) :
    let n' := receive n now isReq remote pid k
    isBanned n'.g ip = true ∧ (∀ c ∈ n'.conns, c.1 ≠ pid) ∧ n'.handled = n.handled ∧
      inboundAllowed n'.g q ⟨some ip, apid⟩ = false ∧ outboundAllowed n'.g q ⟨some ip, apid⟩ = false := by
  intro n'
  obtain ⟨rip, rpid⟩ := remote
  simp only at hip
  subst hip
  have hn' : n' = (nodeBan n now ⟨some ip, some pid⟩).1 := by
    rcases hk with hk | ⟨name, hk, hnone⟩
    · subst hk; rfl
    · subst hk
      show receive n now isReq ⟨some ip, rpid⟩ pid (.proc name) = _
      unfold receive
      simp [hnone, withPid]
  have hban : nodeBan n now ⟨some ip, some pid⟩ =
      (disconnect { n with g := (addPenalty n.g now ⟨some ip, some pid⟩ maxPenaltyScore).1 } pid, .ok (some pid)) := by
    unfold nodeBan banPeer
    rw [addPenalty_ok hs]
    rfl
  rw [hban] at hn'
  have hg' : n'.g = (addPenalty n.g now ⟨some ip, some pid⟩ maxPenaltyScore).1 := by rw [hn']; rfl
  have hbanned : isBanned n'.g ip = true := by
    rw [hg', addPenalty_ok hs]
    simp only [isBanned, find_put, if_true, PeerInfo.banned]
    cases hf : find n.g.peerScore ip with
    | none => simp [maxPenaltyScore]; omega
    | some i =>
      have := hnonneg i hf
      have h100 : i.score + maxPenaltyScore ≥ maxPenaltyScore := by simp only [maxPenaltyScore]; omega
      simp only [h100, if_true, bne_iff_ne, ne_eq]
      omega
  have hgates := (C18_gates_refuse_banned_or_blacklisted n'.g ip apid q).1 (Or.inl hbanned)
  refine ⟨hbanned, ?_, by rw [hn']; rfl, hgates.2.2.2.2, hgates.2.2.2.1⟩
  intro c hcm
  rw [hn'] at hcm
  exact mem_disconnect _ pid c hcm

example : (receive (connect C18exampleNode true ⟨some [1, 2, 3, 4], none⟩ 3).1 5 true ⟨some [1, 2, 3, 4], none⟩ 3
    .malformed).conns = [] := by decide
