/-
C08 — round trip, stable IDs and (non-)canonicity for NESTED messages of arbitrary depth
(`LiskVerif.Model.Codec`).

Round trip (own encodings)
* `C08_roundtrip_nested`            Decode / DecodeStrict of Encode returns the values, for every struct
                                    of every well-formed (ranked) table and every well-typed value tree
                                    — nested structs, arrays of structs, to any depth
* `C08_roundtrip_nested_nfc`        the same with arbitrary strings: the decoded tree is the NFC form
* `C08_allSchemas_deepWF`           the regenerated table `allSchemas` (95 structs) is well-formed
* `C08_roundtrip_all_schemas`       hence the round trip holds for every generated struct
* `C08_block_roundtrip`, `C08_blockHeader_roundtrip`, `C08_block_typed_iff`
                                    spelled out for blockchain.Block (header + transactions + assets)
                                    and blockchain.BlockHeader (with its AggregateCommit)
* `C08_reencode_stable_nested`, `C08_encode_injective_nested`
                                    re-encoding what was decoded gives the same bytes (stable IDs);
                                    different values never share an encoding
* `C08_nil_pointer_…`, `C08_invalid_utf8_…`, `C08_non_nfc_…`, `C08_uint32_range_not_roundtrip_counterexample`
                                    the excluded value shapes are excluded for a reason

Stable IDs (every accepted input)
* `C08_decoded_values_typed`        whatever Decode / DecodeStrict return is a well-typed value tree
* `C08_decode_reencode_stable`, `C08_decodeStrict_reencode_stable`
                                    … so storing Encode(value) and loading it returns the same value
* `C08_blockHeader_id_stable`, `C08_transaction_id_stable`, `C08_block_strict_reencode_stable`
* `C08_nilFree_coverage`            85 / 90 of the 95 structs qualify (lenient / strict)
* `C08_block_lenient_nil_header_counterexample`
                                    the exception: a leniently decoded block WITHOUT header

Strict decoding and nesting
* `C08_strict_nested_noncanonical_counterexample`, `C08_block_strict_noncanonical_counterexample`,
  `C08_postSingleCommits_strict_noncanonical_counterexample`, `C08_nested_size_unchecked_counterexample`
                                    strict decoding is NOT canonical for structs with nested structs:
                                    the nested decode is the lenient one and the declared nested size is
                                    not enforced (as in pkg/codec/reader.go ReadDecodable/ReadDecodables)
* `C08_rawBlock_strict_canonical`, `C08_blockAsset_strict_canonical`
                                    the flat envelopes `NewBlock` decodes strictly ARE canonical
* `C08_strict_canonical_classification`
                                    every generated struct is canonical-flat, or has a truncating /
                                    packed field, or has a nested struct (the exact exception classes)

Helper lemmas: `LiskVerif/Lemmas/CodecNested.lean`.
-/
import LiskVerif.Lemmas.CodecNested
import LiskVerif.Props.C08_Msg
import LiskVerif.Props.C09_Codec

open LiskVerif LiskVerif.Codec LiskVerif.Gen

/-! ### well-formed tables and well-typed value trees -/

/-- Decidable well-formedness of a schema table with rank function `rank`:
* `C09Ranked t rank`: every struct has rank ≤ 8 and ≤ 40 fields, no field kind is unknown, every
  `.msg n` / `.msgArr n` field names a struct of the table of strictly smaller rank (no recursion);
* for every struct, field numbers strictly increase from 1 and `num * 8 + 2 < 2^64`;
* Encode, Decode and DecodeStrict agree on field numbers and kinds. -/
def C08DeepWF (t : Table) (rank : String → Nat) : Bool := TableWF t rank

/-- One value has the Go type of a field of kind `k`, following the table `t` through nested structs
down to depth `d` (see the unfolding theorems `C08_typedDeepVal_*` below):
* depth 0, or a scalar / bytes / string / `[][]byte` / packed `[]uint` kind: `C08TypedVal`
  (64/32-bit ranges, byte strings < 2^63, strings valid UTF-8 and NFC-normalised);
* `.msg n`: a NON-NIL pointer `.msg true vals` with `vals` typed at depth `d - 1` for struct `n`;
* `.msgArr n`: every element typed at depth `d - 1` for struct `n` (the array may be empty). -/
def C08TypedDeepVal (t : Table) (nfc : NFC) (d : Nat) (k : Kind) (v : Value) : Bool :=
  typedValDeep t nfc d k v

/-- the value list is well-typed for the field list (same length, each value `C08TypedDeepVal`) -/
def C08TypedDeep (t : Table) (nfc : NFC) (d : Nat) (fs : List Field) (vals : List Value) : Bool :=
  typedWith (typedValDeep t nfc d) fs vals

theorem C08_typedDeep_nil (t : Table) (nfc : NFC) (d : Nat) : C08TypedDeep t nfc d [] [] = true := rfl

theorem C08_typedDeep_cons (t : Table) (nfc : NFC) (d : Nat) (f : Field) (fs : List Field) (v : Value)
    (vs : List Value) :
    C08TypedDeep t nfc d (f :: fs) (v :: vs) =
      (C08TypedDeepVal t nfc d f.kind v && C08TypedDeep t nfc d fs vs) := rfl

/-- a present nested struct is typed iff its fields are typed, one level down, for the named struct -/
theorem C08_typedDeepVal_msg (t : Table) (nfc : NFC) (d : Nat) (name : String) (vals : List Value) :
    C08TypedDeepVal t nfc (d + 1) (.msg name) (.msg true vals) =
      (match t.find name with
       | some s => C08TypedDeep t nfc d s.enc vals
       | none => false) := rfl

/-- a nil nested pointer is never well-typed -/
theorem C08_typedDeepVal_nil (t : Table) (nfc : NFC) (d : Nat) (name : String) (vals : List Value) :
    C08TypedDeepVal t nfc d (.msg name) (.msg false vals) = false := by
  cases d <;> rfl

/-- an array of structs is typed iff every element is, one level down -/
theorem C08_typedDeepVal_msgArr (t : Table) (nfc : NFC) (d : Nat) (name : String)
    (l : List (List Value)) :
    C08TypedDeepVal t nfc (d + 1) (.msgArr name) (.msgArr l) =
      (match t.find name with
       | some s => l.all (C08TypedDeep t nfc d s.enc)
       | none => false) := rfl

private theorem C08TypedVal_eq' (nfc : NFC) : C08TypedVal nfc = typedVal nfc := by
  funext k v; cases k <;> cases v <;> rfl

/-- on the kinds of a flat struct the deep typing is `C08TypedVal`, at every depth -/
theorem C08_typedDeepVal_flat (t : Table) (nfc : NFC) (d : Nat) (k : Kind) (v : Value)
    (hk : C08FlatKind k = true) : C08TypedDeepVal t nfc d k v = C08TypedVal nfc k v := by
  rw [C08TypedVal_eq']
  exact typedValDeep_flat t nfc d k v (by cases k <;> first | rfl | simp [C08FlatKind] at hk)

/-! ### the general round trip -/

/-- **Round trip for nested messages of arbitrary depth.** On every well-formed table, for every
struct `s` of the table and every value tree `vals` that is well-typed for `s` (to any depth `d`):
`Decode` and `DecodeStrict` applied to `Encode s vals` return exactly `vals`.

Excluded (and necessarily so, see the counterexamples below): nil nested pointers, strings that are
not valid UTF-8 or not NFC-normalised, integers outside their Go type; and encodings of 2^63 bytes or
more (Go's `int` index arithmetic wraps). Empty arrays, empty byte strings, empty nested structs and
zero scalars are all included. -/
theorem C08_roundtrip_nested (t : Table) (rank : String → Nat) (nfc : NFC)
    (hwf : C08DeepWF t rank = true) (s : Schema) (hs : s ∈ t) (d : Nat) (vals : List Value)
    (hv : C08TypedDeep t nfc d s.enc vals = true)
    (hlen : (encode t nfc s vals).length < 2 ^ 63) :
    decode t nfc s (encode t nfc s vals) = .ok vals ∧
    decodeStrict t nfc s (encode t nfc s vals) = .ok vals :=
  decode_roundtrip_deep t rank nfc hwf s hs d vals hv hlen

/-- **Stable IDs under store / load / re-encode**: what `Decode` returns for the node's own encoding
re-encodes to the same bytes, so any hash of the encoding (block ID, transaction ID) is unchanged. -/
theorem C08_reencode_stable_nested (t : Table) (rank : String → Nat) (nfc : NFC)
    (hwf : C08DeepWF t rank = true) (s : Schema) (hs : s ∈ t) (d : Nat) (vals vals' : List Value)
    (hv : C08TypedDeep t nfc d s.enc vals = true) (hlen : (encode t nfc s vals).length < 2 ^ 63)
    {ID : Type} (hash : Bytes → ID)
    (h : decode t nfc s (encode t nfc s vals) = .ok vals' ∨
      decodeStrict t nfc s (encode t nfc s vals) = .ok vals') :
    encode t nfc s vals' = encode t nfc s vals ∧
    hash (encode t nfc s vals') = hash (encode t nfc s vals) := by
  obtain ⟨h1, h2⟩ := C08_roundtrip_nested t rank nfc hwf s hs d vals hv hlen
  have : vals' = vals := by
    rcases h with h | h
    · rw [h1] at h; injection h with h; exact h.symm
    · rw [h2] at h; injection h with h; exact h.symm
  subst this
  exact ⟨rfl, rfl⟩

/-- **Encode is injective on well-typed value trees**: two different values of a struct never share
an encoding, hence never share an ID. -/
theorem C08_encode_injective_nested (t : Table) (rank : String → Nat) (nfc : NFC)
    (hwf : C08DeepWF t rank = true) (s : Schema) (hs : s ∈ t) (d₁ d₂ : Nat) (v₁ v₂ : List Value)
    (h₁ : C08TypedDeep t nfc d₁ s.enc v₁ = true) (h₂ : C08TypedDeep t nfc d₂ s.enc v₂ = true)
    (hlen : (encode t nfc s v₁).length < 2 ^ 63)
    (he : encode t nfc s v₁ = encode t nfc s v₂) : v₁ = v₂ := by
  have r1 := (C08_roundtrip_nested t rank nfc hwf s hs d₁ v₁ h₁ hlen).1
  have r2 := (C08_roundtrip_nested t rank nfc hwf s hs d₂ v₂ h₂ (he ▸ hlen)).1
  rw [he, r2] at r1
  injection r1 with r1
  exact r1.symm

/-- normalise (`norm.NFC.String`) every string of a value tree, following the table to depth `d` -/
def C08NormDeep (t : Table) (nfc : NFC) (d : Nat) (fs : List Field) (vals : List Value) : List Value :=
  normWith (normValDeep t nfc d) fs vals

/-- on an already well-typed tree there is nothing to normalise at a string field: its value is
already `normalize b = b` (so `C08_roundtrip_nested_nfc` generalises `C08_roundtrip_nested`) -/
theorem C08_normDeep_string (t : Table) (nfc : NFC) (d : Nat) (b : Bytes) :
    normValDeep t nfc d .string (.bytes b) = .bytes (nfc.normalize b) := by
  cases d <;> rfl

/-- **Round trip with strings compared in NFC form.** `WriteString` normalises, so for a value tree
whose strings are arbitrary (not yet normalised) both decoders return the tree with every string
replaced by its NFC form — provided that normalised tree is well-typed (normal forms are valid UTF-8,
normal, and fixed by normalisation) and normalisation is idempotent. -/
theorem C08_roundtrip_nested_nfc (t : Table) (rank : String → Nat) (nfc : NFC)
    (hwf : C08DeepWF t rank = true)
    (hidem : ∀ b, nfc.normalize (nfc.normalize b) = nfc.normalize b) (s : Schema) (hs : s ∈ t)
    (d : Nat) (vals : List Value)
    (hv : C08TypedDeep t nfc d s.enc (C08NormDeep t nfc d s.enc vals) = true)
    (hlen : (encode t nfc s vals).length < 2 ^ 63) :
    decode t nfc s (encode t nfc s vals) = .ok (C08NormDeep t nfc d s.enc vals) ∧
    decodeStrict t nfc s (encode t nfc s vals) = .ok (C08NormDeep t nfc d s.enc vals) :=
  decode_roundtrip_nfc t rank nfc hwf hidem s hs d vals hv hlen

/-! ### coverage: the regenerated table -/

/-- The table regenerated from the `*_codec.go` files is well-formed, with the nesting-depth rank
`C09rank`. Checked by kernel evaluation on every run; a codec file whose Encode / Decode /
DecodeStrict disagree, whose field numbers are not increasing, or which nests recursively breaks it. -/
theorem C08_allSchemas_deepWF : C08DeepWF allSchemas C09rank = true := by
  decide +kernel

/-- there are (at least) 95 generated structs, all covered -/
theorem C08_allSchemas_count : 95 ≤ allSchemas.length := by
  decide +kernel

/-- **Round trip for every generated struct**, any NFC implementation, any nesting depth. -/
theorem C08_roundtrip_all_schemas (nfc : NFC) (s : Schema) (hs : s ∈ allSchemas) (d : Nat)
    (vals : List Value) (hv : C08TypedDeep allSchemas nfc d s.enc vals = true)
    (hlen : (encode allSchemas nfc s vals).length < 2 ^ 63) :
    decode allSchemas nfc s (encode allSchemas nfc s vals) = .ok vals ∧
    decodeStrict allSchemas nfc s (encode allSchemas nfc s vals) = .ok vals :=
  C08_roundtrip_nested allSchemas C09rank nfc C08_allSchemas_deepWF s hs d vals hv hlen

/-! ### blockchain.Block and blockchain.BlockHeader -/

/-- from a `decide`d fact about the table to a usable one -/
private theorem C08find {name : String} {e d st : List Field}
    (h : (allSchemas.find name).map (fun s => (s.enc, s.dec, s.decStrict)) = some (e, d, st)) :
    ∃ s, allSchemas.find name = some s ∧ s.enc = e ∧ s.dec = d ∧ s.decStrict = st := by
  cases hf : allSchemas.find name with
  | none => rw [hf] at h; simp at h
  | some s =>
    rw [hf] at h
    simp only [Option.map_some, Option.some.injEq, Prod.mk.injEq] at h
    exact ⟨s, rfl, h⟩

/-- the field list of `blockchain.BlockHeader`: version, timestamp, height (uint32); previousBlockID,
generatorAddress, transactionRoot, assetRoot, eventRoot, stateRoot (bytes); maxHeightPrevoted,
maxHeightGenerated (uint32); impliesMaxPrevotes (bool); validatorsHash (bytes);
aggregateCommit (*AggregateCommit); signature (bytes) -/
def C08headerFields (st : Bool) : List Field :=
  [⟨1, .uint32, st⟩, ⟨2, .uint32, st⟩, ⟨3, .uint32, st⟩, ⟨4, .bytes, st⟩, ⟨5, .bytes, st⟩,
   ⟨6, .bytes, st⟩, ⟨7, .bytes, st⟩, ⟨8, .bytes, st⟩, ⟨9, .bytes, st⟩, ⟨10, .uint32, st⟩,
   ⟨11, .uint32, st⟩, ⟨12, .bool, st⟩, ⟨13, .bytes, st⟩, ⟨14, .msg "blockchain.AggregateCommit", st⟩,
   ⟨15, .bytes, st⟩]

/-- the field list of `blockchain.Block`: header (*BlockHeader), transactions ([]*Transaction),
assets ([]*BlockAsset) -/
def C08blockFields (st : Bool) : List Field :=
  [⟨1, .msg "blockchain.BlockHeader", st⟩, ⟨2, .msgArr "blockchain.Transaction", false⟩,
   ⟨3, .msgArr "blockchain.BlockAsset", false⟩]

/-- the field list of `blockchain.BlockAsset`: module (string), data (bytes) -/
def C08assetFields (st : Bool) : List Field := [⟨1, .string, st⟩, ⟨2, .bytes, st⟩]

/-- the field list of `blockchain.RawBlock`: header (bytes), transactions, assets ([][]byte) -/
def C08rawBlockFields (st : Bool) : List Field :=
  [⟨1, .bytes, st⟩, ⟨2, .bytesArr, false⟩, ⟨3, .bytesArr, false⟩]

theorem C08_blockHeader_schema :
    (allSchemas.find "blockchain.BlockHeader").map (fun s => (s.enc, s.dec, s.decStrict)) =
      some (C08headerFields false, C08headerFields false, C08headerFields true) := by
  decide +kernel

theorem C08_block_schema :
    (allSchemas.find "blockchain.Block").map (fun s => (s.enc, s.dec, s.decStrict)) =
      some (C08blockFields false, C08blockFields false, C08blockFields true) := by
  decide +kernel

theorem C08_blockAsset_schema :
    (allSchemas.find "blockchain.BlockAsset").map (fun s => (s.enc, s.dec, s.decStrict)) =
      some (C08assetFields false, C08assetFields false, C08assetFields true) := by
  decide +kernel

theorem C08_rawBlock_schema :
    (allSchemas.find "blockchain.RawBlock").map (fun s => (s.enc, s.dec, s.decStrict)) =
      some (C08rawBlockFields false, C08rawBlockFields false, C08rawBlockFields true) := by
  decide +kernel

private theorem C08find_mem {name : String} {s : Schema} (h : allSchemas.find name = some s) :
    s ∈ allSchemas := find_mem h

/-- **Block header round trip**: a header whose 15 fields are well-typed (the AggregateCommit a
non-nil pointer with well-typed height / aggregationBits / certificateSignature) is returned
unchanged by `Decode` and `DecodeStrict` of its `Encode`. -/
theorem C08_blockHeader_roundtrip (nfc : NFC) (s : Schema)
    (hs : allSchemas.find "blockchain.BlockHeader" = some s) (header : List Value)
    (hv : C08TypedDeep allSchemas nfc 1 (C08headerFields false) header = true)
    (hlen : (encode allSchemas nfc s header).length < 2 ^ 63) :
    decode allSchemas nfc s (encode allSchemas nfc s header) = .ok header ∧
    decodeStrict allSchemas nfc s (encode allSchemas nfc s header) = .ok header := by
  obtain ⟨s', hs', he, _, _⟩ := C08find C08_blockHeader_schema
  rw [hs] at hs'
  injection hs' with hs'
  subst hs'
  exact C08_roundtrip_all_schemas nfc s (C08find_mem hs) 1 header (by rw [he]; exact hv) hlen

private theorem C08Typed_eq' (nfc : NFC) : ∀ fs vs, C08Typed nfc fs vs = typedVals nfc fs vs := by
  intro fs
  induction fs with
  | nil => intro vs; cases vs <;> rfl
  | cons f fs ih =>
    intro vs
    cases vs with
    | nil => rfl
    | cons v vs => simp only [C08Typed, typedVals, ih, C08TypedVal_eq']

/-- for a flat field list the deep typing is the flat typing `C08Typed` -/
theorem C08_typedDeep_flat (t : Table) (nfc : NFC) (d : Nat) :
    ∀ (fs : List Field) (vs : List Value), fs.all (fun f => C08FlatKind f.kind) = true →
    C08TypedDeep t nfc d fs vs = C08Typed nfc fs vs := by
  intro fs
  induction fs with
  | nil => intro vs _; cases vs <;> rfl
  | cons f fs ih =>
    intro vs hf
    simp only [List.all_cons, Bool.and_eq_true] at hf
    cases vs with
    | nil => rfl
    | cons v vs =>
      have := ih vs hf.2
      simp only [C08TypedDeep] at this
      simp only [C08TypedDeep, typedWith, C08Typed, this]
      congr 1
      exact C08_typedDeepVal_flat t nfc d f.kind v hf.1

/-- what well-typed means for a block: the header is well-typed (depth 1, for its AggregateCommit),
every transaction is well-typed for the (flat) transaction fields, every asset for the asset fields -/
theorem C08_block_typed_iff (nfc : NFC) (st : Bool) (header : List Value)
    (txs assets : List (List Value)) :
    C08TypedDeep allSchemas nfc 2 (C08blockFields st) [.msg true header, .msgArr txs, .msgArr assets]
      = true ↔
    (C08TypedDeep allSchemas nfc 1 (C08headerFields false) header = true ∧
     (∀ tx ∈ txs, C08Typed nfc (C08txFields false) tx = true) ∧
     (∀ a ∈ assets, C08Typed nfc (C08assetFields false) a = true)) := by
  obtain ⟨sh, hfh, heh, _, _⟩ := C08find C08_blockHeader_schema
  obtain ⟨stx, hft, het, _, _⟩ := C08find C08_transaction_schema
  obtain ⟨sa, hfa, hea, _, _⟩ := C08find C08_blockAsset_schema
  have e1 : ∀ tx, typedWith (typedValDeep allSchemas nfc 1) (C08txFields false) tx =
      C08Typed nfc (C08txFields false) tx :=
    fun tx => C08_typedDeep_flat allSchemas nfc 1 _ tx (by decide)
  have e2 : ∀ a, typedWith (typedValDeep allSchemas nfc 1) (C08assetFields false) a =
      C08Typed nfc (C08assetFields false) a :=
    fun a => C08_typedDeep_flat allSchemas nfc 1 _ a (by decide)
  simp only [C08TypedDeep, C08blockFields, typedWith, typedValDeep, hfh, hft, hfa, heh, het, hea,
    Bool.and_eq_true, Bool.and_true, List.all_eq_true, e1, e2]

/-- **Block round trip**: a block — header (with AggregateCommit), any number of transactions, any
number of assets, all well-typed — is returned unchanged by `Decode` and `DecodeStrict` of its
`Encode` (three levels of nesting: Block ⊃ BlockHeader ⊃ AggregateCommit). -/
theorem C08_block_roundtrip (nfc : NFC) (s : Schema) (hs : allSchemas.find "blockchain.Block" = some s)
    (header : List Value) (txs assets : List (List Value))
    (hh : C08TypedDeep allSchemas nfc 1 (C08headerFields false) header = true)
    (ht : ∀ tx ∈ txs, C08Typed nfc (C08txFields false) tx = true)
    (ha : ∀ a ∈ assets, C08Typed nfc (C08assetFields false) a = true)
    (hlen : (encode allSchemas nfc s [.msg true header, .msgArr txs, .msgArr assets]).length < 2 ^ 63) :
    let vals : List Value := [.msg true header, .msgArr txs, .msgArr assets]
    decode allSchemas nfc s (encode allSchemas nfc s vals) = .ok vals ∧
    decodeStrict allSchemas nfc s (encode allSchemas nfc s vals) = .ok vals := by
  intro vals
  obtain ⟨s', hs', he, _, _⟩ := C08find C08_block_schema
  rw [hs] at hs'
  injection hs' with hs'
  subst hs'
  refine C08_roundtrip_all_schemas nfc s (C08find_mem hs) 2 vals ?_ hlen
  rw [he]
  exact (C08_block_typed_iff nfc false header txs assets).mpr ⟨hh, ht, ha⟩

/-! ### non-vacuity -/

/-- a concrete header: version 2, timestamp 100, height 7, …, an AggregateCommit (height 3, empty
bits, a 2-byte signature), a 2-byte block signature -/
def C08exampleHeader : List Value :=
  [.uint 2, .uint 100, .uint 7, .bytes [1], .bytes [2], .bytes [], .bytes [], .bytes [], .bytes [],
   .uint 5, .uint 6, .bool true, .bytes [9], .msg true [.uint 3, .bytes [], .bytes [1, 2]],
   .bytes [7, 7]]

/-- a concrete transaction (module "a", command "b", nonce 7, fee 99, two signatures) -/
def C08exampleTx2 : List Value :=
  [.bytes [0x61], .bytes [0x62], .uint 7, .uint 99, .bytes [1, 2, 3], .bytes [0xff, 0x00],
   .bytesArr [[9, 9], []]]

/-- a concrete block: that header, two transactions, one asset -/
def C08exampleBlock : List Value :=
  [.msg true C08exampleHeader, .msgArr [C08exampleTx2, C08exampleTx],
   .msgArr [[.bytes [0x41], .bytes [1]]]]

/-- the hypotheses of `C08_block_roundtrip` hold for `C08exampleBlock` (typing by kernel evaluation;
the length bound is immediate), so the block round-trips -/
example (s : Schema) (hs : allSchemas.find "blockchain.Block" = some s)
    (hlen : (encode allSchemas asciiNFC s C08exampleBlock).length < 2 ^ 63) :
    decode allSchemas asciiNFC s (encode allSchemas asciiNFC s C08exampleBlock) = .ok C08exampleBlock ∧
    decodeStrict allSchemas asciiNFC s (encode allSchemas asciiNFC s C08exampleBlock) =
      .ok C08exampleBlock :=
  C08_block_roundtrip asciiNFC s hs C08exampleHeader [C08exampleTx2, C08exampleTx]
    [[.bytes [0x41], .bytes [1]]] (by decide +kernel) (by decide) (by decide) hlen

/-- the same block with the small transaction only, fully evaluated: its encoding is these 80 bytes
(so the length bound holds) and both decoders return it -/
example (s : Schema) (hs : allSchemas.find "blockchain.Block" = some s) :
    let vals : List Value :=
      [.msg true C08exampleHeader, .msgArr [C08exampleTx2], .msgArr [[.bytes [0x41], .bytes [1]]]]
    encode allSchemas asciiNFC s vals =
      [10, 43, 8, 2, 16, 100, 24, 7, 34, 1, 1, 42, 1, 2, 50, 0, 58, 0, 66, 0, 74, 0, 80, 5, 88, 6, 96, 1,
       106, 1, 9, 114, 8, 8, 3, 18, 0, 26, 2, 1, 2, 122, 2, 7, 7, 18, 25, 10, 1, 97, 18, 1, 98, 24, 7, 32,
       99, 42, 3, 1, 2, 3, 50, 2, 255, 0, 58, 2, 9, 9, 58, 0, 26, 6, 10, 1, 65, 18, 1, 1] ∧
    decode allSchemas asciiNFC s (encode allSchemas asciiNFC s vals) = .ok vals ∧
    decodeStrict allSchemas asciiNFC s (encode allSchemas asciiNFC s vals) = .ok vals := by
  intro vals
  obtain ⟨s', hs', he, _, _⟩ := C08find C08_block_schema
  rw [hs] at hs'; injection hs' with hs'; subst hs'
  obtain ⟨sh, hfh, heh, _, _⟩ := C08find C08_blockHeader_schema
  obtain ⟨sc, hfc, hec, _, _⟩ := C08find C08_aggregateCommit_schema
  obtain ⟨stx, hft, het, _, _⟩ := C08find C08_transaction_schema
  obtain ⟨sa, hfa, hea, _, _⟩ := C08find C08_blockAsset_schema
  have henc : encode allSchemas asciiNFC s vals =
      [10, 43, 8, 2, 16, 100, 24, 7, 34, 1, 1, 42, 1, 2, 50, 0, 58, 0, 66, 0, 74, 0, 80, 5, 88, 6, 96, 1,
       106, 1, 9, 114, 8, 8, 3, 18, 0, 26, 2, 1, 2, 122, 2, 7, 7, 18, 25, 10, 1, 97, 18, 1, 98, 24, 7, 32,
       99, 42, 3, 1, 2, 3, 50, 2, 255, 0, 58, 2, 9, 9, 58, 0, 26, 6, 10, 1, 65, 18, 1, 1] := by
    simp [vals, encode, he, heh, hec, het, hea, hfh, hfc, hft, hfa, C08blockFields, C08headerFields,
      C08acFields, C08txFields, C08assetFields, C08exampleHeader, C08exampleTx2, encodeFields, writeKey,
      writeBytes, putUvarint_lt, asciiNFC]
  refine ⟨henc, ?_⟩
  exact C08_block_roundtrip asciiNFC s hs C08exampleHeader [C08exampleTx2]
    [[.bytes [0x41], .bytes [1]]] (by decide +kernel) (by decide) (by decide)
    (by rw [show encode allSchemas asciiNFC s [.msg true C08exampleHeader, .msgArr [C08exampleTx2],
      .msgArr [[.bytes [0x41], .bytes [1]]]] = _ from henc]; decide)

/-- a synthetic table with arrays of structs inside structs inside arrays (A ⊃ B ⊃ C, ranks 2, 1, 0) -/
def C08exTable : Table :=
  [ { name := "C", enc := [⟨1, .uint, false⟩, ⟨2, .uints, false⟩],
      dec := [⟨1, .uint, false⟩, ⟨2, .uints, false⟩],
      decStrict := [⟨1, .uint, true⟩, ⟨2, .uints, false⟩] },
    { name := "B", enc := [⟨1, .msgArr "C", false⟩, ⟨2, .string, false⟩],
      dec := [⟨1, .msgArr "C", false⟩, ⟨2, .string, false⟩],
      decStrict := [⟨1, .msgArr "C", false⟩, ⟨2, .string, true⟩] },
    { name := "A", enc := [⟨1, .msg "B", false⟩, ⟨3, .bytesArr, false⟩, ⟨4, .msgArr "B", false⟩],
      dec := [⟨1, .msg "B", false⟩, ⟨3, .bytesArr, false⟩, ⟨4, .msgArr "B", false⟩],
      decStrict := [⟨1, .msg "B", true⟩, ⟨3, .bytesArr, false⟩, ⟨4, .msgArr "B", false⟩] } ]

def C08exRank (n : String) : Nat := if n = "A" then 2 else if n = "B" then 1 else 0

def C08exSchemaA : Schema := (C08exTable.find "A").getD ⟨"", [], [], []⟩

/-- a value of `A` using every nested shape: a struct holding an array of structs (one with a packed
array, one all-default), an empty array of structs, an empty string, an empty `[]byte` element -/
def C08exVals : List Value :=
  [.msg true [.msgArr [[.uint 1, .uints [1, 30]], [.uint 0, .uints []]], .bytes [0x41]],
   .bytesArr [[], [1]],
   .msgArr [[.msgArr [], .bytes []], [.msgArr [[.uint 5, .uints [7]]], .bytes [0x42]]]]

/-- the hypotheses of `C08_roundtrip_nested` are satisfiable at depth 2 (table well-formed, value
well-typed, encoding of 38 bytes), and so the value round-trips through both decoders -/
example :
    C08DeepWF C08exTable C08exRank = true ∧ C08exSchemaA ∈ C08exTable ∧
    C08TypedDeep C08exTable asciiNFC 2 C08exSchemaA.enc C08exVals = true ∧
    encode C08exTable asciiNFC C08exSchemaA C08exVals =
      [10, 15, 10, 6, 8, 1, 18, 2, 1, 30, 10, 2, 8, 0, 18, 1, 65, 26, 0, 26, 1, 1, 34, 2, 18, 0, 34, 10,
       10, 5, 8, 5, 18, 1, 7, 18, 1, 66] ∧
    decode C08exTable asciiNFC C08exSchemaA (encode C08exTable asciiNFC C08exSchemaA C08exVals) =
      .ok C08exVals ∧
    decodeStrict C08exTable asciiNFC C08exSchemaA (encode C08exTable asciiNFC C08exSchemaA C08exVals) =
      .ok C08exVals := by
  have h1 : C08DeepWF C08exTable C08exRank = true := by decide
  have h2 : C08exSchemaA ∈ C08exTable := by simp [C08exSchemaA, C08exTable, Table.find]
  have h3 : C08TypedDeep C08exTable asciiNFC 2 C08exSchemaA.enc C08exVals = true := by
    simp [C08TypedDeep, C08exSchemaA, C08exTable, Table.find, C08exVals, typedWith, typedValDeep,
      typedVal, encPacked, putUvarint_lt, asciiNFC, utf8Valid]
  have h4 : encode C08exTable asciiNFC C08exSchemaA C08exVals =
      [10, 15, 10, 6, 8, 1, 18, 2, 1, 30, 10, 2, 8, 0, 18, 1, 65, 26, 0, 26, 1, 1, 34, 2, 18, 0, 34, 10,
       10, 5, 8, 5, 18, 1, 7, 18, 1, 66] := by
    simp [encode, C08exSchemaA, C08exTable, Table.find, C08exVals, encodeFields, writeKey, writeBytes,
      putUvarint_lt, asciiNFC]
  exact ⟨h1, h2, h3, h4,
    C08_roundtrip_nested C08exTable C08exRank asciiNFC h1 C08exSchemaA h2 2 C08exVals h3
      (by rw [h4]; decide)⟩

/-! ### the excluded value shapes are necessarily excluded -/

/-- the field list of `labi.VerifyTransactionRequest`: contextID (bytes), transaction (*Transaction) -/
def C08vtrFields (st : Bool) : List Field := [⟨1, .bytes, st⟩, ⟨2, .msg "blockchain.Transaction", st⟩]

theorem C08_verifyTransactionRequest_schema :
    (allSchemas.find "labi.VerifyTransactionRequest").map (fun s => (s.enc, s.dec, s.decStrict)) =
      some (C08vtrFields false, C08vtrFields false, C08vtrFields true) := by
  decide +kernel

/-- the all-default transaction that `ReadDecodable` creates for an absent field -/
def C08zeroTx : List Value :=
  [.bytes [], .bytes [], .uint 0, .uint 0, .bytes [], .bytes [], .bytesArr []]

/-- **A nil nested pointer does not round-trip.** `Encode` omits a nil `*Transaction`; the lenient
`Decode` then returns a NON-nil all-default transaction (absent and empty are identified, but the value
is not the one encoded), and `DecodeStrict` rejects the bytes altogether. -/
theorem C08_nil_pointer_not_roundtrip_counterexample (s : Schema)
    (hs : allSchemas.find "labi.VerifyTransactionRequest" = some s) :
    let vals : List Value := [.bytes [1], .msg false []]
    encode allSchemas asciiNFC s vals = [0x0a, 1, 1] ∧
    decode allSchemas asciiNFC s (encode allSchemas asciiNFC s vals) =
      .ok [.bytes [1], .msg true C08zeroTx] ∧
    decode allSchemas asciiNFC s (encode allSchemas asciiNFC s vals) ≠ .ok vals ∧
    decodeStrict allSchemas asciiNFC s (encode allSchemas asciiNFC s vals) =
      .error .fieldNumberNotFound := by
  intro vals
  obtain ⟨s', hs', he, hd, hst⟩ := C08find C08_verifyTransactionRequest_schema
  rw [hs] at hs'; injection hs' with hs'; subst hs'
  have henc : encode allSchemas asciiNFC s vals = [0x0a, 1, 1] := by
    simp [vals, encode, he, C08vtrFields, encodeFields_cons, encField, encodeFields_nil_left, writeKey,
      writeBytes, putUvarint_lt]
  have hdec : decode allSchemas asciiNFC s [0x0a, 1, 1] = .ok [.bytes [1], .msg true C08zeroTx] := by
    rw [decode_fields _ _ _ _ _ hd]; exact okEqb_sound (by decide +kernel)
  refine ⟨henc, by rw [henc]; exact hdec, ?_, ?_⟩
  · rw [henc, hdec]
    intro h
    injection h with h
    simp [vals] at h
  · rw [henc]; rw [decodeStrict_fields _ _ _ _ _ hst]; exact errEqb_sound (by decide +kernel)

/-- **A string that is not valid UTF-8 does not round-trip**: the writer emits it, both readers
reject it (`ErrInvalidData` for invalid UTF-8). -/
theorem C08_invalid_utf8_not_roundtrip_counterexample (s : Schema)
    (hs : allSchemas.find "blockchain.BlockAsset" = some s) :
    let vals : List Value := [.bytes [0xff], .bytes []]
    encode allSchemas asciiNFC s vals = [0x0a, 1, 0xff, 0x12, 0] ∧
    decode allSchemas asciiNFC s (encode allSchemas asciiNFC s vals) = .error .utf8 ∧
    decodeStrict allSchemas asciiNFC s (encode allSchemas asciiNFC s vals) = .error .utf8 := by
  intro vals
  obtain ⟨s', hs', he, hd, hst⟩ := C08find C08_blockAsset_schema
  rw [hs] at hs'; injection hs' with hs'; subst hs'
  have henc : encode allSchemas asciiNFC s vals = [0x0a, 1, 0xff, 0x12, 0] := by
    simp [vals, encode, he, C08assetFields, encodeFields, writeKey, writeBytes, putUvarint_lt, asciiNFC]
  refine ⟨henc, ?_, ?_⟩
  · rw [henc]; rw [decode_fields _ _ _ _ _ hd]; exact errEqb_sound (by decide +kernel)
  · rw [henc]; rw [decodeStrict_fields _ _ _ _ _ hst]; exact errEqb_sound (by decide +kernel)

/-- a toy normal form: the one-byte string "A" is not normal, its normal form is "B" -/
def C08toyNFC : NFC :=
  { normal := fun b => b != [0x41], normalize := fun b => if b = [0x41] then [0x42] else b }

/-- **A string that is not NFC-normalised does not round-trip byte for byte**: `WriteString`
normalises, so the decoded string is the normal form of the original ("strings compared in NFC form"). -/
theorem C08_non_nfc_not_roundtrip_counterexample (s : Schema)
    (hs : allSchemas.find "blockchain.BlockAsset" = some s) :
    let vals : List Value := [.bytes [0x41], .bytes []]
    encode allSchemas C08toyNFC s vals = [0x0a, 1, 0x42, 0x12, 0] ∧
    decode allSchemas C08toyNFC s (encode allSchemas C08toyNFC s vals) =
      .ok [.bytes (C08toyNFC.normalize [0x41]), .bytes []] ∧
    decode allSchemas C08toyNFC s (encode allSchemas C08toyNFC s vals) ≠ .ok vals := by
  intro vals
  obtain ⟨s', hs', he, hd, hst⟩ := C08find C08_blockAsset_schema
  rw [hs] at hs'; injection hs' with hs'; subst hs'
  have henc : encode allSchemas C08toyNFC s vals = [0x0a, 1, 0x42, 0x12, 0] := by
    simp [vals, encode, he, C08assetFields, encodeFields, writeKey, writeBytes, putUvarint_lt, C08toyNFC]
  have hdec : decode allSchemas C08toyNFC s [0x0a, 1, 0x42, 0x12, 0] =
      .ok [.bytes (C08toyNFC.normalize [0x41]), .bytes []] := by
    rw [decode_fields _ _ _ _ _ hd]; exact okEqb_sound (by decide +kernel)
  refine ⟨henc, by rw [henc]; exact hdec, ?_⟩
  rw [henc, hdec]
  intro h
  injection h with h
  simp [vals, C08toyNFC] at h

/-- … and that is all that happens: by `C08_roundtrip_nested_nfc` the decoded asset is the NFC form of
the encoded one (non-vacuity of that theorem, with the toy normal form) -/
example (s : Schema) (hs : allSchemas.find "blockchain.BlockAsset" = some s) :
    decodeStrict allSchemas C08toyNFC s (encode allSchemas C08toyNFC s [.bytes [0x41], .bytes [5]]) =
      .ok [.bytes [0x42], .bytes [5]] := by
  obtain ⟨s', hs', he, _, _⟩ := C08find C08_blockAsset_schema
  rw [hs] at hs'; injection hs' with hs'; subst hs'
  have hidem : ∀ b, C08toyNFC.normalize (C08toyNFC.normalize b) = C08toyNFC.normalize b := by
    intro b
    by_cases h : b = [0x41] <;> simp [C08toyNFC, h]
  have henc : encode allSchemas C08toyNFC s [.bytes [0x41], .bytes [5]] = [0x0a, 1, 0x42, 0x12, 1, 5] := by
    simp [encode, he, C08assetFields, encodeFields, writeKey, writeBytes, putUvarint_lt, C08toyNFC]
  have := (C08_roundtrip_nested_nfc allSchemas C09rank C08toyNFC C08_allSchemas_deepWF hidem s
    (C08find_mem hs) 0 [.bytes [0x41], .bytes [5]] (by rw [he]; decide) (by rw [henc]; decide)).2
  rw [he] at this
  exact this

/-- **An integer outside its Go type does not round-trip**: 2^32 in a `uint32` field is written as a
5-byte varint and read back as 0 (`uint32(val)` truncates). -/
theorem C08_uint32_range_not_roundtrip_counterexample (s : Schema)
    (hs : allSchemas.find "blockchain.AggregateCommit" = some s) :
    let vals : List Value := [.uint (2 ^ 32), .bytes [], .bytes []]
    encode allSchemas asciiNFC s vals = [0x08, 0x80, 0x80, 0x80, 0x80, 0x10, 0x12, 0x00, 0x1a, 0x00] ∧
    decode allSchemas asciiNFC s (encode allSchemas asciiNFC s vals) =
      .ok [.uint 0, .bytes [], .bytes []] := by
  intro vals
  obtain ⟨s', hs', he, hd, hst⟩ := C08find C08_aggregateCommit_schema
  rw [hs] at hs'; injection hs' with hs'; subst hs'
  have henc : encode allSchemas asciiNFC s vals =
      [0x08, 0x80, 0x80, 0x80, 0x80, 0x10, 0x12, 0x00, 0x1a, 0x00] := by
    simp [vals, encode, he, C08acFields, encodeFields, writeKey, writeBytes, putUvarint_lt,
      putUvarint_ge]
  refine ⟨henc, ?_⟩
  rw [henc]; rw [decode_fields _ _ _ _ _ hd]; exact okEqb_sound (by decide +kernel)

/-! ### strict decoding of structs with nested structs is NOT canonical

`ReadDecodable` / `ReadDecodables` (pkg/codec/reader.go) decode a nested struct with the LENIENT
`DecodeFromReader` even when called from `DecodeStrictFromReader`, and afterwards continue at the
index where the nested decode stopped (`r.index = decodableReader.index`) without comparing it with
the declared size. So for a struct with a nested struct, `DecodeStrict` accepts byte strings that
`Encode` never produces: nested fields may be missing, and bytes inside the declared nested size may
be left unread by the nested struct and then be read as fields of the parent. -/

/-- two different accepted byte strings with the same decoded value refute canonicity -/
theorem C08_two_accepted_not_canonical (t : Table) (nfc : NFC) (s : Schema) (b₁ b₂ : Bytes)
    (vals : List Value) (h₁ : decodeStrict t nfc s b₁ = .ok vals)
    (h₂ : decodeStrict t nfc s b₂ = .ok vals) (hne : b₁ ≠ b₂) :
    ∃ b v, decodeStrict t nfc s b = .ok v ∧ encode t nfc s v ≠ b := by
  by_cases h : encode t nfc s vals = b₁
  · exact ⟨b₂, vals, h₂, by rw [h]; exact hne⟩
  · exact ⟨b₁, vals, h₁, h⟩

/-- **Nested structs break canonicity even when every reachable field has a canonical kind.**
`labi.VerifyTransactionRequest` = (contextID: bytes, transaction: *Transaction), and every field of
Transaction is of a kind for which flat strict decoding is canonical. Still `DecodeStrict` accepts
`0a 00 12 00` — an EMPTY transaction body, all of whose fields are missing — and returns the
all-default transaction, whose encoding is 16 bytes long. -/
theorem C08_strict_nested_noncanonical_counterexample (s : Schema)
    (hs : allSchemas.find "labi.VerifyTransactionRequest" = some s) :
    let b : Bytes := [0x0a, 0x00, 0x12, 0x00]
    let vals : List Value := [.bytes [], .msg true C08zeroTx]
    decodeStrict allSchemas asciiNFC s b = .ok vals ∧
    encode allSchemas asciiNFC s vals = [10, 0, 18, 12, 10, 0, 18, 0, 24, 0, 32, 0, 42, 0, 50, 0] ∧
    encode allSchemas asciiNFC s vals ≠ b ∧
    decodeStrict allSchemas asciiNFC s (encode allSchemas asciiNFC s vals) = .ok vals := by
  intro b vals
  obtain ⟨s', hs', he, hd, hst⟩ := C08find C08_verifyTransactionRequest_schema
  rw [hs] at hs'; injection hs' with hs'; subst hs'
  obtain ⟨stx, hft, het, _, _⟩ := C08find C08_transaction_schema
  have henc : encode allSchemas asciiNFC s vals =
      [10, 0, 18, 12, 10, 0, 18, 0, 24, 0, 32, 0, 42, 0, 50, 0] := by
    simp [vals, encode, he, het, hft, C08vtrFields, C08txFields, C08zeroTx, encodeFields, writeKey,
      writeBytes, putUvarint_lt, asciiNFC]
  refine ⟨?_, henc, ?_, ?_⟩
  · rw [decodeStrict_fields _ _ _ _ _ hst]; exact okEqb_sound (by decide +kernel)
  · rw [henc]; decide
  · rw [henc]; rw [decodeStrict_fields _ _ _ _ _ hst]; exact okEqb_sound (by decide +kernel)

/-- the all-default block header (with an all-default, non-nil AggregateCommit) -/
def C08zeroHeader : List Value :=
  [.uint 0, .uint 0, .uint 0, .bytes [], .bytes [], .bytes [], .bytes [], .bytes [], .bytes [],
   .uint 0, .uint 0, .bool false, .bytes [], .msg true [.uint 0, .bytes [], .bytes []], .bytes []]

/-- **`Block.DecodeStrict` is not canonical**: it accepts the two bytes `0a 00` (a header of declared
size 0, every header field missing) and returns a block whose encoding has 38 bytes. (`NewBlock` does
not use it: it decodes the flat `RawBlock` strictly, see `C08_rawBlock_strict_canonical`.) -/
theorem C08_block_strict_noncanonical_counterexample (s : Schema)
    (hs : allSchemas.find "blockchain.Block" = some s) :
    let b : Bytes := [0x0a, 0x00]
    let vals : List Value := [.msg true C08zeroHeader, .msgArr [], .msgArr []]
    decodeStrict allSchemas asciiNFC s b = .ok vals ∧
    encode allSchemas asciiNFC s vals =
      [10, 36, 8, 0, 16, 0, 24, 0, 34, 0, 42, 0, 50, 0, 58, 0, 66, 0, 74, 0, 80, 0, 88, 0, 96, 0, 106, 0,
       114, 6, 8, 0, 18, 0, 26, 0, 122, 0] ∧
    encode allSchemas asciiNFC s vals ≠ b ∧
    decodeStrict allSchemas asciiNFC s (encode allSchemas asciiNFC s vals) = .ok vals := by
  intro b vals
  obtain ⟨s', hs', he, hd, hst⟩ := C08find C08_block_schema
  rw [hs] at hs'; injection hs' with hs'; subst hs'
  obtain ⟨sh, hfh, heh, _, _⟩ := C08find C08_blockHeader_schema
  obtain ⟨sc, hfc, hec, _, _⟩ := C08find C08_aggregateCommit_schema
  obtain ⟨stx, hft, het, _, _⟩ := C08find C08_transaction_schema
  obtain ⟨sa, hfa, hea, _, _⟩ := C08find C08_blockAsset_schema
  have henc : encode allSchemas asciiNFC s vals =
      [10, 36, 8, 0, 16, 0, 24, 0, 34, 0, 42, 0, 50, 0, 58, 0, 66, 0, 74, 0, 80, 0, 88, 0, 96, 0, 106, 0,
       114, 6, 8, 0, 18, 0, 26, 0, 122, 0] := by
    simp [vals, encode, he, heh, hec, het, hea, hfh, hfc, hft, hfa, C08blockFields, C08headerFields,
      C08acFields, C08zeroHeader, encodeFields, writeKey, writeBytes, putUvarint_lt]
  refine ⟨?_, henc, ?_, ?_⟩
  · rw [decodeStrict_fields _ _ _ _ _ hst]; exact okEqb_sound (by decide +kernel)
  · rw [henc]; decide
  · rw [henc]; rw [decodeStrict_fields _ _ _ _ _ hst]; exact okEqb_sound (by decide +kernel)

/-- the field lists of `consensus.EventPostSingleCommits` (singleCommits: []*SingleCommit) and of
`certificate.SingleCommit` (blockID: bytes, height: uint32, validatorAddress, certificateSignature:
bytes) -/
def C08postCommitsFields : List Field := [⟨1, .msgArr "certificate.SingleCommit", false⟩]
def C08singleCommitFields (st : Bool) : List Field :=
  [⟨1, .bytes, st⟩, ⟨2, .uint32, st⟩, ⟨3, .bytes, st⟩, ⟨4, .bytes, st⟩]

theorem C08_postSingleCommits_schema :
    (allSchemas.find "consensus.EventPostSingleCommits").map (fun s => (s.enc, s.dec, s.decStrict)) =
      some (C08postCommitsFields, C08postCommitsFields, C08postCommitsFields) := by
  decide +kernel

theorem C08_singleCommit_schema :
    (allSchemas.find "certificate.SingleCommit").map (fun s => (s.enc, s.dec, s.decStrict)) =
      some (C08singleCommitFields false, C08singleCommitFields false, C08singleCommitFields true) := by
  decide +kernel

/-- **A network-facing instance**: `singleCommitValidator` (pkg/consensus/certificate.go) applies
`EventPostSingleCommits.DecodeStrict` to gossip data. It accepts `0a 00` — one single commit with
every field missing — although `SingleCommit.DecodeStrict` itself would reject the empty string. -/
theorem C08_postSingleCommits_strict_noncanonical_counterexample (s sc : Schema)
    (hs : allSchemas.find "consensus.EventPostSingleCommits" = some s)
    (hsc : allSchemas.find "certificate.SingleCommit" = some sc) :
    let b : Bytes := [0x0a, 0x00]
    let vals : List Value := [.msgArr [[.bytes [], .uint 0, .bytes [], .bytes []]]]
    decodeStrict allSchemas asciiNFC s b = .ok vals ∧
    encode allSchemas asciiNFC s vals = [10, 8, 10, 0, 16, 0, 26, 0, 34, 0] ∧
    encode allSchemas asciiNFC s vals ≠ b ∧
    decodeStrict allSchemas asciiNFC s (encode allSchemas asciiNFC s vals) = .ok vals ∧
    decodeStrict allSchemas asciiNFC sc [] = .error .fieldNumberNotFound := by
  intro b vals
  obtain ⟨s', hs', he, hd, hst⟩ := C08find C08_postSingleCommits_schema
  rw [hs] at hs'; injection hs' with hs'; subst hs'
  obtain ⟨sc', hfc, hec, _, hstc⟩ := C08find C08_singleCommit_schema
  have henc : encode allSchemas asciiNFC s vals = [10, 8, 10, 0, 16, 0, 26, 0, 34, 0] := by
    simp [vals, encode, he, hec, hfc, C08postCommitsFields, C08singleCommitFields, encodeFields,
      writeKey, writeBytes, putUvarint_lt]
  rw [hsc] at hfc; injection hfc with hfc; subst hfc
  refine ⟨?_, henc, ?_, ?_, ?_⟩
  · rw [decodeStrict_fields _ _ _ _ _ hst]; exact okEqb_sound (by decide +kernel)
  · rw [henc]; decide
  · rw [henc]; rw [decodeStrict_fields _ _ _ _ _ hst]; exact okEqb_sound (by decide +kernel)
  · rw [decodeStrict_fields _ _ _ _ _ hstc]; exact errEqb_sound (by decide +kernel)

/-- the field lists of `crypto.EncryptedMessage` (version: string; ciphertext, mac: bytes; kdf: string;
kdfparams: *KDFParams; cipher: string; cipherparams: *CipherParams), `crypto.KDFParams` (parallelism,
iterations, memorySize: uint32; salt: bytes) and `crypto.CipherParams` (iv, tag: bytes) -/
def C08encMsgFields (st : Bool) : List Field :=
  [⟨1, .string, st⟩, ⟨2, .bytes, st⟩, ⟨3, .bytes, st⟩, ⟨4, .string, st⟩,
   ⟨5, .msg "crypto.KDFParams", st⟩, ⟨6, .string, st⟩, ⟨7, .msg "crypto.CipherParams", st⟩]
def C08kdfFields (st : Bool) : List Field :=
  [⟨1, .uint32, st⟩, ⟨2, .uint32, st⟩, ⟨3, .uint32, st⟩, ⟨4, .bytes, st⟩]
def C08cipherFields (st : Bool) : List Field := [⟨1, .bytes, st⟩, ⟨2, .bytes, st⟩]

theorem C08_encryptedMessage_schema :
    (allSchemas.find "crypto.EncryptedMessage").map (fun s => (s.enc, s.dec, s.decStrict)) =
      some (C08encMsgFields false, C08encMsgFields false, C08encMsgFields true) := by
  decide +kernel

theorem C08_kdfParams_schema :
    (allSchemas.find "crypto.KDFParams").map (fun s => (s.enc, s.dec, s.decStrict)) =
      some (C08kdfFields false, C08kdfFields false, C08kdfFields true) := by
  decide +kernel

theorem C08_cipherParams_schema :
    (allSchemas.find "crypto.CipherParams").map (fun s => (s.enc, s.dec, s.decStrict)) =
      some (C08cipherFields false, C08cipherFields false, C08cipherFields true) := by
  decide +kernel

/-- **The declared size of a nested struct is not enforced.** In `0a 00 12 00 1a 00 22 00 2a 02 32 00
3a 00` field 5 (kdfparams) declares a body of 2 bytes, `32 00`. KDFParams has no field 6, so its
lenient decode reads nothing and stops at the START of its body; the parent then continues there and
reads the same two bytes `32 00` as ITS field 6 (cipher = ""). `DecodeStrict` accepts, with all of
kdfparams default; the canonical encoding of the result is 26 bytes, not these 14. -/
theorem C08_nested_size_unchecked_counterexample (s : Schema)
    (hs : allSchemas.find "crypto.EncryptedMessage" = some s) :
    let b : Bytes := [0x0a, 0, 0x12, 0, 0x1a, 0, 0x22, 0, 0x2a, 2, 0x32, 0, 0x3a, 0]
    let vals : List Value :=
      [.bytes [], .bytes [], .bytes [], .bytes [], .msg true [.uint 0, .uint 0, .uint 0, .bytes []],
       .bytes [], .msg true [.bytes [], .bytes []]]
    decodeStrict allSchemas asciiNFC s b = .ok vals ∧
    encode allSchemas asciiNFC s vals =
      [10, 0, 18, 0, 26, 0, 34, 0, 42, 8, 8, 0, 16, 0, 24, 0, 34, 0, 50, 0, 58, 4, 10, 0, 18, 0] ∧
    encode allSchemas asciiNFC s vals ≠ b ∧
    decodeStrict allSchemas asciiNFC s (encode allSchemas asciiNFC s vals) = .ok vals := by
  intro b vals
  obtain ⟨s', hs', he, hd, hst⟩ := C08find C08_encryptedMessage_schema
  rw [hs] at hs'; injection hs' with hs'; subst hs'
  obtain ⟨sk, hfk, hek, _, _⟩ := C08find C08_kdfParams_schema
  obtain ⟨sc, hfc, hec, _, _⟩ := C08find C08_cipherParams_schema
  have henc : encode allSchemas asciiNFC s vals =
      [10, 0, 18, 0, 26, 0, 34, 0, 42, 8, 8, 0, 16, 0, 24, 0, 34, 0, 50, 0, 58, 4, 10, 0, 18, 0] := by
    simp [vals, encode, he, hek, hec, hfk, hfc, C08encMsgFields, C08kdfFields, C08cipherFields,
      encodeFields, writeKey, writeBytes, putUvarint_lt, asciiNFC]
  refine ⟨?_, henc, ?_, ?_⟩
  · rw [decodeStrict_fields _ _ _ _ _ hst]; exact okEqb_sound (by decide +kernel)
  · rw [henc]; decide
  · rw [henc]; rw [decodeStrict_fields _ _ _ _ _ hst]; exact okEqb_sound (by decide +kernel)

/-! ### what IS canonical: the flat envelopes that `NewBlock` decodes strictly -/

private theorem C08rawBlock_flat {s : Schema} (hs : allSchemas.find "blockchain.RawBlock" = some s) :
    C08Flat s = true ∧ s.enc.all (fun f => C08CanonKind f.kind) = true := by
  obtain ⟨s', hs', h1, h2, h3⟩ := C08find C08_rawBlock_schema
  rw [hs] at hs'; injection hs' with hs'; subst hs'
  unfold C08Flat
  rw [h1, h2, h3]
  decide

private theorem C08asset_flat {s : Schema} (hs : allSchemas.find "blockchain.BlockAsset" = some s) :
    C08Flat s = true ∧ s.enc.all (fun f => C08CanonKind f.kind) = true := by
  obtain ⟨s', hs', h1, h2, h3⟩ := C08find C08_blockAsset_schema
  rw [hs] at hs'; injection hs' with hs'; subst hs'
  unfold C08Flat
  rw [h1, h2, h3]
  decide

/-- **`RawBlock.DecodeStrict` (the first step of `NewBlock`) is canonical**: the only byte string it
accepts for a raw block is the `Encode` of the (header bytes, transaction bytes, asset bytes) it
returns — so a block received from the network is split unambiguously. (RawBlock has no string
field; the NFC law is only there because the flat theorem asks for it.) -/
theorem C08_rawBlock_strict_canonical (s : Schema) (hs : allSchemas.find "blockchain.RawBlock" = some s)
    (nfc : NFC) (hlaw : ∀ x, nfc.normal x = true → nfc.normalize x = x) (b : Bytes)
    (vals : List Value) (h : decodeStrict allSchemas nfc s b = .ok vals) :
    encode allSchemas nfc s vals = b :=
  C08_strict_canonical_flat allSchemas nfc s b vals (C08rawBlock_flat hs).1 (C08rawBlock_flat hs).2
    hlaw h

/-- **`BlockAsset.DecodeStrict` (used by `NewBlockAsset`) is canonical.** -/
theorem C08_blockAsset_strict_canonical (s : Schema)
    (hs : allSchemas.find "blockchain.BlockAsset" = some s) (nfc : NFC)
    (hlaw : ∀ x, nfc.normal x = true → nfc.normalize x = x) (b : Bytes) (vals : List Value)
    (h : decodeStrict allSchemas nfc s b = .ok vals) : encode allSchemas nfc s vals = b :=
  C08_strict_canonical_flat allSchemas nfc s b vals (C08asset_flat hs).1 (C08asset_flat hs).2 hlaw h

/-- non-vacuity of the two canonical theorems: the strict decoders accept something -/
example (s sa : Schema) (hs : allSchemas.find "blockchain.RawBlock" = some s)
    (hsa : allSchemas.find "blockchain.BlockAsset" = some sa) :
    decodeStrict allSchemas asciiNFC s [0x0a, 2, 7, 7, 0x12, 1, 9, 0x12, 0] =
      .ok [.bytes [7, 7], .bytesArr [[9], []], .bytesArr []] ∧
    decodeStrict allSchemas asciiNFC sa [0x0a, 1, 0x41, 0x12, 0] = .ok [.bytes [0x41], .bytes []] := by
  obtain ⟨s', hs', _, _, hst⟩ := C08find C08_rawBlock_schema
  rw [hs] at hs'; injection hs' with hs'; subst hs'
  obtain ⟨sa', hsa', _, _, hsta⟩ := C08find C08_blockAsset_schema
  rw [hsa] at hsa'; injection hsa' with hsa'; subst hsa'
  constructor
  · rw [decodeStrict_fields _ _ _ _ _ hst]; exact okEqb_sound (by decide +kernel)
  · rw [decodeStrict_fields _ _ _ _ _ hsta]; exact okEqb_sound (by decide +kernel)

/-! ### the exact exception classes of strict canonicity -/

/-- flat with canonical kinds only: `C08_strict_canonical_flat` applies -/
def C08CanonFlat (s : Schema) : Bool := C08Flat s && s.enc.all (fun f => C08CanonKind f.kind)

/-- has a field whose read truncates (`uint32`, `int32`) or a packed array (`uints`), for which a
strictly accepted byte string need not be the canonical one
(`C08_uint32_noncanonical_counterexample`, `C08_uints_noncanonical_counterexample`) -/
def C08HasTruncOrPacked (s : Schema) : Bool :=
  s.enc.any fun f => f.kind == .uint32 || f.kind == .int32 || f.kind == .uints

/-- has a nested struct or an array of structs, which are decoded leniently and without enforcing
the declared size (`C08_strict_nested_noncanonical_counterexample`,
`C08_nested_size_unchecked_counterexample`) -/
def C08HasNested (s : Schema) : Bool :=
  s.enc.any fun f => match f.kind with | .msg _ => true | .msgArr _ => true | _ => false

def C08classOf (name : String) : Option (Bool × Bool × Bool) :=
  (allSchemas.find name).map fun s => (C08CanonFlat s, C08HasTruncOrPacked s, C08HasNested s)

/-- **Classification of all generated structs** with respect to canonical strict decoding: every
struct is either flat with canonical kinds only (then `DecodeStrict` accepts exactly the canonical
encoding), or it has a truncating / packed field, or it has a nested struct — and never both the first
and one of the others. Transaction, BlockAsset and RawBlock (everything `NewBlock` /
`NewTransaction` / `NewBlockAsset` decode strictly) are canonical; BlockHeader (decoded leniently by
`NewBlockHeader`) has uint32 fields and a nested AggregateCommit; Block has nested structs;
SingleCommit has a uint32 field and EventPostSingleCommits a nested array. -/
theorem C08_strict_canonical_classification :
    allSchemas.all (fun s => C08CanonFlat s || C08HasTruncOrPacked s || C08HasNested s) = true ∧
    allSchemas.all (fun s => !(C08CanonFlat s && (C08HasTruncOrPacked s || C08HasNested s))) = true ∧
    41 ≤ (allSchemas.filter C08CanonFlat).length ∧
    C08classOf "blockchain.Transaction" = some (true, false, false) ∧
    C08classOf "blockchain.BlockAsset" = some (true, false, false) ∧
    C08classOf "blockchain.RawBlock" = some (true, false, false) ∧
    C08classOf "blockchain.BlockHeader" = some (false, true, true) ∧
    C08classOf "blockchain.AggregateCommit" = some (false, true, false) ∧
    C08classOf "blockchain.Block" = some (false, false, true) ∧
    C08classOf "certificate.SingleCommit" = some (false, true, false) ∧
    C08classOf "consensus.EventPostSingleCommits" = some (false, false, true) := by
  decide +kernel

/-! ### stable IDs for EVERY accepted input: decoded values are well-typed

The round trip above starts from a value the node encodes. Here we start from an arbitrary byte
string that a decoder accepts (a header or block received from a peer or loaded from the database):
the decoded value is well-typed, so re-encoding it and decoding again returns the same value, and the
ID computed from the re-encoding (`NewBlockHeader`, `Init`) does not change on store / load. The one
obstruction is a nil pointer inside an all-default struct, excluded by `C08NilFree`. -/

/-- `norm.NFC` as far as the model needs it: normal strings are fixed by normalisation, and the
empty string is normal -/
def C08NFCLaw (nfc : NFC) : Prop := NFCLaw nfc

theorem C08_asciiNFC_law : C08NFCLaw asciiNFC := asciiNFC_law

/-- No decode of the field list `fs` (followed through the table to depth `d`) can return a nil
pointer: every `.msg n` field is strict — it cannot be absent — or the all-default struct `n` that
`ReadDecodable` creates for an absent field contains no nested struct pointer; and the same holds for
the (always lenient) field lists of all nested structs. Depth 0: flat kinds only. -/
def C08NilFree (t : Table) (d : Nat) (fs : List Field) : Bool := nilFree t d fs

/-- **Every value returned by `Decode` / `DecodeStrict` is well-typed**, for any byte string shorter
than 2^63, any struct of a well-formed table whose field list is `C08NilFree`. -/
theorem C08_decoded_values_typed (t : Table) (rank : String → Nat) (nfc : NFC)
    (hwf : C08DeepWF t rank = true) (hlaw : C08NFCLaw nfc) (s : Schema) (hs : s ∈ t) (d : Nat)
    (b : Bytes) (hb : b.length < 2 ^ 63) (vals : List Value) :
    (C08NilFree t d s.dec = true → decode t nfc s b = .ok vals →
      C08TypedDeep t nfc d s.enc vals = true) ∧
    (C08NilFree t d s.decStrict = true → decodeStrict t nfc s b = .ok vals →
      C08TypedDeep t nfc d s.enc vals = true) :=
  ⟨fun hnf h => (decode_reencode_stable t rank nfc hwf hlaw s hs d hnf b hb vals h).1,
   fun hnf h => (decodeStrict_reencode_stable t rank nfc hwf hlaw s hs d hnf b hb vals h).1⟩

/-- **IDs are unchanged by store / load / re-encode, for every accepted input.** If `Decode` accepts
`b` and returns `vals`, then `Decode` and `DecodeStrict` of `Encode vals` return `vals` again; hence
`Encode` of the reloaded value equals `Encode vals` and so does any hash of it. -/
theorem C08_decode_reencode_stable (t : Table) (rank : String → Nat) (nfc : NFC)
    (hwf : C08DeepWF t rank = true) (hlaw : C08NFCLaw nfc) (s : Schema) (hs : s ∈ t) (d : Nat)
    (hnf : C08NilFree t d s.dec = true) (b : Bytes) (hb : b.length < 2 ^ 63) (vals : List Value)
    (h : decode t nfc s b = .ok vals) (hlen : (encode t nfc s vals).length < 2 ^ 63) :
    decode t nfc s (encode t nfc s vals) = .ok vals ∧
    decodeStrict t nfc s (encode t nfc s vals) = .ok vals :=
  (decode_reencode_stable t rank nfc hwf hlaw s hs d hnf b hb vals h).2 hlen

/-- the same when the input was accepted by `DecodeStrict` -/
theorem C08_decodeStrict_reencode_stable (t : Table) (rank : String → Nat) (nfc : NFC)
    (hwf : C08DeepWF t rank = true) (hlaw : C08NFCLaw nfc) (s : Schema) (hs : s ∈ t) (d : Nat)
    (hnf : C08NilFree t d s.decStrict = true) (b : Bytes) (hb : b.length < 2 ^ 63)
    (vals : List Value) (h : decodeStrict t nfc s b = .ok vals)
    (hlen : (encode t nfc s vals).length < 2 ^ 63) :
    decode t nfc s (encode t nfc s vals) = .ok vals ∧
    decodeStrict t nfc s (encode t nfc s vals) = .ok vals :=
  (decodeStrict_reencode_stable t rank nfc hwf hlaw s hs d hnf b hb vals h).2 hlen

/-- **Coverage**: of the 95 generated structs at least 85 are `C08NilFree` for `Decode` and at least
90 for `DecodeStrict` (all except those that can hold a leniently decoded block, whose header may be
absent); among them BlockHeader, Transaction, BlockAsset, RawBlock, AggregateCommit for both, and
Block for `DecodeStrict`. -/
theorem C08_nilFree_coverage :
    85 ≤ (allSchemas.filter fun s => C08NilFree allSchemas 4 s.dec).length ∧
    90 ≤ (allSchemas.filter fun s => C08NilFree allSchemas 4 s.decStrict).length ∧
    (∀ n ∈ ["blockchain.BlockHeader", "blockchain.Transaction", "blockchain.BlockAsset",
        "blockchain.RawBlock", "blockchain.AggregateCommit", "certificate.SingleCommit",
        "consensus.EventPostSingleCommits"],
      (allSchemas.find n).any (fun s =>
        C08NilFree allSchemas 4 s.dec && C08NilFree allSchemas 4 s.decStrict) = true) ∧
    (allSchemas.find "blockchain.Block").any (fun s =>
      C08NilFree allSchemas 4 s.decStrict && !C08NilFree allSchemas 4 s.dec) = true := by
  decide +kernel

/-- **Block header IDs are stable for every accepted header.** `NewBlockHeader` decodes the received
bytes leniently and sets `ID = hash(Encode(header))`. Whatever bytes were accepted, the header that
comes back from storing `Encode(header)` and loading it again (leniently or strictly) is the same, so
its ID — for any hash function — is the same. (The received bytes themselves need not be canonical:
the ID is a function of the decoded header, not of the wire bytes.) -/
theorem C08_blockHeader_id_stable (nfc : NFC) (hlaw : C08NFCLaw nfc) (s : Schema)
    (hs : allSchemas.find "blockchain.BlockHeader" = some s) (b : Bytes) (hb : b.length < 2 ^ 63)
    (header : List Value) (h : decode allSchemas nfc s b = .ok header)
    (hlen : (encode allSchemas nfc s header).length < 2 ^ 63) {ID : Type} (hash : Bytes → ID) :
    decode allSchemas nfc s (encode allSchemas nfc s header) = .ok header ∧
    decodeStrict allSchemas nfc s (encode allSchemas nfc s header) = .ok header ∧
    ∀ header', decode allSchemas nfc s (encode allSchemas nfc s header) = .ok header' →
      hash (encode allSchemas nfc s header') = hash (encode allSchemas nfc s header) := by
  obtain ⟨s', hs', _, hd, _⟩ := C08find C08_blockHeader_schema
  rw [hs] at hs'; injection hs' with hs'; subst hs'
  have hnf : C08NilFree allSchemas 1 s.dec = true := by rw [hd]; decide +kernel
  obtain ⟨h1, h2⟩ := C08_decode_reencode_stable allSchemas C09rank nfc C08_allSchemas_deepWF hlaw s
    (C08find_mem hs) 1 hnf b hb header h hlen
  refine ⟨h1, h2, ?_⟩
  intro header' h'
  rw [h1] at h'
  injection h' with h'
  rw [h']

/-- **Transaction IDs**: `NewTransaction` decodes strictly and sets `ID = hash(Encode(tx))`. The
accepted bytes ARE `Encode(tx)` (`C08_transaction_strict_canonical`), so the ID is the hash of exactly
the accepted bytes, and storing / loading the transaction returns the same transaction. -/
theorem C08_transaction_id_stable (s : Schema) (hs : allSchemas.find "blockchain.Transaction" = some s)
    (b : Bytes) (hb : b.length < 2 ^ 63) (tx : List Value)
    (h : decodeStrict allSchemas asciiNFC s b = .ok tx) {ID : Type} (hash : Bytes → ID) :
    hash (encode allSchemas asciiNFC s tx) = hash b ∧
    decode allSchemas asciiNFC s (encode allSchemas asciiNFC s tx) = .ok tx ∧
    decodeStrict allSchemas asciiNFC s (encode allSchemas asciiNFC s tx) = .ok tx := by
  have hcan := C08_transaction_strict_canonical s hs b tx h
  obtain ⟨s', hs', _, _, hst⟩ := C08find C08_transaction_schema
  rw [hs] at hs'; injection hs' with hs'; subst hs'
  have hnf : C08NilFree allSchemas 0 s.decStrict = true := by rw [hst]; decide
  obtain ⟨h1, h2⟩ := C08_decodeStrict_reencode_stable allSchemas C09rank asciiNFC
    C08_allSchemas_deepWF C08_asciiNFC_law s (C08find_mem hs) 0 hnf b hb tx h (by rw [hcan]; exact hb)
  exact ⟨by rw [hcan], h1, h2⟩

/-- **Blocks accepted by `Block.DecodeStrict`** (header present, since field 1 is strict) are
well-typed and re-encode stably, although the accepted bytes need not be canonical
(`C08_block_strict_noncanonical_counterexample`). -/
theorem C08_block_strict_reencode_stable (nfc : NFC) (hlaw : C08NFCLaw nfc) (s : Schema)
    (hs : allSchemas.find "blockchain.Block" = some s) (b : Bytes) (hb : b.length < 2 ^ 63)
    (vals : List Value) (h : decodeStrict allSchemas nfc s b = .ok vals)
    (hlen : (encode allSchemas nfc s vals).length < 2 ^ 63) :
    C08TypedDeep allSchemas nfc 2 s.enc vals = true ∧
    decode allSchemas nfc s (encode allSchemas nfc s vals) = .ok vals ∧
    decodeStrict allSchemas nfc s (encode allSchemas nfc s vals) = .ok vals := by
  obtain ⟨s', hs', _, _, hst⟩ := C08find C08_block_schema
  rw [hs] at hs'; injection hs' with hs'; subst hs'
  have hnf : C08NilFree allSchemas 2 s.decStrict = true := by rw [hst]; decide +kernel
  exact ⟨(C08_decoded_values_typed allSchemas C09rank nfc C08_allSchemas_deepWF hlaw s
      (C08find_mem hs) 2 b hb vals).2 hnf h,
    C08_decodeStrict_reencode_stable allSchemas C09rank nfc C08_allSchemas_deepWF hlaw s
      (C08find_mem hs) 2 hnf b hb vals h hlen⟩

/-- the all-default header that `creator()` returns for an absent header field: its AggregateCommit
pointer is nil -/
def C08nilHeader : List Value :=
  [.uint 0, .uint 0, .uint 0, .bytes [], .bytes [], .bytes [], .bytes [], .bytes [], .bytes [],
   .uint 0, .uint 0, .bool false, .bytes [], .msg false [], .bytes []]

/-- **`C08NilFree` is necessary: a leniently decoded block without header changes its ID on
store / load.** `Block.Decode` of the empty string returns a block whose header is the zero struct
with a NIL AggregateCommit; its encoding `e₁` (30 bytes) omits field 14; decoding `e₁` returns a
header with a NON-nil all-default AggregateCommit, whose encoding `e₂` (38 bytes) differs — so
`hash(Encode(block))` is not preserved by one store / load cycle. (Confirmed on the Go code:
`Block.Decode([]byte{})`, `Encode`, `Decode`, `Encode` gives `0a1c…7a00` then `0a24…7206080012001a007a00`.) -/
theorem C08_block_lenient_nil_header_counterexample (s : Schema)
    (hs : allSchemas.find "blockchain.Block" = some s) :
    let v₁ : List Value := [.msg true C08nilHeader, .msgArr [], .msgArr []]
    let v₂ : List Value := [.msg true C08zeroHeader, .msgArr [], .msgArr []]
    let e₁ : Bytes := [10, 28, 8, 0, 16, 0, 24, 0, 34, 0, 42, 0, 50, 0, 58, 0, 66, 0, 74, 0, 80, 0, 88, 0,
      96, 0, 106, 0, 122, 0]
    let e₂ : Bytes := [10, 36, 8, 0, 16, 0, 24, 0, 34, 0, 42, 0, 50, 0, 58, 0, 66, 0, 74, 0, 80, 0, 88, 0,
      96, 0, 106, 0, 114, 6, 8, 0, 18, 0, 26, 0, 122, 0]
    decode allSchemas asciiNFC s [] = .ok v₁ ∧ encode allSchemas asciiNFC s v₁ = e₁ ∧
    decode allSchemas asciiNFC s e₁ = .ok v₂ ∧ encode allSchemas asciiNFC s v₂ = e₂ ∧ e₁ ≠ e₂ := by
  intro v₁ v₂ e₁ e₂
  obtain ⟨s', hs', he, hd, hst⟩ := C08find C08_block_schema
  rw [hs] at hs'; injection hs' with hs'; subst hs'
  obtain ⟨sh, hfh, heh, _, _⟩ := C08find C08_blockHeader_schema
  obtain ⟨sc, hfc, hec, _, _⟩ := C08find C08_aggregateCommit_schema
  obtain ⟨stx, hft, het, _, _⟩ := C08find C08_transaction_schema
  obtain ⟨sa, hfa, hea, _, _⟩ := C08find C08_blockAsset_schema
  refine ⟨?_, ?_, ?_, ?_, by decide⟩
  · rw [decode_fields _ _ _ _ _ hd]; exact okEqb_sound (by decide +kernel)
  · simp [v₁, e₁, encode, he, heh, het, hea, hfh, hfc, hft, hfa, C08blockFields, C08headerFields,
      C08nilHeader, encodeFields, writeKey, writeBytes, putUvarint_lt]
  · rw [decode_fields _ _ _ _ _ hd]; exact okEqb_sound (by decide +kernel)
  · simp [v₂, e₂, encode, he, heh, hec, het, hea, hfh, hfc, hft, hfa, C08blockFields, C08headerFields,
      C08acFields, C08zeroHeader, encodeFields, writeKey, writeBytes, putUvarint_lt]

/-- non-vacuity of `C08_blockHeader_id_stable`: `NewBlockHeader` accepts the empty string (every
field absent) — the hypotheses hold with `b = []` and the all-default header -/
example (s : Schema) (hs : allSchemas.find "blockchain.BlockHeader" = some s) :
    decode allSchemas asciiNFC s [] = .ok C08zeroHeader ∧
    encode allSchemas asciiNFC s C08zeroHeader =
      [8, 0, 16, 0, 24, 0, 34, 0, 42, 0, 50, 0, 58, 0, 66, 0, 74, 0, 80, 0, 88, 0, 96, 0, 106, 0, 114, 6,
       8, 0, 18, 0, 26, 0, 122, 0] := by
  obtain ⟨s', hs', he, hd, _⟩ := C08find C08_blockHeader_schema
  rw [hs] at hs'; injection hs' with hs'; subst hs'
  obtain ⟨sc, hfc, hec, _, _⟩ := C08find C08_aggregateCommit_schema
  constructor
  · rw [decode_fields _ _ _ _ _ hd]; exact okEqb_sound (by decide +kernel)
  · simp [encode, he, hec, hfc, C08headerFields, C08acFields, C08zeroHeader, encodeFields, writeKey,
      writeBytes, putUvarint_lt]
