/-
C19 (more) — the sync handlers, the downloader and the two synchronisers for ALL inputs.

`Props/C19.lean` proves the peer selection for every map order / random value, one direction of the
handler specifications, and the fast synchroniser against an honest peer (convergence) resp. every
peer (failure restores).  This file closes the remaining clauses of the statement:

* handlers, exactly: `C19_blocks_from_id_exact`, `C19_blocks_from_id_segment` (count
  `min 103 remaining`, position right after the requested id, heights `h+1, h+2, …`, order, links) and
  `C19_highest_common_exact`, `C19_highest_common_order_irrelevant` (three `iff`s for every id list,
  duplicates and unknown ids included; the answer depends only on the SET of requested ids);
* the downloader against EVERY peer: `C19_download_sound` (what reaches the channel is always a
  linked extension of the start block; completion means the end block was reached; it terminates);
* the fast synchroniser against EVERY peer: `C19_fast_sync_outcomes` (success = common prefix plus
  linked, validated, accepted downloaded blocks ending in the received block; every error except a
  failed restoration leaves exactly the original chain and an empty temp table; who is banned);
* the block synchroniser against EVERY peer: `C19_block_sync_outcomes`, and against an honest peer on
  ANY fork of the requester's chain: `C19_block_sync_honest`, `C19_block_sync_converges`;
* every intermediate chain state of both synchronisers (one block deleted / applied per step) keeps
  the finalized prefix: `C19_fast_sync_states`, `C19_block_sync_states`;
* restore order: `C19_restore_order` (the temp blocks are re-applied in ascending height whatever
  order the temp table returns them in).
-/
import LiskVerif.Props.C19
import LiskVerif.Lemmas.SyncMore

open LiskVerif LiskVerif.Sync

set_option linter.unusedSectionVars false

/-! ## 1. The handlers, exactly -/

section Handlers
variable {ι : Type} [DecidableEq ι]

/-- **Blocks from id, every request.**  The three possible outcomes of
`HandleRPCEndpointGetBlocksFromID`, each characterised by an `iff`, for every chain, every request
and every id:
* the requester is banned exactly when the body is missing / undecodable or the id is not 32 bytes;
* an error is written exactly when the (well-formed) id is not on the chain;
* otherwise the answer is the (at most 103) blocks that follow the FIRST block with that id. -/
theorem C19_blocks_from_id_exact (okLen : ι → Bool) (c : List (Blk ι)) (req : Option ι) :
    (handleBlocksFromID okLen c req = .ban ↔ req = none ∨ ∃ i, req = some i ∧ okLen i = false) ∧
    (handleBlocksFromID okLen c req = .err ↔ ∃ i, req = some i ∧ okLen i = true ∧ ∀ b ∈ c, b.id ≠ i) ∧
    (∀ l, handleBlocksFromID okLen c req = .blocks l ↔
      ∃ i h, req = some i ∧ okLen i = true ∧ heightOf c i = some h ∧
        l = (c.drop (h + 1)).take maxBlocksPerResponse) := by
  cases req with
  | none => simp [handleBlocksFromID]
  | some i =>
    simp only [handleBlocksFromID]
    by_cases hok : okLen i = true
    · simp only [hok, if_true]
      cases hh : heightOf c i with
      | none =>
        have hnone := (heightOf_eq_none_iff c i).mp hh
        refine ⟨by simp [hok], ?_, ?_⟩
        · simp only [true_iff]; exact ⟨i, rfl, hok, hnone⟩
        · intro l
          simp only [reduceCtorEq, false_iff]
          rintro ⟨j, h, hj, _, hjh, _⟩
          cases hj
          rw [hh] at hjh; cases hjh
      | some h =>
        have hlt := heightOf_lt_length c i h hh
        have hseg : (c.drop (h + 1)).take (min (h + maxBlocksPerResponse) (c.length - 1) + 1 - (h + 1))
            = (c.drop (h + 1)).take maxBlocksPerResponse := by
          have : min (h + maxBlocksPerResponse) (c.length - 1) + 1 - (h + 1)
              = min maxBlocksPerResponse (c.drop (h + 1)).length := by
            rw [List.length_drop]; omega
          rw [this]; exact take_min_length _ _
        simp only [hseg]
        refine ⟨by simp [hok], ?_, ?_⟩
        · simp only [reduceCtorEq, false_iff]
          rintro ⟨j, hj, _, hnone⟩
          cases hj
          rw [(heightOf_eq_none_iff c i).mpr hnone] at hh; cases hh
        · intro l
          simp only [BfiOut.blocks.injEq]
          constructor
          · intro hl; exact ⟨i, h, rfl, hok, hh, hl.symm⟩
          · rintro ⟨j, h', hj, _, hjh, hl⟩
            cases hj
            rw [hh] at hjh; cases hjh
            exact hl.symm
    · have hf : okLen i = false := by simpa using hok
      simp only [hf, Bool.false_eq_true, if_false]
      refine ⟨?_, ?_, ?_⟩
      · simp only [true_iff]; exact Or.inr ⟨i, rfl, hf⟩
      · simp only [reduceCtorEq, false_iff]
        rintro ⟨j, hj, hjo, _⟩; cases hj; rw [hf] at hjo; cases hjo
      · intro l
        simp only [reduceCtorEq, false_iff]
        rintro ⟨j, h, hj, hjo, _⟩; cases hj; rw [hf] at hjo; cases hjo

/-- **The returned segment.**  For EVERY chain `c` and every well-formed id `i` whose first
occurrence on `c` is at height `h`, the handler answers a list `l` with
* `l.length = min 103 (tip height - h)`: as many blocks as remain, never more than the cap, and the cap
  is reached whenever enough blocks remain;
* `c = (blocks up to h) ++ l ++ rest`: `l` is the contiguous part of `c` that starts right after the
  requested block, in chain order (so `l[k]` is the block of `c` at position `h+1+k`);
* `l` is empty exactly when the requested block is the tip;
* when heights are positions, `l[k].height = h+1+k`; on a linked chain `l` is linked to the requested
  block (consecutive heights, `prev` links) and strictly ascending — exactly what the downloader of
  the requester checks. -/
theorem C19_blocks_from_id_segment (okLen : ι → Bool) (c : List (Blk ι)) (i : ι) (h : Nat)
    (hok : okLen i = true) (hh : heightOf c i = some h) :
    ∃ l, handleBlocksFromID okLen c (some i) = .blocks l ∧
      l.length = min maxBlocksPerResponse (c.length - 1 - h) ∧
      c = c.take (h + 1) ++ l ++ c.drop (h + 1 + l.length) ∧
      (∀ k, k < l.length → l[k]? = c[h + 1 + k]?) ∧
      (l = [] ↔ h + 1 = c.length) ∧
      (HeightsOK c → ∀ k b, l[k]? = some b → b.height = h + 1 + k) ∧
      (ChainOK c → Linked i h l ∧ l.Pairwise (fun a b => a.height < b.height)) := by
  have hlt := heightOf_lt_length c i h hh
  have hres := ((C19_blocks_from_id_exact okLen c (some i)).2.2 _).mpr ⟨i, h, rfl, hok, hh, rfl⟩
  refine ⟨_, hres, ?_, ?_, ?_, ?_, ?_, ?_⟩
  · rw [List.length_take, List.length_drop]; omega
  · rw [List.append_assoc]
    conv => lhs; rw [← List.take_append_drop (h + 1) c]
    congr 1
    conv => lhs; rw [← List.take_append_drop maxBlocksPerResponse (c.drop (h + 1))]
    congr 1
    rw [List.drop_drop, List.length_take, List.length_drop]
    by_cases hc : maxBlocksPerResponse ≤ c.length - (h + 1)
    · rw [Nat.min_eq_left hc]
    · rw [Nat.min_eq_right (by omega), List.drop_of_length_le (by omega), List.drop_of_length_le (by omega)]
  · intro k hk
    rw [List.length_take, List.length_drop] at hk
    rw [List.getElem?_take_of_lt (by omega), List.getElem?_drop]
  · constructor
    · intro hnil
      have := congrArg List.length hnil
      rw [List.length_take, List.length_drop] at this
      simp only [List.length_nil, maxBlocksPerResponse] at this
      omega
    · intro heq
      rw [List.drop_of_length_le (by omega)]; rfl
  · intro hH k b hb
    by_cases hk : k < ((c.drop (h + 1)).take maxBlocksPerResponse).length
    · rw [List.length_take, List.length_drop] at hk
      rw [List.getElem?_take_of_lt (by omega), List.getElem?_drop] at hb
      exact hH _ b hb
    · rw [List.getElem?_eq_none (by omega)] at hb; cases hb
  · intro hC
    obtain ⟨⟨b, hb, hbi⟩, _⟩ := (heightOf_eq_some_iff c i h).mp hh
    have hb' : c[h] = b := by
      rw [List.getElem?_eq_getElem hlt] at hb; exact Option.some.inj hb
    have hsplit : c = c.take h ++ b :: c.drop (h + 1) := by rw [← hb']; simp
    obtain ⟨hbh, hl⟩ := chainOK_split c _ b _ hC hsplit
    rw [List.length_take, Nat.min_eq_left (by omega)] at hbh
    rw [hbi, hbh] at hl
    have hl2 : Linked i h ((c.drop (h + 1)).take maxBlocksPerResponse) := by
      have := hl
      rw [← List.take_append_drop maxBlocksPerResponse (c.drop (h + 1))] at this
      exact ((linked_append i h _ _).mp this).1
    exact ⟨hl2, (linked_pairwise_lt i h _ hl2).1⟩

/-- a chain of 250 blocks (ids = heights) -/
def C19chain250 : List (Blk Nat) := (List.range 250).map fun h => { id := h, prev := h - 1, height := h }

/-- non-vacuity: cap reached in the middle of the chain, remainder near the tip, nothing at the tip -/
example : (match handleBlocksFromID (fun _ => true) C19chain250 (some 100) with
    | .blocks l => (l.length, l.head?.map (·.height), l.getLast?.map (·.height)) | _ => (0, none, none))
    = (103, some 101, some 203) := by decide +kernel
example : (match handleBlocksFromID (fun _ => true) C19chain250 (some 200) with
    | .blocks l => (l.length, l.head?.map (·.height), l.getLast?.map (·.height)) | _ => (0, none, none))
    = (49, some 201, some 249) := by decide +kernel
example : handleBlocksFromID (fun _ => true) C19chain250 (some 249) = .blocks [] := by decide +kernel
example : handleBlocksFromID (fun _ => true) C19chain250 (some 250) = .err := by decide +kernel
example : handleBlocksFromID (fun i => i < 1000) C19chain250 (some 1000) = .ban := by decide +kernel

/-- **Highest common block, every request.**  The three possible outcomes of
`HandleRPCEndpointGetHighestCommonBlock` for EVERY list of ids (duplicates, unknown ids, any order):
* ban exactly when the list is empty or some id is not 32 bytes long;
* "none" exactly when the list is well-formed and no requested id is on the chain;
* the answer is `i` exactly when the list is well-formed, `i` was requested, `i` is on the chain, and
  no requested id is on the chain at a greater height (such an `i` is unique). -/
theorem C19_highest_common_exact (okLen : ι → Bool) (c : List (Blk ι)) (ids : List ι) :
    (handleHighestCommon okLen c (some ids) = .ban ↔ ids = [] ∨ ∃ j ∈ ids, okLen j = false) ∧
    (handleHighestCommon okLen c (some ids) = .none ↔
      ids ≠ [] ∧ (∀ j ∈ ids, okLen j = true) ∧ ∀ j ∈ ids, heightOf c j = none) ∧
    (∀ i, handleHighestCommon okLen c (some ids) = .id i ↔
      ids ≠ [] ∧ (∀ j ∈ ids, okLen j = true) ∧ i ∈ ids ∧
      ∃ h, heightOf c i = some h ∧ ∀ j ∈ ids, ∀ hj, heightOf c j = some hj → hj ≤ h) :=
  ⟨handleHighestCommon_eq_ban_iff okLen c ids, handleHighestCommon_eq_none_iff okLen c ids,
    fun i => handleHighestCommon_eq_id_iff okLen c ids i⟩

/-- **Only the set of requested ids matters.**  Two requests with the same ids — in any order, with
any repetitions — get the same answer.  (In the Go handler the headers are collected from goroutines
in an arbitrary order and sorted with an unstable sort; the model looks them up in request order.) -/
theorem C19_highest_common_order_irrelevant (okLen : ι → Bool) (c : List (Blk ι)) (ids ids' : List ι)
    (hsame : ∀ j, j ∈ ids ↔ j ∈ ids') :
    handleHighestCommon okLen c (some ids) = handleHighestCommon okLen c (some ids') := by
  have hnil : ids = [] ↔ ids' = [] := by
    constructor
    · intro h
      cases hi : ids' with
      | nil => rfl
      | cons a r => have := (hsame a).mpr (by rw [hi]; exact List.mem_cons_self); rw [h] at this; cases this
    · intro h
      cases hi : ids with
      | nil => rfl
      | cons a r => have := (hsame a).mp (by rw [hi]; exact List.mem_cons_self); rw [h] at this; cases this
  obtain ⟨hb, hn, hi⟩ := C19_highest_common_exact okLen c ids
  obtain ⟨hb', hn', hi'⟩ := C19_highest_common_exact okLen c ids'
  cases hres : handleHighestCommon okLen c (some ids) with
  | ban =>
    symm; rw [hb']
    rcases hb.mp hres with h | ⟨j, hj, hjo⟩
    · exact Or.inl (hnil.mp h)
    · exact Or.inr ⟨j, (hsame j).mp hj, hjo⟩
  | none =>
    symm; rw [hn']
    obtain ⟨h1, h2, h3⟩ := hn.mp hres
    exact ⟨fun h => h1 (hnil.mpr h), fun j hj => h2 j ((hsame j).mpr hj), fun j hj => h3 j ((hsame j).mpr hj)⟩
  | id i =>
    symm; rw [hi' i]
    obtain ⟨h1, h2, h3, h, h4, h5⟩ := (hi i).mp hres
    exact ⟨fun h => h1 (hnil.mpr h), fun j hj => h2 j ((hsame j).mpr hj), (hsame i).mp h3, h, h4,
      fun j hj => h5 j ((hsame j).mpr hj)⟩

/-- non-vacuity: duplicates, an unknown id, two orders -/
example : handleHighestCommon (fun _ => true) C19chain5 (some [1, 9, 3, 1, 3]) = .id 3 ∧
    handleHighestCommon (fun _ => true) C19chain5 (some [3, 3, 9, 1]) = .id 3 ∧
    handleHighestCommon (fun _ => true) C19chain5 (some [9, 7]) = .none ∧
    handleHighestCommon (fun i => i < 8) C19chain5 (some [1, 9]) = .ban := by decide

end Handlers

/-! ## 2. The downloader against every peer -/

section Download
variable {ι : Type} [DecidableEq ι]

/-- **Downloader soundness and termination, for EVERY peer behaviour** (`seg` is any function from
the requested id to a response: valid, truncated, empty, failed, reordered, wrong fork, …).
With `d = download seg startId startH endId endH`:
1. the blocks put on the channel (`d.1`) are always linked to the start block: consecutive heights
   `startH+1, startH+2, …` and each `prev` is the id of the block before;
2. the channel is closed without an error item (`d.2 = true`) only if the last delivered block is the
   end block, and then no earlier block is the end block or reaches the end height;
3. if it is closed with an error item, no delivered block is the end block;
4. every delivered block was in a response of the peer;
5. termination: `endH - startH + 1` request rounds always suffice — more fuel never changes the
   result (in the Go code the loop is `for {}`; every round that does not end it gets closer to `endH`). -/
theorem C19_download_sound (seg : ι → Option (List (Blk ι))) (startId : ι) (startH : Nat) (endId : ι) (endH : Nat) :
    Linked startId startH (download seg startId startH endId endH).1 ∧
    ((download seg startId startH endId endH).2 = true →
      ∃ s e, (download seg startId startH endId endH).1 = s ++ [e] ∧ e.id = endId ∧
        ∀ b ∈ s, b.id ≠ endId ∧ b.height < endH) ∧
    ((download seg startId startH endId endH).2 = false →
      ∀ b ∈ (download seg startId startH endId endH).1, b.id ≠ endId ∧ b.height < endH) ∧
    (∀ b ∈ (download seg startId startH endId endH).1, ∃ i L, seg i = some L ∧ b ∈ L) ∧
    (∀ extra, dlLoop seg endId endH (endH - startH + 1 + extra) startId startH
      = download seg startId startH endId endH) := by
  obtain ⟨h1, h2, h3, h4⟩ := dlLoop_sound seg endId endH (endH - startH + 1) startId startH
  refine ⟨h1, h2, h3, h4, ?_⟩
  intro extra
  exact dlLoop_fuel_irrelevant seg endId endH _ _ startId startH (by omega) (by omega)

end Download

/-- non-vacuity: a peer that serves two blocks per response, then one from a wrong fork -/
def C19lyingSeg : Nat → Option (List (Blk Nat))
  | 1 => some [C19b2, C19b3]
  | 3 => some [{ id := 40, prev := 7, height := 4 }]
  | _ => none
example : download C19lyingSeg 1 1 50 5 = ([C19b2, C19b3], false) := by decide
example : download (honest [C19g, C19b1, C19b2, C19b3] 0).segment 1 1 3 3 = ([C19b2, C19b3], true) := by decide

/-! ## 3. Restore order -/

section Restore
variable {ι : Type} [DecidableEq ι]

/-- **Restore order.**  `restoreBlocks` reads the temp table (`GetTempBlocks` iterates it in REVERSE
key order) and sorts the blocks with `SortBlockByHeightAsc` before re-applying them.  Whatever order
`t` the table returns the saved blocks `temp` in (any permutation), the sorted list is `temp` in
ascending height, so the processor sees exactly the same sequence of blocks; and for ANY list the
sorted list is ascending and has the same blocks. -/
theorem C19_restore_order (applies : List (Blk ι) → Blk ι → Bool) (base temp t : List (Blk ι))
    (hasc : temp.Pairwise (fun a b => a.height < b.height)) (hperm : t.Perm temp) :
    sortAsc t = temp ∧ reapply applies base (sortAsc t) = reapply applies base temp ∧
    (∀ l : List (Blk ι), (sortAsc l).Pairwise (fun a b => a.height ≤ b.height) ∧ (sortAsc l).Perm l) := by
  have h := sortAsc_eq_of_perm t temp hperm hasc
  exact ⟨h, by rw [h], fun l => ⟨sortAsc_pairwise l, sortAsc_perm l⟩⟩

/-- the temp blocks of the model (`q.drop (ch+1)` of a linked chain) in any order the table may return
them: sorting gives back `q.drop (ch+1)`, the list `fastSync` re-applies -/
theorem C19_restore_order_chain (q : List (Blk ι)) (hq : ChainOK q) (ch : Nat) (t : List (Blk ι))
    (hperm : t.Perm (q.drop (ch + 1))) : sortAsc t = q.drop (ch + 1) := by
  apply sortAsc_eq_of_perm t _ hperm
  by_cases hlt : ch < q.length
  · have hsplit : q = q.take ch ++ q[ch] :: q.drop (ch + 1) := by simp
    exact (linked_pairwise_lt _ _ _ (chainOK_split q _ _ _ hq hsplit).2).1
  · rw [List.drop_of_length_le (by omega)]; exact List.Pairwise.nil

end Restore

/-- non-vacuity: the table returns the blocks in descending key order -/
example : sortAsc [C19b3, C19b2, C19b1] = [C19b1, C19b2, C19b3] := by decide
example : ChainOK [C19g, C19b1, C19b2, C19b3] := by simp [ChainOK, Linked, C19g, C19b1, C19b2, C19b3]

/-! ## 4. The fast synchroniser against every peer -/

section FastSync
variable {ι : Type} [DecidableEq ι]

private theorem fast_sync_outcomes_aux (applies : List (Blk ι) → Blk ι → Bool)
    (finAfter : List (Blk ι) → Nat) (n fin : Nat) (q : List (Blk ι)) (target : Blk ι) (peer : Peer ι)
    (o : Out ι) (ho : fastSync applies finAfter n fin q target peer = o) :
    (o.err = none →
      o.temp = [] ∧ o.banned = false ∧
      ∃ cid ch dl, heightOf q cid = some ch ∧ fin ≤ ch ∧ o.chain = q.take (ch + 1) ++ dl ∧
        Linked cid ch dl ∧ (∃ s e, dl = s ++ [e] ∧ e.id = target.id) ∧ (∀ b ∈ dl, b.ok = true) ∧
        Accepted applies (q.take (ch + 1)) dl ∧ (∀ b ∈ dl, ∃ i L, peer.segment i = some L ∧ b ∈ L)) ∧
    (∀ e, o.err = some e → e ≠ .restoreFailed →
      o.chain = q ∧ o.temp = [] ∧
      (o.banned = true ↔ e = .noCommon ∨ e = .belowFinalized ∨ e = .invalidBlock ∨ e = .applyFailed)) ∧
    (o.err = some .restoreFailed →
      o.banned = false ∧
      ∃ ch, fin ≤ ch ∧ ch < q.length ∧ o.chain.take (ch + 1) = q.take (ch + 1) ∧
        ∀ b ∈ q, b ∈ o.chain ∨ b ∈ o.temp) := by
  unfold fastSync at ho
  simp only at ho
  split at ho
  · subst ho; simp
  · subst ho; simp
  · rename_i cid _
    split at ho
    · subst ho; simp
    · rename_i ch hch
      have hlt := heightOf_lt_length q cid ch hch
      split at ho
      · subst ho; simp
      · rename_i hfin
        split at ho
        · subst ho; simp
        · split at ho
          · subst ho; simp
          · rename_i hany
            split at ho
            · subst ho; simp
            · rename_i hdl2
              have hbase : (q.take (ch + 1)).length = ch + 1 := by rw [List.length_take]; omega
              split at ho
              · -- all downloaded blocks applied
                rename_i c' happ
                subst ho
                obtain ⟨app, rest, h1, h2, h3, h4, _⟩ := applyAll_spec applies _ _ _ _ happ
                have hrest := h4 rfl
                subst hrest
                simp only [List.append_nil] at h1
                subst h1
                obtain ⟨s1, s2, _, s4, _⟩ := C19_download_sound peer.segment cid ch target.id target.height
                have hd2 : (download peer.segment cid ch target.id target.height).2 = true := by
                  simpa using hdl2
                obtain ⟨s, e, hse, he, _⟩ := s2 hd2
                refine ⟨fun _ => ⟨rfl, rfl, cid, ch, _, hch, by omega, h2, s1, ⟨s, e, hse, he⟩, ?_, h3, s4⟩,
                  by simp, by simp⟩
                intro b hb
                have : ¬ ((download peer.segment cid ch target.id target.height).1.any (fun b => !b.ok) = true) := hany
                rw [List.any_eq_true] at this
                cases hbo : b.ok with
                | true => rfl
                | false => exact absurd ⟨b, hb, by simp [hbo]⟩ this
              · rename_i c' happ
                obtain ⟨app, hc', _⟩ := applyAll_prefix applies _ _ _ _ happ
                have htake : c'.take (ch + 1) = q.take (ch + 1) := by
                  rw [hc', List.take_append_of_le_length (by omega), List.take_take, Nat.min_self]
                split at ho
                · -- a block above the common block became final: it cannot be deleted
                  rename_i hadv
                  subst ho
                  refine ⟨by simp, by simp, fun _ => ⟨rfl, ch, by omega, hlt, ?_, ?_⟩⟩
                  · simp only
                    rw [List.take_take, Nat.min_eq_left (by omega)]
                    exact htake
                  · intro b hb
                    rw [← List.take_append_drop (ch + 1) q] at hb
                    rcases List.mem_append.mp hb with hb | hb
                    · left
                      simp only
                      rw [← htake] at hb
                      have hsub : c'.take (ch + 1) = (c'.take (max fin (finAfter c') + 1)).take (ch + 1) := by
                        rw [List.take_take, Nat.min_eq_left (by omega)]
                      rw [hsub] at hb
                      exact List.mem_of_mem_take hb
                    · right; exact hb
                · rw [htake] at ho
                  split at ho
                  · rename_i c'' hre
                    subst ho
                    have := reapply_append applies _ _ _ _ hre
                    simp only [List.append_nil, List.take_append_drop] at this
                    simp [this]
                  · rename_i c'' rest hne hre
                    subst ho
                    have happd := reapply_append applies _ _ _ _ hre
                    rw [List.take_append_drop] at happd
                    obtain ⟨app2, hc''⟩ := reapply_prefix applies _ _ _ _ hre
                    refine ⟨by simp, by simp, fun _ => ⟨rfl, ch, by omega, hlt, ?_, ?_⟩⟩
                    · simp only
                      rw [hc'', List.take_append_of_le_length (by omega), List.take_take, Nat.min_self]
                    · intro b hb
                      rw [← happd] at hb
                      exact List.mem_append.mp hb

/-- **Fast sync, every peer, every outcome.**  For EVERY peer behaviour (arbitrary answers to the
common-block request and to every blocks-from-id request: valid, invalid at any position, truncated,
empty, failed, wrong fork), every processor and every requester chain, one round of the fast
synchroniser ends in exactly one of three ways.
1. No error: the chain is `q` up to a block `cid` of `q` at a height `ch ≥ fin` (the common block the
   peer named) followed by the downloaded blocks `dl`; these are linked to `cid` (consecutive heights,
   `prev` links), end with the received block `target`, all passed `Validate()`, each was accepted by
   the processor on top of the ones before, and each came from a response of the peer; the temp table
   is empty and nobody is banned.
2. Any error other than a failed restoration: the chain is EXACTLY the original chain `q`, the temp
   table is empty, and the peer is banned exactly for: no common block, common block below the
   finalized height, an invalid downloaded block, a downloaded block the processor rejects.
3. Failed restoration (excluded by `C19_fast_sync_failure_restores` when the original chain is valid
   and nothing new was finalized): the chain still agrees with `q` up to the common block `ch ≥ fin`, and
   every original block is on the chain or still in the temp table (nothing is lost). -/
theorem C19_fast_sync_outcomes (applies : List (Blk ι) → Blk ι → Bool)
    (finAfter : List (Blk ι) → Nat) (n fin : Nat) (q : List (Blk ι)) (target : Blk ι) (peer : Peer ι) :
    ((fastSync applies finAfter n fin q target peer).err = none →
      (fastSync applies finAfter n fin q target peer).temp = [] ∧
      (fastSync applies finAfter n fin q target peer).banned = false ∧
      ∃ cid ch dl, heightOf q cid = some ch ∧ fin ≤ ch ∧
        (fastSync applies finAfter n fin q target peer).chain = q.take (ch + 1) ++ dl ∧
        Linked cid ch dl ∧ (∃ s e, dl = s ++ [e] ∧ e.id = target.id) ∧ (∀ b ∈ dl, b.ok = true) ∧
        Accepted applies (q.take (ch + 1)) dl ∧ (∀ b ∈ dl, ∃ i L, peer.segment i = some L ∧ b ∈ L)) ∧
    (∀ e, (fastSync applies finAfter n fin q target peer).err = some e → e ≠ .restoreFailed →
      (fastSync applies finAfter n fin q target peer).chain = q ∧
      (fastSync applies finAfter n fin q target peer).temp = [] ∧
      ((fastSync applies finAfter n fin q target peer).banned = true ↔
        e = .noCommon ∨ e = .belowFinalized ∨ e = .invalidBlock ∨ e = .applyFailed)) ∧
    ((fastSync applies finAfter n fin q target peer).err = some .restoreFailed →
      (fastSync applies finAfter n fin q target peer).banned = false ∧
      ∃ ch, fin ≤ ch ∧ ch < q.length ∧
        (fastSync applies finAfter n fin q target peer).chain.take (ch + 1) = q.take (ch + 1) ∧
        ∀ b ∈ q, b ∈ (fastSync applies finAfter n fin q target peer).chain ∨
          b ∈ (fastSync applies finAfter n fin q target peer).temp) :=
  fast_sync_outcomes_aux applies finAfter n fin q target peer _ rfl

end FastSync

/-! ## 5. Every intermediate state of the fast synchroniser -/

section FastStates
variable {ι : Type} [DecidableEq ι]

/-- **Fast sync never touches finalized blocks — in every intermediate state.**
`fastSyncStates` lists the chain after every single block deletion / application the round performs
(delete down to the common block; apply the downloaded blocks; on failure delete the applied blocks
again and re-apply the temp blocks).  For EVERY peer behaviour and every processor:
* the list ends in the chain `fastSync` computes (so it is a refinement of the plan);
* consecutive states differ by exactly one block at the tip;
* every state still starts with the requester's blocks up to the finalized height. -/
theorem C19_fast_sync_states (applies : List (Blk ι) → Blk ι → Bool) (finAfter : List (Blk ι) → Nat)
    (n fin : Nat) (q : List (Blk ι)) (target : Blk ι) (peer : Peer ι) (hfin : fin < q.length) :
    (fastSyncStates applies finAfter n fin q target peer).getLastD q
      = (fastSync applies finAfter n fin q target peer).chain ∧
    OneBlockSteps q (fastSyncStates applies finAfter n fin q target peer) ∧
    ∀ s ∈ fastSyncStates applies finAfter n fin q target peer, s.take (fin + 1) = q.take (fin + 1) := by
  have triv : ∀ P : List (Blk ι) → Prop, Run P q [] q := fun P => run_nil P q
  show Run (fun s => s.take (fin + 1) = q.take (fin + 1)) q _ _
  cases hc : peer.common (idsAt q (getLastHeights (q.length - 1) (2 * n))) with
  | none => simp only [fastSync, fastSyncStates, hc]; exact triv _
  | some o =>
    cases o with
    | none => simp only [fastSync, fastSyncStates, hc]; exact triv _
    | some cid =>
      cases hh : heightOf q cid with
      | none => simp only [fastSync, fastSyncStates, hc, hh]; exact triv _
      | some ch =>
        have hlt := heightOf_lt_length q cid ch hh
        simp only [fastSync, fastSyncStates, hc, hh]
        by_cases h1 : ch < fin
        · simp only [h1, if_true]; exact triv _
        · simp only [h1, if_false]
          by_cases h2 : q.length - 1 - ch > 2 * n ∨ u32sub target.height ch > 2 * n
          · simp only [h2, if_true]; exact triv _
          · simp only [h2, if_false]
            by_cases h3 : (download peer.segment cid ch target.id target.height).1.any (fun b => !b.ok) = true
            · simp only [h3, if_true]; exact triv _
            · simp only [h3, Bool.false_eq_true, if_false]
              by_cases h4 : (!(download peer.segment cid ch target.id target.height).2) = true
              · simp only [h4, if_true]; exact triv _
              · simp only [h4, Bool.false_eq_true, if_false]
                have hbase : (q.take (ch + 1)).length = ch + 1 := by rw [List.length_take]; omega
                cases happ : applyAll applies (q.take (ch + 1)) (download peer.segment cid ch target.id target.height).1 with
                | mk c' ok =>
                  obtain ⟨app, hc', _⟩ := applyAll_prefix applies _ _ _ _ happ
                  have hdrop : c'.drop (ch + 1) = app := by
                    rw [hc']; exact List.drop_left' hbase
                  have hrun1 : Run (fun s => s.take (fin + 1) = q.take (fin + 1)) q
                      (walk q (ch + 1) (c'.drop (ch + 1))) c' := by
                    have := run_walk q (ch + 1) (c'.drop (ch + 1)) fin (by omega) (by omega)
                    rw [hdrop, ← hc'] at this
                    rw [hdrop]; exact this
                  have hpre : c'.take (fin + 1) = q.take (fin + 1) := by
                    rw [hc']; exact take_take_append q app (ch + 1) fin (by omega) (by omega)
                  have hlen : fin + 1 ≤ c'.length := by
                    rw [hc', List.length_append, hbase]; omega
                  have htake : c'.take (ch + 1) = q.take (ch + 1) := by
                    rw [hc', List.take_append_of_le_length (by omega), List.take_take, Nat.min_self]
                  cases ok with
                  | true => simp only [if_true]; exact hrun1
                  | false =>
                    simp only [Bool.false_eq_true, if_false]
                    by_cases h5 : ch < max fin (finAfter c') ∧ ch + 1 < c'.length
                    · simp only [h5, and_self, if_true]
                      apply run_append _ _ _ _ _ _ hrun1
                      have := run_walk c' (max fin (finAfter c') + 1) [] fin (by omega) hlen
                      rw [List.append_nil, hpre] at this
                      exact this
                    · simp only [h5, if_false]
                      have hfinal : ∀ c'' rest, reapply applies (c'.take (ch + 1)) (q.drop (ch + 1)) = (c'', rest) →
                          Run (fun s => s.take (fin + 1) = q.take (fin + 1)) q
                            (walk q (ch + 1) (c'.drop (ch + 1)) ++ walk c' (ch + 1)
                              ((reapply applies (c'.take (ch + 1)) (q.drop (ch + 1))).1.drop (ch + 1))) c'' := by
                        intro c'' rest hre
                        obtain ⟨app2, hc''⟩ := reapply_prefix applies _ _ _ _ hre
                        apply run_append _ _ _ _ _ _ hrun1
                        have := run_walk c' (ch + 1) (c''.drop (ch + 1)) fin (by omega) hlen
                        rw [hpre] at this
                        rw [hre]
                        have hd2 : c''.drop (ch + 1) = app2 := by
                          rw [hc'']; exact List.drop_left' (by rw [htake]; exact hbase)
                        rw [hd2, ← hc''] at this
                        simp only
                        rw [hd2]; exact this
                      cases hre : reapply applies (c'.take (ch + 1)) (q.drop (ch + 1)) with
                      | mk c'' rest =>
                        have := hfinal c'' rest hre
                        rw [hre] at this
                        rw [htake] at hre
                        cases rest with
                        | nil => simp only [hre]; exact this
                        | cons x xs => simp only [hre]; exact this

end FastStates

/-! ## 6. The block synchroniser against every peer -/

section BlockSync
variable {ι : Type} [DecidableEq ι]

private theorem block_sync_outcomes_aux (applies : List (Blk ι) → Blk ι → Bool) (n fin myMhp : Nat)
    (q : List (Blk ι)) (best : Tip ι) (peer : Peer ι) (o : Out ι)
    (ho : blockSync applies n fin myMhp q best peer = o) :
    (o.err = none →
      o.temp = [] ∧ o.banned = false ∧
      ∃ last lastMhp cid ch dl, peer.last = some (last, lastMhp) ∧ last.ok = true ∧
        heightOf q cid = some ch ∧ fin ≤ ch ∧ o.chain = q.take (ch + 1) ++ dl ∧
        Linked cid ch dl ∧ (∃ s e, dl = s ++ [e] ∧ e.id = last.id) ∧ (∀ b ∈ dl, b.ok = true) ∧
        Accepted applies (q.take (ch + 1)) dl ∧ (∀ b ∈ dl, ∃ i L, peer.segment i = some L ∧ b ∈ L)) ∧
    (∀ e, o.err = some e →
      (o.banned = true ↔ e = .invalidLast ∨ e = .noPriority ∨ e = .invalidBlock) ∧
      (((e = .notDifferent ∨ e = .requestFailed ∨ e = .invalidLast ∨ e = .noPriority ∨ e = .noCommon ∨
          e = .unknownCommon) ∧ o.chain = q ∧ o.temp = []) ∨
       (e = .deleteFailed ∧ o.chain = q.take (fin + 1) ∧ o.temp = q.drop (fin + 1)) ∨
       ((e = .invalidBlock ∨ e = .applyFailed ∨ e = .download) ∧
          ∃ cid ch app, heightOf q cid = some ch ∧ fin ≤ ch ∧ o.chain = q.take (ch + 1) ++ app ∧
            o.temp = q.drop (ch + 1) ∧ Linked cid ch app ∧ (∀ b ∈ app, b.ok = true) ∧
            Accepted applies (q.take (ch + 1)) app))) := by
  unfold blockSync at ho
  simp only at ho
  split at ho
  · subst ho; simp
  · split at ho
    · subst ho; simp
    · rename_i last lastMhp hlast
      split at ho
      · subst ho; simp
      · rename_i hlok
        split at ho
        · subst ho; simp
        · split at ho
          · rename_i e' hcs
            subst ho
            rcases commonSearch_err_cases q peer n fin _ _ e' hcs with h | h | h <;> subst h <;> simp
          · rename_i ch hcs
            obtain ⟨cid, hch⟩ := commonSearch_ok_height q peer n fin _ _ ch hcs
            have hlt := heightOf_lt_length q cid ch hch
            obtain ⟨⟨bq, hbq, hbqi⟩, _⟩ := (heightOf_eq_some_iff q cid ch).mp hch
            split at ho
            · subst ho; simp
            · rename_i hge
              simp only [hbq, hbqi] at ho
              obtain ⟨s1, s2, _, s4, _⟩ := C19_download_sound peer.segment cid ch last.id last.height
              have hcommon : ∀ c' r, streamApply applies (q.take (ch + 1))
                    (download peer.segment cid ch last.id last.height).1 = (c', r) →
                  ∃ app rest, (download peer.segment cid ch last.id last.height).1 = app ++ rest ∧
                    c' = q.take (ch + 1) ++ app ∧ Accepted applies (q.take (ch + 1)) app ∧
                    (∀ b ∈ app, b.ok = true) ∧ Linked cid ch app ∧ (r = none → rest = []) ∧
                    (∀ e, r = some e → e = .invalidBlock ∨ e = .applyFailed) := by
                intro c' r h
                obtain ⟨app, rest, h1, h2, h3, h4, h5, h6⟩ := streamApply_spec applies _ _ _ _ h
                refine ⟨app, rest, h1, h2, h3, h4, ?_, h5, ?_⟩
                · rw [h1] at s1; exact linked_prefix cid ch app rest s1
                · intro e he
                  obtain ⟨_, _, _, h | h⟩ := h6 e he
                  · exact Or.inl h.1
                  · exact Or.inr h.1
              split at ho
              · rename_i c' hst
                subst ho
                obtain ⟨app, rest, _, h2, h3, h4, h5, _, _⟩ := hcommon _ _ hst
                refine ⟨by simp, ?_⟩
                intro e he
                cases he
                refine ⟨by simp, Or.inr (Or.inr ⟨Or.inl rfl, cid, ch, app, hch, by omega, h2, rfl, h5, h4, h3⟩)⟩
              · rename_i c' e' hne hst
                subst ho
                obtain ⟨app, rest, _, h2, h3, h4, h5, _, h7⟩ := hcommon _ _ hst
                refine ⟨by simp, ?_⟩
                intro e he
                cases he
                have he' : e' = .applyFailed := by
                  rcases h7 e' rfl with h | h
                  · exact absurd h (by intro h'; exact hne (by rw [h']))
                  · exact h
                subst he'
                refine ⟨by simp, Or.inr (Or.inr ⟨Or.inr (Or.inl rfl), cid, ch, app, hch, by omega, h2, rfl, h5, h4, h3⟩)⟩
              · rename_i c' hst
                obtain ⟨app, rest, h1, h2, h3, h4, h5, h6, _⟩ := hcommon _ _ hst
                have hrest := h6 rfl
                subst hrest
                simp only [List.append_nil] at h1
                split at ho
                · rename_i hd2
                  subst ho
                  obtain ⟨s, e, hse, hei, _⟩ := s2 hd2
                  refine ⟨fun _ => ⟨rfl, rfl, last, lastMhp, cid, ch, app, hlast, by simpa using hlok, hch, by omega, h2,
                    h5, ⟨s, e, by rw [← h1]; exact hse, hei⟩, h4, h3, by rw [← h1]; exact s4⟩, by simp⟩
                · subst ho
                  refine ⟨by simp, ?_⟩
                  intro e he
                  cases he
                  refine ⟨by simp, Or.inr (Or.inr ⟨Or.inr (Or.inr rfl), cid, ch, app, hch, by omega, h2, rfl, h5, h4, h3⟩)⟩

/-- **Block sync, every peer, every outcome.**  For EVERY peer behaviour, processor and chain, one
round of the block synchroniser (after peer selection) ends in one of these ways.
1. No error: the chain is `q` up to the common block `cid` (height `ch ≥ fin`) followed by the downloaded
   blocks, which are linked to `cid`, end with the block the peer reported as its last block, all
   passed `Validate()`, were each accepted by the processor and came from the peer's responses; the
   temp table is empty; nobody is banned.
2. An error before anything is deleted (sync condition not met, failed request, invalid / no-priority
   last block, no or unknown common block): chain `q`, temp table empty.
3. The peer named a common block below the finalized height: `deleteBlock` stops at the finalized
   block; the chain is cut to `q.take (fin+1)`, the deleted blocks are in the temp table.
4. An error after the deletion (invalid block, rejected block, download error): the chain is the
   common prefix plus the blocks applied so far (linked, valid, accepted); the replaced original
   blocks `q.drop (ch+1)` are in the temp table.  Block sync does NOT re-apply them (unlike fast sync).
The peer is banned exactly for an invalid or no-priority last block and for an invalid downloaded
block.  In all cases `q.take k ++ temp = q` for the cut height `k`: no original block is lost. -/
theorem C19_block_sync_outcomes (applies : List (Blk ι) → Blk ι → Bool) (n fin myMhp : Nat)
    (q : List (Blk ι)) (best : Tip ι) (peer : Peer ι) :
    ((blockSync applies n fin myMhp q best peer).err = none →
      (blockSync applies n fin myMhp q best peer).temp = [] ∧
      (blockSync applies n fin myMhp q best peer).banned = false ∧
      ∃ last lastMhp cid ch dl, peer.last = some (last, lastMhp) ∧ last.ok = true ∧
        heightOf q cid = some ch ∧ fin ≤ ch ∧
        (blockSync applies n fin myMhp q best peer).chain = q.take (ch + 1) ++ dl ∧
        Linked cid ch dl ∧ (∃ s e, dl = s ++ [e] ∧ e.id = last.id) ∧ (∀ b ∈ dl, b.ok = true) ∧
        Accepted applies (q.take (ch + 1)) dl ∧ (∀ b ∈ dl, ∃ i L, peer.segment i = some L ∧ b ∈ L)) ∧
    (∀ e, (blockSync applies n fin myMhp q best peer).err = some e →
      ((blockSync applies n fin myMhp q best peer).banned = true ↔
        e = .invalidLast ∨ e = .noPriority ∨ e = .invalidBlock) ∧
      (((e = .notDifferent ∨ e = .requestFailed ∨ e = .invalidLast ∨ e = .noPriority ∨ e = .noCommon ∨
          e = .unknownCommon) ∧
          (blockSync applies n fin myMhp q best peer).chain = q ∧
          (blockSync applies n fin myMhp q best peer).temp = []) ∨
       (e = .deleteFailed ∧ (blockSync applies n fin myMhp q best peer).chain = q.take (fin + 1) ∧
          (blockSync applies n fin myMhp q best peer).temp = q.drop (fin + 1)) ∨
       ((e = .invalidBlock ∨ e = .applyFailed ∨ e = .download) ∧
          ∃ cid ch app, heightOf q cid = some ch ∧ fin ≤ ch ∧
            (blockSync applies n fin myMhp q best peer).chain = q.take (ch + 1) ++ app ∧
            (blockSync applies n fin myMhp q best peer).temp = q.drop (ch + 1) ∧
            Linked cid ch app ∧ (∀ b ∈ app, b.ok = true) ∧ Accepted applies (q.take (ch + 1)) app))) :=
  block_sync_outcomes_aux applies n fin myMhp q best peer _ rfl

end BlockSync

section BlockStates
variable {ι : Type} [DecidableEq ι]

/-- **Block sync never touches finalized blocks — in every intermediate state.**  `blockSyncStates`
lists the chain after every single block deletion / application of the round.  For EVERY peer and
processor the list ends in the chain `blockSync` computes, consecutive states differ by one block at
the tip, and every state starts with the requester's blocks up to the finalized height — also when
the peer names a common block below the finalized height (the deletion then stops at the finalized
block). -/
theorem C19_block_sync_states (applies : List (Blk ι) → Blk ι → Bool) (n fin myMhp : Nat)
    (q : List (Blk ι)) (best : Tip ι) (peer : Peer ι) (hfin : fin < q.length) :
    (blockSyncStates applies n fin myMhp q best peer).getLastD q
      = (blockSync applies n fin myMhp q best peer).chain ∧
    OneBlockSteps q (blockSyncStates applies n fin myMhp q best peer) ∧
    ∀ s ∈ blockSyncStates applies n fin myMhp q best peer, s.take (fin + 1) = q.take (fin + 1) := by
  have triv : ∀ P : List (Blk ι) → Prop, Run P q [] q := fun P => run_nil P q
  show Run (fun s => s.take (fin + 1) = q.take (fin + 1)) q _ _
  simp only [blockSync, blockSyncStates]
  by_cases h1 : (!isDifferentChain myMhp best.mhp (q.length - 1) best.height) = true
  · simp only [h1, if_true]; exact triv _
  · simp only [h1, Bool.false_eq_true, if_false]
    cases hl : peer.last with
    | none => simp only; exact triv _
    | some lp =>
      obtain ⟨last, lastMhp⟩ := lp
      simp only
      by_cases h2 : (!last.ok) = true
      · simp only [h2, if_true]; exact triv _
      · simp only [h2, Bool.false_eq_true, if_false]
        by_cases h3 : (!isDifferentChain myMhp lastMhp (q.length - 1) last.height) = true
        · simp only [h3, if_true]; exact triv _
        · simp only [h3, Bool.false_eq_true, if_false]
          cases hcs : commonSearch n fin q peer 3 (getCommonBlockStartSearchHeight (q.length - 1) n) with
          | error e => simp only; exact triv _
          | ok ch =>
            simp only
            obtain ⟨cid, hch⟩ := commonSearch_ok_height q peer n fin _ _ ch hcs
            have hlt := heightOf_lt_length q cid ch hch
            by_cases h4 : ch < fin
            · simp only [h4, if_true]
              have := run_walk q (fin + 1) [] fin (Nat.le_refl _) (by omega)
              rw [List.append_nil] at this
              exact this
            · simp only [h4, if_false]
              have hbase : (q.take (ch + 1)).length = ch + 1 := by rw [List.length_take]; omega
              generalize hst : streamApply applies (q.take (ch + 1)) _ = res
              obtain ⟨c', r⟩ := res
              obtain ⟨app, hc'⟩ := streamApply_prefix applies _ _ _ _ hst
              have hdrop : c'.drop (ch + 1) = app := by rw [hc']; exact List.drop_left' hbase
              have hrun : Run (fun s => s.take (fin + 1) = q.take (fin + 1)) q
                  (walk q (ch + 1) (c'.drop (ch + 1))) c' := by
                have := run_walk q (ch + 1) (c'.drop (ch + 1)) fin (by omega) (by omega)
                rw [hdrop, ← hc'] at this
                rw [hdrop]; exact this
              cases r with
              | none => simp only [apply_ite Out.chain, ite_self]; exact hrun
              | some e => cases e <;> exact hrun

end BlockStates

/-! ## 7. The block synchroniser against an honest peer on any fork -/

section BlockHonest
variable {ι : Type} [DecidableEq ι]

private theorem startSearch_le (h r : Nat) : getCommonBlockStartSearchHeight h r ≤ h := by
  by_cases hr : 0 < r
  · exact (C19_heights_arith.2.2 h r hr).1
  · have : r = 0 := by omega
    subst this
    simp [getCommonBlockStartSearchHeight]

/-- what happens once the search has returned a height `ch` in the common part -/
private theorem block_sync_honest_tail (applies : List (Blk ι) → Blk ι → Bool) (mhp : Nat)
    (com qOwn s' : List (Blk ι)) (e : Blk ι)
    (hf : Fork com qOwn (s' ++ [e])) (hchain : ChainOK (com ++ (s' ++ [e])))
    (hvalid : ValidChain applies (com ++ (s' ++ [e]))) (hok : ∀ b ∈ com ++ (s' ++ [e]), b.ok = true)
    (ch : Nat) (hlt : ch < com.length) :
    (com ++ qOwn)[ch]? = some com[ch] ∧
    download (honest (com ++ (s' ++ [e])) mhp).segment com[ch].id ch e.id e.height
      = (com.drop (ch + 1) ++ s' ++ [e], true) ∧
    streamApply applies ((com ++ qOwn).take (ch + 1)) (com.drop (ch + 1) ++ s' ++ [e])
      = (com ++ (s' ++ [e]), none) := by
  have hcom : com = com.take ch ++ com[ch] :: com.drop (ch + 1) := by simp
  have hp : com ++ (s' ++ [e]) = com.take ch ++ com[ch] :: ((com.drop (ch + 1) ++ s') ++ [e]) := by
    conv => lhs; rw [hcom]
    simp only [List.append_assoc, List.cons_append]
  refine ⟨by rw [List.getElem?_append_left hlt, List.getElem?_eq_getElem hlt], ?_, ?_⟩
  · have := download_honest (com ++ (s' ++ [e])) mhp hf.ndp hchain (com.take ch) com[ch]
      (com.drop (ch + 1) ++ s') e hp
    rw [List.length_take, Nat.min_eq_left (by omega)] at this
    exact this
  · have htake : (com ++ qOwn).take (ch + 1) = com.take (ch + 1) :=
      List.take_append_of_le_length (by omega)
    rw [htake]
    apply streamApply_valid applies _ _ _ hvalid
    · rw [List.append_assoc, ← List.append_assoc (com.take (ch + 1)), List.take_append_drop]
    · intro h
      have := congrArg List.length h
      simp only [List.length_take, List.length_nil] at this
      omega
    · intro b hb
      apply hok b
      simp only [List.mem_append, List.mem_singleton] at hb ⊢
      rcases hb with (hb | hb) | hb
      · exact Or.inl (List.mem_of_mem_drop hb)
      · exact Or.inr (Or.inl hb)
      · exact Or.inr (Or.inr hb)

/-- **Block sync with an honest peer: the peer's chain or the original chain, nothing else.**
The requester is on `com ++ qOwn`, an honest responder on `com ++ pOwn` — ANY fork: no bound on the
lengths of the common part or of the two own parts (`pOwn` non-empty; block ids unique; no block of
`qOwn` on the responder's chain).  The responder's chain is linked, valid for the processor and its
blocks pass `Validate()`.  Then one round of the block synchroniser either ends with the requester on
EXACTLY the responder's chain (no error, nobody banned, temp table empty — however many responses
of 103 blocks the download takes), or leaves the requester on exactly its original chain with an
empty temp table, and the only possible reasons are: the sync condition does not hold for the
reported tip / for the responder's last block, or none of the (at most three) rounds of sampled
heights hit the common part.  In particular a common block found with an honest peer is never below
the finalized height, and no partial state is left behind. -/
theorem C19_block_sync_honest (applies : List (Blk ι) → Blk ι → Bool) (n fin myMhp mhp : Nat)
    (com qOwn pOwn : List (Blk ι)) (best : Tip ι)
    (hf : Fork com qOwn pOwn) (hne : pOwn ≠ [])
    (hchain : ChainOK (com ++ pOwn)) (hvalid : ValidChain applies (com ++ pOwn))
    (hok : ∀ b ∈ com ++ pOwn, b.ok = true)
    (hov : fin + 10 * n < two32) (hlen : (com ++ qOwn).length ≤ two32) :
    blockSync applies n fin myMhp (com ++ qOwn) best (honest (com ++ pOwn) mhp)
      = ⟨com ++ pOwn, [], false, none⟩ ∨
    ((blockSync applies n fin myMhp (com ++ qOwn) best (honest (com ++ pOwn) mhp)).chain = com ++ qOwn ∧
     (blockSync applies n fin myMhp (com ++ qOwn) best (honest (com ++ pOwn) mhp)).temp = [] ∧
     ((blockSync applies n fin myMhp (com ++ qOwn) best (honest (com ++ pOwn) mhp)).err = some .notDifferent ∨
      (blockSync applies n fin myMhp (com ++ qOwn) best (honest (com ++ pOwn) mhp)).err = some .noPriority ∨
      (blockSync applies n fin myMhp (com ++ qOwn) best (honest (com ++ pOwn) mhp)).err = some .noCommon ∨
      (blockSync applies n fin myMhp (com ++ qOwn) best (honest (com ++ pOwn) mhp)).err = some .requestFailed)) := by
  obtain ⟨s', e, hpo⟩ : ∃ s' e, pOwn = s' ++ [e] := ⟨_, _, (List.dropLast_concat_getLast hne).symm⟩
  subst hpo
  have hlast : (honest (com ++ (s' ++ [e])) mhp).last = some (e, mhp) := by
    simp [honest, handleLastBlock]
  have heok : e.ok = true := hok e (by simp)
  simp only [blockSync, hlast]
  by_cases h1 : (!isDifferentChain myMhp best.mhp ((com ++ qOwn).length - 1) best.height) = true
  · simp only [h1, if_true]; right; simp
  · simp only [h1, Bool.false_eq_true, if_false, heok, Bool.not_true]
    by_cases h3 : (!isDifferentChain myMhp mhp ((com ++ qOwn).length - 1) e.height) = true
    · simp only [h3, if_true]; right; simp
    · simp only [h3, Bool.false_eq_true, if_false]
      cases hcs : commonSearch n fin (com ++ qOwn) (honest (com ++ (s' ++ [e])) mhp) 3
          (getCommonBlockStartSearchHeight ((com ++ qOwn).length - 1) n) with
      | error e' =>
        right
        rcases commonSearch_honest_err _ _ mhp n fin _ _ e' hcs with h | h <;> subst h <;> simp
      | ok ch =>
        left
        have hstart : getCommonBlockStartSearchHeight ((com ++ qOwn).length - 1) n < two32 := by
          have := startSearch_le ((com ++ qOwn).length - 1) n
          have h2 : 0 < two32 := by unfold two32; omega
          omega
        obtain ⟨hlt, hge⟩ := commonSearch_honest_ok com qOwn (s' ++ [e]) hf mhp n fin hov 3 _ hstart ch hcs
        obtain ⟨t1, t2, t3⟩ := block_sync_honest_tail applies mhp com qOwn s' e hf hchain hvalid hok ch hlt
        have h4 : ¬ ch < fin := by omega
        simp only [h4, if_false, t1, t2, t3, if_true]

/-- **Convergence of block sync.**  In the situation of `C19_block_sync_honest`, if the sync condition
holds for the tip reported during peer selection and for the responder's last block, and one of the
heights sampled in the FIRST round of the common-block search lies in the common part (for instance
when the fork is above the start of the previous round, or not below the finalized block while the
search starts at or below it), the requester ends on exactly the responder's chain. -/
theorem C19_block_sync_converges (applies : List (Blk ι) → Blk ι → Bool) (n fin myMhp mhp : Nat)
    (com qOwn pOwn : List (Blk ι)) (best : Tip ι)
    (hf : Fork com qOwn pOwn) (hne : pOwn ≠ [])
    (hchain : ChainOK (com ++ pOwn)) (hvalid : ValidChain applies (com ++ pOwn))
    (hok : ∀ b ∈ com ++ pOwn, b.ok = true)
    (hov : fin + 10 * n < two32) (hlen : (com ++ qOwn).length ≤ two32)
    (hd1 : isDifferentChain myMhp best.mhp ((com ++ qOwn).length - 1) best.height = true)
    (hd2 : isDifferentChain myMhp mhp ((com ++ qOwn).length - 1) ((com ++ pOwn).length - 1) = true)
    (hit : (∃ h ∈ getHeightWithGap (getCommonBlockStartSearchHeight ((com ++ qOwn).length - 1) n) fin n 10,
        h < com.length) ∨
      (getCommonBlockStartSearchHeight ((com ++ qOwn).length - 1) n < com.length ∧ fin < com.length)) :
    blockSync applies n fin myMhp (com ++ qOwn) best (honest (com ++ pOwn) mhp)
      = ⟨com ++ pOwn, [], false, none⟩ := by
  have hstart : getCommonBlockStartSearchHeight ((com ++ qOwn).length - 1) n < two32 := by
    have := startSearch_le ((com ++ qOwn).length - 1) n
    have h2 : 0 < two32 := by unfold two32; omega
    omega
  have hit' : ∃ h ∈ getHeightWithGap (getCommonBlockStartSearchHeight ((com ++ qOwn).length - 1) n) fin n 10,
      h < com.length := by
    rcases hit with h | ⟨h1, h2⟩
    · exact h
    · rcases getHeightWithGap_ne_nil (getCommonBlockStartSearchHeight ((com ++ qOwn).length - 1) n) fin n 10
        (by omega) hstart with h | ⟨_, h⟩
      · exact ⟨_, h, h1⟩
      · exact ⟨fin, by rw [h]; exact List.mem_singleton.mpr rfl, h2⟩
  obtain ⟨s', e, hpo⟩ : ∃ s' e, pOwn = s' ++ [e] := ⟨_, _, (List.dropLast_concat_getLast hne).symm⟩
  subst hpo
  obtain ⟨ch, hcs⟩ := commonSearch_honest_hit com qOwn (s' ++ [e]) mhp n fin 2 _ hit'
  have hcs' : commonSearch n fin (com ++ qOwn) (honest (com ++ (s' ++ [e])) mhp) 3
      (getCommonBlockStartSearchHeight ((com ++ qOwn).length - 1) n) = .ok ch := hcs
  have hlast : (honest (com ++ (s' ++ [e])) mhp).last = some (e, mhp) := by
    simp [honest, handleLastBlock]
  have heok : e.ok = true := hok e (by simp)
  have heh : e.height = (com ++ (s' ++ [e])).length - 1 := by
    have hp' : com ++ (s' ++ [e]) = (com ++ s') ++ e :: [] := by simp
    have := (chainOK_split _ _ e [] hchain hp').1
    rw [this]; simp
  rw [← heh] at hd2
  obtain ⟨hlt, hge⟩ := commonSearch_honest_ok com qOwn (s' ++ [e]) hf mhp n fin hov 3 _ hstart ch hcs'
  obtain ⟨t1, t2, t3⟩ := block_sync_honest_tail applies mhp com qOwn s' e hf hchain hvalid hok ch hlt
  have h4 : ¬ ch < fin := by omega
  simp only [blockSync, hlast, hd1, hd2, heok, hcs', Bool.not_true, Bool.false_eq_true, if_false, h4,
    t1, t2, t3, if_true]

end BlockHonest

/-! ## 8. The order of the blocks inside a response does not matter -/

section ResponseOrder
variable {ι : Type} [DecidableEq ι]

private theorem sortAsc_eq_nil {l : List (Blk ι)} (h : sortAsc l = []) : l = [] := by
  have := (sortAsc_perm l).length_eq
  rw [h] at this
  exact List.length_eq_zero_iff.mp this.symm

private theorem dlLoop_congr (seg seg' : ι → Option (List (Blk ι)))
    (hseg : ∀ i, (seg i).map sortAsc = (seg' i).map sortAsc) (endId : ι) (endH fuel : Nat) (lid : ι) (lh : Nat) :
    dlLoop seg endId endH fuel lid lh = dlLoop seg' endId endH fuel lid lh := by
  induction fuel generalizing lid lh with
  | zero => rfl
  | succ f ih =>
    have h := hseg lid
    cases h1 : seg lid with
    | none =>
      cases h2 : seg' lid with
      | none => simp only [dlLoop, h1, h2]
      | some L' => rw [h1, h2] at h; cases h
    | some L =>
      cases h2 : seg' lid with
      | none => rw [h1, h2] at h; cases h
      | some L' =>
        rw [h1, h2] at h
        simp only [Option.map_some, Option.some.injEq] at h
        by_cases hL : L = []
        · subst hL
          have : L' = [] := sortAsc_eq_nil (by rw [← h]; rfl)
          subst this
          simp only [dlLoop, h1, h2]
        · have hL' : L' ≠ [] := by
            intro h'; subst h'
            exact hL (sortAsc_eq_nil (by rw [h]; rfl))
          rw [dlLoop_step seg endId endH f lid lh L h1 hL, dlLoop_step seg' endId endH f lid lh L' h2 hL', h]
          generalize scanSeg endId endH (sortAsc L') lid lh = res
          rcases res with ⟨em, sc⟩
          cases sc with
          | fin => rfl
          | bad => rfl
          | cont l' h' => simp only [ih l' h']

/-- **Response order is irrelevant.**  Two peers whose responses contain the same blocks, listed in
any order (blocks of one response have pairwise different heights), drive the downloader to the same
result: the sort by height in `Downloader.Start` (and `GetBlocksBetweenHeight`'s own sort on the
responder side, whose goroutines finish in any order) makes the list order immaterial. -/
theorem C19_download_response_order_irrelevant (seg seg' : ι → Option (List (Blk ι)))
    (hsame : ∀ i, match seg i, seg' i with
      | some L, some L' => L.Perm L' ∧ L.Pairwise (fun a b => a.height ≠ b.height)
      | none, none => True
      | _, _ => False)
    (startId : ι) (startH : Nat) (endId : ι) (endH : Nat) :
    download seg startId startH endId endH = download seg' startId startH endId endH := by
  unfold download
  apply dlLoop_congr
  intro i
  have h := hsame i
  cases h1 : seg i with
  | none => cases h2 : seg' i with
    | none => rfl
    | some L' => rw [h1, h2] at h; exact absurd h (by simp)
  | some L => cases h2 : seg' i with
    | none => rw [h1, h2] at h; exact absurd h (by simp)
    | some L' =>
      rw [h1, h2] at h
      obtain ⟨hp, hd⟩ := h
      simp only [Option.map_some, Option.some.injEq]
      -- both sorted lists are ascending permutations of `L`, and heights identify the blocks of `L`
      have hinj : ∀ a ∈ L, ∀ b ∈ L, a.height = b.height → a = b := by
        intro a ha b hb hab
        apply Classical.byContradiction
        intro hne
        rcases List.mem_iff_append.mp ha with ⟨l1, l2, hL⟩
        rw [hL] at hb hd
        rcases List.mem_append.mp hb with hb1 | hb2
        · have := (List.pairwise_append.mp hd).2.2 b hb1 a List.mem_cons_self
          exact this hab.symm
        · rcases List.mem_cons.mp hb2 with h | h
          · exact hne h.symm
          · have := (List.pairwise_cons.mp (List.pairwise_append.mp hd).2.1).1 b h
            exact this hab
      have hperm : (sortAsc L).Perm (sortAsc L') :=
        (sortAsc_perm L).trans (hp.trans (sortAsc_perm L').symm)
      apply List.Perm.eq_of_pairwise (le := fun a b : Blk ι => a.height ≤ b.height) _
        (sortAsc_pairwise L) (sortAsc_pairwise L') hperm
      intro a b ha hb h1 h2
      exact hinj a ((sortAsc_perm L).mem_iff.mp ha) b (hp.mem_iff.mpr ((sortAsc_perm L').mem_iff.mp hb)) (by omega)

end ResponseOrder

/-! ## 9. Concrete runs (non-vacuity) -/

/-- a responder that is honest about its last block and the common block but truncates the
download: it serves the blocks up to `b2`, then its requests fail -/
def C19truncPeer : Peer Nat :=
  { (honest [C19g, C19b1, C19b2, C19b3] 1) with
    segment := fun i => if i = 0 then some [C19b1, C19b2] else if i = 1 then some [C19b2] else none }

/-- block sync with an honest responder: the requester ends on the responder's chain -/
example : C19outcome (blockSync C19applies 2 0 0 [C19g, C19b1, C19q2] ⟨0, 3, 1, 3⟩
      (honest [C19g, C19b1, C19b2, C19b3] 1))
    = ([C19g, C19b1, C19b2, C19b3], [], false, none) := by decide

/-- block sync with the truncating responder: case 4 of `C19_block_sync_outcomes`.  The sampled common
block is the genesis block (the search starts at the beginning of the previous round), so `b1` and
`q2` are deleted; the requester is left on the common block plus the two downloaded blocks — neither
its original chain nor the responder's — and the deleted blocks are in the temp table. -/
example : C19outcome (blockSync C19applies 2 0 0 [C19g, C19b1, C19q2] ⟨0, 3, 1, 3⟩ C19truncPeer)
    = ([C19g, C19b1, C19b2], [C19b1, C19q2], false, some .download) := by decide

/-- fast sync with the truncating responder: nothing is deleted, the chain is the original one -/
example : C19outcome (fastSync C19applies (fun _ => 0) 2 0 [C19g, C19b1, C19q2] C19b3 C19truncPeer)
    = ([C19g, C19b1, C19q2], [], false, some .download) := by decide

/-- the intermediate states of a successful and of a restored fast sync round -/
example : fastSyncStates C19applies (fun _ => 0) 2 0 [C19g, C19b1, C19q2] C19b3
      (honest [C19g, C19b1, C19b2, C19b3] 1)
    = [[C19g, C19b1], [C19g, C19b1, C19b2], [C19g, C19b1, C19b2, C19b3]] := by decide
example : fastSyncStates (fun c x => C19applies c x && x.id != 3) (fun _ => 0) 2 0
      [C19g, C19b1, C19q2] C19b3 (honest [C19g, C19b1, C19b2, C19b3] 1)
    = [[C19g, C19b1], [C19g, C19b1, C19b2], [C19g, C19b1], [C19g, C19b1, C19q2]] := by decide
example : blockSyncStates C19applies 2 0 0 [C19g, C19b1, C19q2] ⟨0, 3, 1, 3⟩ C19truncPeer
    = [[C19g, C19b1], [C19g], [C19g, C19b1], [C19g, C19b1, C19b2]] := by decide

/-- the hypotheses of `C19_block_sync_converges` are satisfiable: the fork `g b1 | q2` / `g b1 | b2 b3` -/
example : Fork [C19g, C19b1] [C19q2] [C19b2, C19b3] := ⟨by decide, by decide, by decide⟩
example : ∃ h ∈ getHeightWithGap (getCommonBlockStartSearchHeight 2 2) 0 2 10, h < 2 := ⟨0, by decide, by decide⟩

/-! ## 10. `Syncer.Sync` as a whole -/

/-- whichever synchroniser `Syncer.Sync` chooses (or none), against every peer, the requester's
blocks up to the finalized height stay in place -/
theorem C19_sync_top_keeps_finalized {ι : Type} [DecidableEq ι] (applies : List (Blk ι) → Blk ι → Bool)
    (finAfter : List (Blk ι) → Nat) (n fin myMhp : Nat) (q : List (Blk ι)) (target : Blk ι)
    (targetMhp : Nat) (genIn stale : Bool) (peer : Peer ι) (hfin : fin < q.length) :
    (syncTop applies finAfter n fin myMhp q target targetMhp genIn stale peer).chain.take (fin + 1)
      = q.take (fin + 1) := by
  unfold syncTop
  split
  · rfl
  · split
    · exact (C19_sync_keeps_finalized applies finAfter n fin myMhp q target ⟨0, 0, 0, target.id⟩ peer hfin).1
    · exact (C19_sync_keeps_finalized applies finAfter n fin myMhp q target
        ⟨0, target.height, targetMhp, target.id⟩ peer hfin).2
    · rfl
