/-
C18 — tie of `Model/ConnGater.lean` and `Model/RateLimit.lean` to the Go source: the integer
decisions of pkg/p2p (conngater.go, peer.go, ratelimit.go) are REGENERATED from the Go source on every
run by tools/fngen (typed translation, `LiskVerif/Gen/Fns2.lean`) with the exact semantics of Go's
`int`/`int64` (two's complement wrap `Gen.i64`):

* constants `MaxPenaltyScore`, `defaultRateLimit`, `defaultRateLimitPenalty`;
* `connectionGater.addPenalty`: the new score `info.score + score` (`Gen.cgNewScore`), the ban
  threshold `newScore >= MaxPenaltyScore` (`Gen.cgBanDue`), the expiry time
  `time.Now().Unix() + int64(cg.expiration.Seconds())` (`Gen.cgExpirationTime`);
* the expiry loop of `connectionGater.start` (`Gen.cgExpired`), `listBannedPeers` (`Gen.cgListed`);
* `Peer.addPenalty`: `newScore >= MaxPenaltyScore` (`Gen.peerDisconnectDue`);
* `rateLimit.checkLimit`: `msgCounter.counters[peerID] > msgCounter.limit` (`Gen.rateLimitExceeded`).

The model uses unbounded `Int`; the theorems state the int64 range in which model and code agree, and
`C18_gen_new_score_wraps` shows what happens outside it (needs an accumulated score of 2^63, not
reachable with the penalties the node applies: each is at most `MaxPenaltyScore`).
-/
import LiskVerif.Model.RateLimit
import LiskVerif.Lemmas.GenInt

open LiskVerif LiskVerif.ConnGater LiskVerif.RateLimit

/-! ### constants -/

theorem C18_gen_constants :
    Gen.maxPenaltyScore = ConnGater.maxPenaltyScore ∧
    Gen.defaultRateLimit = RateLimit.defaultRateLimit ∧
    Gen.defaultRateLimitPenalty = RateLimit.defaultRateLimitPenalty := ⟨rfl, rfl, rfl⟩

/-! ### connectionGater.addPenalty -/

/-- the regenerated sum is the model's `i.score + score` whenever that sum is an int64 -/
theorem C18_gen_new_score_eq (old score : Int)
    (h1 : -9223372036854775808 ≤ old + score) (h2 : old + score < 9223372036854775808) :
    Gen.cgNewScore old score = old + score := by
  unfold Gen.cgNewScore
  exact Gen.i64_eq h1 h2

/-- outside the range the Go sum wraps to a negative score (the peer would not be banned), the model
does not: accumulated score `2^63 - 1` plus a penalty of 1 -/
theorem C18_gen_new_score_wraps :
    Gen.cgNewScore 9223372036854775807 1 = -9223372036854775808 ∧
    Gen.cgBanDue (Gen.cgNewScore 9223372036854775807 1) = false ∧
    decide ((9223372036854775807 : Int) + 1 ≥ ConnGater.maxPenaltyScore) = true := by
  refine ⟨by decide +kernel, by decide +kernel, by decide +kernel⟩

/-- the regenerated threshold comparison is the model's `newScore ≥ maxPenaltyScore` -/
theorem C18_gen_ban_due_eq (newScore : Int) :
    Gen.cgBanDue newScore = decide (newScore ≥ ConnGater.maxPenaltyScore) := by
  unfold Gen.cgBanDue ConnGater.maxPenaltyScore
  rfl

/-- the regenerated expiry time is the model's `now + expSecs` while that is an int64 -/
theorem C18_gen_expiration_time_eq (now expSecs : Nat) (h : now + expSecs < 9223372036854775808) :
    Gen.cgExpirationTime (now : Int) (expSecs : Int) = ((now + expSecs : Nat) : Int) := by
  unfold Gen.cgExpirationTime
  rw [Gen.i64_eq (by omega) (by omega)]
  omega

/-- **`ConnGater.addPenalty` is the regenerated arithmetic** around the map update: for a started gater
and an address with an IP, with the accumulated score and the expiry time inside the int64 range. -/
theorem C18_gen_addPenalty_eq (g : Gater) (now : Nat) (addr : Addr) (score : Int) (ip : IP)
    (hs : g.started = true) (hip : addr.ip = some ip)
    (hsc : ∀ i, find g.peerScore ip = some i →
      -9223372036854775808 ≤ i.score + score ∧ i.score + score < 9223372036854775808)
    (ht : now + g.expSecs < 9223372036854775808) :
    addPenalty g now addr score =
      (let old := find g.peerScore ip
       let newScore := match old with | some i => Gen.cgNewScore i.score score | none => score
       let oldExp := match old with | some i => i.expiration | none => -1
       let exp : Int := if Gen.cgBanDue newScore = true then Gen.cgExpirationTime (now : Int) (g.expSecs : Int) else oldExp
       ({ g with peerScore := put g.peerScore ip ⟨newScore, exp⟩ }, .ok newScore)) := by
  unfold addPenalty
  simp only [hs, hip, Bool.not_true, Bool.false_eq_true, ↓reduceIte, C18_gen_ban_due_eq,
    C18_gen_expiration_time_eq now g.expSecs ht, decide_eq_true_eq]
  cases hf : find g.peerScore ip with
  | none => rfl
  | some i =>
    have := hsc i hf
    simp only [C18_gen_new_score_eq i.score score this.1 this.2]

/-! ### expiry loop, listBannedPeers -/

/-- the regenerated condition of the expiry loop is `ConnGater.expired` -/
theorem C18_gen_expired_eq (now : Nat) (i : PeerInfo) :
    Gen.cgExpired (now : Int) i.expiration = expired now i := by
  unfold Gen.cgExpired expired
  by_cases h : i.expiration = -1 <;> simp [h]

/-- the regenerated condition of `listBannedPeers` is `PeerInfo.banned` -/
theorem C18_gen_listed_eq (i : PeerInfo) : Gen.cgListed i.expiration = i.banned := by
  unfold Gen.cgListed PeerInfo.banned
  by_cases h : i.expiration = -1 <;> simp [h]

/-! ### Peer.addPenalty -/

/-- **`ConnGater.peerAddPenalty` disconnects exactly when the regenerated comparison of
`Peer.addPenalty` holds** -/
theorem C18_gen_peerAddPenalty_eq (g : Gater) (now : Nat) (addr : Addr) (score : Int) :
    peerAddPenalty g now addr score =
      match addPenalty g now addr score with
      | (g', .error e) => (g', .err e)
      | (g', .ok newScore) =>
        if Gen.peerDisconnectDue newScore = true then
          match addr.pid with
          | none => (g', .err .noPeerID)
          | some p => (g', .ok (some p))
        else (g', .ok none) := by
  unfold peerAddPenalty
  have h : ∀ s : Int, (Gen.peerDisconnectDue s = true) = (s ≥ ConnGater.maxPenaltyScore) := by
    intro s
    unfold Gen.peerDisconnectDue ConnGater.maxPenaltyScore
    simp
  rcases addPenalty g now addr score with ⟨g', r⟩
  cases r with
  | error e => rfl
  | ok ns =>
    simp only [h]
    by_cases hc : ns ≥ ConnGater.maxPenaltyScore <;> simp only [hc, ↓reduceIte] <;> rfl

/-! ### rateLimit.checkLimit -/

/-- the regenerated comparison of `checkLimit` -/
theorem C18_gen_rate_limit_exceeded_eq (count : Nat) (limit : Int) :
    Gen.rateLimitExceeded (count : Int) limit = decide ((count : Int) > limit) := rfl

/-- **`RateLimit.checkLimit` penalises exactly when the regenerated comparison holds** -/
theorem C18_gen_checkLimit_eq (n : Node) (now : Nat) (proc : String) (pid : Nat) (addr : Addr) :
    checkLimit n now proc pid addr =
      if !n.mpStarted then (n, .notStarted, none) else
      match findCounter n.counters proc with
      | none => (n, .unknownProc, none)
      | some c =>
        if Gen.rateLimitExceeded (getCount c.counts pid : Int) c.limit = true then
          match nodeAddPenalty n now (withPid addr pid) c.penalty with
          | (n', .err e) => (n', .penErr e, some (.err e))
          | (n', o) =>
            ({ n' with counters := updCounter n'.counters proc fun c =>
                { c with counts := setCount c.counts pid 0 } }, .ok, some o)
        else (n, .ok, none) := by
  unfold checkLimit
  simp only [C18_gen_rate_limit_exceeded_eq, decide_eq_true_eq]
  cases n.mpStarted
  · rfl
  · cases findCounter n.counters proc with
    | none => rfl
    | some c =>
      by_cases hc : (getCount c.counts pid : Int) > c.limit <;> simp only [hc, ↓reduceIte] <;> rfl

/-! ### non-vacuity -/

example : Gen.cgBanDue 99 = false ∧ Gen.cgBanDue 100 = true ∧ Gen.cgNewScore 90 10 = 100 ∧
    Gen.cgExpirationTime 1000 60 = 1060 ∧ Gen.cgExpired 1061 1060 = true ∧ Gen.cgExpired 1060 1060 = false ∧
    Gen.cgExpired 5 (-1) = false ∧ Gen.cgListed (-1) = false ∧ Gen.cgListed 7 = true ∧
    Gen.rateLimitExceeded 101 100 = true ∧ Gen.rateLimitExceeded 100 100 = false := by decide +kernel

/-- instance of `C18_gen_addPenalty_eq`: the tenth penalty of 10 bans -/
example : (addPenalty { expSecs := 60, started := true, peerScore := [([1], ⟨90, -1⟩)] } 1000 ⟨some [1], none⟩ 10).2 = .ok 100 := by
  rw [C18_gen_addPenalty_eq _ 1000 ⟨some [1], none⟩ 10 [1] rfl rfl (by
    intro i hi
    have : i = ⟨90, -1⟩ := by
      simp [find] at hi
      exact hi.symm
    subst this
    decide) (by decide)]
  simp [find, Gen.cgNewScore, Gen.i64]
