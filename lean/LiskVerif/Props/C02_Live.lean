/-
C02 — liveness half: "in a fault-free round-robin run every block becomes final within two voting
quorums of blocks", proved about the unbounded specification `Model/BFTSpec.lean` for EVERY number
`n ≥ 1` of validators, and transferred to the windowed transcription `Model/BFT.lean` of the Go module
for runs that fit into the window (`C02_round_robin_finality_model`).

The run. `cfg : Cfg` has `n = cfg.validators.length ≥ 1` validators of weight 1 with pairwise distinct
addresses, genesis height `g`, precommit threshold `p ≤ n`; the prevote threshold is
`q = ⌊2n/3⌋+1` (`SetBFTParameters`). The block with 0-based index `k` (height `g + k + 1`) is generated
by the validator at position `k % n`; its `maxHeightGenerated` is the height `g + k + 1 - n` of the
previous block of that validator, and a value `m0 ≤ g` in the validator's first block (`k < n`;
lisk-engine reports 0, the genesis height serves as well; every `m0 ≤ g` makes the chain valid and
yields the same votes); its `maxHeightPrevoted` is the specification's `maxHeightPrevoted` of the view
of its parent (`C02_round_robin_fields`). `C02rrChain cfg m0 L` is the chain of the first `L` blocks,
oldest first (`C02_round_robin_chain_shape`).

Exact offsets (found by evaluating the specification for n = 3, 4, 5, 7, see the examples at the
end, then proved in closed form, `C02_round_robin_heights_exact`): after the block at height `H`
  maxHeightPrevoted     = H − q + 1      (if H ≥ g + q,     else g)
  maxHeightPrecommitted = H − q − p + 1  (if H ≥ g + q + p, else g),
i.e. the block at height `h` is prevoted exactly from the block at height `h + q − 1` on and
precommitted (final) exactly from the block at height `h + q + p − 1` on — `q + p − 1 ≤ 2n − 1` blocks
after `h`, "within two voting quorums".

Lemma proofs are in `Lemmas/BFTLive.lean`.
-/
import LiskVerif.Lemmas.BFTLive
import LiskVerif.Props.C01_Safety

open LiskVerif LiskVerif.BFT LiskVerif.BFTSpec

/-! ### the run -/

/-- the round-robin chain of the first `L` blocks, OLDEST first -/
def C02rrChain (cfg : Cfg) (m0 L : Nat) : List Header := (rrChain cfg m0 L).reverse

/-- the chain is the list of the headers `rrHdr cfg m0 k`, `k = 0, …, L-1`: height `g + k + 1`,
generator = validator number `k % n`, `maxHeightGenerated = if k < n then m0 else g + k + 1 - n`,
`maxHeightPrevoted = if q ≤ k then g + k + 1 - q else g` -/
theorem C02_round_robin_chain_shape (cfg : Cfg) (m0 L : Nat) :
    C02rrChain cfg m0 L = (List.range L).map (rrHdr cfg m0) ∧
    ∀ k, rrHdr cfg m0 k =
      { height := cfg.genesis + k + 1
        gen := (cfg.validators.getD (k % cfg.validators.length) ⟨[], 0⟩).address
        mhg := if k < cfg.validators.length then m0 else cfg.genesis + k + 1 - cfg.validators.length
        mhp := if prevoteThreshold cfg ≤ k then cfg.genesis + k + 1 - prevoteThreshold cfg
               else cfg.genesis } := by
  refine ⟨?_, fun _ => rfl⟩
  unfold C02rrChain
  induction L with
  | zero => rfl
  | succ L ih => rw [rrChain_succ, List.reverse_cons, ih, List.range_succ, List.map_append]; rfl

private theorem mkRR (cfg : Cfg) (m0 : Nat) (hn : 1 ≤ cfg.validators.length)
    (hw : ∀ v ∈ cfg.validators, v.weight = 1) (hd : (cfg.validators.map (·.address)).Nodup)
    (hm : m0 ≤ cfg.genesis) : RR cfg m0 := ⟨hn, hw, hd, hm⟩

private theorem q_eq (cfg : Cfg) (hw : ∀ v ∈ cfg.validators, v.weight = 1) :
    prevoteThreshold cfg = cfg.validators.length * 2 / 3 + 1 := by
  unfold prevoteThreshold totalWeight
  rw [sum_map_weight_eq_length _ hw]

/-- The header fields of the run are truthful. `maxHeightPrevoted` of block `k` is the
specification's `maxHeightPrevoted` after its parent chain; `maxHeightGenerated` is the height of the
most recent earlier block of the same generator (block `k - n`; no block in between is by that
generator), and `m0` when the generator has no earlier block. -/
theorem C02_round_robin_fields (cfg : Cfg) (m0 : Nat) (hn : 1 ≤ cfg.validators.length)
    (hw : ∀ v ∈ cfg.validators, v.weight = 1) (hd : (cfg.validators.map (·.address)).Nodup)
    (hm : m0 ≤ cfg.genesis) (k : Nat) :
    (rrHdr cfg m0 k).mhp = (specHeights cfg (C02rrChain cfg m0 k)).1 ∧
    (cfg.validators.length ≤ k →
      (rrHdr cfg m0 k).mhg = (rrHdr cfg m0 (k - cfg.validators.length)).height ∧
      (rrHdr cfg m0 (k - cfg.validators.length)).gen = (rrHdr cfg m0 k).gen) ∧
    (k < cfg.validators.length → (rrHdr cfg m0 k).mhg = m0) ∧
    (∀ k', k' < k → k - cfg.validators.length < k' ∨ k < cfg.validators.length →
      (rrHdr cfg m0 k').gen ≠ (rrHdr cfg m0 k).gen) := by
  have h := mkRR cfg m0 hn hw hd hm
  refine ⟨?_, ?_, ?_, ?_⟩
  · unfold specHeights C02rrChain
    simp only [List.reverse_reverse]
    rw [rrHdr_mhp, h.mhp_eq]
  · intro hk
    refine ⟨?_, ?_⟩
    · rw [rrHdr_mhg, rrHdr_height, if_neg (by omega)]; omega
    · rw [rrHdr_gen, rrHdr_gen, h.gen_eq_iff]
      exact sub_mod_self hk
  · intro hk
    rw [rrHdr_mhg, if_pos hk]
  · intro k' hk' hor hg
    have := h.same_gen_back hk' hg
    omega

/-! ### chain validity -/

/-- **The round-robin chain is chain-valid**: consecutive heights from `g + 1`, every
`maxHeightPrevoted` field equals the value computed for the parent view, and no header contradicts the
previous header of its generator (regenerated `AreDistinctHeadersContradicting`). -/
theorem C02_round_robin_chain_valid (cfg : Cfg) (m0 : Nat) (hn : 1 ≤ cfg.validators.length)
    (hw : ∀ v ∈ cfg.validators, v.weight = 1) (hd : (cfg.validators.map (·.address)).Nodup)
    (hm : m0 ≤ cfg.genesis) (L : Nat) : C01ChainValid cfg (C02rrChain cfg m0 L) := by
  unfold C01ChainValid C02rrChain
  rw [List.reverse_reverse]
  exact (mkRR cfg m0 hn hw hd hm).valid L

/-! ### finality -/

/-- **Round-robin finality.** `n ≥ 1` validators of weight 1, prevote threshold `q = ⌊2n/3⌋+1`,
precommit threshold `p ≤ n` (in particular every `p` with `⌊n/3⌋+1 ≤ p ≤ n` that
`SetBFTParameters` accepts; the lower bound is not needed), genesis height `g`. In the view of the
round-robin chain whose tip has height `g + L`, every block of height `h > g` with
`h + q + p − 1 ≤ g + L` is precommitted: `maxHeightPrecommitted ≥ h`. -/
theorem C02_round_robin_finality (cfg : Cfg) (m0 : Nat) (hn : 1 ≤ cfg.validators.length)
    (hw : ∀ v ∈ cfg.validators, v.weight = 1) (hd : (cfg.validators.map (·.address)).Nodup)
    (hm : m0 ≤ cfg.genesis) (hp : cfg.precommitThreshold ≤ cfg.validators.length)
    (L h : Nat) (hh : cfg.genesis < h)
    (hL : h + (cfg.validators.length * 2 / 3 + 1) + cfg.precommitThreshold - 1 ≤ cfg.genesis + L) :
    h ≤ (specHeights cfg (C02rrChain cfg m0 L)).2 := by
  have hr := mkRR cfg m0 hn hw hd hm
  have hq := q_eq cfg hw
  unfold specHeights C02rrChain
  simp only [List.reverse_reverse]
  have := hr.mhpc_ge hp (L := L) (j := h - cfg.genesis) (by omega) (by omega)
  omega

/-- the prevote half: every block of height `h > g` with `h + q − 1 ≤ g + L` is prevoted -/
theorem C02_round_robin_prevoted (cfg : Cfg) (m0 : Nat) (hn : 1 ≤ cfg.validators.length)
    (hw : ∀ v ∈ cfg.validators, v.weight = 1) (hd : (cfg.validators.map (·.address)).Nodup)
    (hm : m0 ≤ cfg.genesis) (L h : Nat) (hh : cfg.genesis < h)
    (hL : h + (cfg.validators.length * 2 / 3 + 1) - 1 ≤ cfg.genesis + L) :
    h ≤ (specHeights cfg (C02rrChain cfg m0 L)).1 := by
  have hr := mkRR cfg m0 hn hw hd hm
  have hq := q_eq cfg hw
  unfold specHeights C02rrChain
  simp only [List.reverse_reverse]
  rw [hr.mhp_eq]
  split <;> omega

/-- **Exact closed form** (`1 ≤ p ≤ n`): after the round-robin chain of length `L`
`maxHeightPrevoted = g + L + 1 − q` if `L ≥ q` (else `g`) and
`maxHeightPrecommitted = g + L + 1 − q − p` if `L ≥ q + p` (else `g`). -/
theorem C02_round_robin_heights_exact (cfg : Cfg) (m0 : Nat) (hn : 1 ≤ cfg.validators.length)
    (hw : ∀ v ∈ cfg.validators, v.weight = 1) (hd : (cfg.validators.map (·.address)).Nodup)
    (hm : m0 ≤ cfg.genesis) (hp1 : 1 ≤ cfg.precommitThreshold)
    (hp : cfg.precommitThreshold ≤ cfg.validators.length) (L : Nat) :
    specHeights cfg (C02rrChain cfg m0 L) =
      (if cfg.validators.length * 2 / 3 + 1 ≤ L
         then cfg.genesis + L + 1 - (cfg.validators.length * 2 / 3 + 1) else cfg.genesis,
       if cfg.validators.length * 2 / 3 + 1 + cfg.precommitThreshold ≤ L
         then cfg.genesis + L + 1 - (cfg.validators.length * 2 / 3 + 1) - cfg.precommitThreshold
         else cfg.genesis) := by
  have hr := mkRR cfg m0 hn hw hd hm
  have hq := q_eq cfg hw
  unfold specHeights C02rrChain
  simp only [List.reverse_reverse]
  rw [hr.mhp_eq, hr.mhpc_eq hp1 hp, hq]

/-- **The bound is tight** (`1 ≤ p ≤ n`): as long as the tip is below `h + q + p − 1`, the block at
height `h > g` is NOT yet precommitted, and as long as it is below `h + q − 1`, not yet prevoted. -/
theorem C02_round_robin_finality_tight (cfg : Cfg) (m0 : Nat) (hn : 1 ≤ cfg.validators.length)
    (hw : ∀ v ∈ cfg.validators, v.weight = 1) (hd : (cfg.validators.map (·.address)).Nodup)
    (hm : m0 ≤ cfg.genesis) (hp1 : 1 ≤ cfg.precommitThreshold)
    (hp : cfg.precommitThreshold ≤ cfg.validators.length) (L h : Nat) (hh : cfg.genesis < h) :
    (cfg.genesis + L < h + (cfg.validators.length * 2 / 3 + 1) + cfg.precommitThreshold - 1 →
      (specHeights cfg (C02rrChain cfg m0 L)).2 < h) ∧
    (cfg.genesis + L < h + (cfg.validators.length * 2 / 3 + 1) - 1 →
      (specHeights cfg (C02rrChain cfg m0 L)).1 < h) := by
  rw [C02_round_robin_heights_exact cfg m0 hn hw hd hm hp1 hp L]
  simp only
  constructor
  · intro hlt; split <;> omega
  · intro hlt; split <;> omega

/-! ### the windowed model of the Go module -/

private theorem setParams_ok_threshold (s s' : State) (pc ct : Nat) (vs : List Validator)
    (h : setParams s pc ct vs = .ok s') : pc ≤ (vs.map (·.weight)).sum := by
  unfold setParams at h
  split at h
  · cases h
  · split at h
    · cases h
    · split at h
      · cases h
      simp only at h
      split at h
      · cases h
      · rename_i hc
        omega

private theorem sorted_rr (g pcThr m0 : Nat) (vs : List Validator) (hn : 1 ≤ vs.length)
    (hw : ∀ v ∈ vs, v.weight = 1) (hd : (vs.map (·.address)).Nodup) (hm : m0 ≤ g) :
    RR (C01sortedCfg g pcThr vs) m0 := by
  have hperm := isort_perm (fun a b : Validator => addrGE a.address b.address) vs
  refine ⟨?_, ?_, ?_, hm⟩
  · show 0 < (isort _ vs).length
    rw [hperm.length_eq]; exact hn
  · intro v hv
    exact hw v (hperm.mem_iff.mp hv)
  · exact (hperm.map (·.address)).nodup_iff.mpr hd

/-- **Round-robin finality of the windowed model.** Start from the state that `SetBFTParameters`
produces on the genesis state for `n ≥ 1` validators of weight 1 with distinct addresses (it stores
them sorted: `C01sortedCfg`), and process the round-robin chain of length `L` (generators in the
stored order). If the chain fits into the window (`L ≤ 3·batchSize`, heights below `2^32`), the model
(transcription of `liskbft`) accepts every header, ends with exactly the closed-form heights of the
specification, and every block of height `h > g` with `h + q + p − 1 ≤ g + L` is final:
`maxHeightPrecommited ≥ h`. -/
theorem C02_round_robin_finality_model (bs g pcThr certThr m0 : Nat) (vs : List Validator) (s0 : State)
    (hinit : setParams (initGenesis bs g) pcThr certThr vs = .ok s0)
    (hn : 1 ≤ vs.length) (hw : ∀ v ∈ vs, v.weight = 1) (hd : (vs.map (·.address)).Nodup) (hm : m0 ≤ g)
    (L : Nat) (hwin : L ≤ 3 * bs) (hu : g + L + 1 < 4294967296) :
    ∃ s, C01runChain s0 (C02rrChain (C01sortedCfg g pcThr vs) m0 L) = some s ∧
      (s.mhp, s.mhpc) = specHeights (C01sortedCfg g pcThr vs) (C02rrChain (C01sortedCfg g pcThr vs) m0 L) ∧
      (∀ h, g < h → h + (vs.length * 2 / 3 + 1) - 1 ≤ g + L → h ≤ s.mhp) ∧
      (∀ h, g < h → h + (vs.length * 2 / 3 + 1) + pcThr - 1 ≤ g + L → h ≤ s.mhpc) := by
  have hr := sorted_rr g pcThr m0 vs hn hw hd hm
  have hperm := isort_perm (fun a b : Validator => addrGE a.address b.address) vs
  have hlen : (C01sortedCfg g pcThr vs).validators.length = vs.length := hperm.length_eq
  have hpn : (C01sortedCfg g pcThr vs).precommitThreshold ≤ (C01sortedCfg g pcThr vs).validators.length := by
    have := setParams_ok_threshold _ _ _ _ _ hinit
    rw [sum_map_weight_eq_length _ hw] at this
    rw [hlen]; exact this
  have hvalid := C02_round_robin_chain_valid (C01sortedCfg g pcThr vs) m0 hr.pos hr.w1 hr.nodup hr.m0le L
  have hlen2 : (C02rrChain (C01sortedCfg g pcThr vs) m0 L).length = L := by
    unfold C02rrChain; rw [List.length_reverse, rrChain_length]
  obtain ⟨s, h1, h2, _⟩ := C01_spec_eq_model_within_window bs g pcThr certThr vs s0
    (C02rrChain (C01sortedCfg g pcThr vs) m0 L) hinit (C01_valid_heights _ _ hvalid)
    (by rw [hlen2]; exact hwin) (by rw [hlen2]; exact hu)
  refine ⟨s, h1, h2, ?_, ?_⟩
  · intro h hh hL
    have := C02_round_robin_prevoted (C01sortedCfg g pcThr vs) m0 hr.pos hr.w1 hr.nodup hr.m0le L h hh
      (by rw [hlen]; exact hL)
    rw [← h2] at this
    exact this
  · intro h hh hL
    have := C02_round_robin_finality (C01sortedCfg g pcThr vs) m0 hr.pos hr.w1 hr.nodup hr.m0le hpn L h hh
      (by rw [hlen]; exact hL)
    rw [← h2] at this
    exact this

/-! ### non-vacuity: evaluation of the specification for n = 3, 4, 5, 7 -/

/-- `n` validators with addresses `[0], [1], …` of weight 1 -/
def C02rrVals (n : Nat) : List Validator := (List.range n).map fun k => ⟨[UInt8.ofNat k], 1⟩

def C02rrCfg (g n p : Nat) : Cfg := ⟨g, C02rrVals n, p⟩

/-- `(maxHeightPrevoted, maxHeightPrecommitted)` after each of the first `L` blocks -/
def C02rrTable (cfg : Cfg) (m0 L : Nat) : List (Nat × Nat) :=
  (List.range (L + 1)).map fun l => specHeights cfg (C02rrChain cfg m0 l)

/-- n = 3 (q = 3), p = 2, g = 10, first-block `maxHeightGenerated = 0`: prevoted from block
`h + 2` on, precommitted from block `h + 4 = h + q + p − 1` on -/
example : C02rrTable (C02rrCfg 10 3 2) 0 9 =
    [(10, 10), (10, 10), (10, 10), (11, 10), (12, 10), (13, 11), (14, 12), (15, 13), (16, 14), (17, 15)] := by
  decide +kernel

/-- n = 4 (q = 3), p = 2 and p = 3 -/
example : C02rrTable (C02rrCfg 0 4 2) 0 8 =
    [(0, 0), (0, 0), (0, 0), (1, 0), (2, 0), (3, 1), (4, 2), (5, 3), (6, 4)] ∧
  C02rrTable (C02rrCfg 0 4 3) 0 8 =
    [(0, 0), (0, 0), (0, 0), (1, 0), (2, 0), (3, 0), (4, 1), (5, 2), (6, 3)] := by
  decide +kernel

/-- n = 5 (q = 4), p = 2 and p = 4 (`maxHeightGenerated = g` in first blocks) -/
example : C02rrTable (C02rrCfg 7 5 2) 7 9 =
    [(7, 7), (7, 7), (7, 7), (7, 7), (8, 7), (9, 7), (10, 8), (11, 9), (12, 10), (13, 11)] ∧
  C02rrTable (C02rrCfg 7 5 4) 7 9 =
    [(7, 7), (7, 7), (7, 7), (7, 7), (8, 7), (9, 7), (10, 7), (11, 7), (12, 8), (13, 9)] := by
  decide +kernel

/-- n = 7 (q = 5), p = 3: after 12 blocks heights `(8, 5) = (12 + 1 − 5, 12 + 1 − 5 − 3)` -/
example : (C02rrTable (C02rrCfg 0 7 3) 0 12).drop 4 =
    [(0, 0), (1, 0), (2, 0), (3, 0), (4, 1), (5, 2), (6, 3), (7, 4), (8, 5)] := by
  decide +kernel

/-- the chains of the examples are chain-valid by evaluation … -/
example : C01ChainValid (C02rrCfg 10 3 2) (C02rrChain (C02rrCfg 10 3 2) 0 9) ∧
    C01ChainValid (C02rrCfg 0 7 3) (C02rrChain (C02rrCfg 0 7 3) 0 12) := by
  decide +kernel

/-- … and the hypotheses of the theorems hold for them -/
theorem C02_round_robin_example_hypotheses :
    1 ≤ (C02rrCfg 10 3 2).validators.length ∧
    (∀ v ∈ (C02rrCfg 10 3 2).validators, v.weight = 1) ∧
    ((C02rrCfg 10 3 2).validators.map (·.address)).Nodup ∧
    (C02rrCfg 10 3 2).precommitThreshold ≤ (C02rrCfg 10 3 2).validators.length := by
  decide +kernel

/-- instance of the finality theorem: n = 3, p = 2, g = 10 — the block at height 13 is final after
the block at height 17 = 13 + 3 + 2 − 1 … -/
example : 13 ≤ (specHeights (C02rrCfg 10 3 2) (C02rrChain (C02rrCfg 10 3 2) 0 7)).2 :=
  C02_round_robin_finality (C02rrCfg 10 3 2) 0 C02_round_robin_example_hypotheses.1
    C02_round_robin_example_hypotheses.2.1 C02_round_robin_example_hypotheses.2.2.1 (by decide)
    C02_round_robin_example_hypotheses.2.2.2 7 13 (by decide) (by decide)

/-- … and not before -/
example : (specHeights (C02rrCfg 10 3 2) (C02rrChain (C02rrCfg 10 3 2) 0 6)).2 < 13 :=
  (C02_round_robin_finality_tight (C02rrCfg 10 3 2) 0 C02_round_robin_example_hypotheses.1
    C02_round_robin_example_hypotheses.2.1 C02_round_robin_example_hypotheses.2.2.1 (by decide)
    (by decide) C02_round_robin_example_hypotheses.2.2.2 6 13 (by decide)).1 (by decide)

/-- instance of chain validity -/
example : C01ChainValid (C02rrCfg 10 3 2) (C02rrChain (C02rrCfg 10 3 2) 0 30) :=
  C02_round_robin_chain_valid (C02rrCfg 10 3 2) 0 C02_round_robin_example_hypotheses.1
    C02_round_robin_example_hypotheses.2.1 C02_round_robin_example_hypotheses.2.2.1 (by decide) 30

/-- the windowed model on the run: n = 4, batch size 4 (window 12), p = 3, g = 0; after 9 blocks the
model has `maxHeightPrevoted = 7`, `maxHeightPrecommited = 4`, and the model theorem applies -/
example :
    ((match setParams (initGenesis 4 0) 3 3 (C02rrVals 4) with
      | .ok s => some s | .error _ => none).bind fun s =>
        C01runChain s (C02rrChain (C01sortedCfg 0 3 (C02rrVals 4)) 0 9)).map
      (fun (s : State) => (s.mhp, s.mhpc)) = some (7, 4) := by
  decide +kernel

example : ∃ s, C01runChain (match setParams (initGenesis 4 0) 3 3 (C02rrVals 4) with
      | .ok s => s | .error _ => initGenesis 4 0)
      (C02rrChain (C01sortedCfg 0 3 (C02rrVals 4)) 0 9) = some s ∧ 4 ≤ s.mhpc := by
  obtain ⟨s, h1, _, _, h4⟩ := C02_round_robin_finality_model 4 0 3 3 0 (C02rrVals 4)
    (match setParams (initGenesis 4 0) 3 3 (C02rrVals 4) with
      | .ok s => s | .error _ => initGenesis 4 0) (by rfl) (by decide) (by decide +kernel)
    (by decide +kernel) (by decide) 9 (by decide) (by decide)
  exact ⟨s, h1, h4 4 (by decide) (by decide)⟩
