/-
C06 — Block certificates: the single-commit pool and the bitmap (pool part).

Theorems about `LiskVerif.Model.Cert` (model of pkg/consensus/certificate.go, certificate/pool.go,
pkg/crypto/bls.go), for ALL states, pools and message lists:

* the pool invariant `PoolInv ctx chainId` (every entry is a commit for some block, signed by a
  validator active at that block's height, with a valid signature over the block's certificate; one
  entry per block id and signer) is preserved by `singleCommitValidator`, `Certify`, `Pool.Cleanup`, `Pool.Select`,
  `Pool.Upgrade` and the cleanup of `broadcastCertificate`;
* only verified commits enter the pool; the gossip validator never returns `accept`;
* with the length guard of the fix the unchecked `Bits.read` loop of `BLSVerifyWeightedAggSig` never
  reads out of range; without it a short bitmap makes it read out of range (panic);
* bitmap bytes/bits conversion round trip.
-/
import LiskVerif.Lemmas.CertPool

open LiskVerif LiskVerif.Cert

/-! ### example state -/

/-- chain id 1, blocks of heights 0..10 (id = height), one parameter set from height 0 with the
validators (address 7, key 70) and (address 8, key 80) -/
def C06exState : State :=
  { chainId := 1
    blockAt := fun h => if h ≤ 10 then some ⟨h, 0⟩ else none
    params := [(0, ⟨[⟨7, 70, 1⟩, ⟨8, 80, 1⟩], 2⟩)]
    mhpc := 5
    mhc := 0 }

/-- a valid single commit of validator 7 for height 3 -/
def C06exMsg : Incoming := ⟨true, 3, 3, 7, sign 70 ⟨1, 3⟩⟩

/-- the block context of the example chain (block id = height, one parameter set) -/
def C06exCtx : BlockCtx := fun b => if b ≤ 10 then some (b, ⟨[⟨7, 70, 1⟩, ⟨8, 80, 1⟩], 2⟩) else none

theorem C06_exState_consistent : Consistent C06exState C06exCtx := by
  intro h hd hb
  have hp : getParams C06exState.params h = some ⟨[⟨7, 70, 1⟩, ⟨8, 80, 1⟩], 2⟩ := by
    simp [getParams, getParamsEntry, C06exState]
  simp only [C06exState] at hb
  split at hb
  · rename_i hle
    simp only [Option.some.injEq] at hb
    subst hb
    rw [hp]
    simp only [C06exCtx, hle, if_true]
    constructor
    · intro p h1
      simp only [Option.some.injEq] at h1
      rw [h1]
    · intro _ p h1
      simp only [Option.some.injEq, Prod.mk.injEq, true_and] at h1
      rw [h1]
  · simp at hb

/-- The invariant does not mention the chain state: `PoolInv ctx chainId pool` is a statement about
block ids (which commit to the whole history of their block), so it survives new blocks, deleted
blocks and reorganisations unchanged; the chain state only enters through `Consistent st ctx` at the
moment an operation verifies a commit against the current chain. -/
theorem C06_empty_pool_inv (ctx : BlockCtx) (chainId : Nat) : PoolInv ctx chainId Pool.empty :=
  ⟨fun _ hc => by simp [Pool.all, Pool.empty] at hc, by simp [Pool.all, Pool.empty]⟩

/-! ### singleCommitValidator -/

/-- **The gossip validator preserves the pool invariant.** -/
theorem C06_pool_invariant_validator (st : State) (ctx : BlockCtx) (pool : Pool) (msgs : List Incoming)
    (hc : Consistent st ctx) (h : PoolInv ctx st.chainId pool) :
    PoolInv ctx st.chainId (singleCommitValidator st pool msgs).1 := by
  induction msgs generalizing pool with
  | nil => exact h
  | cons m r ih =>
    rw [scv_step]
    have hi := scvOne_inv m hc h
    split
    · exact ih _ hi
    · exact hi

example : (singleCommitValidator C06exState Pool.empty [C06exMsg, C06exMsg]).1.all = [C06exMsg.commit] := by
  decide

/-- **Only verified commits enter the pool**: every entry after the validator ran was there before or
is the commit of a well-formed message, signed by a validator active at its height over the
certificate of the node's own block at that height. -/
theorem C06_pool_only_verified_enter (st : State) (pool : Pool) (msgs : List Incoming) :
    ∀ c ∈ (singleCommitValidator st pool msgs).1.all,
      c ∈ pool.all ∨ (VerifiedOnChain st c ∧ ∃ m ∈ msgs, m.wf = true ∧ c = m.commit) := by
  induction msgs generalizing pool with
  | nil => intro c hc; exact Or.inl hc
  | cons m r ih =>
    intro c hc
    rw [scv_step] at hc
    have hone := scvOne_mem st pool m
    split at hc
    · rcases ih _ c hc with h1 | ⟨h1, m', hm', h2⟩
      · rcases hone c h1 with h3 | ⟨h3, h4, h5⟩
        · exact Or.inl h3
        · exact Or.inr ⟨h3, m, List.mem_cons_self, h4, h5⟩
      · exact Or.inr ⟨h1, m', List.mem_cons_of_mem _ hm', h2⟩
    · rcases hone c hc with h3 | ⟨h3, h4, h5⟩
      · exact Or.inl h3
      · exact Or.inr ⟨h3, m, List.mem_cons_self, h4, h5⟩

/-- a commit with a wrong signature, of a non-validator, for a foreign block id or malformed does not
enter (the valid one of the same message list does) -/
example : (singleCommitValidator C06exState Pool.empty
    [⟨true, 3, 3, 7, sign 80 ⟨1, 3⟩⟩]).1.all = [] := by decide
example : (singleCommitValidator C06exState Pool.empty
    [⟨true, 4, 3, 7, sign 70 ⟨1, 4⟩⟩, C06exMsg, ⟨true, 3, 3, 9, sign 70 ⟨1, 3⟩⟩]).1.all = [C06exMsg.commit] := by
  decide

/-- **The gossip validator never returns `accept`** (single commits are not re-gossiped by pubsub; the
node forwards them itself in `broadcastCertificate`). -/
theorem C06_validator_never_accepts (st : State) (pool : Pool) (msgs : List Incoming) :
    (singleCommitValidator st pool msgs).2 ≠ .accept := by
  induction msgs generalizing pool with
  | nil => simp [singleCommitValidator]
  | cons m r ih =>
    rw [scv_step]
    have h2 := (scvOne_spec st pool m).2
    split
    · exact ih _
    · rename_i v hv
      intro hh
      simp only at hh
      rw [hh] at hv
      exact h2 hv

example : (singleCommitValidator C06exState Pool.empty [C06exMsg]).2 = .ignore := by decide
example : (singleCommitValidator C06exState Pool.empty [C06exMsg, ⟨true, 3, 3, 7, .garbage⟩]).2 = .ignore := by
  decide
example : (singleCommitValidator C06exState Pool.empty [C06exMsg, ⟨true, 3, 3, 8, .garbage⟩]).2 = .reject := by
  decide

/-! ### Certify -/

/-- **`Certify` preserves the pool invariant** when the supplied BLS key is the one registered for the
address. -/
theorem C06_pool_invariant_certify (st : State) (ctx : BlockCtx) (pool : Pool) (frm to addr sk : Nat)
    (hc : Consistent st ctx)
    (hkey : ∀ h p v, getParams st.params h = some p → findValidator p.validators addr = some v → v.key = sk)
    (h : PoolInv ctx st.chainId pool) : PoolInv ctx st.chainId (certify st pool frm to addr sk).1 := by
  rcases certify_pool st pool frm to addr sk with h1 | ⟨_, h1 | ⟨_, h1⟩⟩ <;> rw [h1]
  · exact h
  · exact certifyLoop_inv addr sk hc hkey _ pool h
  · exact certifyAt_inv to addr sk hc hkey (certifyLoop_inv addr sk hc hkey _ pool h)

example : (certify C06exState Pool.empty 3 4 7 70).1.all = [⟨4, 4, 7, sign 70 ⟨1, 4⟩, true⟩] ∧
    (certify C06exState (certify C06exState Pool.empty 3 4 7 70).1 3 4 7 70).1.all =
      [⟨4, 4, 7, sign 70 ⟨1, 4⟩, true⟩] := by decide

/-- **Only commits of the node's own active validator enter through `Certify`**: a new entry is signed
by `addr` with the supplied key over the certificate of the node's own block at a height in
`[frm, to]` (more precisely in `(frm, to]`, or `to` itself) at which `addr` is an active validator; it
is flagged internal, and its height is `to` or a height whose successor starts new BFT parameters. -/
theorem C06_certify_only_active_enter (st : State) (pool : Pool) (frm to addr sk : Nat) :
    ∀ c ∈ (certify st pool frm to addr sk).1.all, c ∈ pool.all ∨
      (c.signer = addr ∧ frm ≤ c.height ∧ c.height ≤ to ∧ (frm < c.height ∨ c.height = to) ∧
        (c.height = to ∨ existParams st.params (c.height + 1) = true) ∧ c.internal = true ∧
        ∃ hd p v, st.blockAt c.height = some hd ∧ hd.id = c.block ∧
          getParams st.params c.height = some p ∧ findValidator p.validators addr = some v ∧
          c.sig = sign sk (certMsg st hd)) := by
  intro c hc
  have hloop : ∀ c ∈ (certifyLoop st addr sk pool (List.range' (frm + 1) (to - frm))).1.all, frm ≤ to →
      c ∈ pool.all ∨
      (c.signer = addr ∧ frm ≤ c.height ∧ c.height ≤ to ∧ (frm < c.height ∨ c.height = to) ∧
        (c.height = to ∨ existParams st.params (c.height + 1) = true) ∧ c.internal = true ∧
        ∃ hd p v, st.blockAt c.height = some hd ∧ hd.id = c.block ∧
          getParams st.params c.height = some p ∧ findValidator p.validators addr = some v ∧
          c.sig = sign sk (certMsg st hd)) := by
    intro c hc hle
    rcases certifyLoop_mem st addr sk _ pool c hc with h1 | ⟨⟨h1, h2, h3⟩, h4, h5⟩
    · exact Or.inl h1
    · have := List.mem_range'_1.mp h4
      exact Or.inr ⟨h1, by omega, by omega, Or.inl (by omega), Or.inr h5, h2, h3⟩
  rcases certify_pool st pool frm to addr sk with h1 | ⟨hle, h1 | ⟨_, h1⟩⟩ <;> rw [h1] at hc
  · exact Or.inl hc
  · exact hloop c hc hle
  · rcases certifyAt_mem st _ to addr sk c hc with h2 | ⟨⟨h2, h3, h4⟩, h5⟩
    · exact hloop c h2 hle
    · exact Or.inr ⟨h2, by omega, by omega, Or.inr h5, Or.inl h5, h3, h4⟩

/-- an address that is not an active validator creates nothing -/
example : (certify C06exState Pool.empty 3 4 9 70).1.all = [] := by decide

/-! ### pool operations -/

/-- **`Pool.Cleanup` preserves the invariant**, for any predicate. -/
theorem C06_pool_invariant_cleanup (ctx : BlockCtx) (chainId : Nat) (pool : Pool) (keep : Nat → Bool)
    (h : PoolInv ctx chainId pool) : PoolInv ctx chainId (pool.cleanup keep) :=
  ListInv.sublist h (cleanup_sublist pool keep)

/-- **`Pool.Select` preserves the invariant** (it sorts both lists in place). -/
theorem C06_pool_invariant_select (ctx : BlockCtx) (chainId : Nat) (pool : Pool) (mhpc limit : Nat)
    (h : PoolInv ctx chainId pool) : PoolInv ctx chainId (pool.select mhpc limit).1 :=
  ListInv.perm h (select_perm pool mhpc limit)

/-- **`Pool.Upgrade` preserves the invariant**, for any selection. -/
theorem C06_pool_invariant_upgrade (ctx : BlockCtx) (chainId : Nat) (pool : Pool) (sel : List Commit)
    (h : PoolInv ctx chainId pool) : PoolInv ctx chainId (pool.upgrade sel) :=
  ListInv.perm h (upgrade_perm pool sel)

/-- **The cleanup step of `broadcastCertificate` preserves the invariant.** -/
theorem C06_pool_invariant_broadcastCleanup (st : State) (ctx : BlockCtx) (chainId : Nat) (pool pool' : Pool)
    (h : PoolInv ctx chainId pool) (hb : broadcastCleanup st pool = some pool') : PoolInv ctx chainId pool' := by
  unfold broadcastCleanup at hb
  split at hb
  · simp at hb
  · simp only [Option.some.injEq] at hb
    rw [← hb]
    exact C06_pool_invariant_cleanup ctx chainId pool _ h

/-- **All pool operations preserve the invariant.** -/
theorem C06_pool_invariant_poolops (st : State) (ctx : BlockCtx) (chainId : Nat) (pool : Pool)
    (h : PoolInv ctx chainId pool) :
    (∀ keep, PoolInv ctx chainId (pool.cleanup keep)) ∧
    (∀ mhpc limit, PoolInv ctx chainId (pool.select mhpc limit).1) ∧
    (∀ sel, PoolInv ctx chainId (pool.upgrade sel)) ∧
    (∀ pool', broadcastCleanup st pool = some pool' → PoolInv ctx chainId pool') :=
  ⟨fun keep => C06_pool_invariant_cleanup ctx chainId pool keep h,
   fun mhpc limit => C06_pool_invariant_select ctx chainId pool mhpc limit h,
   fun sel => C06_pool_invariant_upgrade ctx chainId pool sel h,
   fun pool' hb => C06_pool_invariant_broadcastCleanup st ctx chainId pool pool' h hb⟩

/-- the membership facts behind the preservation: nothing is added by the pool operations, and
`Select` / `Upgrade` lose nothing -/
theorem C06_poolops_entries (pool : Pool) :
    (∀ keep, (pool.cleanup keep).all.Sublist pool.all) ∧
    (∀ mhpc limit, pool.all.Perm (pool.select mhpc limit).1.all) ∧
    (∀ sel, pool.all.Perm (pool.upgrade sel).all) :=
  ⟨cleanup_sublist pool, select_perm pool, upgrade_perm pool⟩

/-- a pool with two entries satisfying the invariant -/
def C06exPool : Pool := (singleCommitValidator C06exState (certify C06exState Pool.empty 3 4 7 70).1 [C06exMsg]).1

example : PoolInv C06exCtx C06exState.chainId C06exPool :=
  C06_pool_invariant_validator _ _ _ _ C06_exState_consistent
    (C06_pool_invariant_certify _ _ _ 3 4 7 70 C06_exState_consistent (by
      intro h p v hp hv
      have : p = ⟨[⟨7, 70, 1⟩, ⟨8, 80, 1⟩], 2⟩ := by
        simp [getParams, getParamsEntry, C06exState] at hp
        exact hp.symm
      subst this
      simp [findValidator] at hv
      rw [← hv]) (C06_empty_pool_inv _ _))

example : C06exPool.all = [⟨4, 4, 7, sign 70 ⟨1, 4⟩, true⟩, C06exMsg.commit] ∧
    (C06exPool.select 5 10).1.all = [C06exMsg.commit, ⟨4, 4, 7, sign 70 ⟨1, 4⟩, true⟩] ∧
    (C06exPool.upgrade [C06exMsg.commit]).all = [C06exMsg.commit, ⟨4, 4, 7, sign 70 ⟨1, 4⟩, true⟩] ∧
    (C06exPool.upgrade [C06exMsg.commit]).gossiped = [C06exMsg.commit] ∧
    (C06exPool.cleanup (fun h => decide (h > 3))).all = [⟨4, 4, 7, sign 70 ⟨1, 4⟩, true⟩] ∧
    (broadcastCleanup C06exState C06exPool).map Pool.all = some [⟨4, 4, 7, sign 70 ⟨1, 4⟩, true⟩, C06exMsg.commit] := by
  decide

/-! ### bitmaps -/

/-- the unchecked `Bits.read` loop started at bit `i` stays in range when the bitmap has at least
`i + len(keys)` bits and there are at least as many weights as keys -/
theorem C06_bits_read_in_range_at (keys weights : List Nat) (bits : Bits) (i : Nat)
    (hw : keys.length ≤ weights.length) (hl : i + keys.length ≤ bits.length) :
    scanBits bits i keys weights = some (selectedKW keys weights (bits.drop i)) :=
  scanBits_in_range bits keys weights i hw hl

/-- **With the length guard of the fix the `Bits.read` loop never reads out of range** and computes
the key/weight selection used by `verifyWeighted`. -/
theorem C06_bits_read_in_range (keys weights : List Nat) (bits : Bits)
    (hl : bits.length = 8 * byteLen keys.length) (hw : weights.length = keys.length) :
    scanBits bits 0 keys weights = some (selectedKW keys weights bits) := by
  have := scanBits_in_range bits keys weights 0 (by omega) (by have := le_byteLen keys.length; omega)
  simpa using this

example : scanBits [true, false, true, false, false, false, false, false] 0 [70, 80, 90] [1, 2, 3] =
    some [(70, 1), (90, 3)] := by decide

/-- the loop started at an in-range bit `i` with fewer than `len(keys)` bits left reads out of range
(or runs out of weights) -/
theorem C06_bits_short_bitmap_panics_at (keys weights : List Nat) (bits : Bits) (i : Nat)
    (hi : i ≤ bits.length) (hs : bits.length < i + keys.length) :
    scanBits bits i keys weights = none :=
  scanBits_short bits keys weights i hi hs

/-- **Without the length guard a bitmap shorter than the key list makes `Bits.read` panic** (the
original `BLSVerifyWeightedAggSig` does not compare the bitmap length with the number of keys). -/
theorem C06_bits_short_bitmap_panics (keys weights : List Nat) (bits : Bits)
    (hw : keys.length ≤ weights.length) (hs : bits.length < keys.length) :
    scanBits bits 0 keys weights = none := by
  have _ := hw
  exact scanBits_short bits keys weights 0 (Nat.zero_le _) (by omega)

example : scanBits [true, false, true, false, false, false, false, false] 0
    [1, 2, 3, 4, 5, 6, 7, 8, 9] [1, 1, 1, 1, 1, 1, 1, 1, 1] = none := by decide
/-- the guard of the fix rejects that bitmap instead -/
example : verifyWeighted [1, 2, 3, 4, 5, 6, 7, 8, 9] [true, false, true, false, false, false, false, false]
    (.agg [1, 3] ⟨1, 1⟩) [1, 1, 1, 1, 1, 1, 1, 1, 1] 2 ⟨1, 1⟩ = false := by decide

/-- **Bits → bytes → bits round trip** for bitmaps of whole bytes. -/
theorem C06_bits_bytes_roundtrip (b : Bits) (h : b.length % 8 = 0) : Bits.ofBytes (Bits.toBytes b) = b :=
  bits_roundtrip_aux (b.length / 8) b (by omega)

example : Bits.toBytes [true, false, true, false, false, false, false, false, false, true, false, false,
    false, false, false, true] = [5, 130] := by decide

/-- **The bitmap of `n` bytes has `8 n` bits.** -/
theorem C06_bits_length (bs : Bytes) : (Bits.ofBytes bs).length = 8 * bs.length := by
  induction bs with
  | nil => rfl
  | cons x r ih => rw [ofBytes_cons, List.length_append, bitsOfByte_length, ih, List.length_cons]; omega

example : Bits.ofBytes [5, 130] = [true, false, true, false, false, false, false, false, false, true, false,
    false, false, false, false, true] := by decide

/-- the per-byte round trip behind `C06_bits_bytes_roundtrip` (all 256 bytes) -/
theorem C06_byte_roundtrip (b0 b1 b2 b3 b4 b5 b6 b7 : Bool) :
    bitsOfByte (byteOfBits [b0, b1, b2, b3, b4, b5, b6, b7]) = [b0, b1, b2, b3, b4, b5, b6, b7] :=
  byte_roundtrip b0 b1 b2 b3 b4 b5 b6 b7

/-! ## summary -/

/-- **C06_pool_invariant.**  The pool invariant (every entry is a commit of a validator active at its
height whose signature verifies against the node's own block at that height; at most one entry per
(height, signer)) holds for the empty pool and is preserved by the gossip validator
`singleCommitValidator` (any message), by `Certify` (when the supplied key is the registered one) and
by all pool operations; the gossip validator lets only verified commits of active validators enter and
never returns `accept`. -/
theorem C06_pool_invariant (st : State) (ctx : BlockCtx) (hc : Consistent st ctx) :
    PoolInv ctx st.chainId Pool.empty ∧
    (∀ pool msgs, PoolInv ctx st.chainId pool → PoolInv ctx st.chainId (singleCommitValidator st pool msgs).1) ∧
    (∀ pool msgs, ∀ c ∈ (singleCommitValidator st pool msgs).1.all,
      c ∈ pool.all ∨ (VerifiedOnChain st c ∧ ∃ m ∈ msgs, m.wf = true ∧ c = m.commit)) ∧
    (∀ pool frm to addr sk,
      (∀ h p v, getParams st.params h = some p → findValidator p.validators addr = some v → v.key = sk) →
      PoolInv ctx st.chainId pool → PoolInv ctx st.chainId (certify st pool frm to addr sk).1) ∧
    (∀ pool, PoolInv ctx st.chainId pool →
      (∀ keep, PoolInv ctx st.chainId (pool.cleanup keep)) ∧
      (∀ mhpc limit, PoolInv ctx st.chainId (pool.select mhpc limit).1) ∧
      (∀ sel, PoolInv ctx st.chainId (pool.upgrade sel))) :=
  ⟨C06_empty_pool_inv ctx st.chainId,
   fun pool msgs h => C06_pool_invariant_validator st ctx pool msgs hc h,
   fun pool msgs => C06_pool_only_verified_enter st pool msgs,
   fun pool frm to addr sk hk h => C06_pool_invariant_certify st ctx pool frm to addr sk hc hk h,
   fun pool h => ⟨fun keep => C06_pool_invariant_cleanup ctx st.chainId pool keep h,
     fun mhpc limit => C06_pool_invariant_select ctx st.chainId pool mhpc limit h,
     fun sel => C06_pool_invariant_upgrade ctx st.chainId pool sel h⟩⟩
