/-
C16 — Transaction execution is atomic; the state root is a function of the state.

Property theorems about `LiskVerif.Model.Exec` (the model of pkg/statemachine `ExecuteTransaction`
and `EventLogger`, and of pkg/framework `ABIHandler` Commit / Revert / Init over the staged store
model of C12).  Helper lemmas live in `LiskVerif/Lemmas/Exec.lean`.

The hash `H` and the sparse-Merkle root `smtRoot` are parameters (`Params`); what is assumed about
them is stated in each theorem (`TreeKeyInj`: no two state keys share a tree key — implied by
collision freedom of `H` for keys that carry the 6-byte store prefix, `treeKey_inj_of_len`;
`SmtRootExt`: the root depends on the map held by the tree only — property C10).
-/
import LiskVerif.Lemmas.Exec
import LiskVerif.Props.C12

open LiskVerif LiskVerif.DiffDB LiskVerif.Exec

/-! ### module code seen as a sequence of staged-store operations -/

private theorem run_append (st : St) (a b : List Op) : run st (a ++ b) = run (run st a) b := by
  unfold run; exact List.foldl_append

private theorem snapCount_get (st : St) (k : Bytes) : (DiffDB.get st k).1.snapCount = st.snapCount := by
  unfold DiffDB.get
  split
  · split <;> rfl
  · split <;> rfl

private theorem snapCount_set (st : St) (k v : Bytes) : (DiffDB.set st k v).snapCount = st.snapCount := by
  unfold DiffDB.set
  split
  · rfl
  · split <;> rfl

private theorem snapCount_del (st : St) (k : Bytes) : (DiffDB.del st k).snapCount = st.snapCount := by
  unfold DiffDB.del
  split <;> rfl

private theorem snapCount_restore (st : St) (i : Nat) : (DiffDB.restore st i).1.snapCount = st.snapCount := by
  unfold DiffDB.restore
  split <;> rfl

/-- the snapshots taken by running module code are younger than the snapshot `sid` taken by
`ExecuteTransaction` -/
private def StackOk (sid : Nat) (s : SecSt) : Prop := sid < s.st.snapCount ∧ ∀ i ∈ s.stack, i ≠ sid

private theorem runItem_trace (sid : Nat) (s : SecSt) (it : Item) (h : StackOk sid s) :
    ∃ ops, (runItem s it).1.st = run s.st ops ∧ (∀ op ∈ ops, C12KeepsSnapshot sid op) ∧
      StackOk sid (runItem s it).1 := by
  cases it with
  | set k v =>
    refine ⟨[.set k v], rfl, by simp [C12KeepsSnapshot], ?_⟩
    exact ⟨by simp only [runItem, snapCount_set]; exact h.1, h.2⟩
  | del k =>
    refine ⟨[.del k], rfl, by simp [C12KeepsSnapshot], ?_⟩
    exact ⟨by simp only [runItem, snapCount_del]; exact h.1, h.2⟩
  | get k =>
    refine ⟨[.get k], ?_, by simp [C12KeepsSnapshot], ?_⟩
    · simp only [runItem]; split <;> rfl
    · simp only [runItem]
      split <;> exact ⟨by simp only [snapCount_get]; exact h.1, h.2⟩
  | chk k v =>
    refine ⟨[.get k], rfl, by simp [C12KeepsSnapshot], ?_⟩
    exact ⟨by simp only [runItem, snapCount_get]; exact h.1, h.2⟩
  | ev unrev n d =>
    refine ⟨[], ?_, by simp, ?_⟩
    · simp only [runItem]; split <;> rfl
    · simp only [runItem]; split <;> exact h
  | badEv =>
    refine ⟨[], ?_, by simp, ?_⟩
    · simp only [runItem]; split <;> rfl
    · simp only [runItem]; split <;> exact h
  | push =>
    refine ⟨[.snapshot], rfl, by simp [C12KeepsSnapshot], ?_⟩
    refine ⟨by simp only [runItem, snapshot]; have := h.1; omega, ?_⟩
    intro i hi
    simp only [runItem, snapshot, List.mem_cons] at hi
    rcases hi with hi | hi
    · have := h.1; omega
    · exact h.2 i hi
  | pop =>
    cases hs : s.stack with
    | nil =>
      refine ⟨[], ?_, by simp, ?_⟩
      · simp only [runItem, hs]; rfl
      · simp only [runItem, hs]; exact h
    | cons id rest =>
      have hid : id ≠ sid := h.2 id (by rw [hs]; exact List.mem_cons_self)
      refine ⟨[.restore id], ?_, ?_, ?_⟩
      · simp only [runItem, hs]; rfl
      · intro op hop
        simp only [List.mem_singleton] at hop
        subst hop
        exact hid
      · simp only [runItem, hs]
        refine ⟨by simp only [snapCount_restore]; exact h.1, ?_⟩
        intro i hi
        exact h.2 i (by rw [hs]; exact List.mem_cons_of_mem _ hi)
  | fail => exact ⟨[], rfl, by simp, h⟩

private theorem runSection_trace (sid : Nat) (items : List Item) : ∀ (s : SecSt), StackOk sid s →
    ∃ ops, (runSection s items).1.st = run s.st ops ∧ (∀ op ∈ ops, C12KeepsSnapshot sid op) := by
  induction items with
  | nil => intro s _; exact ⟨[], rfl, by simp⟩
  | cons it r ih =>
    intro s h
    obtain ⟨ops1, h1, k1, ok1⟩ := runItem_trace sid s it h
    simp only [runSection]
    split
    · obtain ⟨ops2, h2, k2⟩ := ih _ ok1
      refine ⟨ops1 ++ ops2, ?_, ?_⟩
      · rw [run_append, ← h1, h2]
      · intro op hop
        rcases List.mem_append.mp hop with hop | hop
        · exact k1 op hop
        · exact k2 op hop
    · exact ⟨ops1, h1, k1⟩

private theorem eff_deleteSnapshot (st : St) (id : Nat) (k : Bytes) :
    eff (deleteSnapshot st id) k = eff st k := rfl

/-! ### the command phase, case by case -/

/-- what `command.Execute` did: the staged store and the logger when it returned -/
private def ran (st : St) (lg : EventLogger) (cmd : List Item) : SecSt × Bool :=
  runSection { st := (snapshot st).1, lg := createSnapshot lg } cmd

private theorem ran_restore (st : St) (lg : EventLogger) (cmd : List Item) :
    (restore (ran st lg cmd).1.st (snapshot st).2).2 = true ∧
      ∀ k, eff (restore (ran st lg cmd).1.st (snapshot st).2).1 k = eff st k := by
  have hstack : StackOk (snapshot st).2 { st := (snapshot st).1, lg := createSnapshot lg } :=
    ⟨by simp [snapshot], by simp⟩
  obtain ⟨ops, hrun, hkeep⟩ := runSection_trace (snapshot st).2 cmd _ hstack
  have hres := C12_snapshot_restore st ops hkeep
  dsimp only at hres hrun
  rw [← hrun] at hres
  exact hres

private theorem commandPhase_ok (st : St) (lg : EventLogger) (cmd : List Item)
    (h : (ran st lg cmd).2 = true) :
    commandPhase st lg cmd =
      { st := deleteSnapshot (ran st lg cmd).1.st (snapshot st).2, lg := (ran st lg cmd).1.lg,
        success := true, lgRan := (ran st lg cmd).1.lg } := by
  unfold ran at h
  unfold commandPhase ran
  dsimp only
  rw [if_pos h]

private theorem commandPhase_fail (st : St) (lg : EventLogger) (cmd : List Item)
    (h : (ran st lg cmd).2 = false) :
    commandPhase st lg cmd =
      { st := deleteSnapshot (restore (ran st lg cmd).1.st (snapshot st).2).1 (snapshot st).2,
        lg := restoreSnapshot (ran st lg cmd).1.lg, success := false,
        lgRan := (ran st lg cmd).1.lg } := by
  have hr := (ran_restore st lg cmd).1
  unfold ran at h hr
  unfold commandPhase ran
  dsimp only
  rw [if_neg (by simp [h]), if_pos hr]

private theorem commandPhase_success (st : St) (lg : EventLogger) (cmd : List Item) :
    (commandPhase st lg cmd).success = (ran st lg cmd).2 := by
  cases h : (ran st lg cmd).2 with
  | true => rw [commandPhase_ok st lg cmd h]
  | false => rw [commandPhase_fail st lg cmd h]

private theorem ran_grows (st : St) (lg : EventLogger) (cmd : List Item) :
    Grows (createSnapshot lg) (ran st lg cmd).1.lg :=
  runSection_grows cmd { st := (snapshot st).1, lg := createSnapshot lg }

/-- the events the command added: the logger when it returned is the logger before plus these -/
private theorem ran_events (st : St) (lg : EventLogger) (cmd : List Item) :
    ∃ new, (ran st lg cmd).1.lg.events = lg.events ++ new ∧ IdxFrom lg.events.length new ∧
      (ran st lg cmd).1.lg.snapshotIndex = some lg.events.length ∧
      (ran st lg cmd).1.lg.hasTopic = lg.hasTopic ∧ (ran st lg cmd).1.lg.height = lg.height := by
  obtain ⟨⟨h1, h2, h3⟩, new, he, hi⟩ := ran_grows st lg cmd
  exact ⟨new, he, hi, h1.symm, h3.symm, h2.symm⟩

/-! ### atomicity -/

/-- **A failed command leaves the state exactly as it was before the command ran**, whatever the
command did before failing: any sequence of sets, deletes, overwrites and reads on any module
sub-stores, events, nested snapshots taken and restored.  (`commandPhase` is the part of
`ExecuteTransaction` between `Snapshot()` and `DeleteSnapshot`; `st` is the staged store after the
`BeforeCommandExecute` hooks.)  The restore of the snapshot never fails. -/
theorem C16_failed_command_state_unchanged (st : St) (lg : EventLogger) (cmd : List Item)
    (hfail : (commandPhase st lg cmd).success = false) :
    (commandPhase st lg cmd).restoreFailed = false ∧
      ∀ k, eff (commandPhase st lg cmd).st k = eff st k := by
  rw [commandPhase_success] at hfail
  rw [commandPhase_fail st lg cmd hfail]
  refine ⟨rfl, fun k => ?_⟩
  dsimp only
  rw [eff_deleteSnapshot]
  exact (ran_restore st lg cmd).2 k

/-! ### events -/

/-- `Add` registers a revertible event, `AddUnrevertible` an unrevertible one; both give the event
the next index. -/
theorem C16_add_is_revertible (l l' : EventLogger) (m n : String) (d : Bytes) (x : Nat) :
    (add l m n d x = some l' → ∃ e, l'.events = l.events ++ [{ event := e, noRevert := false }] ∧
        e.index = l.events.length) ∧
    (addUnrevertible l m n d x = some l' →
      ∃ e, l'.events = l.events ++ [{ event := e, noRevert := true }] ∧ e.index = l.events.length) := by
  constructor
  · intro h; obtain ⟨e, he, hi, _⟩ := add_spec h; exact ⟨e, he, hi⟩
  · intro h; obtain ⟨e, he, hi, _⟩ := addUnrevertible_spec h; exact ⟨e, he, hi⟩

/-- **The events of a failed command**: the events logged before the command are untouched; of the
events `new` the command logged, exactly the unrevertible ones remain, in order, renumbered
consecutively after the earlier events; every revertible event of the command is gone. -/
theorem C16_failed_command_events (st : St) (lg : EventLogger) (cmd : List Item)
    (hfail : (commandPhase st lg cmd).success = false) :
    ∃ new, (commandPhase st lg cmd).lgRan.events = lg.events ++ new ∧
      (commandPhase st lg cmd).lg.events =
        lg.events ++ reindexFrom lg.events.length (new.filter (·.noRevert)) ∧
      ∀ e ∈ (commandPhase st lg cmd).lg.events.drop lg.events.length, e.noRevert = true := by
  rw [commandPhase_success] at hfail
  rw [commandPhase_fail st lg cmd hfail]
  obtain ⟨new, he, _, hs, _, _⟩ := ran_events st lg cmd
  refine ⟨new, he, ?_, ?_⟩
  · simp only [restoreSnapshot, hs, he, List.take_left' rfl, List.drop_left' rfl]
  · simp only [restoreSnapshot, hs, he, List.take_left' rfl, List.drop_left' rfl]
    intro e hm
    obtain ⟨e', he', hn, _⟩ := reindexFrom_noRevert _ _ e hm
    rw [hn]
    simpa using (List.mem_filter.mp he').2

/-- **A successful command keeps everything**: the staged store is the one the command left
(the snapshot is only dropped) and every event it logged, revertible or not, is kept as logged. -/
theorem C16_success_keeps_all (st : St) (lg : EventLogger) (cmd : List Item)
    (hok : (commandPhase st lg cmd).success = true) :
    (∀ k, eff (commandPhase st lg cmd).st k =
        eff (runSection { st := (snapshot st).1, lg := createSnapshot lg } cmd).1.st k) ∧
      (commandPhase st lg cmd).lg.events =
        (runSection { st := (snapshot st).1, lg := createSnapshot lg } cmd).1.lg.events ∧
      ∃ new, (commandPhase st lg cmd).lg.events = lg.events ++ new := by
  rw [commandPhase_success] at hok
  rw [commandPhase_ok st lg cmd hok]
  obtain ⟨new, he, _⟩ := ran_events st lg cmd
  exact ⟨fun k => rfl, rfl, new, he⟩

/-! ### what the kept writes are: code without nested snapshots -/

/-- module code that takes no snapshots of its own -/
def C16NoSnap : List Item → Prop
  | [] => True
  | .push :: _ => False
  | .pop :: _ => False
  | _ :: r => C16NoSnap r

/-- the writes of module code applied to a state map -/
def C16Writes (m : Bytes → Option Bytes) : List Item → Bytes → Option Bytes
  | [] => m
  | .set k v :: r => C16Writes (fun k' => if k = k' then some v else m k') r
  | .del k :: r => C16Writes (fun k' => if k = k' then none else m k') r
  | _ :: r => C16Writes m r

private theorem C16Writes_congr (items : List Item) : ∀ (m m' : Bytes → Option Bytes),
    (∀ k, m k = m' k) → ∀ k, C16Writes m items k = C16Writes m' items k := by
  induction items with
  | nil => intro m m' h k; exact h k
  | cons it r ih =>
    intro m m' h k
    cases it <;> simp only [C16Writes]
    case set a b => exact ih _ _ (fun k' => by simp only [h k']) k
    case del a => exact ih _ _ (fun k' => by simp only [h k']) k
    all_goals exact ih _ _ h k

private theorem runSection_writes (items : List Item) : ∀ (s : SecSt), C16NoSnap items →
    C12Inv s.st → (runSection s items).2 = true →
      C12Inv (runSection s items).1.st ∧
        ∀ k, eff (runSection s items).1.st k = C16Writes (eff s.st) items k := by
  induction items with
  | nil => intro s _ hinv _; exact ⟨hinv, fun _ => rfl⟩
  | cons it r ih =>
    intro s hns hinv hok
    simp only [runSection] at hok ⊢
    split at hok
    · next hit =>
      rw [if_pos hit]
      have step : C16NoSnap r ∧ C12Inv (runItem s it).1.st ∧
          ∀ k, C16Writes (eff (runItem s it).1.st) r k = C16Writes (eff s.st) (it :: r) k := by
        cases it with
        | set a b =>
          have := C12_set_refines s.st hinv a b
          exact ⟨hns, this.2, C16Writes_congr r _ _ this.1⟩
        | del a =>
          have := C12_del_refines s.st hinv a
          exact ⟨hns, this.2, C16Writes_congr r _ _ this.1⟩
        | get a =>
          have := C12_get_refines s.st hinv a
          refine ⟨hns, ?_, ?_⟩
          · simp only [runItem]; split <;> exact this.2.2
          · simp only [runItem]
            split <;> exact C16Writes_congr r _ _ this.2.1
        | chk a b =>
          have := C12_get_refines s.st hinv a
          exact ⟨hns, this.2.2, C16Writes_congr r _ _ this.2.1⟩
        | ev u n d =>
          refine ⟨hns, ?_, ?_⟩
          · simp only [runItem]; split <;> exact hinv
          · simp only [runItem]; split <;> exact fun k => rfl
        | badEv =>
          refine ⟨hns, ?_, ?_⟩
          · simp only [runItem]; split <;> exact hinv
          · simp only [runItem]; split <;> exact fun k => rfl
        | push => exact absurd hns (by simp [C16NoSnap])
        | pop => exact absurd hns (by simp [C16NoSnap])
        | fail => simp [runItem] at hit
      obtain ⟨h1, h2⟩ := ih _ step.1 step.2.1 hok
      exact ⟨h1, fun k => (h2 k).trans (step.2.2 k)⟩
    · cases hok

/-- For a successful command that takes no snapshots of its own, the resulting state is the state
before the command with all of the command's sets and deletes applied in order. -/
theorem C16_success_applies_writes (st : St) (hinv : C12Inv st) (lg : EventLogger) (cmd : List Item)
    (hns : C16NoSnap cmd) (hok : (commandPhase st lg cmd).success = true) :
    ∀ k, eff (commandPhase st lg cmd).st k = C16Writes (eff st) cmd k := by
  rw [commandPhase_success] at hok
  rw [commandPhase_ok st lg cmd hok]
  have hinv' : C12Inv (snapshot st).1 := C12_cache_invariant st hinv [.snapshot]
  have := runSection_writes cmd { st := (snapshot st).1, lg := createSnapshot lg } hns hinv' hok
  intro k
  exact this.2 k

/-! ### whole transactions -/

/-- the standard event of a transaction (`EventNameDefault`) -/
def C16StdEvent (success : Bool) (height index : Nat) : Event :=
  { module := modName, name := stdEventName, data := stdData success, ntopics := 1,
    height := height, index := index }

private theorem std_names_ok : (alnum modName && alnum stdEventName) = true := by decide

private theorem std_valid (b : Bool) (h i : Nat) : (C16StdEvent b h i).valid = true := by
  unfold Event.valid C16StdEvent
  dsimp only
  rw [std_names_ok]
  cases b <;> simp [stdData, eventMaxSizeBytes, eventMaxTopics]

/-- the standard event can always be added -/
private theorem add_std (l : EventLogger) (hT : l.hasTopic = true) (b : Bool) :
    add l modName stdEventName (stdData b) 0 =
      some { l with events := l.events ++ [⟨C16StdEvent b l.height l.events.length, false⟩] } := by
  unfold add createEvent
  simp only [hT, Bool.not_true, Bool.false_eq_true, if_false]
  have := std_valid b l.height l.events.length
  unfold C16StdEvent at this
  rw [if_pos this]
  rfl

private theorem restoreSnapshot_cfg (l : EventLogger) :
    (restoreSnapshot l).hasTopic = l.hasTopic ∧ (restoreSnapshot l).height = l.height := by
  unfold restoreSnapshot
  split <;> exact ⟨rfl, rfl⟩

private theorem commandPhase_cfg (st : St) (lg : EventLogger) (cmd : List Item) :
    (commandPhase st lg cmd).lg.hasTopic = lg.hasTopic ∧
      (commandPhase st lg cmd).lg.height = lg.height := by
  obtain ⟨_, _, _, _, hT, hH⟩ := ran_events st lg cmd
  cases h : (ran st lg cmd).2 with
  | true => rw [commandPhase_ok st lg cmd h]; exact ⟨hT, hH⟩
  | false =>
    rw [commandPhase_fail st lg cmd h]
    have := restoreSnapshot_cfg (ran st lg cmd).1.lg
    exact ⟨this.1.trans hT, this.2.trans hH⟩

private theorem commandPhase_restoreFailed (st : St) (lg : EventLogger) (cmd : List Item) :
    (commandPhase st lg cmd).restoreFailed = false := by
  cases h : (ran st lg cmd).2 with
  | true => rw [commandPhase_ok st lg cmd h]
  | false => rw [commandPhase_fail st lg cmd h]

/-- `ExecuteTransaction` for a module without command hooks -/
private theorem executeTransaction_nohooks (st : St) (height : Nat) (cmd : List Item) :
    executeTransaction st height { cmd := cmd } =
      ((commandPhase st (newLogger height) cmd).st,
       if (commandPhase st (newLogger height) cmd).success then Result.ok else Result.fail,
       (commandPhase st (newLogger height) cmd).lg.out ++
         [C16StdEvent (commandPhase st (newLogger height) cmd).success height
            (commandPhase st (newLogger height) cmd).lg.events.length]) := by
  have hcfg := commandPhase_cfg st (newLogger height) cmd
  have hT : (commandPhase st (newLogger height) cmd).lg.hasTopic = true := hcfg.1
  have hH : (commandPhase st (newLogger height) cmd).lg.height = height := hcfg.2
  unfold executeTransaction
  simp only [runSection, Bool.not_true, Bool.false_eq_true, if_false,
    commandPhase_restoreFailed, add_std _ hT, EventLogger.out, List.map_append, List.map_cons,
    List.map_nil, hH]
  rfl

/-- **A transaction whose command fails** (module without command hooks): the result is `Fail`,
the staged state is exactly the state before the transaction, and the response holds the
unrevertible events of the command — renumbered from 0 — followed by the standard event with
`success = false`; nothing else. -/
theorem C16_failed_transaction (st : St) (height : Nat) (cmd : List Item)
    (hfail : (commandPhase st (newLogger height) cmd).success = false) :
    (executeTransaction st height { cmd := cmd }).2.1 = .fail ∧
      (∀ k, eff (executeTransaction st height { cmd := cmd }).1 k = eff st k) ∧
      ∃ new, (commandPhase st (newLogger height) cmd).lgRan.events = new ∧
        (executeTransaction st height { cmd := cmd }).2.2 =
          (reindexFrom 0 (new.filter (·.noRevert))).map (·.event) ++
            [C16StdEvent false height (new.filter (·.noRevert)).length] := by
  obtain ⟨_, hs⟩ := C16_failed_command_state_unchanged st (newLogger height) cmd hfail
  obtain ⟨new, h1, h2, _⟩ := C16_failed_command_events st (newLogger height) cmd hfail
  rw [executeTransaction_nohooks]
  refine ⟨by simp [hfail], hs, new, by simpa [newLogger, setDefaultTopic] using h1, ?_⟩
  have h2' : (commandPhase st (newLogger height) cmd).lg.events =
      reindexFrom 0 (new.filter (·.noRevert)) := by
    simpa [newLogger, setDefaultTopic] using h2
  simp only [EventLogger.out, h2', hfail, reindexFrom_length]

/-- **A transaction whose command succeeds** (module without command hooks): the result is `OK`,
the staged state is the one the command left, every event of the command is kept as logged and the
standard event with `success = true` follows. -/
theorem C16_successful_transaction (st : St) (height : Nat) (cmd : List Item)
    (hok : (commandPhase st (newLogger height) cmd).success = true) :
    (executeTransaction st height { cmd := cmd }).2.1 = .ok ∧
      (∀ k, eff (executeTransaction st height { cmd := cmd }).1 k =
        eff (runSection { st := (snapshot st).1, lg := createSnapshot (newLogger height) } cmd).1.st k) ∧
      (executeTransaction st height { cmd := cmd }).2.2 =
        (runSection { st := (snapshot st).1, lg := createSnapshot (newLogger height) } cmd).1.lg.out ++
          [C16StdEvent true height
             (runSection { st := (snapshot st).1,
                           lg := createSnapshot (newLogger height) } cmd).1.lg.events.length] := by
  obtain ⟨h1, h2, _⟩ := C16_success_keeps_all st (newLogger height) cmd hok
  rw [executeTransaction_nohooks]
  refine ⟨by simp [hok], h1, ?_⟩
  simp only [EventLogger.out, h2, hok]

/-- **Transactions of modules with command hooks**: when the `BeforeCommandExecute` hooks, the
lookup of the command and the `AfterCommandExecute` hooks succeed, the result is `OK` / `Fail`
according to the command alone, the final staged store is what the after-hooks left, and a failing
command contributes nothing to it: the after-hooks start from exactly the state the before-hooks
left ("the state before the command ran"). -/
theorem C16_transaction_structure (st : St) (height : Nat) (tx : Tx) (hk : tx.cmdKnown = true)
    (hpre : (runSection { st := st, lg := newLogger height } tx.pre).2 = true)
    (hpost : (runSection
      { st := (commandPhase (runSection { st := st, lg := newLogger height } tx.pre).1.st
                (runSection { st := st, lg := newLogger height } tx.pre).1.lg tx.cmd).st,
        lg := (commandPhase (runSection { st := st, lg := newLogger height } tx.pre).1.st
                (runSection { st := st, lg := newLogger height } tx.pre).1.lg tx.cmd).lg } tx.post).2 = true) :
    (executeTransaction st height tx).1 = (runSection
      { st := (commandPhase (runSection { st := st, lg := newLogger height } tx.pre).1.st
                (runSection { st := st, lg := newLogger height } tx.pre).1.lg tx.cmd).st,
        lg := (commandPhase (runSection { st := st, lg := newLogger height } tx.pre).1.st
                (runSection { st := st, lg := newLogger height } tx.pre).1.lg tx.cmd).lg } tx.post).1.st ∧
    (executeTransaction st height tx).2.1 =
      (if (commandPhase (runSection { st := st, lg := newLogger height } tx.pre).1.st
            (runSection { st := st, lg := newLogger height } tx.pre).1.lg tx.cmd).success
       then Result.ok else Result.fail) ∧
    ((commandPhase (runSection { st := st, lg := newLogger height } tx.pre).1.st
        (runSection { st := st, lg := newLogger height } tx.pre).1.lg tx.cmd).success = false →
      ∀ k, eff (commandPhase (runSection { st := st, lg := newLogger height } tx.pre).1.st
          (runSection { st := st, lg := newLogger height } tx.pre).1.lg tx.cmd).st k =
        eff (runSection { st := st, lg := newLogger height } tx.pre).1.st k) := by
  have hT1 := (runSection_grows tx.pre { st := st, lg := newLogger height }).cfg.2.2
  have hT2 := (commandPhase_cfg (runSection { st := st, lg := newLogger height } tx.pre).1.st
    (runSection { st := st, lg := newLogger height } tx.pre).1.lg tx.cmd).1
  have hT3 := (runSection_grows tx.post
    { st := (commandPhase (runSection { st := st, lg := newLogger height } tx.pre).1.st
              (runSection { st := st, lg := newLogger height } tx.pre).1.lg tx.cmd).st,
      lg := (commandPhase (runSection { st := st, lg := newLogger height } tx.pre).1.st
              (runSection { st := st, lg := newLogger height } tx.pre).1.lg tx.cmd).lg }).cfg.2.2
  have hT : (runSection
      { st := (commandPhase (runSection { st := st, lg := newLogger height } tx.pre).1.st
                (runSection { st := st, lg := newLogger height } tx.pre).1.lg tx.cmd).st,
        lg := (commandPhase (runSection { st := st, lg := newLogger height } tx.pre).1.st
                (runSection { st := st, lg := newLogger height } tx.pre).1.lg tx.cmd).lg } tx.post).1.lg.hasTopic
      = true := by
    rw [← hT3]; dsimp only; rw [hT2, ← hT1]; rfl
  refine ⟨?_, ?_, fun hf => (C16_failed_command_state_unchanged _ _ _ hf).2⟩
  · unfold executeTransaction
    simp only [hpre, hk, hpost, Bool.not_true, Bool.false_eq_true, if_false,
      commandPhase_restoreFailed, add_std _ hT]
  · unfold executeTransaction
    simp only [hpre, hk, hpost, Bool.not_true, Bool.false_eq_true, if_false,
      commandPhase_restoreFailed, add_std _ hT]

/-! ### event indices -/

private theorem grows_wellIdx {a b : EventLogger} (h : Grows a b) (ha : IdxFrom 0 a.events) :
    IdxFrom 0 b.events := by
  obtain ⟨new, he, hi⟩ := h.ext
  rw [he, idxFrom_append]
  exact ⟨ha, by simpa using hi⟩

private theorem restoreSnapshot_wellIdx (l : EventLogger) (h : IdxFrom 0 l.events) :
    IdxFrom 0 (restoreSnapshot l).events := by
  unfold restoreSnapshot
  split
  · exact h
  · next n _ =>
    dsimp only
    rw [idxFrom_append]
    refine ⟨idxFrom_take _ _ _ h, ?_⟩
    by_cases hn : n ≤ l.events.length
    · have : 0 + (List.take n l.events).length = n := by simp [List.length_take]; omega
      rw [this]
      exact idxFrom_reindexFrom _ _
    · have : List.drop n l.events = [] := List.drop_eq_nil_of_le (by omega)
      rw [this]
      trivial

private theorem commandPhase_wellIdx (st : St) (lg : EventLogger) (cmd : List Item)
    (h : IdxFrom 0 lg.events) : IdxFrom 0 (commandPhase st lg cmd).lg.events := by
  have hg : IdxFrom 0 (ran st lg cmd).1.lg.events := grows_wellIdx (ran_grows st lg cmd) h
  cases hx : (ran st lg cmd).2 with
  | true => rw [commandPhase_ok st lg cmd hx]; exact hg
  | false => rw [commandPhase_fail st lg cmd hx]; exact restoreSnapshot_wellIdx _ hg

private theorem executeTransaction_out (st : St) (height : Nat) (tx : Tx) :
    ∃ lg : EventLogger, IdxFrom 0 lg.events ∧ (executeTransaction st height tx).2.2 = lg.out := by
  have w0 : IdxFrom 0 (newLogger height).events := trivial
  have wp := grows_wellIdx (runSection_grows tx.pre { st := st, lg := newLogger height }) w0
  unfold executeTransaction
  dsimp only
  split
  · exact ⟨_, wp, rfl⟩
  · split
    · exact ⟨_, wp, rfl⟩
    · have wc := commandPhase_wellIdx
        (runSection { st := st, lg := newLogger height } tx.pre).1.st _ tx.cmd wp
      split
      · exact ⟨_, wc, rfl⟩
      · have wq := grows_wellIdx (runSection_grows tx.post
          { st := (commandPhase (runSection { st := st, lg := newLogger height } tx.pre).1.st
                    (runSection { st := st, lg := newLogger height } tx.pre).1.lg tx.cmd).st,
            lg := (commandPhase (runSection { st := st, lg := newLogger height } tx.pre).1.st
                    (runSection { st := st, lg := newLogger height } tx.pre).1.lg tx.cmd).lg }) wc
        split
        · exact ⟨_, wq, rfl⟩
        · split
          · exact ⟨_, wq, rfl⟩
          · next lg' hadd => exact ⟨lg', grows_wellIdx (grows_add hadd) wq, rfl⟩

/-- **Events are indexed consecutively**: in the response of every `ExecuteTransaction` — any
hooks, any command, success, failure or invalid — the i-th event carries index i. -/
theorem C16_event_indices_consecutive (st : St) (height : Nat) (tx : Tx) (i : Nat)
    (h : i < (executeTransaction st height tx).2.2.length) :
    ((executeTransaction st height tx).2.2[i]).index = i := by
  obtain ⟨lg, hw, he⟩ := executeTransaction_out st height tx
  have hl : i < lg.events.length := by
    have := h; rw [he] at this; simpa [EventLogger.out] using this
  have := idxFrom_get lg.events 0 hw i hl
  simp only [he, EventLogger.out, List.getElem_map]
  omega

/-- The same for the events of a block hook (`BeforeTransactionsExecute` / `AfterTransactionsExecute`). -/
theorem C16_block_hook_indices_consecutive (a : App) (items : List Item) (evs : List Event)
    (hr : (blockHook a items).2 = some evs) (i : Nat) (h : i < evs.length) : (evs[i]).index = i := by
  unfold blockHook at hr
  split at hr
  · cases hr
  · next c _ =>
    dsimp only at hr
    split at hr
    · simp only [Option.some.injEq] at hr
      subst hr
      have w := grows_wellIdx (runSection_grows items { st := stOf a c, lg := newLogger c.height })
        (show IdxFrom 0 (newLogger c.height).events from trivial)
      have hl : i < (runSection { st := stOf a c, lg := newLogger c.height } items).1.lg.events.length := by
        simpa [EventLogger.out] using h
      have := idxFrom_get _ 0 w i hl
      simp only [EventLogger.out, List.getElem_map]
      omega
    · cases hr

/-! ### the state root -/

/-- the root of the sparse Merkle tree depends only on the map the tree holds (property C10) -/
def C16SmtRootExt (smtRoot : Leaves → Bytes) : Prop :=
  ∀ l1 l2 : Leaves, (∀ tk, slookup l1 tk = slookup l2 tk) → smtRoot l1 = smtRoot l2

private theorem commit_store (st : St) :
    (DiffDB.commit st).1.store = (commitCache st.cache st.store {}).1 := rfl

private theorem commit_diff (st : St) : (DiffDB.commit st).2 = (commitCache st.cache st.store {}).2 := rfl

/-- what a successful, non-dry `Commit` returns and stores -/
private theorem commit_ok (P : Params) (a : App) (c : Ctx) (hctx : a.ctx = some c)
    (expected : Option Bytes) (a' : App) (root : Bytes)
    (hc : commit P a expected false = (a', some root)) :
    a' = { a with store := applyStore a.store (batchOfCache c.cache),
                  leaves := applyLeaves P.H a.leaves (batchOfCache c.cache),
                  diffs := putDiff a.diffs c.height (commitCache c.cache a.store {}).2,
                  treeState := some (c.height, root) } ∧
      root = P.smtRoot (applyLeaves P.H a.leaves (batchOfCache c.cache)) := by
  unfold Exec.commit at hc
  rw [hctx] at hc
  dsimp only at hc
  split at hc
  · simp at hc
  · simp only [Bool.false_eq_true, if_false, Prod.mk.injEq, Option.some.injEq] at hc
    obtain ⟨h1, h2⟩ := hc
    subst h2
    exact ⟨by rw [← h1, hctx], rfl⟩

/-- **The committed state root is the sparse-Merkle root of the resulting state.**  After a block
is committed (any staged overlay `c` satisfying the staged-store invariant, over a state whose tree
holds the image of the state): the stored state is the effective state of the block (C12), the tree
holds exactly one leaf `(treeKey k, H v)` per entry `k ↦ v` of that state — keys deleted by the
block have no leaf — the returned root is the root of that tree and is recorded with the height;
with `C16SmtRootExt` it is the root of the tree built from the resulting state alone. -/
theorem C16_state_root_is_root_of_state (P : Params) (a : App) (c : Ctx) (hctx : a.ctx = some c)
    (hinv : C12Inv (stOf a c)) (hleaf : LeafInv P.H a.store a.leaves) (hTK : TreeKeyInj P.H)
    (expected : Option Bytes) (a' : App) (root : Bytes)
    (hc : commit P a expected false = (a', some root)) :
    (∀ k, slookup a'.store k = eff (stOf a c) k) ∧
      LeafInv P.H a'.store a'.leaves ∧
      (∀ k, eff (stOf a c) k = none → slookup a'.leaves (treeKey P.H k) = none) ∧
      root = P.smtRoot a'.leaves ∧ a'.treeState = some (c.height, root) ∧
      (C16SmtRootExt P.smtRoot → root = P.smtRoot (leavesOf P.H a'.store)) := by
  obtain ⟨ha', hroot⟩ := commit_ok P a c hctx expected a' root hc
  have hstore : ∀ k, slookup a'.store k = eff (stOf a c) k := by
    intro k
    have := C12_commit_exact (stOf a c) hinv k
    rw [commit_store, applyStore_batchOfCache] at this
    rw [ha']; exact this
  have hl : LeafInv P.H a'.store a'.leaves := by
    rw [ha']; exact leafInv_apply hTK _ hleaf
  refine ⟨hstore, hl, ?_, by rw [ha']; exact hroot, by rw [ha'], ?_⟩
  · intro k hk
    cases hlk : slookup a'.leaves (treeKey P.H k) with
    | none => rfl
    | some hv =>
      obtain ⟨k', v, h1, h2, _⟩ := (hl _ _).mp hlk
      have := hTK _ _ h2
      subst this
      rw [hstore, hk] at h1
      cases h1
  · intro hext
    have hnd : NoDupKeys a'.store := by
      rw [ha']; exact nodup_applyStore _ _ hinv.nodupS
    have hl2 := leafInv_leavesOf hTK a'.store hnd
    have : P.smtRoot a'.leaves = P.smtRoot (leavesOf P.H a'.store) :=
      hext _ _ (leafInv_unique hl hl2 (fun _ => rfl))
    rw [← this, ha']; exact hroot

/-- **Reverting the block restores the previous state and root.**  After the commit of a block at
height `h`, `Revert` in a context at height `h` succeeds, every key of the state holds its previous
value again, the tree holds the previous map again, and the recorded tree state is `(h - 1, root)`
with `root` the root of that tree — with `C16SmtRootExt`, the root before the block. -/
theorem C16_revert_restores_state_and_root (P : Params) (a : App) (c : Ctx) (hctx : a.ctx = some c)
    (hinv : C12Inv (stOf a c)) (hleaf : LeafInv P.H a.store a.leaves) (hTK : TreeKeyInj P.H)
    (expected : Option Bytes) (a1 : App) (root1 : Bytes)
    (hc : commit P a expected false = (a1, some root1)) (c' : Ctx) (hh : c'.height = c.height) :
    ∃ a2 root2, revert P { a1 with ctx := some c' } none = (a2, some root2) ∧
      (∀ k, slookup a2.store k = slookup a.store k) ∧
      (∀ tk, slookup a2.leaves tk = slookup a.leaves tk) ∧
      LeafInv P.H a2.store a2.leaves ∧
      root2 = P.smtRoot a2.leaves ∧ a2.treeState = some (pred32 c.height, root2) ∧
      (C16SmtRootExt P.smtRoot → root2 = P.smtRoot a.leaves) := by
  obtain ⟨ha1, _⟩ := commit_ok P a c hctx expected a1 root1 hc
  obtain ⟨_, hl1, _⟩ := C16_state_root_is_root_of_state P a c hctx hinv hleaf hTK expected a1 root1 hc
  have hfind : findDiff a1.diffs c.height = some (commitCache c.cache a.store {}).2 := by
    rw [ha1]; exact findDiff_putDiff _ _ _
  refine ⟨{ a1 with ctx := some c',
                    store := applyStore a1.store (batchOfDiff (commitCache c.cache a.store {}).2),
                    leaves := applyLeaves P.H a1.leaves (batchOfDiff (commitCache c.cache a.store {}).2),
                    treeState := some (pred32 c.height, P.smtRoot
                      (applyLeaves P.H a1.leaves (batchOfDiff (commitCache c.cache a.store {}).2))) },
    P.smtRoot (applyLeaves P.H a1.leaves (batchOfDiff (commitCache c.cache a.store {}).2)),
    ?_, ?_, ?_, ?_, rfl, rfl, ?_⟩
  · simp only [Exec.revert, revertAt, hh, hfind, Option.isSome_none, Bool.false_and,
      Bool.false_eq_true, if_false]
  · intro k
    have := C12_revert_exact (stOf a c) hinv k
    rw [commit_store, commit_diff, ← applyStore_batchOfDiff, applyStore_batchOfCache] at this
    dsimp only
    rw [ha1]
    exact this
  · have hl2 : LeafInv P.H (applyStore a1.store (batchOfDiff (commitCache c.cache a.store {}).2))
        (applyLeaves P.H a1.leaves (batchOfDiff (commitCache c.cache a.store {}).2)) :=
      leafInv_apply hTK _ hl1
    refine leafInv_unique hl2 hleaf ?_
    intro k
    have := C12_revert_exact (stOf a c) hinv k
    rw [commit_store, commit_diff, ← applyStore_batchOfDiff, applyStore_batchOfCache] at this
    rw [ha1]
    exact this
  · exact leafInv_apply hTK _ hl1
  · intro hext
    apply hext
    have hl2 : LeafInv P.H (applyStore a1.store (batchOfDiff (commitCache c.cache a.store {}).2))
        (applyLeaves P.H a1.leaves (batchOfDiff (commitCache c.cache a.store {}).2)) :=
      leafInv_apply hTK _ hl1
    refine leafInv_unique hl2 hleaf ?_
    intro k
    have := C12_revert_exact (stOf a c) hinv k
    rw [commit_store, commit_diff, ← applyStore_batchOfDiff, applyStore_batchOfCache] at this
    rw [ha1]
    exact this

/-! ### restart recovery -/

/-- the state and the tree of two application databases are the same maps -/
structure C16SameMaps (a b : App) : Prop where
  store : ∀ k, slookup a.store k = slookup b.store k
  leaves : ∀ tk, slookup a.leaves tk = slookup b.leaves tk

/-- one block as the engine drives it: a fresh context, module code staged into it (represented by
the resulting overlay `c`), `Commit` without an expected root, `Clear` -/
def C16Block (P : Params) (a : App) (c : Ctx) : App :=
  clear (commit P { a with ctx := some c } none false).1

/-- `C16Chain P a0 h0 a h`: the application database `a` at height `h` is reached from `a0` at
height `h0` by executing and committing the blocks `h0+1 … h`, each one any staged overlay that
satisfies the staged-store invariant. -/
inductive C16Chain (P : Params) (a0 : App) (h0 : Nat) : App → Nat → Prop
  | base : C16Chain P a0 h0 a0 h0
  | block {a : App} {h : Nat} (c : Ctx) : C16Chain P a0 h0 a h →
      c.height = h + 1 → C12Inv (stOf a c) → C16Chain P a0 h0 (C16Block P a c) (h + 1)

private theorem block_eq (P : Params) (a : App) (c : Ctx) :
    C16Block P a c =
      { a with store := applyStore a.store (batchOfCache c.cache),
               leaves := applyLeaves P.H a.leaves (batchOfCache c.cache),
               diffs := putDiff a.diffs c.height (commitCache c.cache a.store {}).2,
               treeState := some (c.height, P.smtRoot (applyLeaves P.H a.leaves (batchOfCache c.cache))),
               ctx := none } := by
  simp [C16Block, Exec.commit, clear]

/-- the maps after reverting the diff of a block are the maps before the block -/
private theorem block_revert_maps (P : Params) (a : App) (c : Ctx) (hinv : C12Inv (stOf a c))
    (hleaf : LeafInv P.H a.store a.leaves) (hTK : TreeKeyInj P.H) :
    (∀ k, slookup (applyStore (applyStore a.store (batchOfCache c.cache))
        (batchOfDiff (commitCache c.cache a.store {}).2)) k = slookup a.store k) ∧
    (∀ tk, slookup (applyLeaves P.H (applyLeaves P.H a.leaves (batchOfCache c.cache))
        (batchOfDiff (commitCache c.cache a.store {}).2)) tk = slookup a.leaves tk) ∧
    LeafInv P.H (applyStore a.store (batchOfCache c.cache))
      (applyLeaves P.H a.leaves (batchOfCache c.cache)) := by
  have hs : ∀ k, slookup (applyStore (applyStore a.store (batchOfCache c.cache))
      (batchOfDiff (commitCache c.cache a.store {}).2)) k = slookup a.store k := by
    intro k
    have := C12_revert_exact (stOf a c) hinv k
    rw [commit_store, commit_diff, ← applyStore_batchOfDiff, applyStore_batchOfCache] at this
    exact this
  have hl1 := leafInv_apply hTK (batchOfCache c.cache) hleaf
  exact ⟨hs, leafInv_unique (leafInv_apply hTK _ hl1) hleaf hs, hl1⟩

private theorem applyStore_congr (ws : List Write) : ∀ (s s' : Store),
    (∀ k, slookup s k = slookup s' k) →
      ∀ k, slookup (applyStore s ws) k = slookup (applyStore s' ws) k := by
  induction ws with
  | nil => intro s s' h; exact h
  | cons w r ih =>
    intro s s' h
    apply ih
    intro k
    obtain ⟨k0, o⟩ := w
    cases o with
    | some v => simp only [applyWrite, slookup_sset, h k]
    | none => simp only [applyWrite, slookup_sdel, h k]

private theorem applyLeaves_congr (H : Bytes → Bytes) (ws : List Write) : ∀ (l l' : Leaves),
    (∀ k, slookup l k = slookup l' k) →
      ∀ k, slookup (applyLeaves H l ws) k = slookup (applyLeaves H l' ws) k := by
  induction ws with
  | nil => intro l l' h; exact h
  | cons w r ih =>
    intro l l' h
    apply ih
    intro k
    obtain ⟨k0, o⟩ := w
    cases o with
    | some v => simp only [applyLeaf, slookup_sset, h k]
    | none => simp only [applyLeaf, slookup_sdel, h k]

private theorem findDiff_putDiff_ne (l : List (Nat × Diff)) (h i : Nat) (d : Diff) (hne : i ≠ h) :
    findDiff (putDiff l h d) i = findDiff l i := by
  unfold putDiff
  simp only [findDiff, Ne.symm hne, if_false]
  induction l with
  | nil => rfl
  | cons e r ih =>
    obtain ⟨j, dj⟩ := e
    by_cases hj : j = h
    · subst hj
      simp only [List.filter, ne_eq, not_true_eq_false, decide_false, findDiff, Ne.symm hne, if_false]
      exact ih
    · simp only [List.filter, ne_eq, hj, not_false_eq_true, decide_true, findDiff]
      split
      · rfl
      · exact ih

private theorem pred32_succ (h : Nat) (hb : h + 1 < 4294967296) : pred32 (h + 1) = h := by
  unfold pred32; omega

/-- the invariants that hold along a chain of blocks -/
private theorem chain_inv (P : Params) (hTK : TreeKeyInj P.H) {a0 : App} {h0 : Nat} {a : App} {h : Nat}
    (hc : C16Chain P a0 h0 a h) (hleaf0 : LeafInv P.H a0.store a0.leaves)
    (hts0 : a0.treeState.getD (0, P.smtRoot []) = (h0, P.smtRoot a0.leaves)) :
    LeafInv P.H a.store a.leaves ∧ h0 ≤ h ∧
      a.treeState.getD (0, P.smtRoot []) = (h, P.smtRoot a.leaves) := by
  induction hc with
  | base => exact ⟨hleaf0, Nat.le_refl _, hts0⟩
  | block c _ hh hinv ih =>
    obtain ⟨hl, hle, _⟩ := ih
    rw [block_eq]
    exact ⟨leafInv_apply hTK _ hl, by omega, by rw [hh]; rfl⟩

/-- the loop of `Init` over a chain of blocks, from any database holding the same maps and diffs -/
private theorem initLoop_chain (P : Params) (hTK : TreeKeyInj P.H) {a0 : App} {h0 : Nat} {a : App}
    {h : Nat} (hc : C16Chain P a0 h0 a h) (hleaf0 : LeafInv P.H a0.store a0.leaves)
    (hts0 : a0.treeState.getD (0, P.smtRoot []) = (h0, P.smtRoot a0.leaves)) (hb : h < 4294967296) :
    ∀ b : App, C16SameMaps b a →
      (∀ i, h0 < i → i ≤ h → findDiff b.diffs i = findDiff a.diffs i) →
      ∃ b', initLoop P (h - h0) b h (P.smtRoot b.leaves) = (b', some (P.smtRoot b'.leaves)) ∧
        C16SameMaps b' a0 ∧ (h0 < h → b'.treeState = some (h0, P.smtRoot b'.leaves)) := by
  induction hc with
  | base =>
    intro b hsame _
    refine ⟨b, ?_, hsame, fun hlt => absurd hlt (Nat.lt_irrefl _)⟩
    simp [initLoop]
  | @block a h c hch hh hinv ih =>
    intro b hsame hdiffs
    obtain ⟨hl, hle, _⟩ := chain_inv P hTK hch hleaf0 hts0
    obtain ⟨hrs, hrl, _⟩ := block_revert_maps P a c hinv hl hTK
    have hfind : findDiff b.diffs (h + 1) = some (commitCache c.cache a.store {}).2 := by
      rw [hdiffs (h + 1) (by omega) (Nat.le_refl _), block_eq, ← hh]
      exact findDiff_putDiff _ _ _
    -- the database after the first revert of the loop
    have hb1 : C16SameMaps
        { b with store := applyStore b.store (batchOfDiff (commitCache c.cache a.store {}).2),
                 leaves := applyLeaves P.H b.leaves (batchOfDiff (commitCache c.cache a.store {}).2),
                 treeState := some (pred32 (h + 1), P.smtRoot (applyLeaves P.H b.leaves
                   (batchOfDiff (commitCache c.cache a.store {}).2))) } a := by
      constructor
      · intro k
        have := applyStore_congr (batchOfDiff (commitCache c.cache a.store {}).2) b.store
          (C16Block P a c).store hsame.store k
        rw [block_eq] at this
        exact this.trans (hrs k)
      · intro k
        have := applyLeaves_congr P.H (batchOfDiff (commitCache c.cache a.store {}).2) b.leaves
          (C16Block P a c).leaves hsame.leaves k
        rw [block_eq] at this
        exact this.trans (hrl k)
    have hd1 : ∀ i, h0 < i → i ≤ h → findDiff b.diffs i = findDiff a.diffs i := by
      intro i h1 h2
      rw [hdiffs i h1 (by omega), block_eq, findDiff_putDiff_ne _ _ _ _ (by omega)]
    obtain ⟨b', hloop, hsame', hts'⟩ := ih (by omega) _ hb1 hd1
    have hn : h + 1 - h0 = (h - h0) + 1 := by omega
    refine ⟨b', ?_, hsame', ?_⟩
    · rw [hn]
      simp only [initLoop, revertAt, hfind, Option.isSome_none, Bool.false_and, Bool.false_eq_true,
        if_false, Nat.add_sub_cancel]
      exact hloop
    · intro _
      by_cases hlt : h0 < h
      · exact hts' hlt
      · have heq : h = h0 := by omega
        subst heq
        simp only [Nat.sub_self, initLoop, Prod.mk.injEq, Option.some.injEq] at hloop
        rw [← hloop.1]
        simp only [pred32_succ h hb]

/-- **Restart recovery rolls the application back to the engine's tip.**  Let the engine's tip be
the application database `a0` at height `h0` (its tree state records `h0` and the root of its tree;
a database without tree state stands for height 0 and the empty tree),
and let the application have executed and committed any further blocks `h0+1 … h` (the chain) before
the process stopped.  Then `Init` with the engine's tip `(h0, root of a0)` succeeds, and afterwards
every key of the state and every leaf of the tree hold what they held at the engine's tip, and
(when blocks were rolled back) the tree state records height `h0` with the root of that tree. -/
theorem C16_init_recovers_to_engine_tip (P : Params) (hTK : TreeKeyInj P.H)
    (hExt : C16SmtRootExt P.smtRoot) (a0 : App) (h0 : Nat) (a : App) (h : Nat)
    (hc : C16Chain P a0 h0 a h) (hleaf0 : LeafInv P.H a0.store a0.leaves)
    (hts0 : a0.treeState.getD (0, P.smtRoot []) = (h0, P.smtRoot a0.leaves)) (hb : h < 4294967296) :
    ∃ a', init P a h0 (P.smtRoot a0.leaves) = (a', true) ∧ C16SameMaps a' a0 ∧
      (h0 < h → a'.treeState = some (h0, P.smtRoot a0.leaves)) := by
  obtain ⟨_, hle, hts⟩ := chain_inv P hTK hc hleaf0 hts0
  obtain ⟨a', hloop, hsame, hts'⟩ := initLoop_chain P hTK hc hleaf0 hts0 hb a
    ⟨fun _ => rfl, fun _ => rfl⟩ (fun _ _ _ => rfl)
  have hroot : P.smtRoot a'.leaves = P.smtRoot a0.leaves := hExt _ _ hsame.leaves
  refine ⟨a', ?_, hsame, fun hlt => by rw [hts' hlt, hroot]⟩
  unfold init
  simp only [hts]
  rw [if_neg (by omega), hloop]
  simp [hroot]

/-! ### non-vacuity: concrete instances of the hypotheses and conclusions -/

private def exP : Params :=
  { H := fun b => b, smtRoot := fun l => (isort kvLE l).foldr (fun kv acc => kv.1 ++ kv.2 ++ acc) [] }

private theorem exTK : TreeKeyInj exP.H := by
  intro a b h
  simpa [treeKey, exP] using h

private def exK1 : Bytes := [0, 0, 0, 1, 0, 0, 1]
private def exK2 : Bytes := [0, 0, 0, 1, 0, 0, 2]
private def exK3 : Bytes := [0, 0, 0, 2, 0, 0]
private def exStore : Store := [(exK1, [10]), (exK2, [20])]
private def exSt : St := { store := exStore }

/-- sets, a delete, both kinds of events, a nested snapshot, then failure -/
private def exCmdFail : List Item :=
  [.set exK1 [11], .del exK2, .ev false 1 [1], .ev true 0 [2], .push, .set exK3 [5], .pop, .get exK1, .fail]
private def exCmdOk : List Item := exCmdFail.dropLast

-- the failing command did stage its writes before failing …
example : eff (runSection { st := (snapshot exSt).1, lg := createSnapshot (newLogger 7) } exCmdFail).1.st exK2 = none ∧
    eff (runSection { st := (snapshot exSt).1, lg := createSnapshot (newLogger 7) } exCmdFail).1.st exK1 = some [11] := by
  decide
-- … it fails (hypothesis of C16_failed_command_state_unchanged / _events / C16_failed_transaction) …
example : (commandPhase exSt (newLogger 7) exCmdFail).success = false := by decide
-- … and the transaction leaves the state alone and reports the unrevertible event and the failure
example : (executeTransaction exSt 7 { cmd := exCmdFail }).2 =
    (.fail, [{ module := "scr", name := "unr", data := [2], ntopics := 1, height := 7, index := 0 },
             C16StdEvent false 7 1]) := by decide
example : eff (executeTransaction exSt 7 { cmd := exCmdFail }).1 exK2 = some [20] := by decide
-- the same command without the failure succeeds (hypothesis of C16_success_keeps_all) and keeps all
example : (commandPhase exSt (newLogger 7) exCmdOk).success = true := by decide
example : (executeTransaction exSt 7 { cmd := exCmdOk }).2.2.map (fun e => (e.name, e.index)) =
    [("rev", 0), ("unr", 1), ("read", 2), ("commandExecutionResult", 3)] := by decide
example : C16NoSnap [Item.set exK1 [11], .del exK2, .get exK3] := by simp [C16NoSnap]
-- a transaction with hooks around a failing command (C16_event_indices_consecutive)
example : (executeTransaction exSt 7 { pre := [.ev false 0 [9]], cmd := exCmdFail, post := [.ev true 2 []] }).2.2.map
    (fun e => (e.name, e.index)) = [("rev", 0), ("unr", 1), ("unr", 2), ("commandExecutionResult", 3)] := by decide

/-- a block over `exStore`: one key overwritten, one deleted, one added -/
private def exOverlay : St := run exSt [.set exK1 [11], .del exK2, .set exK3 [5]]
private def exCtx : Ctx := ctxOf { height := 4 } exOverlay
private def exApp : App :=
  { store := exStore, leaves := leavesOf exP.H exStore, treeState := some (3, exP.smtRoot (leavesOf exP.H exStore)),
    ctx := some exCtx }

private theorem exInv : C12Inv (stOf exApp exCtx) := by
  have h : stOf exApp exCtx = exOverlay := rfl
  rw [h]
  exact C12_cache_invariant exSt (C12_inv_init exStore (by unfold NoDupKeys exStore; decide)) _
example : C12Inv (stOf exApp exCtx) := exInv
example : LeafInv exP.H exApp.store exApp.leaves :=
  leafInv_leavesOf exTK exStore (by unfold NoDupKeys exStore; decide)
-- the commit succeeds (hypothesis of C16_state_root_is_root_of_state / C16_revert_…), the deleted
-- key has no leaf, and reverting gives back the previous tree
example : (commit exP exApp none false).2.isSome = true := by decide
example : slookup (commit exP exApp none false).1.leaves (treeKey exP.H exK2) = none ∧
    slookup (commit exP exApp none false).1.leaves (treeKey exP.H exK3) = some [5] := by decide
example : (revert exP { (commit exP exApp none false).1 with ctx := some { height := 4 } } none).2 =
    some (exP.smtRoot exApp.leaves) := by decide
-- a chain of one block and the recovery from it (C16_init_recovers_to_engine_tip)
example : C16Chain exP { exApp with ctx := none } 3 (C16Block exP { exApp with ctx := none } exCtx) 4 :=
  C16Chain.block exCtx C16Chain.base rfl exInv
example : (init exP (C16Block exP { exApp with ctx := none } exCtx) 3 (exP.smtRoot exApp.leaves)).2 = true := by
  decide
-- a database that never committed a block is a valid engine tip at height 0
example : ({} : App).treeState.getD (0, exP.smtRoot []) = (0, exP.smtRoot ({} : App).leaves) := rfl
