/-
C12 (library part) — the byte-string helpers of `pkg/collection/bytes` that the database layer relies
on: big-endian integer keys (`FromUint16/32/64`, `ToUint32/64`) and key concatenation
(`Join`, `JoinSize`).  Model: `LiskVerif/Model/Collection.lean` (tied to the Go code by the LIBCOLL
correspondence harness).  Helper lemmas: `LiskVerif/Lemmas/Collection.lean`.

The ORDER ISOMORPHISM `C12_lib_fromUint32_order` is what makes a height-keyed range scan of the
database (keys compared with `bytes.Compare`, model `bcmp`) return the blocks in height order.
-/
import LiskVerif.Lemmas.Collection

open LiskVerif LiskVerif.Collection

/-! ### fixed output lengths -/

theorem C12_lib_fromUint16_length (v : UInt16) : (fromUint16 v).length = 2 := rfl
theorem C12_lib_fromUint32_length (v : UInt32) : (fromUint32 v).length = 4 := rfl
theorem C12_lib_fromUint64_length (v : UInt64) : (fromUint64 v).length = 8 := rfl

/-! ### round trips -/

/-- `ToUint32(FromUint32(v)) = v` for every `uint32`. -/
theorem C12_lib_toUint32_fromUint32 (v : UInt32) : toUint32 (fromUint32 v) = .ok v := by
  obtain ⟨w, e, hw⟩ := toUint32_toNat (v >>> 24).toUInt8 (v >>> 16).toUInt8 (v >>> 8).toUInt8 v.toUInt8 []
  have : w = v := by
    apply UInt32.toNat_inj.mp
    rw [hw]; exact beVal_fromUint32 v
  have e' : toUint32 (fromUint32 v) = .ok w := e
  rw [e', this]

/-- `ToUint64(FromUint64(v)) = v` for every `uint64`. -/
theorem C12_lib_toUint64_fromUint64 (v : UInt64) : toUint64 (fromUint64 v) = .ok v := by
  obtain ⟨w, e, hw⟩ := toUint64_toNat (v >>> 56).toUInt8 (v >>> 48).toUInt8 (v >>> 40).toUInt8
    (v >>> 32).toUInt8 (v >>> 24).toUInt8 (v >>> 16).toUInt8 (v >>> 8).toUInt8 v.toUInt8 []
  have : w = v := by
    apply UInt64.toNat_inj.mp
    rw [hw]; exact beVal_fromUint64 v
  have e' : toUint64 (fromUint64 v) = .ok w := e
  rw [e', this]

/-- `ToUint32` panics exactly on fewer than 4 bytes. -/
theorem C12_lib_toUint32_panics_iff (b : Bytes) : (∃ e, toUint32 b = .error e) ↔ b.length < 4 := by
  match b with
  | [] | [_] | [_, _] | [_, _, _] => simp [toUint32]
  | _ :: _ :: _ :: _ :: r => simp [toUint32]

/-- `ToUint64` panics exactly on fewer than 8 bytes. -/
theorem C12_lib_toUint64_panics_iff (b : Bytes) : (∃ e, toUint64 b = .error e) ↔ b.length < 8 := by
  match b with
  | [] | [_] | [_, _] | [_, _, _] | [_, _, _, _] | [_, _, _, _, _] | [_, _, _, _, _, _]
  | [_, _, _, _, _, _, _] => simp [toUint64]
  | _ :: _ :: _ :: _ :: _ :: _ :: _ :: _ :: r => simp [toUint64]

/-- `FromUint32(ToUint32(b)) = b[:4]`: on at least 4 bytes `ToUint32` succeeds, ignores `b[4:]`, and
re-encoding gives the first four bytes back (so on exactly 4 bytes it is the identity). -/
theorem C12_lib_fromUint32_toUint32 (b : Bytes) (h : 4 ≤ b.length) :
    ∃ v, toUint32 b = .ok v ∧ fromUint32 v = b.take 4 := by
  match b, h with
  | b0 :: b1 :: b2 :: b3 :: r, _ =>
    obtain ⟨v, e, hv⟩ := toUint32_toNat b0 b1 b2 b3 r
    refine ⟨v, e, ?_⟩
    apply beVal_inj _ _ (by simp [fromUint32])
    rw [beVal_fromUint32, hv]; rfl

/-- `FromUint64(ToUint64(b)) = b[:8]`. -/
theorem C12_lib_fromUint64_toUint64 (b : Bytes) (h : 8 ≤ b.length) :
    ∃ v, toUint64 b = .ok v ∧ fromUint64 v = b.take 8 := by
  match b, h with
  | b0 :: b1 :: b2 :: b3 :: b4 :: b5 :: b6 :: b7 :: r, _ =>
    obtain ⟨v, e, hv⟩ := toUint64_toNat b0 b1 b2 b3 b4 b5 b6 b7 r
    refine ⟨v, e, ?_⟩
    apply beVal_inj _ _ (by simp [fromUint64])
    rw [beVal_fromUint64, hv]; rfl

/-- The package has no `ToUint16`; the decoder of the standard library (`b[1] | b[0]<<8`, here as the
big-endian value) inverts `FromUint16`, and `FromUint16` is injective. -/
theorem C12_lib_fromUint16_value (v : UInt16) : beVal (fromUint16 v) = v.toNat := beVal_fromUint16 v

theorem C12_lib_fromUint16_inj (a b : UInt16) (h : fromUint16 a = fromUint16 b) : a = b := by
  apply UInt16.toNat_inj.mp
  rw [← beVal_fromUint16 a, ← beVal_fromUint16 b, h]

theorem C12_lib_fromUint32_inj (a b : UInt32) (h : fromUint32 a = fromUint32 b) : a = b := by
  apply UInt32.toNat_inj.mp
  rw [← beVal_fromUint32 a, ← beVal_fromUint32 b, h]

theorem C12_lib_fromUint64_inj (a b : UInt64) (h : fromUint64 a = fromUint64 b) : a = b := by
  apply UInt64.toNat_inj.mp
  rw [← beVal_fromUint64 a, ← beVal_fromUint64 b, h]

/-! ### order isomorphism -/

/-- Lexicographic byte order (`bytes.Compare`) of `FromUint32 a` vs `FromUint32 b` = numeric order of
`a` vs `b`, for all `uint32` values. -/
theorem C12_lib_fromUint32_order (a b : UInt32) :
    bcmp (fromUint32 a) (fromUint32 b) = compare a.toNat b.toNat := by
  rw [bcmp_eq_compare_beVal (fromUint32 a) (fromUint32 b) rfl, beVal_fromUint32, beVal_fromUint32]

theorem C12_lib_fromUint16_order (a b : UInt16) :
    bcmp (fromUint16 a) (fromUint16 b) = compare a.toNat b.toNat := by
  rw [bcmp_eq_compare_beVal (fromUint16 a) (fromUint16 b) rfl, beVal_fromUint16, beVal_fromUint16]

theorem C12_lib_fromUint64_order (a b : UInt64) :
    bcmp (fromUint64 a) (fromUint64 b) = compare a.toNat b.toNat := by
  rw [bcmp_eq_compare_beVal (fromUint64 a) (fromUint64 b) rfl, beVal_fromUint64, beVal_fromUint64]

/-- The same on natural numbers (heights) with the width as an explicit hypothesis: for
`a, b < 2^32` the keys `FromUint32(uint32(a))`, `FromUint32(uint32(b))` compare as `a`, `b`. -/
theorem C12_lib_height_key_order (a b : Nat) (ha : a < 2 ^ 32) (hb : b < 2 ^ 32) :
    bcmp (fromUint32 a.toUInt32) (fromUint32 b.toUInt32) = compare a b := by
  rw [C12_lib_fromUint32_order]
  simp [Nat.mod_eq_of_lt ha, Nat.mod_eq_of_lt hb]

theorem C12_lib_key16_order (a b : Nat) (ha : a < 2 ^ 16) (hb : b < 2 ^ 16) :
    bcmp (fromUint16 a.toUInt16) (fromUint16 b.toUInt16) = compare a b := by
  rw [C12_lib_fromUint16_order]
  simp [Nat.mod_eq_of_lt ha, Nat.mod_eq_of_lt hb]

theorem C12_lib_key64_order (a b : Nat) (ha : a < 2 ^ 64) (hb : b < 2 ^ 64) :
    bcmp (fromUint64 a.toUInt64) (fromUint64 b.toUInt64) = compare a b := by
  rw [C12_lib_fromUint64_order]
  simp [Nat.mod_eq_of_lt ha, Nat.mod_eq_of_lt hb]

/-- Beyond the width the conversion `uint32(h)` wraps and the order is lost: the key of `2^32` sorts
BEFORE the key of `1`. -/
theorem C12_lib_height_key_order_wraps :
    (1 : Nat) < 2 ^ 32 ∧ bcmp (fromUint32 (2 ^ 32 : Nat).toUInt32) (fromUint32 (1 : Nat).toUInt32) = .lt := by
  decide

theorem C12_lib_fromUint32_lt_iff (a b : UInt32) : blt (fromUint32 a) (fromUint32 b) = true ↔ a < b := by
  unfold blt
  rw [C12_lib_fromUint32_order, UInt32.lt_iff_toNat_lt]
  simp [Nat.compare_eq_lt]

theorem C12_lib_fromUint32_le_iff (a b : UInt32) : ble (fromUint32 a) (fromUint32 b) = true ↔ a ≤ b := by
  unfold ble
  rw [C12_lib_fromUint32_order, UInt32.le_iff_toNat_le]
  simp [Nat.compare_eq_gt]

/-- a common prefix does not change the comparison (`Join(prefix, key)` keys of one bucket) -/
theorem C12_lib_bcmp_append_left (p x y : Bytes) : bcmp (p ++ x) (p ++ y) = bcmp x y := by
  induction p with
  | nil => rfl
  | cons c p ih => simp [bcmp, UInt8.lt_irrefl, ih]

private theorem isort_map {α β : Type} (f : α → β) (le : α → α → Bool) (le' : β → β → Bool)
    (h : ∀ a b, le' (f a) (f b) = le a b) (l : List α) :
    isort le' (l.map f) = (isort le l).map f := by
  have ins : ∀ (a : α) (l : List α), insertBy le' (f a) (l.map f) = (insertBy le a l).map f := by
    intro a l
    induction l with
    | nil => rfl
    | cons b r ih =>
      simp only [List.map_cons, insertBy, h]
      split <;> simp [ih]
  induction l with
  | nil => rfl
  | cons a r ih => simp only [List.map_cons, isort, ih, ins]

/-- Height-keyed scans: sorting the keys `prefix ++ FromUint32(h)` byte-wise (what the database
iterator does) lists them in ascending height order. -/
theorem C12_lib_height_keys_sorted (p : Bytes) (hs : List UInt32) :
    bytesSort (hs.map fun h => join [p, fromUint32 h])
      = (isort (fun a b => decide (a ≤ b)) hs).map fun h => join [p, fromUint32 h] := by
  unfold bytesSort
  apply isort_map
  intro a b
  simp only [join_eq, List.flatten_cons, List.flatten_nil, List.append_nil]
  unfold ble
  rw [C12_lib_bcmp_append_left, C12_lib_fromUint32_order]
  rcases Nat.lt_trichotomy a.toNat b.toNat with h | h | h
  · rw [Nat.compare_eq_lt.mpr h, decide_eq_true (UInt32.le_iff_toNat_le.mpr (by omega))]; rfl
  · rw [h, decide_eq_true (UInt32.le_iff_toNat_le.mpr (by omega))]; simp
  · rw [Nat.compare_eq_gt.mpr h, decide_eq_false (fun hle => by have := UInt32.le_iff_toNat_le.mp hle; omega)]; rfl

/-! ### Join / JoinSize -/

/-- `Join(s...)` is the concatenation of its arguments. -/
theorem C12_lib_join_eq_concat (s : List Bytes) : join s = s.flatten := join_eq s

/-- its length is the sum of the lengths -/
theorem C12_lib_join_length (s : List Bytes) : (join s).length = (s.map List.length).sum := by
  rw [join_eq, List.length_flatten]

/-- `Join(p, k)` has prefix `p` -/
theorem C12_lib_join_prefix (p k : Bytes) : hasPrefix (join [p, k]) p = true := by
  rw [join_eq]
  simp only [List.flatten_cons, List.flatten_nil, List.append_nil]
  induction p with
  | nil => cases k <;> rfl
  | cons c p ih => simp [hasPrefix, ih]

theorem C12_lib_join_prefix' (p k : Bytes) : p <+: join [p, k] := by
  rw [join_eq]; simp

/-- for a fixed prefix, `Join(p, ·)` is injective (distinct keys of a bucket stay distinct) -/
theorem C12_lib_join_inj (p k k' : Bytes) (h : join [p, k] = join [p, k']) : k = k' := by
  rw [join_eq, join_eq] at h
  simpa using h

/-- prefixes of the same length never collide either: `Join(p, k) = Join(p', k')` with
`len p = len p'` forces `p = p'` and `k = k'` (module/store prefixes have fixed length). -/
theorem C12_lib_join_inj_prefix (p p' k k' : Bytes) (hl : p.length = p'.length)
    (h : join [p, k] = join [p', k']) : p = p' ∧ k = k' := by
  rw [join_eq, join_eq] at h
  simp only [List.flatten_cons, List.flatten_nil, List.append_nil] at h
  exact List.append_inj h hl

/-- `JoinSize(size, s...)`: panics for a negative size; otherwise the first `size` bytes of the
concatenation, zero-padded on the right when the arguments are shorter. -/
theorem C12_lib_joinSize_spec (size : Nat) (s : List Bytes) :
    joinSize size s = .ok (s.flatten.take size ++ List.replicate (size - s.flatten.length) 0) :=
  joinSize_eq size s

theorem C12_lib_joinSize_negative (size : Int) (h : size < 0) (s : List Bytes) :
    joinSize size s = .error .negativeLen := by
  simp [joinSize, h]

/-- with the exact size (every call site in /repo) `JoinSize` = `Join` = concatenation -/
theorem C12_lib_joinSize_exact (s : List Bytes) :
    joinSize (s.flatten.length : Nat) s = .ok s.flatten := by
  rw [joinSize_eq]
  simp only [List.take_length, Nat.sub_self, List.replicate_zero, List.append_nil]

/-- with a size that is too small `JoinSize` silently truncates (no error, no panic) -/
theorem C12_lib_joinSize_truncates : joinSize 3 [[1, 2], [3, 4]] = .ok [1, 2, 3] := by decide

/-! ### non-vacuity -/

example : toUint32 (fromUint32 0x01020304) = .ok 0x01020304 := C12_lib_toUint32_fromUint32 _
example : fromUint32 0x01020304 = [1, 2, 3, 4] := by decide
example : fromUint64 0x0102030405060708 = [1, 2, 3, 4, 5, 6, 7, 8] := by decide
example : fromUint16 0x0102 = [1, 2] := by decide
example : toUint32 [1, 2, 3] = .error .indexOutOfRange := by decide
example : toUint32 [0, 0, 1, 0, 9] = .ok 256 := by decide
example : toUint64 [0, 0, 0, 0, 0, 0, 1, 0] = .ok 256 := by decide
example : bcmp (fromUint32 255) (fromUint32 256) = .lt := by
  rw [C12_lib_fromUint32_order]; decide
example : bcmp (fromUint32 65536) (fromUint32 65535) = .gt := by
  rw [C12_lib_fromUint32_order]; decide
example : bytesSort ([256, 1, 255].map fun h => join [[7], fromUint32 h])
    = [[7, 0, 0, 0, 1], [7, 0, 0, 0, 255], [7, 0, 0, 1, 0]] := by decide
example : join [[1, 2], [], [3]] = [1, 2, 3] := by decide
example : joinSize 5 [[1, 2], [3]] = .ok [1, 2, 3, 0, 0] := by decide
example : joinSize (-1) [[1]] = .error .negativeLen := by decide
example : join [[1], [2, 3]] = join [[1, 2], [3]] := by decide  -- prefixes of different length do collide
