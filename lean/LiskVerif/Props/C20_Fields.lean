/-
C20 — unsynchronised fields: "chain and consensus data read by RPC, P2P and generator goroutines while the
consensus goroutine adds and removes blocks — no data races".

`Props/C20.lean` checks the lockset criterion for an ANCHORED list of guarded fields (the block-cache maps,
the certificate pool lists …). A field that is simply ADDED to one of the shared structures — a memo of the
finalized height kept in `DataAccess`, written by `saveBlock` on the consensus goroutine and read by
`GetFinalizedHeight` on RPC goroutines — is not in that list: every access to it is invisible to the
criterion, and the change passes.

Here the list is DERIVED from the source. `tools/skelgen` (group `c20x`, `Gen/SkeletonsShared.lean`,
regenerated on every check run) examines every field of the shared structures

    blockCache, DataAccess, Chain, certificate.Pool, EventEmitter, diffdb.Database,
    consensus.Executer, liskbft.Module, generator.Generator, and the chain / system / generator RPC endpoints

and makes a shared variable of EVERY field that is assigned (plain / op / index assignment, `++`, `delete`,
address taken) in any function of its package other than a constructor (`New*` / `new*`) or a method named
`Init`; its guard is the struct's own mutex field, or "-" when the struct has none. All reads and writes of
these variables appear in the regenerated skeletons of all methods of these types (145 functions).

Obligations (by kernel evaluation on the regenerated table):
  * `C20_fields_derived_exact`   the derived set, with guards, for the current source — a new mutable field
                                 changes it;
  * `C20_fields_guarded_or_listed`  every derived field is accessed under its struct's mutex (exclusively
                                 for writes) from every entry point — the lockset criterion (4) of
                                 `Model/Locks.lean`, evaluated per field with calls inlined — OR is in one
                                 of two explicit lists:
        `singleGoroutine`        fields touched by one goroutine only (justified by
                                 `C20_fields_single_goroutine_justified`);
        `unsynchronisedToday`    fields that ARE shared without synchronisation in the current source —
                                 stated as a visible fact (`C20_fields_unsynchronised_today`), candidate
                                 findings, NOT a justification;
  * `C20_fields_race_free_except_listed`  with the accesses to the listed fields erased, every entry point is
                                 well-formed and satisfies the lockset criterion, so by
                                 `C20_lockset_implies_race_free` any number of goroutines running any of
                                 these functions never race on any other derived field, for every schedule.
Fields that are NOT derived are assigned only by constructors / `Init`, i.e. before the structure is shared
with other goroutines (`Engine.Start` runs every `Init` before it starts the goroutines: `Props/C04_SingleWriter`,
`Props/C13_Wire`): they are read-only afterwards.

Counterexample (`C20Fields.Memo`): the skeletons skelgen extracts from a `DataAccess` with a memoized
finalized height fail the criterion, and the interleaving semantics reaches a state in which the reader's
read and the writer's write of the memo are enabled together (a data race).
-/
import LiskVerif.Props.C20
import LiskVerif.Gen.SkeletonsShared

open LiskVerif LiskVerif.Locks

namespace C20Fields

open Gen.SkeletonsShared in
/-- configuration regenerated from the source: call table, DERIVED guards, lock order -/
def cfg : Cfg := ⟨table, guards, lockOrder⟩

open Gen.SkeletonsShared in
/-- the regenerated entry points -/
def entryTable : Table := table.filter (fun e => entries.contains e.1)

/-- the shared variable an observation accesses in violation of the lockset criterion -/
def badVar (g : List (String × String)) : Obs → Option String
  | (h, .read x) => if obsLockset g (h, .read x) then none else some x
  | (h, .write x) => if obsLockset g (h, .write x) then none else some x
  | _ => none

/-- the variables accessed without their guard somewhere in `s` (calls inlined, spawned goroutines and
deferred bodies included); an analysis that fails reports the pseudo-variable "?analysis" -/
def unguardedIn (c : Cfg) (s : Skel) : List String :=
  match analyse c.tbl fuelDefault s with
  | none => ["?analysis"]
  | some (obs, _) => (obs.filterMap (badVar c.guards)).eraseDups

/-- all variables accessed without their guard from some entry point -/
def unguardedVars (c : Cfg) (t : Table) : List String :=
  (t.flatMap (fun e => unguardedIn c e.2)).eraseDups

/-- syntactic accesses of a body (not through calls): `(isWrite, variable)` -/
def accesses : Nat → List Act → List (Bool × String)
  | 0, _ => [(true, "?fuel")]
  | _ + 1, [] => []
  | n + 1, a :: k =>
    (match a with
     | .read x => [(false, x)]
     | .write x => [(true, x)]
     | .del x => [(true, x)]
     | .go b => accesses n b
     | .loop b => accesses n b
     | .choice alts => alts.flatMap (accesses n)
     | _ => []) ++ accesses n k

/-- calls / interface calls made by a body (not through calls) -/
def callees : Nat → List Act → List String
  | 0, _ => ["?fuel"]
  | _ + 1, [] => []
  | n + 1, a :: k =>
    (match a with
     | .call f => [f]
     | .blockingCall f => [f]
     | .go b => callees n b
     | .loop b => callees n b
     | .choice alts => alts.flatMap (callees n)
     | _ => []) ++ callees n k

/-- the functions whose own body reads (`w = false`) / writes (`w = true`) the variable -/
def accessors (t : Table) (w : Bool) (x : String) : List String :=
  (t.filter (fun e => (accesses 100 e.2).contains (w, x))).map (·.1)

/-- the functions whose own body calls `f` -/
def callers (t : Table) (f : String) : List String :=
  (t.filter (fun e => (callees 100 e.2).contains f)).map (·.1)

/-- fields touched by one goroutine only -/
def singleGoroutine : List String := ["Executer.lastBlockReceived"]

/-- fields shared between goroutines WITHOUT synchronisation in the current source (facts, see
`C20_fields_unsynchronised_today`) -/
def unsynchronisedToday : List String := ["Executer.syncying", "Generator.enabledKeys"]

def listed : List String := singleGoroutine ++ unsynchronisedToday

/-- the skeleton with every access to one of the variables `xs` removed -/
def eraseVars (xs : List String) : Nat → List Act → List Act
  | 0, k => k
  | _ + 1, [] => []
  | n + 1, a :: k =>
    match a with
    | .read x => if xs.contains x then eraseVars xs n k else a :: eraseVars xs n k
    | .write x => if xs.contains x then eraseVars xs n k else a :: eraseVars xs n k
    | .del x => if xs.contains x then eraseVars xs n k else a :: eraseVars xs n k
    | .go b => .go (eraseVars xs n b) :: eraseVars xs n k
    | .loop b => .loop (eraseVars xs n b) :: eraseVars xs n k
    | .choice alts => .choice (alts.map (eraseVars xs n)) :: eraseVars xs n k
    | a => a :: eraseVars xs n k

open Gen.SkeletonsShared in
/-- the regenerated table without the accesses to the listed fields -/
def tableE : Table := table.map fun e => (e.1, eraseVars listed 200 e.2)

open Gen.SkeletonsShared in
def cfgE : Cfg := ⟨tableE, guards.filter (fun g => !listed.contains g.1), lockOrder⟩

open Gen.SkeletonsShared in
def entryTableE : Table := tableE.filter (fun e => entries.contains e.1)

end C20Fields

open C20Fields

/-! ## obligations over the regenerated skeletons -/

/-- **The derived shared variables of the current source** (field, guard): the block-cache maps and counters,
the certificate pool lists, the emitter's registration map, the staged store's overlay and snapshots — each
with the mutex of its struct — and three fields of structs that HAVE NO mutex. A field added to one of the
shared structures and assigned outside its constructor / `Init` (a memo, a counter, a "last seen" value)
appears here by itself and breaks this theorem; it then has to be guarded or justified below. -/
theorem C20_fields_derived_exact :
    Gen.SkeletonsShared.derived.map (fun d => (d.1, d.2.1)) =
      [("Database.cache", "Database.mutex"), ("Database.snapshotCount", "Database.mutex"),
       ("Database.snapshots", "Database.mutex"), ("EventEmitter.events", "EventEmitter.rwMutex"),
       ("Executer.lastBlockReceived", "-"), ("Executer.syncying", "-"), ("Generator.enabledKeys", "-"),
       ("Pool.gossiped", "Pool.mutex"), ("Pool.nonGossiped", "Pool.mutex"),
       ("blockCache.cachedBlocks", "blockCache.mutex"), ("blockCache.currentHeight", "blockCache.mutex"),
       ("blockCache.heightIndex", "blockCache.mutex"), ("blockCache.size", "blockCache.mutex")] ∧
    -- every derived variable is in the guard table the criterion uses, with that guard
    Gen.SkeletonsShared.derived.all (fun d => Gen.SkeletonsShared.guards.lookup d.1 == some d.2.1) = true ∧
    -- the structures examined
    Gen.SkeletonsShared.sharedTypes =
      ["blockCache", "DataAccess", "Chain", "Pool", "EventEmitter", "Database", "Executer", "Module",
       "Generator", "chainEndpoint", "systemEndpoint", "generatorEndpoint"] := by
  refine ⟨?_, ?_, ?_⟩ <;> decide +kernel

/-- **Every written field is guarded by its struct's mutex on all accesses, or explicitly listed.** The
variables some entry point (of the 145 regenerated ones, calls inlined) accesses without holding the guard
— for a write: exclusively — are EXACTLY the three listed fields. In particular every access to the other ten
derived fields holds the struct's mutex, and no other unguarded shared variable exists. -/
theorem C20_fields_guarded_or_listed :
    unguardedVars cfg entryTable = ["Executer.lastBlockReceived", "Executer.syncying", "Generator.enabledKeys"] ∧
    (unguardedVars cfg entryTable).all (fun x => listed.contains x) = true ∧
    (Gen.SkeletonsShared.derived.all fun d =>
      listed.contains d.1 || (d.2.1 != "-" && !(unguardedVars cfg entryTable).contains d.1)) = true := by
  have h : unguardedVars cfg entryTable =
      ["Executer.lastBlockReceived", "Executer.syncying", "Generator.enabledKeys"] := by decide +kernel
  refine ⟨h, ?_, ?_⟩ <;> rw [h] <;> decide +kernel

/-- **Justification of the single-goroutine list.** `Executer.lastBlockReceived` is read and written by the
body of `Executer.process` only; `process` is called by the loop of `Executer.Start` only (the clause
`case ctx := <-c.processCh`), i.e. by the consensus goroutine (`C04_single_writer_process_only_in_start_loop`
states the same on writergen's table, incl. the syncer callbacks). -/
theorem C20_fields_single_goroutine_justified :
    accessors Gen.SkeletonsShared.table true "Executer.lastBlockReceived" = ["Executer.process"] ∧
    accessors Gen.SkeletonsShared.table false "Executer.lastBlockReceived" = ["Executer.process"] ∧
    callers Gen.SkeletonsShared.table "Executer.process" = ["Executer.Start"] := by
  refine ⟨?_, ?_, ?_⟩ <;> decide +kernel

/-- **FACT (visible, candidate findings): what is shared without synchronisation today.**
* `Executer.syncying` (a `bool`): written by `process` on the consensus goroutine (set before `syncer.Sync`,
  cleared by a deferred function), read by `Executer.Syncing()`, which `system_getNodeInfo` calls on an RPC
  goroutine and `Generator.shouldForge` calls (through the `Consensus` interface) on the generator
  goroutine. `Executer` has no mutex.
* `Generator.enabledKeys` (a `map`): written by `EnableGeneration` / `DisableGeneration`, which
  `generator_updateStatus` calls on RPC goroutines, read by `forge` / `onFinalizeBlock` on the generator
  goroutine and by `IsGenerationEnabled` (`generator_getStatus`, RPC). `Generator` has no mutex; for a map the Go runtime may
  abort the process ("concurrent map read and map write").
This theorem breaks when either set of accessors changes, and — together with
`C20_fields_guarded_or_listed` — when one of the two fields becomes guarded (then shrink
`unsynchronisedToday`). -/
theorem C20_fields_unsynchronised_today :
    accessors Gen.SkeletonsShared.table true "Executer.syncying" = ["Executer.process"] ∧
    accessors Gen.SkeletonsShared.table false "Executer.syncying" = ["Executer.Syncing"] ∧
    callers Gen.SkeletonsShared.table "Executer.Syncing" = ["systemEndpoint.HandleGetNodeInfo"] ∧
    callers Gen.SkeletonsShared.table "Consensus.Syncing" = ["Generator.shouldForge"] ∧
    accessors Gen.SkeletonsShared.table true "Generator.enabledKeys" =
      ["Generator.EnableGeneration", "Generator.DisableGeneration"] ∧
    accessors Gen.SkeletonsShared.table false "Generator.enabledKeys" =
      ["Generator.DisableGeneration", "Generator.IsGenerationEnabled", "Generator.forge",
       "Generator.onFinalizeBlock"] ∧
    callers Gen.SkeletonsShared.table "Generator.EnableGeneration" =
      ["Generator.loadGenerator", "generatorEndpoint.HandleUpdateStatus"] ∧
    callers Gen.SkeletonsShared.table "Generator.DisableGeneration" = ["generatorEndpoint.HandleUpdateStatus"] ∧
    callers Gen.SkeletonsShared.table "Generator.IsGenerationEnabled" = ["generatorEndpoint.HandleGetStatus"] ∧
    callers Gen.SkeletonsShared.table "Generator.forge" = ["Generator.Start"] ∧
    callers Gen.SkeletonsShared.table "Generator.onFinalizeBlock" = ["Generator.Start"] := by
  refine ⟨?_, ?_, ?_, ?_, ?_, ?_, ?_, ?_, ?_, ?_, ?_⟩ <;> decide +kernel

/-- the finalized height is NOT kept in memory: `GetFinalizedHeight` and `saveBlock` access no shared
variable at all (they go to the database / the batch), and `DataAccess` has no derived field -/
theorem C20_fields_finalized_height_not_memoized :
    accesses 100 Gen.SkeletonsShared.DataAccess_GetFinalizedHeight = [] ∧
    accesses 100 Gen.SkeletonsShared.DataAccess_saveBlock = [] ∧
    (Gen.SkeletonsShared.derived.filter (fun d => d.1.startsWith "DataAccess." || d.1.startsWith "Chain.")) = [] := by
  refine ⟨?_, ?_, ?_⟩ <;> decide +kernel

/-- with the listed fields set aside, every entry point is well-formed and satisfies the lockset criterion -/
theorem C20_fields_lockset_except_listed :
    entryTableE.all (fun e => wellFormed cfgE e.2 && locksetOk cfgE e.2) = true := by
  decide +kernel

/-- **Race freedom on every derived field outside the lists**: any number of goroutines, each executing any
finite sequence of invocations of the regenerated functions (the accesses to the listed fields set aside) or
the body of a goroutine spawned by one, under any schedule, never have two conflicting accesses to a shared
variable enabled together. -/
theorem C20_fields_race_free_except_listed (u : Nat) (ps : List Path)
    (hps : ∀ p ∈ ps, ∃ e ∈ entryTableE, IsThreadPath tableE u e.2 p)
    (st : State) (hr : Reachable (initState ps) st) (i j : Nat) : raceAt st i j = false := by
  have hall := C20_fields_lockset_except_listed
  simp only [List.all_eq_true, Bool.and_eq_true] at hall
  apply C20_lockset_implies_race_free cfgE u (entryTableE.map (·.2)) _ ps _ st hr i j
  · intro s hs
    obtain ⟨e, he, rfl⟩ := List.mem_map.mp hs
    exact hall e he
  · intro p hp
    obtain ⟨e, he, hpath⟩ := hps p hp
    exact ⟨e.2, List.mem_map.mpr ⟨e, he, rfl⟩, hpath⟩

/-! ## counterexample: a memoized finalized height -/

namespace C20Fields.Memo

/-- `GetFinalizedHeight` with a memo, as skelgen extracts it: read the "loaded" flag, return the memo or load
it from the database and store it -/
def getFinalizedHeight : Skel :=
  [.read "DataAccess.finalizedHeightLoaded",
   .choice [[.read "DataAccess.finalizedHeight", .ret], []],
   .choice [[.ret], []],
   .write "DataAccess.finalizedHeight",
   .write "DataAccess.finalizedHeightLoaded",
   .read "DataAccess.finalizedHeight",
   .ret]

/-- `saveBlock` storing the new finalized height into the memo -/
def saveBlock : Skel :=
  [.write "DataAccess.finalizedHeight", .write "DataAccess.finalizedHeightLoaded"]

def table : Table := [("DataAccess.GetFinalizedHeight", getFinalizedHeight), ("DataAccess.saveBlock", saveBlock)]

/-- `DataAccess` has no mutex: the derived guard is "-" -/
def cfg : Cfg :=
  ⟨table, [("DataAccess.finalizedHeight", "-"), ("DataAccess.finalizedHeightLoaded", "-")], []⟩

/-- an RPC goroutine in `GetFinalizedHeight` (memo loaded) and the consensus goroutine in `saveBlock` -/
def readerPath : Path := [.read "DataAccess.finalizedHeightLoaded", .read "DataAccess.finalizedHeight"]
def writerPath : Path := [.write "DataAccess.finalizedHeight", .write "DataAccess.finalizedHeightLoaded"]

end C20Fields.Memo

/-- **Counterexample.** The memo fields are reported as unguarded by the criterion, both paths are paths of
the skeletons, and after the reader's first step the reader's read and the writer's write of
`finalizedHeight` are enabled together: a data race. -/
theorem C20_fields_memo_is_a_race :
    unguardedVars C20Fields.Memo.cfg C20Fields.Memo.table =
      ["DataAccess.finalizedHeightLoaded", "DataAccess.finalizedHeight"] ∧
    C20Fields.Memo.readerPath ∈ bodyPaths C20Fields.Memo.table 0 10 C20Fields.Memo.getFinalizedHeight ∧
    C20Fields.Memo.writerPath ∈ bodyPaths C20Fields.Memo.table 0 10 C20Fields.Memo.saveBlock ∧
    (∃ st, run (initState [C20Fields.Memo.readerPath, C20Fields.Memo.writerPath]) [0] = some st ∧
      raceAt st 0 1 = true) := by
  refine ⟨?_, ?_, ?_, ⟨_, rfl, ?_⟩⟩ <;> decide

/-! ## non-vacuity -/

/-- the race-freedom theorem has instances: the regenerated `last()` is one of the 142 entry points and the
tip reader's path is one of its paths -/
example :
    let p1 : Path := [.racq "blockCache.mutex", .read "blockCache.heightIndex", .read "blockCache.currentHeight",
      .rrel "blockCache.mutex"]
    entryTableE.any (fun e => e.1 == "blockCache.last" && (bodyPaths tableE 0 10 e.2).contains p1) = true ∧
    entryTableE.length = 142 := by
  refine ⟨?_, ?_⟩ <;> decide +kernel

/-- the erasure only removes accesses to the listed fields: the `Syncing` getter loses its read, `last()`
keeps all of its accesses -/
example :
    accesses 100 Gen.SkeletonsShared.Executer_Syncing = [(false, "Executer.syncying")] ∧
    accesses 100 (eraseVars listed 200 Gen.SkeletonsShared.Executer_Syncing) = [] ∧
    accesses 100 (eraseVars listed 200 Gen.SkeletonsShared.blockCache_last) =
      accesses 100 Gen.SkeletonsShared.blockCache_last ∧
    accesses 100 Gen.SkeletonsShared.blockCache_last ≠ [] := by
  refine ⟨?_, ?_, ?_, ?_⟩ <;> decide
