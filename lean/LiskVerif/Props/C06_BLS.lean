/-
C06 / C03 / C15 — the non-cryptographic logic of pkg/crypto/bls.go (Model/BLSAgg.lean).

The models of block verification (C03) and of certificates (C06) take "the aggregate certificate
signature is valid" from an ideal aggregate-signature functionality.  Between that functionality and
blst sits ordinary code: which keys the aggregation bits select, which weights are summed, the
threshold comparison, the length checks.  This file states what that code decides, for ALL key lists,
bitmaps, weights, thresholds, signatures and messages, with blst's `FastAggregateVerify` as an
arbitrary parameter `fav` (the only trusted call):

* `C06_bls_weighted_accept_iff`       BLSVerifyWeightedAggSig accepts IFF bitmap length ok ∧ one weight per
                                       key ∧ (uint64) sum of the weights at the FLAGGED positions ≥ threshold
                                       ∧ fav holds for exactly the flagged keys
* `C06_bls_weighted_accept_iff_nat`   the same without `% 2^64` when the weights add up below 2^64 (what
                                       `SetBFTParameters` guarantees for stored parameters)
* `C06_bls_weighted_sound`            acceptance ⇒ the TRUE weight of the flagged signers reaches the
                                       threshold (no hypothesis: wrapping only loses weight)
* `C06_bls_weighted_never_panics`, `C06_bls_agg_never_panics`   with the guards no read leaves bitmap / weights
* `C06_bls_weighted_reject_iff`       rejection IFF one of the four clauses fails
* `C06_bls_agg_accept_iff`            BLSVerifyAggSig accepts IFF length ok ∧ fav for exactly the flagged keys
* `C06_bls_padding_ignored`           bits at positions ≥ len(keysList) do not influence either verdict
* `C06_bls_weighted_wrap_rejects_full_commit`   what the code does when the flagged weights wrap
* `C06_bls_prefix_sum_accepts_underweight`      COUNTEREXAMPLE: summing the first k weights for k signers
                                       (seeded change C03-11) accepts a commit of weight 1 at threshold 9
* `C06_bls_weighted_refines_cert_model`  the byte-level transcription equals `Cert.verifyWeighted` (the
                                       function the C06 proofs are about) on the bits of the byte string
* `C06_bls_create_bits`                BLSCreateAggSig never panics, returns ⌈n/8⌉ bytes whose set bits are
                                       exactly the FIRST positions of the supplied public keys, and the
                                       aggregate of ALL supplied signatures (also of keys outside the list)
* `C06_bls_create_padding_zero`        BLSCreateAggSig leaves the padding bits zero
-/
import LiskVerif.Lemmas.BLSAgg
import LiskVerif.Lemmas.BLSAggCert
import LiskVerif.Lemmas.BLSAggCreate
import LiskVerif.Model.Cert

open LiskVerif LiskVerif.BLSAgg

/-! ## BLSVerifyWeightedAggSig -/

private theorem guard_iff (nk nb nw : Nat) :
    ((!validBitsLength nk nb || nw != nk) = false) ↔ (nb = (nk + 7) / 8 ∧ nw = nk) := by
  unfold validBitsLength
  simp only [Bool.or_eq_false_iff, Bool.not_eq_false', beq_iff_eq, bne_eq_false_iff_eq]

/-- the value of the transcription once both guards hold -/
private theorem weighted_value {κ σ μ : Type} (fav : List κ → μ → σ → Bool)
    (keys : List κ) (bits : Bytes) (sig : σ) (weights : List Nat) (thr : Nat) (m : μ)
    (hb : bits.length = (keys.length + 7) / 8) (hw : weights.length = keys.length) :
    verifyWeightedAggSig fav keys bits sig weights thr m =
      if (flagged bits weights).sum % u64 < thr then some false else some (fav (flagged bits keys) m sig) := by
  unfold verifyWeightedAggSig
  have hg : (!validBitsLength keys.length bits.length || weights.length != keys.length) = false :=
    (guard_iff _ _ _).2 ⟨hb, hw⟩
  rw [hg]
  simp only [Bool.false_eq_true, if_false]
  rw [weightedLoop_eq bits weights keys weights 0 [] 0 hw (fun j _ => by simp) (by omega) u64_pos]
  simp only [flagged, List.nil_append, Nat.zero_add]
  rfl

/-- **BLSVerifyWeightedAggSig accepts iff** the bitmap has one bit per key rounded up to bytes, there is
one weight per key, the uint64 sum of the weights at the FLAGGED positions reaches the threshold, and the
aggregate verifies for exactly the flagged keys. -/
theorem C06_bls_weighted_accept_iff {κ σ μ : Type} (fav : List κ → μ → σ → Bool)
    (keys : List κ) (bits : Bytes) (sig : σ) (weights : List Nat) (thr : Nat) (m : μ) :
    verifyWeightedAggSig fav keys bits sig weights thr m = some true ↔
      bits.length = (keys.length + 7) / 8 ∧ weights.length = keys.length ∧
      thr ≤ (flagged bits weights).sum % u64 ∧ fav (flagged bits keys) m sig = true := by
  constructor
  · intro h
    by_cases hg : (!validBitsLength keys.length bits.length || weights.length != keys.length) = false
    · obtain ⟨hb, hw⟩ := (guard_iff _ _ _).1 hg
      rw [weighted_value fav keys bits sig weights thr m hb hw] at h
      split at h
      · simp at h
      · exact ⟨hb, hw, by omega, by simpa using h⟩
    · unfold verifyWeightedAggSig at h
      have : (!validBitsLength keys.length bits.length || weights.length != keys.length) = true := by
        revert hg
        cases (!validBitsLength keys.length bits.length || weights.length != keys.length) <;> simp
      rw [this] at h
      simp at h
  · rintro ⟨hb, hw, ht, hf⟩
    rw [weighted_value fav keys bits sig weights thr m hb hw]
    rw [if_neg (by omega), hf]

/-- with the two guards the loop never reads outside the bitmap or the weight slice -/
theorem C06_bls_weighted_never_panics {κ σ μ : Type} (fav : List κ → μ → σ → Bool)
    (keys : List κ) (bits : Bytes) (sig : σ) (weights : List Nat) (thr : Nat) (m : μ) :
    verifyWeightedAggSig fav keys bits sig weights thr m ≠ none := by
  by_cases hg : (!validBitsLength keys.length bits.length || weights.length != keys.length) = false
  · obtain ⟨hb, hw⟩ := (guard_iff _ _ _).1 hg
    rw [weighted_value fav keys bits sig weights thr m hb hw]
    split <;> simp
  · unfold verifyWeightedAggSig
    have : (!validBitsLength keys.length bits.length || weights.length != keys.length) = true := by
      revert hg
      cases (!validBitsLength keys.length bits.length || weights.length != keys.length) <;> simp
    rw [this]
    simp

/-- **rejection iff one of the four clauses fails** -/
theorem C06_bls_weighted_reject_iff {κ σ μ : Type} (fav : List κ → μ → σ → Bool)
    (keys : List κ) (bits : Bytes) (sig : σ) (weights : List Nat) (thr : Nat) (m : μ) :
    verifyWeightedAggSig fav keys bits sig weights thr m = some false ↔
      ¬ (bits.length = (keys.length + 7) / 8 ∧ weights.length = keys.length ∧
         thr ≤ (flagged bits weights).sum % u64 ∧ fav (flagged bits keys) m sig = true) := by
  rw [← C06_bls_weighted_accept_iff]
  have hp := C06_bls_weighted_never_panics fav keys bits sig weights thr m
  cases h : verifyWeightedAggSig fav keys bits sig weights thr m with
  | none => exact absurd h hp
  | some b => cases b <;> simp

/-- **soundness without any hypothesis on the sizes**: an accepted commit is signed by exactly the flagged
keys and their TRUE (unbounded) weight reaches the threshold — a wrapping sum only loses weight. -/
theorem C06_bls_weighted_sound {κ σ μ : Type} (fav : List κ → μ → σ → Bool)
    (keys : List κ) (bits : Bytes) (sig : σ) (weights : List Nat) (thr : Nat) (m : μ)
    (h : verifyWeightedAggSig fav keys bits sig weights thr m = some true) :
    thr ≤ (flagged bits weights).sum ∧ fav (flagged bits keys) m sig = true := by
  obtain ⟨_, _, ht, hf⟩ := (C06_bls_weighted_accept_iff fav keys bits sig weights thr m).1 h
  exact ⟨Nat.le_trans ht (Nat.mod_le _ _), hf⟩

/-- **no overflow**: when all weights together stay below 2^64 (stored BFT parameters: `SetBFTParameters`
rejects an overflowing total) the comparison is the one of the natural numbers. -/
theorem C06_bls_weighted_accept_iff_nat {κ σ μ : Type} (fav : List κ → μ → σ → Bool)
    (keys : List κ) (bits : Bytes) (sig : σ) (weights : List Nat) (thr : Nat) (m : μ)
    (hsum : weights.sum < u64) :
    verifyWeightedAggSig fav keys bits sig weights thr m = some true ↔
      bits.length = (keys.length + 7) / 8 ∧ weights.length = keys.length ∧
      thr ≤ (flagged bits weights).sum ∧ fav (flagged bits keys) m sig = true := by
  rw [C06_bls_weighted_accept_iff]
  have : (flagged bits weights).sum % u64 = (flagged bits weights).sum :=
    Nat.mod_eq_of_lt (Nat.lt_of_le_of_lt (flaggedFrom_sum_le bits weights 0) hsum)
  rw [this]

/-- what the code does when the flagged weights wrap: a commit signed by EVERYBODY (weights 2^63 and
2^63, threshold 1, valid aggregate) is rejected, because the uint64 sum is 0.  Unreachable through the
engine (the stored total is below 2^64), reachable through the exported function. -/
theorem C06_bls_weighted_wrap_rejects_full_commit :
    verifyWeightedAggSig (fun (ks : List Nat) (_ : Nat) (_ : Nat) => ks == [7, 8]) [7, 8] [0x03] 0
      [9223372036854775808, 9223372036854775808] 1 0 = some false ∧
    (flagged [0x03] [9223372036854775808, 9223372036854775808]).sum = 18446744073709551616 := by
  decide +kernel

/-! ## BLSVerifyAggSig -/

private theorem agg_value {κ σ μ : Type} (fav : List κ → μ → σ → Bool)
    (keys : List κ) (bits : Bytes) (sig : σ) (m : μ) (hb : bits.length = (keys.length + 7) / 8) :
    verifyAggSig fav keys bits sig m = some (fav (flagged bits keys) m sig) := by
  unfold verifyAggSig
  have hg : (!validBitsLength keys.length bits.length) = false := by
    unfold validBitsLength; simp [hb]
  rw [hg]
  simp only [Bool.false_eq_true, if_false]
  rw [selectLoop_eq bits keys 0 [] (by omega)]
  simp only [flagged, List.nil_append]

/-- **BLSVerifyAggSig accepts iff** the bitmap length is right and the aggregate verifies for exactly the
flagged keys -/
theorem C06_bls_agg_accept_iff {κ σ μ : Type} (fav : List κ → μ → σ → Bool)
    (keys : List κ) (bits : Bytes) (sig : σ) (m : μ) :
    verifyAggSig fav keys bits sig m = some true ↔
      bits.length = (keys.length + 7) / 8 ∧ fav (flagged bits keys) m sig = true := by
  by_cases hb : bits.length = (keys.length + 7) / 8
  · rw [agg_value fav keys bits sig m hb]
    simp [hb]
  · unfold verifyAggSig
    have hg : (!validBitsLength keys.length bits.length) = true := by
      unfold validBitsLength; simp [hb]
    rw [hg]
    simp [hb]

theorem C06_bls_agg_never_panics {κ σ μ : Type} (fav : List κ → μ → σ → Bool)
    (keys : List κ) (bits : Bytes) (sig : σ) (m : μ) : verifyAggSig fav keys bits sig m ≠ none := by
  by_cases hb : bits.length = (keys.length + 7) / 8
  · rw [agg_value fav keys bits sig m hb]; simp
  · unfold verifyAggSig
    have hg : (!validBitsLength keys.length bits.length) = true := by
      unfold validBitsLength; simp [hb]
    rw [hg]; simp

/-! ## padding bits -/

/-- **bits at positions ≥ len(keysList) are never looked at**: two bitmaps of the same length that agree
on the positions of the keys get the same verdicts (the code accepts non-zero padding). -/
theorem C06_bls_padding_ignored {κ σ μ : Type} (fav : List κ → μ → σ → Bool)
    (keys : List κ) (b1 b2 : Bytes) (sig : σ) (weights : List Nat) (thr : Nat) (m : μ)
    (hl : b1.length = b2.length) (hbits : ∀ i, i < keys.length → bitSet b1 i = bitSet b2 i) :
    verifyWeightedAggSig fav keys b1 sig weights thr m = verifyWeightedAggSig fav keys b2 sig weights thr m ∧
    verifyAggSig fav keys b1 sig m = verifyAggSig fav keys b2 sig m := by
  have hk : flagged b1 keys = flagged b2 keys :=
    flaggedFrom_congr b1 b2 keys 0 (fun j _ hj => hbits j (by omega))
  constructor
  · by_cases hg : b1.length = (keys.length + 7) / 8 ∧ weights.length = keys.length
    · obtain ⟨hb, hw⟩ := hg
      have hwf : flagged b1 weights = flagged b2 weights :=
        flaggedFrom_congr b1 b2 weights 0 (fun j _ hj => hbits j (by omega))
      rw [weighted_value fav keys b1 sig weights thr m hb hw,
        weighted_value fav keys b2 sig weights thr m (hl ▸ hb) hw, hk, hwf]
    · have h1 : verifyWeightedAggSig fav keys b1 sig weights thr m = some false := by
        rw [C06_bls_weighted_reject_iff]; intro h; exact hg ⟨h.1, h.2.1⟩
      have h2 : verifyWeightedAggSig fav keys b2 sig weights thr m = some false := by
        rw [C06_bls_weighted_reject_iff]; intro h; exact hg ⟨hl ▸ h.1, h.2.1⟩
      rw [h1, h2]
  · by_cases hb : b1.length = (keys.length + 7) / 8
    · rw [agg_value fav keys b1 sig m hb, agg_value fav keys b2 sig m (hl ▸ hb), hk]
    · unfold verifyAggSig
      have hg1 : (!validBitsLength keys.length b1.length) = true := by
        unfold validBitsLength; simp [hb]
      have hg2 : (!validBitsLength keys.length b2.length) = true := by
        unfold validBitsLength; simp [← hl, hb]
      rw [hg1, hg2]
      simp

/-! ## the seeded shape: a prefix sum -/

/-- **COUNTEREXAMPLE (seeded change C03-11)**: four validators with weights 10, 1, 1, 1 in key order,
certificate threshold 9; a commit flagged and correctly signed by the LAST validator only (true weight 1).
Summing the first `k` weights for `k` selected keys accepts it (it counts the 10 of position 0); the
transcription of the real code rejects it. -/
theorem C06_bls_prefix_sum_accepts_underweight :
    verifyWeightedPrefixSum Cert.fastAggregateVerify [11, 12, 13, 14] [0x08] (Cert.sign 14 ⟨1, 5⟩) [10, 1, 1, 1] 9 ⟨1, 5⟩ = some true ∧
    verifyWeightedAggSig Cert.fastAggregateVerify [11, 12, 13, 14] [0x08] (Cert.sign 14 ⟨1, 5⟩) [10, 1, 1, 1] 9 ⟨1, 5⟩ = some false ∧
    (flagged [0x08] [10, 1, 1, 1]).sum = 1 ∧ flagged [0x08] [11, 12, 13, 14] = [14] := by
  decide +kernel

/-- and the converse damage: a commit signed by the heavy validator alone (weight 10 ≥ 9), which sits at
the last position of the key list, is rejected by the prefix sum and accepted by the real code. -/
theorem C06_bls_prefix_sum_rejects_sufficient :
    verifyWeightedPrefixSum Cert.fastAggregateVerify [11, 12, 13, 14] [0x08] (Cert.sign 14 ⟨1, 5⟩) [1, 1, 1, 10] 9 ⟨1, 5⟩ = some false ∧
    verifyWeightedAggSig Cert.fastAggregateVerify [11, 12, 13, 14] [0x08] (Cert.sign 14 ⟨1, 5⟩) [1, 1, 1, 10] 9 ⟨1, 5⟩ = some true := by
  decide +kernel

/-! ## the bit-list model of the C06 proofs -/

/-- **the byte-level transcription is `Cert.verifyWeighted`** (Model/Cert.lean: the function inside
`verifyAggregateCommit` about which the C06 theorems are proved, over the ideal aggregate-signature
functionality) applied to the bits of the byte string, whenever the weights add up below 2^64. -/
theorem C06_bls_weighted_refines_cert_model (keys : List Nat) (bits : Bytes) (sig : Cert.Sig)
    (weights : List Nat) (thr : Nat) (m : Cert.Msg) (hsum : weights.sum < u64) :
    verifyWeightedAggSig Cert.fastAggregateVerify keys bits sig weights thr m =
      some (Cert.verifyWeighted keys (Cert.Bits.ofBytes bits) sig weights thr m) := by
  unfold Cert.verifyWeighted
  rw [ofBytes_length']
  by_cases hg : bits.length = (keys.length + 7) / 8 ∧ weights.length = keys.length
  · obtain ⟨hb, hw⟩ := hg
    have hno : ¬ (8 * bits.length ≠ 8 * Cert.byteLen keys.length ∨ weights.length ≠ keys.length) := by
      unfold Cert.byteLen; omega
    rw [if_neg hno, weighted_value Cert.fastAggregateVerify keys bits sig weights thr m hb hw]
    have hsel := selectedKW_drop bits keys weights 0 hw (by omega)
    rw [List.drop_zero] at hsel
    have hlen : (flaggedFrom bits 0 keys).length = (flaggedFrom bits 0 weights).length :=
      flaggedFrom_length_eq bits keys weights 0 hw.symm
    have hfst : (Cert.selectedKW keys weights (Cert.Bits.ofBytes bits)).map (·.1) = flagged bits keys := by
      rw [hsel]; exact List.map_fst_zip (by omega)
    have hsnd : Cert.sumWeights (Cert.selectedKW keys weights (Cert.Bits.ofBytes bits)) = (flagged bits weights).sum := by
      unfold Cert.sumWeights
      rw [hsel]
      show (List.map Prod.snd _).sum = _
      rw [List.map_snd_zip (by omega)]
      rfl
    have hmod : (flagged bits weights).sum % u64 = (flagged bits weights).sum :=
      Nat.mod_eq_of_lt (Nat.lt_of_le_of_lt (flaggedFrom_sum_le bits weights 0) hsum)
    simp only [hfst, hsnd, hmod]
    split <;> rfl
  · have hyes : (8 * bits.length ≠ 8 * Cert.byteLen keys.length ∨ weights.length ≠ keys.length) := by
      unfold Cert.byteLen; omega
    rw [if_pos hyes, C06_bls_weighted_reject_iff]
    intro h
    exact hg ⟨h.1, h.2.1⟩

/-! ## BLSCreateAggSig -/

/-- **BLSCreateAggSig**: no panic; the bitmap has `⌈n/8⌉` bytes; bit `j` is set iff `j` is the FIRST
position (`bytes.FindIndex`) of the public key of one of the supplied pairs; the signature is the aggregate
of the signatures of ALL pairs - also of pairs whose public key is not in the key list and therefore not
flagged (such an aggregate fails verification; the callers only pass listed keys, C06 pool invariant). -/
theorem C06_bls_create_bits {κ σ : Type} [DecidableEq κ] (agg : List σ → σ) (keys : List κ) (pairs : List (κ × σ)) :
    ∃ b, createAggSig agg keys pairs = some (b, agg (pairs.map (·.2))) ∧ b.length = (keys.length + 7) / 8 ∧
      ∀ j, bitSet b j = true ↔ ∃ pk, pk ∈ pairs.map (·.1) ∧ findIndex keys pk = some j := by
  unfold createAggSig
  obtain ⟨b, h1, h2, h3⟩ := createBitsLoop_spec keys (pairs.map (·.1)) (List.replicate ((keys.length + 7) / 8) 0)
    (by rw [List.length_replicate]; omega)
  refine ⟨b, by rw [h1], by rw [h2, List.length_replicate], fun j => ?_⟩
  rw [h3 j, bitSet_zero]
  simp

/-- a bit outside the key positions is never set by BLSCreateAggSig (canonical padding) -/
theorem C06_bls_create_padding_zero {κ σ : Type} [DecidableEq κ] (agg : List σ → σ) (keys : List κ) (pairs : List (κ × σ))
    (b : Bytes) (s : σ) (h : createAggSig agg keys pairs = some (b, s)) (j : Nat) (hj : keys.length ≤ j) :
    bitSet b j = false := by
  obtain ⟨b', h1, _, h3⟩ := C06_bls_create_bits agg keys pairs
  rw [h1] at h
  have hb : b' = b := by
    have := Option.some.inj h
    exact (Prod.mk.inj this).1
  subst hb
  cases hbs : bitSet b' j with
  | false => rfl
  | true =>
    obtain ⟨pk, _, hf⟩ := (h3 j).1 hbs
    have := findIndex_lt keys pk j hf
    omega

/-! ## non-vacuity -/

example : verifyWeightedAggSig Cert.fastAggregateVerify [11, 12, 13, 14] [0x0a]
    (Cert.aggSigs (Cert.sign 12 ⟨1, 5⟩) [Cert.sign 14 ⟨1, 5⟩]) [1, 4, 1, 5] 9 ⟨1, 5⟩ = some true := by decide +kernel
example : verifyWeightedAggSig Cert.fastAggregateVerify [11, 12, 13, 14] [0x0a]
    (Cert.aggSigs (Cert.sign 12 ⟨1, 5⟩) [Cert.sign 14 ⟨1, 5⟩]) [1, 4, 1, 5] 10 ⟨1, 5⟩ = some false := by decide +kernel
example : verifyAggSig Cert.fastAggregateVerify [11, 12, 13] [0x05]
    (Cert.aggSigs (Cert.sign 13 ⟨1, 5⟩) [Cert.sign 11 ⟨1, 5⟩]) ⟨1, 5⟩ = some true := by decide +kernel
example : bitsRead [0x05] 8 = none ∧ bitsWrite [0x05] 1 true = some [0x07] ∧ bitsWrite [0x05] 0 false = some [0x04] := by
  decide +kernel
