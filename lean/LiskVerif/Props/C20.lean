/-
C20 — Shared chain data is race-free and deadlock-free under concurrent use.

(A) Generic theorems, proved once, about the interleaving semantics of `Model/Locks.lean` (threads
    run the paths of synchronisation skeletons; Go `sync.Mutex` / `sync.RWMutex` semantics in which a
    pending writer blocks new readers): the decidable criteria computed on a skeleton imply deadlock
    freedom and race freedom for every number of threads and every schedule. The link from the
    criteria (computed by the abstract interpreter `an`) to the paths (`den`: calls inlined to any
    depth, every loop iterated any number of times, spawned goroutines included) is the soundness
    theorem of `Lemmas/LocksSound.lean`.
(B) Per-function obligations over the skeletons REGENERATED from the Go source by tools/skelgen on
    every check run (`Gen/Skeletons.lean`): they break when the source changes in a way that violates
    the lock discipline (or introduces a construct skelgen does not understand).
(C) Counterexample theorems for the original code (hand-copied skeletons kept as data here): the
    nested read lock of `blockCache.last()` reaches a deadlocked state with one reader and one writer;
    the unsynchronised `append` fan-out of the bulk lookups loses an item.

What is covered: the extracted functions (see `Gen.Skeletons.entries`), goroutines they spawn, with
the Go memory model approximated by interleavings of the extracted actions; channel operations and
`Wait` are treated as communications whose partner is outside the model (they must happen outside
critical sections, criterion 3). The event emitter's `Publish` / `Emit` violate criterion 3 (known
finding): the remaining criteria are proved for them.
-/
import LiskVerif.Lemmas.LocksSound
import LiskVerif.Gen.Skeletons

open LiskVerif LiskVerif.Locks

namespace C20

/-- configuration regenerated from the source: call table, guards, lock order -/
def cfg : Cfg := ⟨Gen.Skeletons.table, Gen.Skeletons.guards, Gen.Skeletons.lockOrder⟩

/-- functions that hold a lock across a blocking channel send (known finding c20-emitter-send-under-lock) -/
def knownBlocking : List String := ["EventEmitter.Publish", "EventEmitter.Emit"]

/-- the criteria without (3) -/
def criteriaExceptBlocking (c : Cfg) (s : Skel) : Bool :=
  wellFormed c s && noReentrantAcquire c s && lockOrderOk c s && locksetOk c s

end C20

/-! ## (A) generic theorems -/

/-- **Criteria imply deadlock freedom.** Take any set of skeletons satisfying the deadlock criteria
(well-formed, (1) no re-entrant acquisition, (2) fixed lock order, (3) no blocking communication inside
a critical section) and any number of threads, each running a path of one of these skeletons or of a
goroutine spawned by it (calls inlined to any depth, loops iterated up to any bound `u`). Then in every
reachable state either some thread can take a step that needs no communication partner, or every thread
is finished or parked at a communication while holding no lock and requesting none. -/
theorem C20_criteria_imply_deadlock_free (c : Cfg) (u : Nat) (roots : List Skel)
    (hroots : ∀ s ∈ roots, deadlockCriteria c s = true)
    (ps : List Path) (hps : ∀ p ∈ ps, ∃ s ∈ roots, IsThreadPath c.tbl u s p)
    (st : State) (hr : Reachable (initState ps) st) :
    quiescent st = true ∨ ∃ i, canStepInternal st i = true := by
  apply deadlock_free c.order ps _ st hr
  intro p hp
  obtain ⟨s, hs, hpath⟩ := hps p hp
  exact deadlockCriteria_paths c s (hroots s hs) u p hpath

/-- a state in which some thread can take an internal step, or which is quiescent, is not deadlocked
(a parked communication is completed by the environment) -/
theorem C20.no_deadlocked_of_progress (st : State)
    (h : quiescent st = true ∨ ∃ i, canStepInternal st i = true) : deadlocked st = false := by
  cases hd : deadlocked st with
  | false => rfl
  | true =>
    exfalso
    simp only [deadlocked, Bool.and_eq_true, List.all_eq_true, List.mem_range, Bool.not_eq_true',
      Option.isNone_iff_eq_none] at hd
    obtain ⟨hnone, hnf⟩ := hd
    have hstuck : ∀ (i : Nat) (t : Thread), st[i]? = some t → stepThread st t = none := by
      intro i t hi
      have hlt : i < st.length := by
        rcases Nat.lt_or_ge i st.length with h | h
        · exact h
        · rw [List.getElem?_eq_none h] at hi; cases hi
      have := hnone i hlt
      simp only [stepT, hi] at this
      cases hs : stepThread st t with
      | none => rfl
      | some t' => simp [hs] at this
    rcases h with hq | ⟨i, hi⟩
    · -- quiescent: every unfinished thread is at a communication, which the environment completes
      obtain ⟨t, ht, hfin⟩ := List.all_eq_false.mp hnf
      obtain ⟨i, hi⟩ := List.getElem?_of_mem ht
      have hq' := List.all_eq_true.mp hq t ht
      have hfin' : finished t = false := Bool.eq_false_iff.mpr hfin
      simp only [hfin', Bool.false_or, Bool.and_eq_true] at hq'
      have hstep := hstuck i t hi
      have hb := hq'.1.1
      unfold atBlock at hb
      cases hp : t.prog with
      | nil => simp [hp] at hb
      | cons a rest =>
        cases a <;> simp [hp] at hb
        simp [stepThread, hp] at hstep
    · simp only [canStepInternal] at hi
      cases hti : st[i]? with
      | none => simp [hti] at hi
      | some t =>
        simp only [hti, Bool.and_eq_true] at hi
        rw [hstuck i t hti] at hi
        simp at hi

open C20 in
/-- Under the same hypotheses no reachable state is deadlocked (some thread unfinished and no thread
able to step), communications being completed by the environment. -/
theorem C20_no_reachable_deadlock (c : Cfg) (u : Nat) (roots : List Skel)
    (hroots : ∀ s ∈ roots, deadlockCriteria c s = true)
    (ps : List Path) (hps : ∀ p ∈ ps, ∃ s ∈ roots, IsThreadPath c.tbl u s p)
    (st : State) (hr : Reachable (initState ps) st) : deadlocked st = false :=
  no_deadlocked_of_progress st (C20_criteria_imply_deadlock_free c u roots hroots ps hps st hr)

/-- **Lockset discipline implies race freedom.** If all skeletons are well-formed and satisfy (4) —
every read of a guarded variable holds its guard, every write holds it exclusively — then in no
reachable state two distinct threads are simultaneously about to perform conflicting accesses (same
variable, at least one write). -/
theorem C20_lockset_implies_race_free (c : Cfg) (u : Nat) (roots : List Skel)
    (hroots : ∀ s ∈ roots, wellFormed c s = true ∧ locksetOk c s = true)
    (ps : List Path) (hps : ∀ p ∈ ps, ∃ s ∈ roots, IsThreadPath c.tbl u s p)
    (st : State) (hr : Reachable (initState ps) st) (i j : Nat) : raceAt st i j = false := by
  apply race_free c.guards ps _ st hr
  intro p hp
  obtain ⟨s, hs, hpath⟩ := hps p hp
  exact locksetOk_paths c s (hroots s hs).1 (hroots s hs).2 u p hpath

/-- **Mutual exclusion** of the lock semantics itself (any program): a mutex held exclusively by one
thread is held by no other thread in any mode. -/
theorem C20_mutual_exclusion (ps : List Path) (st : State) (hr : Reachable (initState ps) st)
    (i j : Nat) (ti tj : Thread) (m : String) (md : Mode) (hij : i ≠ j)
    (hi : st[i]? = some ti) (hj : st[j]? = some tj) (hw : (m, Mode.W) ∈ ti.held) : (m, md) ∉ tj.held :=
  mutual_exclusion ps st hr i j ti tj m md hij hi hj hw

/-- **Soundness of the criteria computation**: every observation `(locks held, action)` occurring
dynamically along any path of any thread of a function is among the observations on which the
criteria were evaluated. -/
theorem C20_analysis_sound (tbl : Table) (u fuel : Nat) (root : Skel) (obs : List Obs) (ends : List Held)
    (ha : analyse tbl fuel root = some (obs, ends)) (p : Path) (hp : IsThreadPath tbl u root p) :
    ∀ o ∈ trace [] p, o ∈ obs :=
  (thread_paths_sound ha p hp).1

/-! ## (B) obligations over the regenerated skeletons -/

open Gen.Skeletons in
/-- every extracted entry point satisfies all criteria, except (3) for the event emitter's
`Publish` / `Emit` (known finding) — quantified over the regenerated table, so functions added to the
configured types are covered automatically -/
theorem C20_all_entries_ok :
    (table.filter (fun e => entries.contains e.1)).all (fun e =>
      if C20.knownBlocking.contains e.1 then C20.criteriaExceptBlocking C20.cfg e.2
      else criteria C20.cfg e.2) = true := by
  decide +kernel

/-- no configured function contains a construct the extractor does not understand -/
theorem C20_no_unknown_construct :
    (Gen.Skeletons.table.filter (fun e => Gen.Skeletons.entries.contains e.1)).all
      (fun e => wellFormed C20.cfg e.2) = true := by
  decide +kernel

-- block cache
theorem C20_blockcache_last_ok : criteria C20.cfg Gen.Skeletons.blockCache_last = true := by decide
theorem C20_blockcache_get_ok : criteria C20.cfg Gen.Skeletons.blockCache_get = true := by decide
theorem C20_blockcache_getByHeight_ok : criteria C20.cfg Gen.Skeletons.blockCache_getByHeight = true := by decide
theorem C20_blockcache_push_ok : criteria C20.cfg Gen.Skeletons.blockCache_push = true := by decide
theorem C20_blockcache_pop_ok : criteria C20.cfg Gen.Skeletons.blockCache_pop = true := by decide
/-- the specific diagnosis of defect (a): `last()` no longer re-acquires the read lock -/
theorem C20_no_nested_rlock : noReentrantAcquire C20.cfg Gen.Skeletons.blockCache_last = true := by decide

-- bulk lookups and the chain
theorem C20_bulk_headers_by_id_ok : criteria C20.cfg Gen.Skeletons.DataAccess_GetBlockHeaders = true := by decide
theorem C20_bulk_headers_by_height_ok : criteria C20.cfg Gen.Skeletons.DataAccess_GetBlockHeadersByHeights = true := by decide
theorem C20_bulk_transactions_ok : criteria C20.cfg Gen.Skeletons.DataAccess_GetTransactions = true := by decide
theorem C20_bulk_range_ok : criteria C20.cfg Gen.Skeletons.DataAccess_GetBlocksBetweenHeight = true := by decide
theorem C20_block_transactions_ok : criteria C20.cfg Gen.Skeletons.DataAccess_getTransactions = true := by decide
theorem C20_chain_lastblock_ok : criteria C20.cfg Gen.Skeletons.Chain_LastBlock = true := by decide
theorem C20_chain_addblock_ok : criteria C20.cfg Gen.Skeletons.Chain_AddBlock = true := by decide
theorem C20_chain_removeblock_ok : criteria C20.cfg Gen.Skeletons.Chain_RemoveBlock = true := by decide
theorem C20_chain_preparecache_ok : criteria C20.cfg Gen.Skeletons.Chain_PrepareCache = true := by decide

-- block synchronisation
theorem C20_sync_ok : criteria C20.cfg Gen.Skeletons.blockSyncer_Sync = true := by decide
theorem C20_sync_common_block_ok : criteria C20.cfg Gen.Skeletons.blockSyncer_getCommonBlockHeader = true := by decide
theorem C20_sync_highest_common_block_handler_ok :
    criteria C20.cfg Gen.Skeletons.Syncer_HandleRPCEndpointGetHighestCommonBlock = true := by decide
theorem C20_sync_blocks_from_id_handler_ok :
    criteria C20.cfg Gen.Skeletons.Syncer_HandleRPCEndpointGetBlocksFromID = true := by decide

-- certificate pool
theorem C20_pool_ok :
    [Gen.Skeletons.Pool_Size, Gen.Skeletons.Pool_Has, Gen.Skeletons.Pool_Add, Gen.Skeletons.Pool_Cleanup,
     Gen.Skeletons.Pool_Select, Gen.Skeletons.Pool_Get, Gen.Skeletons.Pool_Upgrade].all (criteria C20.cfg) = true := by
  decide

-- staged store and its prefix views (one shared mutex)
theorem C20_diffdb_ok :
    [Gen.Skeletons.Database_WithPrefix, Gen.Skeletons.Database_Has, Gen.Skeletons.Database_Get,
     Gen.Skeletons.Database_Range, Gen.Skeletons.Database_Iterate, Gen.Skeletons.Database_Set,
     Gen.Skeletons.Database_Del, Gen.Skeletons.Database_Commit, Gen.Skeletons.Database_RevertDiff,
     Gen.Skeletons.Database_Snapshot, Gen.Skeletons.Database_DeleteSnapshot,
     Gen.Skeletons.Database_RestoreSnapshot].all (criteria C20.cfg) = true := by
  decide

-- event emitter: everything except (3)
theorem C20_emitter_ok_except_blocking :
    [Gen.Skeletons.EventEmitter_On, Gen.Skeletons.EventEmitter_Subscribe, Gen.Skeletons.EventEmitter_Close,
     Gen.Skeletons.EventEmitter_UnsubscribeAll, Gen.Skeletons.EventEmitter_Unsubscribe].all (criteria C20.cfg) = true ∧
    [Gen.Skeletons.EventEmitter_Publish, Gen.Skeletons.EventEmitter_Emit].all (C20.criteriaExceptBlocking C20.cfg) = true := by
  decide

/-- known finding c20-emitter-send-under-lock: `Publish` performs its channel sends while holding the
emitter lock (this theorem breaks — and must be replaced by `criteria … = true` — once that is fixed) -/
theorem C20_emitter_publish_sends_under_lock :
    noBlockingInCS C20.cfg Gen.Skeletons.EventEmitter_Publish = false ∧
    noBlockingInCS C20.cfg Gen.Skeletons.EventEmitter_Emit = false := by
  decide

/-- **Deadlock and race freedom of the extracted functions**: any number of goroutines, each executing
any finite sequence of invocations of the regenerated entry points other than the emitter's
`Publish` / `Emit` (or the body of a goroutine spawned by one), under any schedule, never reach a
deadlocked state and never race on a guarded variable. -/
theorem C20_shared_chain_data_deadlock_and_race_free (u : Nat) (ps : List Path)
    (hps : ∀ p ∈ ps, ∃ segs : List Path, p = segs.flatten ∧ ∀ q ∈ segs,
      ∃ e ∈ Gen.Skeletons.table, Gen.Skeletons.entries.contains e.1 = true ∧
        C20.knownBlocking.contains e.1 = false ∧ IsThreadPath Gen.Skeletons.table u e.2 q)
    (st : State) (hr : Reachable (initState ps) st) :
    deadlocked st = false ∧ (quiescent st = true ∨ ∃ i, canStepInternal st i = true) ∧
      ∀ i j, raceAt st i j = false := by
  have hall := C20_all_entries_ok
  simp only [List.all_eq_true, List.mem_filter] at hall
  have hgood : ∀ p ∈ ps, PathGood C20.cfg p := by
    intro p hp
    obtain ⟨segs, rfl, hsegs⟩ := hps p hp
    apply pathGood_flatten
    intro q hq
    obtain ⟨e, he, hent, hkb, hpath⟩ := hsegs q hq
    have hcrit := hall e ⟨he, hent⟩
    have hkb' : ¬ (e.1 ∈ C20.knownBlocking) := by simpa using hkb
    simp only [hkb', List.contains_eq_mem, decide_false, Bool.false_eq_true, if_false] at hcrit
    simp only [criteria, Bool.and_eq_true] at hcrit
    have hwf : wellFormed C20.cfg e.2 = true := by
      have := hcrit.1
      simp only [deadlockCriteria, Bool.and_eq_true] at this
      exact this.1.1.1
    exact ⟨deadlockCriteria_paths C20.cfg e.2 hcrit.1 u q hpath,
      locksetOk_paths C20.cfg e.2 hwf hcrit.2 u q hpath⟩
  have hprog := deadlock_free C20.cfg.order ps (fun p hp => (hgood p hp).1) st hr
  refine ⟨?_, hprog, fun i j => race_free C20.cfg.guards ps (fun p hp => (hgood p hp).2) st hr i j⟩
  exact C20.no_deadlocked_of_progress st hprog

/-! ## (C) counterexamples for the original code -/

namespace C20.Orig

/-- `blockCache.last()` as it was before the fix (pkg/blockchain/block_cache.go): takes the read lock and
calls `getByHeight`, which takes it again -/
def last : Skel :=
  [.rlock "blockCache.mutex", .deferRUnlock "blockCache.mutex", .read "blockCache.currentHeight",
   .call "blockCache.getByHeight", .ret]

def getByHeight : Skel :=
  [.rlock "blockCache.mutex", .deferRUnlock "blockCache.mutex", .read "blockCache.heightIndex",
   .choice [[.ret], []], .read "blockCache.cachedBlocks", .ret]

/-- the lock skeleton of `push` / `pop` (writer) -/
def writer : Skel :=
  [.lock "blockCache.mutex", .deferUnlock "blockCache.mutex", .write "blockCache.currentHeight", .ret]

def table : Table :=
  [("blockCache.last", last), ("blockCache.getByHeight", getByHeight), ("blockCache.push", writer)]

def cfg : Cfg := ⟨table, Gen.Skeletons.guards, Gen.Skeletons.lockOrder⟩

/-- a reader executing the original `last()` … -/
def readerPath : Path :=
  [.racq "blockCache.mutex", .read "blockCache.currentHeight", .racq "blockCache.mutex",
   .read "blockCache.heightIndex", .read "blockCache.cachedBlocks", .rrel "blockCache.mutex",
   .rrel "blockCache.mutex"]

/-- … and a writer executing `push` -/
def writerPath : Path :=
  [.acq "blockCache.mutex", .write "blockCache.currentHeight", .rel "blockCache.mutex"]

/-- the state reached when the writer's `Lock()` arrives between the reader's two `RLock()`s -/
def stuck : State :=
  [⟨[("blockCache.mutex", .R)], none,
      [.racq "blockCache.mutex", .read "blockCache.heightIndex", .read "blockCache.cachedBlocks",
       .rrel "blockCache.mutex", .rrel "blockCache.mutex"]⟩,
   ⟨[], some "blockCache.mutex", writerPath⟩]

/-- the fan-out of the original bulk lookups: every goroutine appends to the shared `headers` slice -/
def getBlockHeaders : Skel :=
  [.loop [.go [.call "blockCache.getByHeight", .choice [[.ret], []],
               .read "local:DataAccess.GetBlockHeaders.headers",
               .write "local:DataAccess.GetBlockHeaders.headers", .ret]],
   .wait "eg", .ret]

end C20.Orig

/-- the original `last()` violates criterion (1): the read lock is re-acquired while held -/
theorem C20_original_last_violates_criteria :
    noReentrantAcquire C20.Orig.cfg C20.Orig.last = false ∧
    criteria C20.Orig.cfg C20.Orig.getByHeight = true ∧ criteria C20.Orig.cfg C20.Orig.writer = true := by
  decide

/-- **Counterexample (defect a).** One goroutine in the original `last()` and one writer (`push`):
both paths are paths of the skeletons, the schedule reader, writer, reader reaches a state in which
the reader waits for the pending writer and the writer waits for the reader — deadlock. -/
theorem C20_original_last_deadlocks :
    C20.Orig.readerPath ∈ bodyPaths C20.Orig.table 0 10 C20.Orig.last ∧
    C20.Orig.writerPath ∈ bodyPaths C20.Orig.table 0 10 C20.Orig.writer ∧
    run (initState [C20.Orig.readerPath, C20.Orig.writerPath]) [0, 1, 0] = some C20.Orig.stuck ∧
    deadlocked C20.Orig.stuck = true := by
  decide

/-- the same with two readers and a writer: once the writer is pending every reader of the tip hangs -/
theorem C20_original_last_deadlocks_all_readers :
    ∃ st, run (initState [C20.Orig.readerPath, C20.Orig.readerPath, C20.Orig.writerPath]) [0, 2, 0] = some st ∧
      deadlocked st = true := by
  refine ⟨_, rfl, ?_⟩
  decide

/-- the original bulk lookup violates the lockset criterion (4): unsynchronised write to the captured
slice inside the spawned goroutines -/
theorem C20_original_bulk_lookup_violates_lockset :
    locksetOk C20.Orig.cfg C20.Orig.getBlockHeaders = false := by
  decide

/-- **Counterexample (defect b): lost append.** Two goroutines appending items 1 and 2 to the shared
slice (`x = append(x, item)` = load; store): under the schedule load₁ load₂ store₁ store₂ both finish
and item 1 is lost. -/
theorem C20_shared_append_loses_item :
    ∃ st, appRun (appInit [1, 2]) [0, 1, 0, 1] = some st ∧ st.threads.all (·.pc = 2) = true ∧
      st.shared = [2] := by
  refine ⟨_, rfl, ?_, ?_⟩ <;> decide

/-- **Per-index result slots return every item exactly once, for every schedule.** Whatever the order
`ws` in which the goroutines perform their writes `slot[i] = vᵢ` (distinct indices), afterwards slot `i`
holds exactly `vᵢ` … -/
theorem C20_slots_exactly_once {α} (ws : List (Nat × α)) (arr : List (Option α))
    (hnd : (ws.map (·.1)).Nodup) (i : Nat) (v : α) (hm : (i, v) ∈ ws) (hi : i < arr.length) :
    (applyWrites ws arr)[i]? = some (some v) := by
  have hlen : ∀ (ws : List (Nat × α)) (arr : List (Option α)), (applyWrites ws arr).length = arr.length := by
    intro ws
    induction ws with
    | nil => intro arr; rfl
    | cons w ws ih => intro arr; simp only [applyWrites, List.foldl_cons] at ih ⊢; rw [ih]; simp
  have hother : ∀ (ws : List (Nat × α)) (arr : List (Option α)), i ∉ ws.map (·.1) →
      (applyWrites ws arr)[i]? = arr[i]? := by
    intro ws
    induction ws with
    | nil => intro arr _; rfl
    | cons w ws ih =>
      intro arr hni
      simp only [List.map_cons, List.mem_cons, not_or] at hni
      simp only [applyWrites, List.foldl_cons] at ih ⊢
      rw [ih _ hni.2, List.getElem?_set_ne (fun h => hni.1 h.symm)]
  induction ws generalizing arr with
  | nil => cases hm
  | cons w ws ih =>
    simp only [List.map_cons, List.nodup_cons] at hnd
    simp only [applyWrites, List.foldl_cons]
    rcases List.mem_cons.mp hm with rfl | hm
    · have := hother ws (arr.set i (some v)) hnd.1
      simp only [applyWrites] at this
      rw [this, List.getElem?_set_self hi]
    · exact ih (arr.set w.1 (some w.2)) hnd.2 hm (by simpa using hi)

/-- … and slots nobody writes stay empty: the result holds every existing item exactly once. -/
theorem C20_slots_untouched {α} (ws : List (Nat × α)) (arr : List (Option α)) (i : Nat)
    (hni : i ∉ ws.map (·.1)) : (applyWrites ws arr)[i]? = arr[i]? := by
  induction ws generalizing arr with
  | nil => rfl
  | cons w ws ih =>
    simp only [List.map_cons, List.mem_cons, not_or] at hni
    simp only [applyWrites, List.foldl_cons] at ih ⊢
    rw [ih _ hni.2, List.getElem?_set_ne (fun h => hni.1 h.symm)]

/-- appends made atomic by a mutex keep every item (the result is the items in schedule order) -/
theorem C20_atomic_append_keeps_all (init ws : List Nat) :
    ws.foldl (fun acc x => acc ++ [x]) init = init ++ ws := by
  induction ws generalizing init with
  | nil => simp
  | cons w ws ih => simp [List.foldl_cons, ih]

/-! ## non-vacuity -/

/-- the hypotheses of the generic theorems are satisfiable: two readers of the regenerated `last()` and a
writer running the regenerated `push`, in a state reached by a real interleaving -/
example :
    let p1 : Path := [.racq "blockCache.mutex", .read "blockCache.heightIndex", .read "blockCache.currentHeight",
      .rrel "blockCache.mutex"]
    p1 ∈ bodyPaths Gen.Skeletons.table 0 10 Gen.Skeletons.blockCache_last ∧
    deadlockCriteria C20.cfg Gen.Skeletons.blockCache_last = true := by
  decide

example : ∃ st, Reachable (initState [C20.Orig.writerPath, C20.Orig.writerPath]) st ∧ st ≠ initState [C20.Orig.writerPath, C20.Orig.writerPath] :=
  ⟨_, ⟨[0, 1, 0], rfl⟩, by decide⟩

example : (applyWrites [(1, "b"), (0, "a")] [none, none, none]) = [some "a", some "b", none] := by decide

/-- the spawned-goroutine part of `IsThreadPath` is inhabited: a run of the regenerated
`GetBlockHeaders` that spawns a lookup goroutine, and a (non-empty) path of that goroutine -/
example : ∃ b p, Spawned Gen.Skeletons.table 1 Gen.Skeletons.DataAccess_GetBlockHeaders b ∧
    p ∈ bodyPaths Gen.Skeletons.table 1 40 b ∧ p ≠ [] := by
  have h : ∃ run ∈ den Gen.Skeletons.table 1 40 Gen.Skeletons.DataAccess_GetBlockHeaders,
      ∃ b ∈ run.spawns, ∃ p ∈ bodyPaths Gen.Skeletons.table 1 40 b, p ≠ [] := by decide
  obtain ⟨run, hrun, b, hb, p, hp, hne⟩ := h
  exact ⟨b, p, Spawned.direct hrun hb, hp, hne⟩
