/-
C19 — Sync picks the best peer, serves correct chain segments, converges safely.

Theorems about `LiskVerif.Model.Sync` (model of pkg/consensus/sync with the three fixes
fixes/C19-*.patch applied):

* `C19_best_peer`, `C19_best_peer_total`, `C19_best_peer_all_reachable`: for EVERY iteration order of
  the Go map and EVERY value of `rand.Intn` the selected peer has the largest maxHeightPrevoted,
  among those the largest height, among those a most frequent block id; the set `possibleBest`
  (what the harness compares with) is exactly the set of answers.
* `C19_best_peer_original_counterexample`: the unfixed loop returns a least frequent id.
* `C19_highest_common_block`, `C19_blocks_from_id`, `C19_malformed_requests_banned`: the handlers.
* `C19_heights_arith`: the three height helpers.
* `C19_fast_sync_failure_restores`, `C19_converges_to_better_chain`: the fast synchroniser as a plan,
  against EVERY peer behaviour (arbitrary answers) resp. an honest peer.
-/
import LiskVerif.Lemmas.Sync

open LiskVerif LiskVerif.Sync

/-! ## 1. Peer selection -/

/-- the members of `l` that agree with `t` on maxHeightPrevoted and height -/
def C19sameTop {ι : Type} (l : List (Tip ι)) (t : Tip ι) : List (Tip ι) :=
  l.filter (fun v => v.height == t.height && v.mhp == t.mhp)

private theorem topGroup_eq_sameTop {ι : Type} (l : List (Tip ι)) (t : Tip ι) (ht : t ∈ topGroup l) :
    topGroup l = C19sameTop l t ∧ t ∈ l ∧ (∀ u ∈ l, u.mhp ≤ t.mhp) ∧ (∀ u ∈ l, u.mhp = t.mhp → u.height ≤ t.height) := by
  unfold topGroup at ht ⊢
  have h2 := (mem_largestBy (·.height) _ t).mp ht
  have h1 := (mem_largestBy (·.mhp) l t).mp h2.1
  have hM1 : t.mhp = maxOf (·.mhp) l := by
    have := h2.1; rw [largestBy_eq] at this
    simpa using (List.mem_filter.mp this).2
  have hM2 : t.height = maxOf (·.height) (largestBy (·.mhp) l) := by
    have := ht; rw [largestBy_eq] at this
    simpa using (List.mem_filter.mp this).2
  refine ⟨?_, h1.1, h1.2, ?_⟩
  · rw [largestBy_eq (fun x : Tip ι => x.height), ← hM2, largestBy_eq (fun x : Tip ι => x.mhp), ← hM1,
      List.filter_filter]
    rfl
  · intro u hu hmu
    apply h2.2 u
    rw [mem_largestBy]
    exact ⟨hu, fun w hw => by rw [hmu]; exact h1.2 w hw⟩

private theorem mem_topGroup_mem {ι : Type} (l : List (Tip ι)) (u : Tip ι) (hu : u ∈ topGroup l) : u ∈ l := by
  unfold topGroup at hu
  exact ((mem_largestBy _ l u).mp ((mem_largestBy _ _ u).mp hu).1).1

/-- **Best peer.** Whatever order Go's map iteration visits the block ids in (`order`: any list that
contains them) and whatever `rand.Intn` returns (`rnd`), the peer selected by the fixed
`getBestNodeInfo` has the largest maxHeightPrevoted, among those the largest height, and among those
a block id that no other id beats in frequency; and it is a member of the set `possibleBest`. -/
theorem C19_best_peer {ι : Type} [DecidableEq ι] (l : List (Tip ι)) (order : List ι) (rnd : Nat) (t : Tip ι)
    (hord : ∀ u ∈ l, u.id ∈ order) (h : bestWith order rnd l = some t) :
    t ∈ l ∧ (∀ u ∈ l, u.mhp ≤ t.mhp) ∧ (∀ u ∈ l, u.mhp = t.mhp → u.height ≤ t.height) ∧
    (∀ u ∈ l, u.mhp = t.mhp → u.height = t.height →
      countId (C19sameTop l t) u.id ≤ countId (C19sameTop l t) t.id) ∧
    t ∈ possibleBest l := by
  unfold bestWith at h
  have htg := List.mem_of_getElem? h
  unfold mostFrequentWith at htg
  cases hp : pickLoop (countId (topGroup l)) order 0 none with
  | none => rw [hp] at htg; cases htg
  | some i =>
    rw [hp] at htg
    simp only [List.mem_filter, decide_eq_true_eq] at htg
    obtain ⟨htG, hti⟩ := htg
    obtain ⟨_, hmax, _⟩ := pickLoop_spec (countId (topGroup l)) order 0 none (Or.inl ⟨rfl, rfl⟩) i hp
    obtain ⟨hG, htl, hm, hh⟩ := topGroup_eq_sameTop l t htG
    refine ⟨htl, hm, hh, ?_, ?_⟩
    · intro u hu _ _
      rw [← hG, hti]
      exact hmax u.id (hord u hu)
    · unfold possibleBest
      simp only [List.mem_filter, List.all_eq_true, decide_eq_true_eq]
      refine ⟨htG, fun u hu => ?_⟩
      rw [hti]
      exact hmax u.id (hord u (mem_topGroup_mem l u hu))

/-- The selection never fails on a non-empty list (in particular `rand.Intn` is never called with 0). -/
theorem C19_best_peer_total {ι : Type} [DecidableEq ι] (l : List (Tip ι)) (order : List ι) (rnd : Nat)
    (hl : l ≠ []) (hord : ∀ u ∈ l, u.id ∈ order) : ∃ t, bestWith order rnd l = some t := by
  have hG : topGroup l ≠ [] := largestBy_ne_nil _ _ (largestBy_ne_nil _ _ hl)
  obtain ⟨x, hx⟩ := List.exists_mem_of_ne_nil _ hG
  have hxpos := countId_pos_of_mem (topGroup l) x hx
  obtain ⟨i, hi⟩ := pickLoop_isSome (countId (topGroup l)) order 0 none
    (Or.inr ⟨x.id, hord x (mem_topGroup_mem l x hx), hxpos⟩)
  have hipos : countId (topGroup l) i > 0 := by
    rcases pickLoop_pos _ _ _ _ _ hi with h | h
    · cases h
    · exact h
  unfold bestWith mostFrequentWith
  rw [hi]
  simp only
  have hlen : (List.filter (fun t => decide (t.id = i)) (topGroup l)).length > 0 := hipos
  have hlt := Nat.mod_lt rnd hlen
  exact ⟨_, List.getElem?_eq_getElem hlt⟩

/-- Every member of `possibleBest` is an answer of `getBestNodeInfo` for some iteration order of the
map and some random value: the set the harness compares the implementation with is exact. -/
theorem C19_best_peer_all_reachable {ι : Type} [DecidableEq ι] (l : List (Tip ι)) (t : Tip ι)
    (ht : t ∈ possibleBest l) :
    ∃ order rnd, (∀ u ∈ l, u.id ∈ order) ∧ bestWith order rnd l = some t := by
  unfold possibleBest at ht
  simp only [List.mem_filter, List.all_eq_true, decide_eq_true_eq] at ht
  obtain ⟨htG, hall⟩ := ht
  have hcnt : ∀ j, countId (topGroup l) j ≤ countId (topGroup l) t.id := by
    intro j
    by_cases h0 : countId (topGroup l) j = 0
    · omega
    · have hne : (topGroup l).filter (fun u => decide (u.id = j)) ≠ [] := by
        intro h; apply h0; unfold countId; rw [h]; rfl
      obtain ⟨w, hw⟩ := List.exists_mem_of_ne_nil _ hne
      simp only [List.mem_filter, decide_eq_true_eq] at hw
      rw [← hw.2]; exact hall w hw.1
  have htpos := countId_pos_of_mem (topGroup l) t htG
  have hpick : pickLoop (countId (topGroup l)) (t.id :: l.map (·.id)) 0 none = some t.id := by
    simp only [pickLoop, htpos, if_true]
    exact pickLoop_keep _ _ _ _ (fun j _ => hcnt j)
  have htg : t ∈ (topGroup l).filter (fun u => decide (u.id = t.id)) := by simp [htG]
  obtain ⟨k, hk, hkt⟩ := List.getElem_of_mem htg
  refine ⟨t.id :: l.map (·.id), k, ?_, ?_⟩
  · intro u hu
    exact List.mem_cons_of_mem _ (List.mem_map_of_mem hu)
  · unfold bestWith mostFrequentWith
    rw [hpick]
    simp only
    rw [Nat.mod_eq_of_lt hk, List.getElem?_eq_getElem hk, hkt]

/-- The three peers `{A, A, B}` with equal maxHeightPrevoted and height. -/
def C19threePeers : List (Tip Nat) := [⟨0, 10, 5, 1⟩, ⟨1, 10, 5, 1⟩, ⟨2, 10, 5, 2⟩]

/-- **The unfixed rule.** `max` is never updated, so the id visited last wins: when the map iteration
visits `A` before `B`, the original `getBestNodeInfo` answers the peer whose block id `B` is reported
by one peer although `A` is reported by two; that peer is not a correct answer, and the fixed rule
never gives it. -/
theorem C19_best_peer_original_counterexample :
    bestOrigWith [1, 2] 0 C19threePeers = some ⟨2, 10, 5, 2⟩ ∧
    countId C19threePeers 2 < countId C19threePeers 1 ∧
    (⟨2, 10, 5, 2⟩ : Tip Nat) ∉ possibleBest C19threePeers ∧
    (∀ order rnd, (∀ u ∈ C19threePeers, u.id ∈ order) →
      bestWith order rnd C19threePeers ≠ some ⟨2, 10, 5, 2⟩) := by
  refine ⟨by decide, by decide, by decide, ?_⟩
  intro order rnd hord h
  have := (C19_best_peer C19threePeers order rnd _ hord h).2.2.2.2
  revert this
  decide

/-- non-vacuity: with three peers `{A, A, B}` the fixed rule answers one of the two `A` peers -/
example : bestWith [2, 1] 1 C19threePeers = some ⟨1, 10, 5, 1⟩ := by decide
example : possibleBest C19threePeers = [⟨0, 10, 5, 1⟩, ⟨1, 10, 5, 1⟩] := by decide

/-! ## 2. The RPC handlers -/

section Handlers
variable {ι : Type} [DecidableEq ι]

private theorem heightOf_some (c : List (Blk ι)) (i : ι) (h : Nat) (hh : heightOf c i = some h) :
    ∃ b, c[h]? = some b ∧ b.id = i := by
  induction c generalizing h with
  | nil => cases hh
  | cons b r ih =>
    simp only [heightOf] at hh
    by_cases hb : b.id = i
    · simp only [hb, if_true] at hh
      cases hh
      exact ⟨b, rfl, hb⟩
    · simp only [hb, if_false] at hh
      cases hr : heightOf r i with
      | none => rw [hr] at hh; cases hh
      | some k =>
        rw [hr] at hh
        simp only [Option.map_some, Option.some.injEq] at hh
        obtain ⟨b', hb', hid⟩ := ih k hr
        exact ⟨b', by rw [← hh]; simpa using hb', hid⟩

private theorem heightOf_none (c : List (Blk ι)) (i : ι) : heightOf c i = none ↔ ∀ b ∈ c, b.id ≠ i := by
  induction c with
  | nil => simp [heightOf]
  | cons b r ih =>
    simp only [heightOf]
    by_cases hb : b.id = i
    · simp [hb]
    · simp only [hb, if_false, Option.map_eq_none_iff, ih, List.mem_cons, forall_eq_or_imp, ne_eq,
        not_false_eq_true, true_and]

private theorem maxHeight?_spec (l : List Nat) (m : Nat) (h : maxHeight? l = some m) :
    m ∈ l ∧ ∀ x ∈ l, x ≤ m := by
  induction l generalizing m with
  | nil => cases h
  | cons a r ih =>
    simp only [maxHeight?] at h
    cases hr : maxHeight? r with
    | none =>
      rw [hr] at h
      cases h
      have : r = [] := by
        cases r with
        | nil => rfl
        | cons b r' =>
          simp only [maxHeight?] at hr
          cases h2 : maxHeight? r' <;> rw [h2] at hr <;> cases hr
      subst this
      exact ⟨List.mem_cons_self, by intro x hx; simp at hx; omega⟩
    | some k =>
      rw [hr] at h
      simp only [Option.some.injEq] at h
      obtain ⟨hk, hall⟩ := ih k hr
      by_cases hka : k < a
      · simp only [hka, if_true] at h
        subst h
        refine ⟨List.mem_cons_self, ?_⟩
        intro x hx
        rcases List.mem_cons.mp hx with rfl | hx
        · omega
        · have := hall x hx; omega
      · simp only [hka, if_false] at h
        subst h
        refine ⟨List.mem_cons_of_mem _ hk, ?_⟩
        intro x hx
        rcases List.mem_cons.mp hx with rfl | hx
        · omega
        · exact hall x hx

private theorem maxHeight?_none (l : List Nat) (h : maxHeight? l = none) : l = [] := by
  cases l with
  | nil => rfl
  | cons a r =>
    simp only [maxHeight?] at h
    cases h2 : maxHeight? r <;> rw [h2] at h <;> cases h

/-- **Highest common block.** For a request carrying the ids `ids`, the handler
* bans exactly when the list is empty or contains an id of the wrong length;
* answers "none" exactly when no requested id is on the responder's chain `c`;
* otherwise answers a requested id that is on `c`, and no requested id is on `c` at a greater height.
If the requested ids are taken from the requester's chain `q`, the answer is on both chains. -/
theorem C19_highest_common_block (okLen : ι → Bool) (c : List (Blk ι)) (ids : List ι) :
    match handleHighestCommon okLen c (some ids) with
    | .ban => ids = [] ∨ ∃ i ∈ ids, okLen i = false
    | .none => ids ≠ [] ∧ (∀ i ∈ ids, okLen i = true) ∧ ∀ i ∈ ids, heightOf c i = none
    | .id i =>
      ids ≠ [] ∧ (∀ j ∈ ids, okLen j = true) ∧ i ∈ ids ∧
      (∃ h, heightOf c i = some h ∧ ∀ j ∈ ids, ∀ hj, heightOf c j = some hj → hj ≤ h) ∧
      (∀ q : List (Blk ι), (∀ j ∈ ids, j ∈ q.map (·.id)) → i ∈ q.map (·.id) ∧ i ∈ c.map (·.id)) := by
  cases ids with
  | nil => simp [handleHighestCommon]
  | cons a r =>
    simp only [handleHighestCommon]
    by_cases hall : (a :: r).all okLen = true
    · simp only [hall, if_true]
      have hok : ∀ i ∈ a :: r, okLen i = true := by simpa using hall
      cases hm : maxHeight? ((a :: r).filterMap (heightOf c)) with
      | none =>
        simp only
        refine ⟨by simp, hok, ?_⟩
        intro i hi
        have := maxHeight?_none _ hm
        cases hh : heightOf c i with
        | none => rfl
        | some k =>
          have : k ∈ (a :: r).filterMap (heightOf c) := List.mem_filterMap.mpr ⟨i, hi, hh⟩
          rw [maxHeight?_none _ hm] at this; cases this
      | some h =>
        obtain ⟨hmem, hmax⟩ := maxHeight?_spec _ h hm
        obtain ⟨j, hj, hjh⟩ := List.mem_filterMap.mp hmem
        obtain ⟨b, hb, hbi⟩ := heightOf_some c j h hjh
        simp only [hb]
        refine ⟨by simp, hok, by rw [hbi]; exact hj, ⟨h, by rw [hbi]; exact hjh, ?_⟩, ?_⟩
        · intro k hk hk' hkh
          exact hmax hk' (List.mem_filterMap.mpr ⟨k, hk, hkh⟩)
        · intro q hq
          refine ⟨by rw [hbi]; exact hq j hj, ?_⟩
          exact List.mem_map.mpr ⟨b, List.mem_of_getElem? hb, rfl⟩
    · simp only [hall, Bool.false_eq_true, if_false]
      right
      have hf : (a :: r).all okLen = false := by simpa using hall
      obtain ⟨i, hi, hio⟩ := List.all_eq_false.mp hf
      exact ⟨i, hi, by simpa using hio⟩

/-- **Blocks from id.** The answer to a well-formed request for id `i` that is on the responder's
chain at height `h` consists of the blocks of heights `h+1, h+2, …` of that chain, consecutive and in
ascending order, as many as there are up to the cap of 103. -/
theorem C19_blocks_from_id (okLen : ι → Bool) (c : List (Blk ι)) (i : ι) (l : List (Blk ι))
    (hres : handleBlocksFromID okLen c (some i) = .blocks l) :
    okLen i = true ∧ ∃ h, heightOf c i = some h ∧
      l.length ≤ maxBlocksPerResponse ∧
      l.length = min maxBlocksPerResponse (c.length - 1 - h) ∧
      ∀ k, k < l.length → l[k]? = c[h + 1 + k]? := by
  simp only [handleBlocksFromID] at hres
  by_cases hok : okLen i = true
  · simp only [hok, if_true] at hres
    cases hh : heightOf c i with
    | none => rw [hh] at hres; cases hres
    | some h =>
      rw [hh] at hres
      simp only [BfiOut.blocks.injEq] at hres
      obtain ⟨b, hb, _⟩ := heightOf_some c i h hh
      have hlt : h < c.length := by
        rcases Nat.lt_or_ge h c.length with h1 | h1
        · exact h1
        · rw [List.getElem?_eq_none h1] at hb; cases hb
      refine ⟨hok, h, rfl, ?_, ?_, ?_⟩
      · rw [← hres]; simp only [List.length_take, List.length_drop]; omega
      · rw [← hres]; simp only [List.length_take, List.length_drop]; omega
      · intro k hk
        rw [← hres] at hk ⊢
        simp only [List.length_take, List.length_drop] at hk
        rw [List.getElem?_take_of_lt (by omega), List.getElem?_drop]
  · simp only [hok, Bool.false_eq_true, if_false] at hres
    cases hres

/-- Requests without a decodable body, without ids, or with an id that is not 32 bytes long are
answered by banning the requester (nothing is written). -/
theorem C19_malformed_requests_banned (okLen : ι → Bool) (c : List (Blk ι)) :
    handleHighestCommon okLen c none = .ban ∧
    handleHighestCommon okLen c (some []) = .ban ∧
    (∀ ids, (∃ i ∈ ids, okLen i = false) → handleHighestCommon okLen c (some ids) = .ban) ∧
    handleBlocksFromID okLen c none = .ban ∧
    (∀ i, okLen i = false → handleBlocksFromID okLen c (some i) = .ban) := by
  refine ⟨rfl, rfl, ?_, rfl, ?_⟩
  · intro ids ⟨i, hi, hok⟩
    cases ids with
    | nil => cases hi
    | cons a r =>
      simp only [handleHighestCommon]
      have : (a :: r).all okLen = false := by
        rw [List.all_eq_false]; exact ⟨i, hi, by simp [hok]⟩
      simp [this]
  · intro i hok
    simp [handleBlocksFromID, hok]

end Handlers

/-- non-vacuity: chain of five blocks; ids 3 and 1 are requested with an unknown id 9 -/
def C19chain5 : List (Blk Nat) := (List.range 5).map fun h => { id := h, prev := h - 1, height := h }
example : handleHighestCommon (fun _ => true) C19chain5 (some [1, 9, 3]) = .id 3 := by decide
example : handleBlocksFromID (fun _ => true) C19chain5 (some 2) = .blocks (C19chain5.drop 3) := by decide

/-! ## 3. Height helpers -/

/-- **Height arithmetic** (no `uint32` overflow: `start < 2^32`, `minimum + num*gap < 2^32`).
* `getHeightWithGap start minimum gap num` is `[minimum]` when `start ≤ minimum`; otherwise it is
  `start, start-gap, start-2·gap, …`: at most `num-1` heights, all `≥ minimum`, and it stops early
  only when the next height would be below `minimum`.  In all cases every element lies between
  `minimum` and `max start minimum`.
* `getLastHeights start num` is `start, start-1, …`: `min (num-1) (start+1)` heights.
* `getCommonBlockStartSearchHeight h r` (`r ≥ 1`) is a multiple of `r`, at most `h`, within `r` of
  `h`, and strictly below `h` when `h > 0` (the start of the round before the one containing `h`). -/
theorem C19_heights_arith :
    (∀ start minimum gap num, start < two32 → minimum + num * gap < two32 →
      (start ≤ minimum → getHeightWithGap start minimum gap num = [minimum]) ∧
      (minimum < start → ∃ k, k ≤ num - 1 ∧
        getHeightWithGap start minimum gap num = (List.range k).map (fun j => start - j * gap) ∧
        (∀ j, j < k → minimum + j * gap ≤ start) ∧ (k < num - 1 → start < minimum + k * gap)) ∧
      (∀ e ∈ getHeightWithGap start minimum gap num, minimum ≤ e ∧ e ≤ max start minimum)) ∧
    (∀ start num, start < two32 → num ≤ two32 →
      getLastHeights start num = (List.range (min (num - 1) (start + 1))).map (fun j => start - j)) ∧
    (∀ h r, 0 < r →
      getCommonBlockStartSearchHeight h r ≤ h ∧ getCommonBlockStartSearchHeight h r % r = 0 ∧
      h - getCommonBlockStartSearchHeight h r ≤ r ∧ (0 < h → getCommonBlockStartSearchHeight h r < h)) := by
  refine ⟨?_, ?_, ?_⟩
  · intro start minimum gap num hs hno
    have hno' : minimum + (0 + (num - 1)) * gap < two32 := by
      have : (0 + (num - 1)) * gap ≤ num * gap := Nat.mul_le_mul_right gap (by omega)
      omega
    obtain ⟨k, hk, hlist, hall, hstop⟩ := gapLoop_spec start minimum gap hs (num - 1) 0 hno'
    have hlist' : gapLoop start minimum gap (num - 1) 0 = (List.range k).map (fun j => start - j * gap) := by
      rw [hlist]; apply List.map_congr_left; intro j _; simp
    have hall' : ∀ j, j < k → minimum + j * gap ≤ start := by
      intro j hj; have := hall j hj; simpa using this
    refine ⟨?_, ?_, ?_⟩
    · intro hle; simp [getHeightWithGap, hle]
    · intro hlt
      have hnle : ¬ start ≤ minimum := by omega
      refine ⟨k, hk, ?_, hall', ?_⟩
      · simp only [getHeightWithGap, hnle, if_false]; exact hlist'
      · intro h; have := hstop h; simpa using this
    · intro e he
      by_cases hle : start ≤ minimum
      · simp only [getHeightWithGap, hle, if_true, List.mem_singleton] at he
        subst he; omega
      · simp only [getHeightWithGap, hle, if_false] at he
        rw [hlist'] at he
        obtain ⟨j, hj, hje⟩ := List.mem_map.mp he
        have := hall' j (by simpa using hj)
        subst hje
        omega
  · intro start num hs hn
    unfold getLastHeights
    rw [lastLoop_eq_gapLoop]
    have hno' : 0 + (0 + (num - 1)) * 1 < two32 := by unfold two32 at *; omega
    obtain ⟨k, hk, hlist, hall, hstop⟩ := gapLoop_spec start 0 1 hs (num - 1) 0 hno'
    have hk' : k = min (num - 1) (start + 1) := by
      have h1 : k ≤ start + 1 := by
        cases k with
        | zero => omega
        | succ k' => have := hall k' (by omega); omega
      by_cases hlt : k < num - 1
      · have := hstop hlt; omega
      · omega
    rw [hlist, hk']
    apply List.map_congr_left
    intro j _
    simp
  · intro h r hr
    unfold getCommonBlockStartSearchHeight
    simp only
    have hdm := Nat.div_add_mod (h + r - 1) r
    have hml := Nat.mod_lt (h + r - 1) hr
    cases hk : (h + r - 1) / r with
    | zero =>
      rw [hk] at hdm
      simp only [if_true]
      have : h = 0 := by
        simp only [Nat.mul_zero, Nat.zero_add] at hdm
        omega
      subst this
      simp
    | succ k =>
      rw [hk] at hdm
      have hne : ¬ (k + 1 = 0) := by omega
      simp only [hne, if_false, Nat.add_sub_cancel]
      have hmul : r * (k + 1) = k * r + r := by rw [Nat.mul_succ, Nat.mul_comm]
      rw [hmul] at hdm
      refine ⟨by omega, Nat.mul_mod_left k r, by omega, fun _ => by omega⟩

/-- non-vacuity: the values of the repository's own tests -/
example : getHeightWithGap 206 0 103 9 = [206, 103, 0] ∧ getLastHeights 200 10 = [200, 199, 198, 197, 196, 195, 194, 193, 192]
    ∧ getCommonBlockStartSearchHeight 413 103 = 412 ∧ getCommonBlockStartSearchHeight 412 103 = 309 := by decide

/-! ## 4. Fast synchronisation as a plan -/

section Plans
variable {ι : Type} [DecidableEq ι]

private theorem heightOf_lt (c : List (Blk ι)) (i : ι) (h : Nat) (hh : heightOf c i = some h) : h < c.length := by
  obtain ⟨b, hb, _⟩ := heightOf_some c i h hh
  rcases Nat.lt_or_ge h c.length with h1 | h1
  · exact h1
  · rw [List.getElem?_eq_none h1] at hb; cases hb

/-- **Failed fast sync restores the original chain.** For EVERY peer behaviour (arbitrary answers to
the three requests), every processor `applies` and every requester chain `q`:
1. if a downloaded block cannot be applied and the temp blocks are re-applied (`applyFailed`), the
   requester is back on exactly its original chain, the temp table is empty and the peer is banned;
2. whatever error ends the round, except a failed restoration, the chain is the original one;
3. restoration cannot fail when the original chain is valid for the processor and applying the
   downloaded blocks did not finalize anything above the finalized height the round started with
   (`deleteBlock` would refuse to go back below a newly finalized block). -/
theorem C19_fast_sync_failure_restores (applies : List (Blk ι) → Blk ι → Bool)
    (finAfter : List (Blk ι) → Nat) (n fin : Nat) (q : List (Blk ι)) (target : Blk ι) (peer : Peer ι) :
    ((fastSync applies finAfter n fin q target peer).err = some .applyFailed →
      (fastSync applies finAfter n fin q target peer).chain = q ∧
      (fastSync applies finAfter n fin q target peer).banned = true ∧
      (fastSync applies finAfter n fin q target peer).temp = []) ∧
    (∀ e, (fastSync applies finAfter n fin q target peer).err = some e → e ≠ .restoreFailed →
      (fastSync applies finAfter n fin q target peer).chain = q) ∧
    ((∀ c, finAfter c ≤ fin) → ValidChain applies q →
      (fastSync applies finAfter n fin q target peer).err ≠ some .restoreFailed) := by
  unfold fastSync
  simp only
  split
  · simp
  · simp
  · rename_i cid _
    split
    · simp
    · rename_i ch hch
      have hlt := heightOf_lt q cid ch hch
      split
      · simp
      · rename_i hfin
        split
        · simp
        · split
          · simp
          · split
            · simp
            · split
              · -- all downloaded blocks applied
                simp
              · rename_i c' happ
                obtain ⟨app, hc', _⟩ := applyAll_prefix applies _ _ _ _ happ
                have htake : c'.take (ch + 1) = q.take (ch + 1) := by
                  rw [hc', List.take_append_of_le_length (by rw [List.length_take]; omega)]
                  rw [List.take_take, Nat.min_self]
                split
                · rename_i hadv
                  refine ⟨by simp, by simp, ?_⟩
                  intro hfa _
                  have := hfa c'
                  have h1 := hadv.1
                  exfalso
                  omega
                · rw [htake]
                  split
                  · rename_i c'' hre
                    have := reapply_append applies _ _ _ _ hre
                    simp only [List.append_nil, List.take_append_drop] at this
                    simp [this]
                  · rename_i c'' rest hne hre
                    refine ⟨by simp, by simp, ?_⟩
                    intro _ hv
                    have := reapply_valid applies q (q.take (ch + 1)) (q.drop (ch + 1)) hv
                      (by simp) (by intro h; have := congrArg List.length h; rw [List.length_take, List.length_nil] at this; omega)
                    rw [this] at hre
                    simp only [Prod.mk.injEq] at hre
                    exact absurd hre.2.symm (by simpa using hne)

private theorem maxHeight?_eq (L : List Nat) (m : Nat) (hm : m ∈ L) (hall : ∀ x ∈ L, x ≤ m) :
    maxHeight? L = some m := by
  cases h : maxHeight? L with
  | none => rw [maxHeight?_none L h] at hm; cases hm
  | some m' =>
    obtain ⟨h1, h2⟩ := maxHeight?_spec L m' h
    have := hall m' h1
    have := h2 m hm
    congr 1; omega

/-- an honest responder on chain `com ++ pOwn`, asked about ids that are either on `com` or not on
its chain at all and that include the tip of `com`, answers the tip of `com` -/
private theorem hcb_honest (init : List (Blk ι)) (last : Blk ι) (pOwn : List (Blk ι))
    (hnd : ((init ++ last :: pOwn).map (·.id)).Nodup) (ids : List ι) (hmem : last.id ∈ ids)
    (hids : ∀ j ∈ ids, (∃ x ∈ init ++ [last], x.id = j) ∨ ∀ y ∈ init ++ last :: pOwn, y.id ≠ j) :
    handleHighestCommon (fun _ => true) (init ++ last :: pOwn) (some ids) = .id last.id := by
  have hh : heightOf (init ++ last :: pOwn) last.id = some init.length :=
    heightOf_split init last pOwn (fun x hx => nodup_split_ne init (last :: pOwn) hnd x hx last List.mem_cons_self)
  have hmax : maxHeight? (ids.filterMap (heightOf (init ++ last :: pOwn))) = some init.length := by
    apply maxHeight?_eq
    · exact List.mem_filterMap.mpr ⟨last.id, hmem, hh⟩
    · intro x hx
      obtain ⟨j, hj, hjx⟩ := List.mem_filterMap.mp hx
      rcases hids j hj with ⟨y, hy, hyj⟩ | hno
      · have hp : init ++ last :: pOwn = (init ++ [last]) ++ pOwn := by simp
        rw [hp, ← hyj] at hjx
        have := heightOf_lt_of_mem (init ++ [last]) pOwn y hy x hjx
        simp at this; omega
      · rw [(heightOf_none _ j).mpr hno] at hjx; cases hjx
  cases ids with
  | nil => cases hmem
  | cons a r =>
    simp only [handleHighestCommon]
    have hall : (a :: r).all (fun _ => true) = true := by simp
    simp only [hall, if_true, hmax]
    have hget : (init ++ last :: pOwn)[init.length]? = some last := by
      rw [List.getElem?_append_right (Nat.le_refl _)]; simp
    simp only [hget]

/-- **Convergence.** The requester is on chain `com ++ qOwn`, an honest responder on the chain
`com ++ pOwn` (`com` is the common part; no block of `qOwn` is on the responder's chain; block ids
are unique).  The responder's own blocks are well-formed, linked to the last common block and
accepted by the processor one after the other; the received block is the responder's tip; the last
common block is not below the requester's finalized height; and the two own parts fit in the
two-round window of fast sync.  Then one round of the fast synchroniser ends with the requester on
exactly the responder's chain, no error, nobody banned, no temp block left — whatever the response
cap splits the download into. -/
theorem C19_converges_to_better_chain (applies : List (Blk ι) → Blk ι → Bool)
    (finAfter : List (Blk ι) → Nat) (n fin mhp : Nat) (init : List (Blk ι)) (last : Blk ι)
    (qOwn s : List (Blk ι)) (e : Blk ι)
    (hndp : ((init ++ last :: (s ++ [e])).map (·.id)).Nodup)
    (hndq : ((init ++ last :: qOwn).map (·.id)).Nodup)
    (hdisj : ∀ y ∈ qOwn, ∀ x ∈ init ++ last :: (s ++ [e]), x.id ≠ y.id)
    (hheight : last.height = init.length)
    (hlinked : Linked last.id last.height (s ++ [e]))
    (hok : ∀ b ∈ s ++ [e], b.ok = true)
    (hvalid : ValidChain applies (init ++ last :: (s ++ [e])))
    (hfin : fin ≤ init.length)
    (hn : 1 ≤ n) (hwq : qOwn.length ≤ 2 * n - 2) (hwp : s.length + 1 ≤ 2 * n)
    (hbq : init.length + 1 + qOwn.length ≤ two32) (hbp : init.length + 1 + s.length + 1 ≤ two32)
    (hbn : 2 * n ≤ two32) :
    fastSync applies finAfter n fin (init ++ last :: qOwn) e (honest (init ++ last :: (s ++ [e])) mhp)
      = ⟨init ++ last :: (s ++ [e]), [], false, none⟩ := by
  -- the request: ids of the requester's last heights
  have hqlen : (init ++ last :: qOwn).length - 1 = init.length + qOwn.length := by
    rw [List.length_append, List.length_cons]; omega
  have hheights := C19_heights_arith.2.1 (init.length + qOwn.length) (2 * n) (by omega) hbn
  have hqget : (init ++ last :: qOwn)[init.length]? = some last := by
    rw [List.getElem?_append_right (Nat.le_refl _)]; simp
  have hmem : last.id ∈ idsAt (init ++ last :: qOwn) (getLastHeights (init.length + qOwn.length) (2 * n)) := by
    unfold idsAt
    rw [hheights]
    apply List.mem_filterMap.mpr
    refine ⟨init.length, ?_, by rw [hqget]; rfl⟩
    apply List.mem_map.mpr
    exact ⟨qOwn.length, by rw [List.mem_range]; omega, by omega⟩
  have hids : ∀ j ∈ idsAt (init ++ last :: qOwn) (getLastHeights (init.length + qOwn.length) (2 * n)),
      (∃ x ∈ init ++ [last], x.id = j) ∨ ∀ y ∈ init ++ last :: (s ++ [e]), y.id ≠ j := by
    intro j hj
    unfold idsAt at hj
    obtain ⟨h, _, hh⟩ := List.mem_filterMap.mp hj
    cases hg : (init ++ last :: qOwn)[h]? with
    | none => rw [hg] at hh; cases hh
    | some y =>
      rw [hg] at hh
      simp only [Option.map_some, Option.some.injEq] at hh
      have hy : y ∈ init ++ last :: qOwn := List.mem_of_getElem? hg
      rcases List.mem_append.mp hy with h1 | h1
      · exact Or.inl ⟨y, List.mem_append_left _ h1, hh⟩
      · rcases List.mem_cons.mp h1 with h2 | h2
        · exact Or.inl ⟨y, by rw [h2]; simp, hh⟩
        · right; intro x hx; rw [← hh]; exact hdisj y h2 x hx
  have hcommon : (honest (init ++ last :: (s ++ [e])) mhp).common
      (idsAt (init ++ last :: qOwn) (getLastHeights (init.length + qOwn.length) (2 * n))) = some (some last.id) := by
    simp only [honest, hcb_honest init last (s ++ [e]) hndp _ hmem hids]
  have hch : heightOf (init ++ last :: qOwn) last.id = some init.length :=
    heightOf_split init last qOwn (fun x hx => nodup_split_ne init (last :: qOwn) hndq x hx last List.mem_cons_self)
  -- the end block
  obtain ⟨hls, hle⟩ := (linked_append last.id last.height s [e]).mp hlinked
  obtain ⟨hlast, _⟩ := lastOf_height last.id last.height s hls
  have heh : e.height = init.length + s.length + 1 := by
    have := hle.1; rw [hlast, hheight] at this; exact this
  have hsub : u32sub e.height init.length = s.length + 1 := by
    rw [u32sub_of_le (by omega) (by omega)]; omega
  -- the download
  have hdl : download (honest (init ++ last :: (s ++ [e])) mhp).segment last.id init.length e.id e.height
      = (s ++ [e], true) := by
    unfold download
    have := dlLoop_honest (init ++ last :: (s ++ [e])) mhp hndp e (e.height - init.length + 1) init last s rfl hlinked (by omega)
    rw [hheight] at this
    exact this
  have hany : (s ++ [e]).any (fun b => !b.ok) = false := by
    rw [List.any_eq_false]
    intro b hb; simp [hok b hb]
  have htake : (init ++ last :: qOwn).take (init.length + 1) = init ++ [last] := by
    have : init ++ last :: qOwn = (init ++ [last]) ++ qOwn := by simp
    rw [this]; exact List.take_left' (by simp)
  have happly : applyAll applies (init ++ [last]) (s ++ [e]) = (init ++ last :: (s ++ [e]), true) :=
    applyAll_valid applies _ _ _ hvalid (by simp) (by simp)
  unfold fastSync
  simp only [hqlen, hcommon, hch, hdl, hany, htake, happly, hsub]
  have h1 : ¬ init.length < fin := by omega
  have h2 : ¬ (init.length + qOwn.length - init.length > 2 * n ∨ s.length + 1 > 2 * n) := by omega
  rw [if_neg h1, if_neg h2, if_neg (by decide), if_neg (by decide)]

/-- **Synchronisation never touches finalized blocks.** Whatever the peer answers (any `Peer`),
whatever the processor accepts, after one round of the fast synchroniser or of the block
synchroniser the requester's chain still starts with its blocks up to the finalized height. -/
theorem C19_sync_keeps_finalized (applies : List (Blk ι) → Blk ι → Bool) (finAfter : List (Blk ι) → Nat)
    (n fin myMhp : Nat) (q : List (Blk ι)) (target : Blk ι) (best : Tip ι) (peer : Peer ι)
    (hfin : fin < q.length) :
    (fastSync applies finAfter n fin q target peer).chain.take (fin + 1) = q.take (fin + 1) ∧
    (blockSync applies n fin myMhp q best peer).chain.take (fin + 1) = q.take (fin + 1) := by
  constructor
  · unfold fastSync
    simp only
    split
    · rfl
    · rfl
    · split
      · rfl
      · rename_i ch hch
        split
        · rfl
        · rename_i hge
          split
          · rfl
          · split
            · rfl
            · split
              · rfl
              · split
                · rename_i c' happ
                  obtain ⟨app, hc', _⟩ := applyAll_prefix applies _ _ _ _ happ
                  simp only [hc']
                  exact take_take_append q app (ch + 1) fin (by omega) (by omega)
                · rename_i c' happ
                  obtain ⟨app, hc', _⟩ := applyAll_prefix applies _ _ _ _ happ
                  have hpre : c'.take (fin + 1) = q.take (fin + 1) := by
                    rw [hc']; exact take_take_append q app (ch + 1) fin (by omega) (by omega)
                  split
                  · simp only
                    rw [List.take_take]
                    have : min (fin + 1) (max fin (finAfter c') + 1) = fin + 1 := by omega
                    rw [this]; exact hpre
                  · have hlen : fin + 1 ≤ c'.length := by
                      rw [hc', List.length_append, List.length_take]; omega
                    split
                    · rename_i c'' hre
                      obtain ⟨app2, hc''⟩ := reapply_prefix applies _ _ _ _ hre
                      simp only [hc'']
                      rw [take_take_append c' app2 (ch + 1) fin (by omega) hlen]
                      exact hpre
                    · rename_i c'' rest _ hre
                      obtain ⟨app2, hc''⟩ := reapply_prefix applies _ _ _ _ hre
                      simp only [hc'']
                      rw [take_take_append c' app2 (ch + 1) fin (by omega) hlen]
                      exact hpre
  · unfold blockSync
    simp only
    split
    · rfl
    · split
      · rfl
      · split
        · rfl
        · split
          · rfl
          · split
            · rfl
            · rename_i ch _
              split
              · simp only
                rw [List.take_take, Nat.min_self]
              · rename_i hge
                have key : ∀ bs c' r, streamApply applies (q.take (ch + 1)) bs = (c', r) →
                    c'.take (fin + 1) = q.take (fin + 1) := by
                  intro bs c' r h
                  obtain ⟨app, hc'⟩ := streamApply_prefix applies _ _ _ _ h
                  rw [hc']
                  exact take_take_append q app (ch + 1) fin (by omega) (by omega)
                split
                · rename_i c' h; exact key _ c' _ h
                · rename_i c' e _ h; exact key _ c' _ h
                · rename_i c' h
                  repeat' split
                  all_goals exact key _ c' _ h

/-- non-vacuity of the two plan theorems: a requester on `g b1 q2` and a responder on `g b1 b2 b3`
(two validators; the processor accepts a block iff it is linked to the tip). -/
def C19g : Blk Nat := { id := 0, prev := 0, height := 0 }
def C19b1 : Blk Nat := { id := 1, prev := 0, height := 1 }
def C19b2 : Blk Nat := { id := 2, prev := 1, height := 2 }
def C19b3 : Blk Nat := { id := 3, prev := 2, height := 3 }
def C19q2 : Blk Nat := { id := 12, prev := 1, height := 2 }
def C19applies (c : List (Blk Nat)) (x : Blk Nat) : Bool :=
  x.height == c.length && (match c.getLast? with | some t => t.id == x.prev | none => false)

def C19outcome (o : Out Nat) : List (Blk Nat) × List (Blk Nat) × Bool × Option SyncErr :=
  (o.chain, o.temp, o.banned, o.err)

example : C19outcome (fastSync C19applies (fun _ => 0) 2 0 [C19g, C19b1, C19q2] C19b3
      (honest [C19g, C19b1, C19b2, C19b3] 1))
    = ([C19g, C19b1, C19b2, C19b3], [], false, none) := by decide

/-- the same responder, but the requester cannot apply block `b3`: original chain restored, peer banned -/
example : C19outcome (fastSync (fun c x => C19applies c x && x.id != 3) (fun _ => 0) 2 0
      [C19g, C19b1, C19q2] C19b3 (honest [C19g, C19b1, C19b2, C19b3] 1))
    = ([C19g, C19b1, C19q2], [], true, some .applyFailed) := by decide

end Plans
