/-
C11 — Regular Merkle tree: index lists that are not a set of nodes of the tree.

`calculatePathNodes` (behind `VerifyProof`, `CalculateRootFromUpdateData` and `Update`) pairs the query hashes
with `Idxs` through a map and never compared an index with the shape of the tree. Two defects of the
original code (confirmed on the real code, see /verif/fixes/C11-proof-duplicate-index.patch and
/verif/fixes/C11-proof-index-out-of-tree.patch):

* a repeated index keeps only the last query hash; when the walk needs no sibling hash of its own for
  that index (lone right-edge leaf, or its sibling is queried too) the proof is accepted although the
  first hash is arbitrary: `C11_dup_index_original_accepts_false_claim`,
  `C11_dup_index_sibling_queried_original_accepts_false_claim`; the position a lone right-edge leaf passes
  through on its way up is no node of the tree, but a hash given for it replaced the one carried up from
  the leaf without comparison: `C11_passthrough_alias_original_accepts_false_claim`; a leaf-layer index beyond
  the size is a claim that is ignored: `C11_out_of_range_original_accepts_ignored_claim`;
* a leaf-layer index at or beyond the size is hashed in as a leaf the tree does not have:
  `C11_update_original_accepts_phantom_leaf`, `C11_root_from_update_data_original_accepts_phantom_leaf`.

With the fixes (`idxsValid` in `Model/RMT.lean`: the non-zero indexes are pairwise distinct and each names a node
of the tree of `size` leaves), for ALL index lists of leaf-layer positions — no distinctness, no range
hypothesis:

* `C11_proof_sound_any_indexes` — an accepted proof shows that the positions are pairwise distinct, inside
  the tree, as many as the query hashes, and that every query hash is the hash of the leaf at its position;
  `C11_proof_any_indexes_other_leaf` — the same for leaf data (other leaf data is rejected);
* `C11_verify_rejects_duplicate_index`, `C11_verify_rejects_out_of_range` — the rejections themselves;
* `C11_update_via_proof_any_positions` — a successful `Update` names pairwise distinct positions inside the tree
  and yields (root, append path, size) of the list with exactly these leaves replaced;
* `C11_update_rejects_out_of_range`, `C11_update_rejects_duplicate_index`,
  `C11_root_from_update_data_rejects_out_of_range`, `C11_root_from_update_data_rejects_duplicate_index`.
The fixed operations are the original ones behind the check: `C11_fixed_eq_checked_original`.
-/
import LiskVerif.Props.C11_More

open LiskVerif LiskVerif.RMT

/-! ### the fixed operations are the original ones behind the check of the index list -/

/-- `VerifyProof`, `CalculateRootFromUpdateData` and `Update` with the fixes are the original functions
guarded by `idxsValid`: nothing else changed. -/
theorem C11_fixed_eq_checked_original (hf : HashFns) :
    (∀ q p r, verifyProof hf q p r = (idxsValid p.size p.idxs && verifyProofOrig hf q p r)) ∧
    (∀ upd p, rootFromUpdateData hf upd p
      = if idxsValid p.size p.idxs then rootFromUpdateDataOrig hf upd p else none) ∧
    (∀ t idxs data, update hf t idxs data
      = if idxsValid t.core.size idxs then updateOrig hf t idxs data else none) :=
  ⟨verifyProof_eq hf, rootFromUpdateData_eq hf, update_eq hf⟩

private theorem calcPathNodes_some_len (hf : HashFns) (q : List Bytes) (n : Nat) (idxs : List Nat) (sibs : List Bytes)
    (res : List (Nat × Bytes)) (h : calcPathNodes hf q n idxs sibs = some res) : q.length = idxs.length := by
  unfold calcPathNodes at h
  split at h
  · cases h
  · rename_i hne
    simpa using hne

private theorem verify_valid (hf : HashFns) (q : List Bytes) (p : Proof) (r : Bytes)
    (h : verifyProof hf q p r = true) : idxsValid p.size p.idxs = true ∧ q.length = p.idxs.length := by
  rw [verifyProof_eq, Bool.and_eq_true] at h
  refine ⟨h.1, ?_⟩
  have h2 := h.2
  unfold verifyProofOrig at h2
  split at h2
  · cases h2
  · split at h2
    · cases h2
    · rename_i res hres
      exact calcPathNodes_some_len hf _ _ _ _ res hres

/-! ### soundness of `VerifyProof` for any list of leaf-layer indexes -/

/-- Soundness without a distinctness (or range) hypothesis: if the fixed `VerifyProof` accepts a proof whose
indexes are ANY list of leaf-layer positions against the root of `l`, then the positions are pairwise
distinct, there are as many as query hashes, each lies inside the tree, and every query hash is the hash of
the leaf at its position. (Injectivity of the branch hash is the only assumption. The original code fails
this statement: `C11_dup_index_original_accepts_false_claim`.) -/
theorem C11_proof_sound_any_indexes (hf : HashFns) (hinj : BranchInj hf) (l : List Bytes) (pos : List Nat)
    (q sibs : List Bytes)
    (hv : verifyProof hf q ⟨l.length, pos.map (fun p => 2 ^ getHeight l.length + p), sibs⟩ (rootH hf l) = true) :
    pos.Nodup ∧ q.length = pos.length ∧
      ∀ k (hk : k < pos.length), pos[k] < l.length ∧ l[pos[k]]? = q[k]? := by
  obtain ⟨hval, hlen⟩ := verify_valid hf _ _ _ hv
  simp only [List.length_map] at hlen
  obtain ⟨hnd, hlt⟩ := idxsValid_leaves_inv pos hval
  refine ⟨hnd, hlen, ?_⟩
  intro k hk
  exact ⟨hlt _ (List.getElem_mem hk), verify_sound_multi hf hinj l pos q sibs hnd hlt hlen hv k hk⟩

/-- The statement for index lists that also contain inner nodes and zero entries ("not in the tree"): every pair
whose index lies in the leaf layer names the real leaf. `C11_proof_sound_any_indexes` proves it for lists
consisting of indexes at or above the leaf layer (any `2^height + p`); with inner-node indexes mixed in it is
not proved here — the harness checks it on the real code and on the model (`vcraft` ops with ancestors, zero
entries and pass-through positions; oracle `c11-proof-accepts-false-claim`). -/
def C11_proof_sound_mixed_indexes_Statement : Prop :=
  ∀ (hf : HashFns), BranchInj hf → ∀ (l : List Bytes) (idxs : List Nat) (q sibs : List Bytes),
    verifyProof hf q ⟨l.length, idxs, sibs⟩ (rootH hf l) = true →
    ∀ (k p : Nat), idxs[k]? = some (2 ^ getHeight l.length + p) → p < l.length ∧ l[p]? = q[k]?

/-- non-vacuity: the fixed verifier accepts the proof for the leaves 3 and 1 (in this order) of five leaves -/
example : verifyProof C11.pairHash [[4], [2]]
    ⟨5, [3, 1].map (fun p => 2 ^ getHeight 5 + p), [[1], [3], [5]]⟩
    (rootH C11.pairHash [[1], [2], [3], [4], [5]]) = true := by
  decide +kernel

example : ([3, 1] : List Nat).Nodup ∧ ([[4], [2]] : List Bytes).length = ([3, 1] : List Nat).length ∧
    ∀ k (hk : k < ([3, 1] : List Nat).length), ([3, 1] : List Nat)[k] < ([[1], [2], [3], [4], [5]] : List Bytes).length ∧
      ([[1], [2], [3], [4], [5]] : List Bytes)[([3, 1] : List Nat)[k]]? = ([[4], [2]] : List Bytes)[k]? :=
  C11_proof_sound_any_indexes C11.pairHash C11.pairHash_inj [[1], [2], [3], [4], [5]] [3, 1] [[4], [2]] [[1], [3], [5]]
    (by decide +kernel)

/-- Other leaf data is rejected, for any list of leaf-layer indexes: a proof accepted for the data `d` shows
that the leaf at every named position is the corresponding element of `d` (leaf hash injective). -/
theorem C11_proof_any_indexes_other_leaf (hf : HashFns) (hinj : BranchInj hf)
    (hleaf : ∀ a b, hf.leaf a = hf.leaf b → a = b) (data : List Bytes) (pos : List Nat) (d sibs : List Bytes)
    (hv : verifyProof hf (d.map hf.leaf) ⟨data.length, pos.map (fun p => 2 ^ getHeight data.length + p), sibs⟩
      (root hf data) = true) :
    ∀ k (hk : k < pos.length), data[pos[k]]? = d[k]? := by
  have hl : (data.map hf.leaf).length = data.length := by simp
  obtain ⟨_, hlen, hall⟩ := C11_proof_sound_any_indexes hf hinj (data.map hf.leaf) pos (d.map hf.leaf) sibs
    (by rw [hl]; exact hv)
  intro k hk
  obtain ⟨hlt, he⟩ := hall k hk
  rw [hl] at hlt
  have hlen' : d.length = pos.length := by simpa using hlen
  have hkd : k < d.length := by omega
  rw [List.getElem?_map, List.getElem?_map, List.getElem?_eq_getElem hlt, List.getElem?_eq_getElem hkd] at he
  rw [List.getElem?_eq_getElem hlt, List.getElem?_eq_getElem hkd, hleaf _ _ (Option.some.inj he)]

example : ∀ k (hk : k < ([3, 1] : List Nat).length),
    ([[1], [2], [3], [4], [5]] : List Bytes)[([3, 1] : List Nat)[k]]? = ([[4], [2]] : List Bytes)[k]? :=
  C11_proof_any_indexes_other_leaf C11.pairHash C11.pairHash_inj (fun _ _ h => h) [[1], [2], [3], [4], [5]] [3, 1]
    [[4], [2]] [[1], [3], [5]] (by decide +kernel)

/-- The fixed `VerifyProof` rejects every proof that names a leaf-layer position twice. -/
theorem C11_verify_rejects_duplicate_index (hf : HashFns) (n : Nat) (pos : List Nat) (q sibs : List Bytes) (r : Bytes)
    (hdup : ¬ pos.Nodup) :
    verifyProof hf q ⟨n, pos.map (fun p => 2 ^ getHeight n + p), sibs⟩ r = false := by
  cases hv : verifyProof hf q ⟨n, pos.map (fun p => 2 ^ getHeight n + p), sibs⟩ r with
  | false => rfl
  | true => exact absurd (idxsValid_leaves_inv pos (verify_valid hf _ _ _ hv).1).1 hdup

/-- The fixed `VerifyProof` rejects every proof that names a leaf-layer position at or beyond the size. -/
theorem C11_verify_rejects_out_of_range (hf : HashFns) (n : Nat) (pos : List Nat) (q sibs : List Bytes) (r : Bytes)
    (p : Nat) (hp : p ∈ pos) (hge : n ≤ p) :
    verifyProof hf q ⟨n, pos.map (fun p => 2 ^ getHeight n + p), sibs⟩ r = false := by
  cases hv : verifyProof hf q ⟨n, pos.map (fun p => 2 ^ getHeight n + p), sibs⟩ r with
  | false => rfl
  | true =>
    have hlt : p < n := (idxsValid_leaves_inv (n := n) pos (verify_valid hf _ _ _ hv).1).2 p hp
    omega

example : verifyProof C11.pairHash [[9], [5]] ⟨5, [4, 4].map (fun p => 2 ^ getHeight 5 + p), [[1, 1, 0, 1, 0, 1, 2, 1, 0, 3, 4]]⟩
    (rootH C11.pairHash [[1], [2], [3], [4], [5]]) = false :=
  C11_verify_rejects_duplicate_index _ _ _ _ _ _ (by decide)

/-! ### the original pairing: counterexamples -/

/-- The original `VerifyProof` (last query hash wins for a repeated index) accepts a false claim: in the tree
of the five leaves `[1] … [5]` (toy hash), the proof `Idxs = [20, 20]` with the query hashes `[[9], [5]]` and
the one sibling hash of leaf 4 is accepted against the real root, although leaf 4 is `[5]` and not `[9]`.
The fixed verifier rejects it. -/
theorem C11_dup_index_original_accepts_false_claim :
    let l : List Bytes := [[1], [2], [3], [4], [5]]
    let p : Proof := ⟨5, [2 ^ getHeight 5 + 4, 2 ^ getHeight 5 + 4], [rootH C11.pairHash [[1], [2], [3], [4]]]⟩
    l[4]? ≠ some [9] ∧
    verifyProofOrig C11.pairHash [[9], [5]] p (rootH C11.pairHash l) = true ∧
    verifyProof C11.pairHash [[9], [5]] p (rootH C11.pairHash l) = false := by
  decide +kernel

/-- The same with the sibling queried as well (`Idxs = [17, 17, 16]`, hashes `[[9], [2], [1]]`): no sibling hash
is consumed for the repeated index, the false claim `(17, [9])` is accepted by the original code. -/
theorem C11_dup_index_sibling_queried_original_accepts_false_claim :
    let l : List Bytes := [[1], [2], [3], [4], [5]]
    let p : Proof := ⟨5, [17, 17, 16], [rootH C11.pairHash [[3], [4]], [5]]⟩
    l[1]? ≠ some [9] ∧
    verifyProofOrig C11.pairHash [[9], [2], [1]] p (rootH C11.pairHash l) = true ∧
    verifyProof C11.pairHash [[9], [2], [1]] p (rootH C11.pairHash l) = false := by
  decide +kernel

/-- Index 10 = (layer 1, node 2) is no node of a tree of five leaves (layer structure 5, 2, 1, 1) but the position
leaf 4 (index 20) passes through on its way up. The original code takes the hash given for it instead of the
one carried up from index 20 without comparing them: `Idxs = [20, 10]` with `[[9], [5]]` is accepted, a false
claim about leaf 4. The fixed verifier rejects index 10. -/
theorem C11_passthrough_alias_original_accepts_false_claim :
    let l : List Bytes := [[1], [2], [3], [4], [5]]
    let p : Proof := ⟨5, [20, 10], [rootH C11.pairHash [[1], [2], [3], [4]]]⟩
    l[4]? ≠ some [9] ∧ layerStructure 5 = [5, 2, 1, 1] ∧
    verifyProofOrig C11.pairHash [[9], [5]] p (rootH C11.pairHash l) = true ∧
    verifyProof C11.pairHash [[9], [5]] p (rootH C11.pairHash l) = false := by
  decide +kernel

/-- A leaf-layer index beyond the size is a claim the original `VerifyProof` ignores: in the tree of the three leaves
`[1], [2], [3]` the proof `Idxs = [10, 8, 12]` (12 = position 4) with the hashes `[[3], [1], [9]]` is accepted — the hash
given for index 12 travels up beside the tree and is never combined with anything. The fixed verifier rejects it. -/
theorem C11_out_of_range_original_accepts_ignored_claim :
    let l : List Bytes := [[1], [2], [3]]
    let p : Proof := ⟨3, [10, 8, 12], [[2]]⟩
    2 ^ getHeight 3 + 4 = 12 ∧
    verifyProofOrig C11.pairHash [[3], [1], [9]] p (rootH C11.pairHash l) = true ∧
    verifyProof C11.pairHash [[3], [1], [9]] p (rootH C11.pairHash l) = false := by
  decide +kernel

/-! ### update through a proof -/

private theorem update_valid (hf : HashFns) (t t' : Tree) (idxs : List Nat) (data : List Bytes)
    (hu : update hf t idxs data = some t') :
    idxsValid t.core.size idxs = true ∧ data.length = idxs.length := by
  rw [update_eq] at hu
  split at hu
  case isFalse => cases hu
  rename_i hval
  refine ⟨hval, ?_⟩
  unfold updateOrig at hu
  dsimp only at hu
  split at hu
  · cases hu
  · split at hu
    · cases hu
    · split at hu
      · cases hu
      · split at hu
        · cases hu
        · rename_i calcd hcalc
          simpa using calcPathNodes_some_len hf _ _ _ _ calcd hcalc

/-- The fixed `Update` returns an error when a leaf-layer position at or beyond the size is named (the original
code hashed it in as a leaf the tree does not have: `C11_update_original_accepts_phantom_leaf`). -/
theorem C11_update_rejects_out_of_range (hf : HashFns) (t : Tree) (pos : List Nat) (upd : List Bytes)
    (p : Nat) (hp : p ∈ pos) (hge : t.core.size ≤ p) :
    update hf t (pos.map fun p => 2 ^ getHeight t.core.size + p) upd = none := by
  cases hu : update hf t (pos.map fun p => 2 ^ getHeight t.core.size + p) upd with
  | none => rfl
  | some t' =>
    have := (idxsValid_leaves_inv pos (update_valid hf t t' _ _ hu).1).2 p hp
    omega

/-- The fixed `Update` returns an error when a position is named twice. -/
theorem C11_update_rejects_duplicate_index (hf : HashFns) (t : Tree) (pos : List Nat) (upd : List Bytes)
    (hdup : ¬ pos.Nodup) :
    update hf t (pos.map fun p => 2 ^ getHeight t.core.size + p) upd = none := by
  cases hu : update hf t (pos.map fun p => 2 ^ getHeight t.core.size + p) upd with
  | none => rfl
  | some t' => exact absurd (idxsValid_leaves_inv pos (update_valid hf t t' _ _ hu).1).1 hdup

/-- `Update` through a proof for ANY list of leaf-layer positions (no distinctness, range or length hypothesis):
if it succeeds on a tree built by appends, the positions are pairwise distinct, inside the tree, as many as the
update data, and (root, append path, size) are those of the list with exactly these leaves replaced. -/
theorem C11_update_via_proof_any_positions (hf : HashFns) (data : List Bytes) (t t' : Tree) (pos : List Nat)
    (upd : List Bytes) (h : C11.appendTreeAll hf (emptyTree hf) data = some t)
    (hu : update hf t (pos.map fun p => 2 ^ getHeight data.length + p) upd = some t') :
    pos.Nodup ∧ pos.length = upd.length ∧ (∀ p ∈ pos, p < data.length) ∧
    (let data' := (pos.zip upd).foldl (fun d pu => d.set pu.1 pu.2) data
     t'.core = ⟨root hf data', peaks hf (data'.map hf.leaf), data.length⟩) := by
  have hsz : t.core.size = data.length := by simpa using (C11_built hf data t h).size
  obtain ⟨hval, hlen⟩ := update_valid hf t t' _ _ hu
  rw [hsz] at hval
  simp only [List.length_map] at hlen
  obtain ⟨hnd, hlt⟩ := idxsValid_leaves_inv pos hval
  exact ⟨hnd, hlen.symm, hlt, C11_update_via_proof hf data t t' pos upd h hnd hlen.symm hlt hu⟩

/-- non-vacuity: the update of the leaves 4, 0, 2 of five leaves succeeds on the fixed model -/
example : ((C11.appendTreeAll C11.pairHash (emptyTree C11.pairHash) [[1], [2], [3], [4], [5]]).bind
    fun t => update C11.pairHash t ([4, 0, 2].map fun p => 2 ^ getHeight 5 + p) [[9], [8], [7]]).map (·.core.root)
      = some (root C11.pairHash [[8], [2], [7], [4], [9]]) := by
  decide +kernel

/-- The original `Update` accepts index 21 (leaf-layer position 5) in the tree of the five leaves `[1] … [5]`:
it succeeds, the size stays 5, and the root becomes the root of the six-leaf list `[1] … [5], [9]` — a leaf
the tree does not have. The fixed `Update` returns an error. -/
theorem C11_update_original_accepts_phantom_leaf :
    ((C11.appendTreeAll C11.pairHash (emptyTree C11.pairHash) [[1], [2], [3], [4], [5]]).bind
      fun t => updateOrig C11.pairHash t [2 ^ getHeight 5 + 5] [[9]]).map (fun t' => (t'.core.root, t'.core.size))
      = some (root C11.pairHash [[1], [2], [3], [4], [5], [9]], 5) ∧
    ((C11.appendTreeAll C11.pairHash (emptyTree C11.pairHash) [[1], [2], [3], [4], [5]]).bind
      fun t => update C11.pairHash t [2 ^ getHeight 5 + 5] [[9]]) = none := by
  decide +kernel

/-- The original `Update` with a position named twice writes only the last value (`[20, 20]` with `[[8], [9]]`
gives the root of `[1] … [4], [9]`); the fixed `Update` returns an error. -/
theorem C11_update_original_duplicate_index_last_wins :
    ((C11.appendTreeAll C11.pairHash (emptyTree C11.pairHash) [[1], [2], [3], [4], [5]]).bind
      fun t => updateOrig C11.pairHash t [20, 20] [[8], [9]]).map (·.core.root)
      = some (root C11.pairHash [[1], [2], [3], [4], [9]]) ∧
    ((C11.appendTreeAll C11.pairHash (emptyTree C11.pairHash) [[1], [2], [3], [4], [5]]).bind
      fun t => update C11.pairHash t [20, 20] [[8], [9]]) = none := by
  decide +kernel

/-! ### `CalculateRootFromUpdateData` -/

private theorem rootFromUpdateData_valid (hf : HashFns) (upd : List Bytes) (p : Proof) (r : Bytes)
    (h : rootFromUpdateData hf upd p = some r) : idxsValid p.size p.idxs = true := by
  rw [rootFromUpdateData_eq] at h
  split at h
  · assumption
  · cases h

/-- The fixed `CalculateRootFromUpdateData` returns an error for a proof that names a leaf-layer position at or
beyond its size. -/
theorem C11_root_from_update_data_rejects_out_of_range (hf : HashFns) (n : Nat) (pos : List Nat)
    (upd sibs : List Bytes) (p : Nat) (hp : p ∈ pos) (hge : n ≤ p) :
    rootFromUpdateData hf upd ⟨n, pos.map (fun p => 2 ^ getHeight n + p), sibs⟩ = none := by
  cases hr : rootFromUpdateData hf upd ⟨n, pos.map (fun p => 2 ^ getHeight n + p), sibs⟩ with
  | none => rfl
  | some r =>
    have hlt : p < n := (idxsValid_leaves_inv (n := n) pos (rootFromUpdateData_valid hf _ _ r hr)).2 p hp
    omega

/-- … and for a proof that names a position twice. -/
theorem C11_root_from_update_data_rejects_duplicate_index (hf : HashFns) (n : Nat) (pos : List Nat)
    (upd sibs : List Bytes) (hdup : ¬ pos.Nodup) :
    rootFromUpdateData hf upd ⟨n, pos.map (fun p => 2 ^ getHeight n + p), sibs⟩ = none := by
  cases hr : rootFromUpdateData hf upd ⟨n, pos.map (fun p => 2 ^ getHeight n + p), sibs⟩ with
  | none => rfl
  | some r => exact absurd (idxsValid_leaves_inv pos (rootFromUpdateData_valid hf _ _ r hr)).1 hdup

/-- The original `CalculateRootFromUpdateData` computes the root of a six-leaf list from a proof of size 5 that
names index 21; the fixed one returns an error. -/
theorem C11_root_from_update_data_original_accepts_phantom_leaf :
    let p : Proof := ⟨5, [2 ^ getHeight 5 + 5], [[5], rootH C11.pairHash [[1], [2], [3], [4]]]⟩
    rootFromUpdateDataOrig C11.pairHash [[9]] p = some (root C11.pairHash [[1], [2], [3], [4], [5], [9]]) ∧
    rootFromUpdateData C11.pairHash [[9]] p = none := by
  decide +kernel
