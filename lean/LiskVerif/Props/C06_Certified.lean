/-
C06 — the last certified height is a function of the CHAIN.

`verifyAggregateCommit` accepts an aggregate commit only "with a height strictly above the last
certified height", and `GetAggregateCommit` starts its search above it.  Both read that height from the
BFT store (`GetBFTHeights().MaxHeightCertified`), which `liskbft.Module.BeforeTransactionsExecute`
(`Model/BFT.lean`, `process`) updates from the aggregate commit of every header it processes.  This file
proves, for the transcription, that the stored value is exactly the certified height the chain carries —
whatever kind of header carried the information:

* `C06_certified_of_chain` : after EVERY chain of events accepted by the model (headers of voting and
  non-voting generators, standby generators, `maxHeightGenerated ≥ height`, any parameter changes in
  between) `maxHeightCertified` is the height of the newest non-empty aggregate commit of the chain (the
  initial value when there is none);
* `C06_certified_depends_on_commits_only`, `C06_certified_independent_of_votes` : it depends on nothing
  but the sequence of aggregate-commit fields: generator, `maxHeightGenerated`, `maxHeightPrevoted` of the
  carrying headers (i.e. whether they imply votes) are irrelevant;
* `C06_certified_is_max_and_monotone` : for chains whose non-empty commits are strictly above the height
  certified before them — which is what the node enforces, `C06_node_run_increasing` — it is the MAXIMUM
  of the commit heights and never decreases along the chain;
* combined with `Model/Cert.lean` (`C06NodeRun`: every block's aggregate commit passed
  `verifyAggregateCommit` in a view whose certified height is the one of the BFT store):
  `C06_accepted_commit_above_certified_of_chain` (a non-empty aggregate commit accepted after the chain
  `pre` has a height strictly above `certified(pre)`), `C06_no_aggregate_commit_accepted_twice` (the heights
  of the accepted non-empty commits are strictly increasing along every chain: a replay, or a commit for a
  lower height, is rejected), `C06_replay_rejected_after_any_carrier`;
* `C06_skipping_step_counterexample` : a step function that returns early for headers that imply no votes
  and thereby skips the certified-height update (the seeded change C06-16) violates all of this: a block of
  a standby generator carries a valid aggregate commit for height 5, the certified height stays 0 and the
  very same aggregate commit is accepted again.

The structural fact that the real `BeforeTransactionsExecute` has no such early return is the obligation
`Props/C06_CertifiedGen.lean` on the regenerated skeleton.
-/
import LiskVerif.Props.C02
import LiskVerif.Props.C06
import LiskVerif.Lemmas.BFT

open LiskVerif

/-! ## the certified height carried by a chain -/

/-- the non-empty aggregate commit (its height) an event puts on the chain -/
def C06commitOf : C02Ev → Option Nat
  | .block h => h.commitHeight
  | _ => none

/-- certified height carried by a chain, read from the chain contents alone: the height of the newest
non-empty aggregate commit, `init` (the genesis height) when there is none -/
def C06certified (init : Nat) (evs : List C02Ev) : Nat :=
  evs.foldl (fun c e => (C06commitOf e).getD c) init

/-- largest height of the non-empty aggregate commits of a chain (`init` when there is none) -/
def C06maxCommit (init : Nat) (evs : List C02Ev) : Nat :=
  evs.foldl (fun m e => match C06commitOf e with | some x => max m x | none => m) init

/-- the block events of the chain are accepted by the model one after the other (a rejected parameter
change leaves the state unchanged and is harmless) -/
def C06accepted : BFT.State → List C02Ev → Prop
  | _, [] => True
  | s, e :: r =>
    (match e with
     | .block h => ∃ s', BFT.process s h = .ok s'
     | _ => True) ∧ C06accepted (C02step s e) r

/-- every non-empty aggregate commit of the chain is strictly above the height certified before it -/
def C06increasing : Nat → List C02Ev → Prop
  | _, [] => True
  | c, e :: r => (∀ x, C06commitOf e = some x → c < x) ∧ C06increasing ((C06commitOf e).getD c) r

/-- one accepted event moves `maxHeightCertified` exactly as the event's aggregate-commit field says —
for a header of ANY generator with ANY `maxHeightGenerated` / `maxHeightPrevoted` -/
theorem C06_step_certified (s : BFT.State) (e : C02Ev)
    (hok : match e with
      | .block h => ∃ s', BFT.process s h = .ok s'
      | _ => True) :
    (C02step s e).mhc = (C06commitOf e).getD s.mhc := by
  cases e with
  | block h =>
    obtain ⟨s', hs'⟩ := hok
    have hm : s'.mhc = h.commitHeight.getD s.mhc := (BFT.process_facts hs').choose_spec.2.2.2.2.2.1
    simp only [C02step, hs', C06commitOf]
    exact hm
  | setParams pc ct vs =>
    simp only [C02step, C06commitOf, Option.getD_none]
    cases hsp : BFT.setParams s pc ct vs with
    | error _ => rfl
    | ok s' => exact (BFT.setParams_facts hsp).2.2.2.2.1
  | setKeys g => rfl

/-- **The certified height is a function of the chain.**  After every chain of events accepted by the
model, `maxHeightCertified` is the height of the newest non-empty aggregate commit in the chain (the
initial value when the chain has none) — no matter which generators produced the carrying headers and
whether those headers implied votes. -/
theorem C06_certified_of_chain (s : BFT.State) (evs : List C02Ev) (hacc : C06accepted s evs) :
    (C02run s evs).mhc = C06certified s.mhc evs := by
  induction evs generalizing s with
  | nil => rfl
  | cons e r ih =>
    obtain ⟨hok, hr⟩ := hacc
    have hstep := C06_step_certified s e hok
    simp only [C02run, C06certified, List.foldl_cons] at ih ⊢
    rw [ih (C02step s e) hr, hstep]

/-- the certified height of a chain depends only on the sequence of its aggregate-commit fields -/
theorem C06_certified_depends_on_commits_only (c : Nat) (evs₁ evs₂ : List C02Ev)
    (h : evs₁.map C06commitOf = evs₂.map C06commitOf) : C06certified c evs₁ = C06certified c evs₂ := by
  have key : ∀ (evs : List C02Ev) (c : Nat),
      C06certified c evs = (evs.map C06commitOf).foldl (fun c o => o.getD c) c := by
    intro evs
    induction evs with
    | nil => intro c; rfl
    | cons e r ih => intro c; simp only [C06certified, List.foldl_cons, List.map_cons] at ih ⊢; exact ih _
  rw [key, key, h]

/-- **Independence of the votes.**  Two chains accepted by the model that carry the same aggregate-commit
fields position by position end with the same `maxHeightCertified`, whatever their generators,
`maxHeightGenerated` and `maxHeightPrevoted` values, parameter sets and windows are — in particular a
chain in which the commits travel in headers of standby generators or in headers declaring
`maxHeightGenerated ≥ height`, and the chain in which the same commits travel in voting headers. -/
theorem C06_certified_independent_of_votes (s₁ s₂ : BFT.State) (evs₁ evs₂ : List C02Ev)
    (h0 : s₁.mhc = s₂.mhc) (hc : evs₁.map C06commitOf = evs₂.map C06commitOf)
    (a₁ : C06accepted s₁ evs₁) (a₂ : C06accepted s₂ evs₂) :
    (C02run s₁ evs₁).mhc = (C02run s₂ evs₂).mhc := by
  rw [C06_certified_of_chain s₁ evs₁ a₁, C06_certified_of_chain s₂ evs₂ a₂, h0]
  exact C06_certified_depends_on_commits_only _ _ _ hc

/-- a single header may be replaced by a header of any other generator with any other vote-related
fields: as long as both chains are accepted and the aggregate-commit field is kept, the certified height
after the chain is the same -/
theorem C06_certified_carrier_irrelevant (s : BFT.State) (pre post : List C02Ev) (h h' : BFT.Header)
    (hc : h.commitHeight = h'.commitHeight)
    (a : C06accepted s (pre ++ .block h :: post)) (a' : C06accepted s (pre ++ .block h' :: post)) :
    (C02run s (pre ++ .block h :: post)).mhc = (C02run s (pre ++ .block h' :: post)).mhc := by
  refine C06_certified_independent_of_votes s s _ _ rfl ?_ a a'
  simp only [List.map_append, List.map_cons, C06commitOf, hc]

private theorem C06increasing_le (c : Nat) (evs : List C02Ev) (h : C06increasing c evs) :
    c ≤ C06certified c evs ∧ C06certified c evs = C06maxCommit c evs := by
  induction evs generalizing c with
  | nil => exact ⟨Nat.le_refl _, rfl⟩
  | cons e r ih =>
    obtain ⟨hx, hr⟩ := h
    simp only [C06certified, C06maxCommit, List.foldl_cons] at ih ⊢
    cases hce : C06commitOf e with
    | none =>
      simp only [hce, Option.getD_none] at hr ⊢
      exact ih c hr
    | some x =>
      have hlt : c < x := hx x hce
      simp only [hce, Option.getD_some] at hr ⊢
      have hmax : max c x = x := by omega
      rw [hmax]
      obtain ⟨h1, h2⟩ := ih x hr
      exact ⟨by omega, h2⟩

private theorem C06increasing_append (c : Nat) (a b : List C02Ev) (h : C06increasing c (a ++ b)) :
    C06increasing (C06certified c a) b := by
  induction a generalizing c with
  | nil => exact h
  | cons e r ih =>
    obtain ⟨_, hr⟩ := h
    simp only [C06certified, List.foldl_cons] at ih ⊢
    exact ih _ hr

/-- **Maximum and monotonicity.**  On a chain whose non-empty aggregate commits are each strictly above
the height certified before them, the certified height is the maximum of the commit heights and never
decreases from a prefix of the chain to the whole chain. -/
theorem C06_certified_is_max_and_monotone (s : BFT.State) (a b : List C02Ev)
    (hacc : C06accepted s (a ++ b)) (hinc : C06increasing s.mhc (a ++ b)) :
    (C02run s (a ++ b)).mhc = C06maxCommit s.mhc (a ++ b) ∧
    s.mhc ≤ (C02run s a).mhc ∧ (C02run s a).mhc ≤ (C02run s (a ++ b)).mhc := by
  have hacc_a : C06accepted s a := by
    clear hinc
    induction a generalizing s with
    | nil => trivial
    | cons e r ih => exact ⟨hacc.1, ih _ hacc.2⟩
  have hinc_a : C06increasing s.mhc a := by
    clear hacc hacc_a
    generalize s.mhc = c at hinc
    induction a generalizing c with
    | nil => trivial
    | cons e r ih => exact ⟨hinc.1, ih _ hinc.2⟩
  rw [C06_certified_of_chain s _ hacc, C06_certified_of_chain s a hacc_a]
  refine ⟨(C06increasing_le _ _ hinc).2, (C06increasing_le _ _ hinc_a).1, ?_⟩
  have hb := C06increasing_append s.mhc a b hinc
  have := (C06increasing_le _ _ hb).1
  simpa [C06certified, List.foldl_append] using this

/-! ## combined with the certificate model: chains of blocks the node accepts -/

/-- a block as far as certification is concerned: the header the BFT module sees, the aggregate commit it
carries, and the verifier's view of the chain at the moment the block is verified (own blocks, BFT
parameters, precommitted and certified height as read from the consensus store) -/
structure C06Block where
  hdr : BFT.Header
  ac : Cert.AggCommit
  view : Cert.State

/-- the block is accepted on top of BFT state `s`, giving `s'`: the header field is the carried aggregate
commit, the verifier's view reads the certified height of the BFT store, `verifyAggregateCommit` accepts,
and `BeforeTransactionsExecute` succeeds.  Nothing is assumed about the generator of the header. -/
def C06nodeStep (s : BFT.State) (b : C06Block) (s' : BFT.State) : Prop :=
  b.hdr.commitHeight = (if b.ac.isEmpty then none else some b.ac.height) ∧
  b.view.mhc = s.mhc ∧
  Cert.verifyAggregateCommit b.view b.ac = .accept ∧
  BFT.process s b.hdr = .ok s'

/-- a chain of blocks accepted one after the other -/
inductive C06NodeRun : BFT.State → List C06Block → BFT.State → Prop
  | nil (s : BFT.State) : C06NodeRun s [] s
  | cons {s s' s'' : BFT.State} {b : C06Block} {r : List C06Block} :
      C06nodeStep s b s' → C06NodeRun s' r s'' → C06NodeRun s (b :: r) s''

/-- certified height carried by a chain of blocks: the largest height of its non-empty aggregate commits -/
def C06certifiedBlocks (init : Nat) (bs : List C06Block) : Nat :=
  bs.foldl (fun m b => if b.ac.isEmpty then m else max m b.ac.height) init

/-- one accepted block: the certified height becomes the height of a non-empty commit, which is strictly
above the old one, and stays for the empty commit -/
theorem C06_node_step_certified (s s' : BFT.State) (b : C06Block) (h : C06nodeStep s b s') :
    s'.mhc = (if b.ac.isEmpty then s.mhc else b.ac.height) ∧ s.mhc ≤ s'.mhc ∧
    (b.ac.isEmpty = false → s.mhc < b.ac.height) := by
  obtain ⟨hf, hv, hacc, hp⟩ := h
  have hm : s'.mhc = b.hdr.commitHeight.getD s.mhc := (BFT.process_facts hp).choose_spec.2.2.2.2.2.1
  cases he : b.ac.isEmpty with
  | true =>
    rw [he] at hf
    have hf' : b.hdr.commitHeight = none := by simpa using hf
    rw [hm, hf']
    exact ⟨by simp, Nat.le_refl _, by intro h; cases h⟩
  | false =>
    have hlt := (C06_verify_sound b.view b.ac hacc he).1
    rw [hv] at hlt
    rw [he] at hf
    have hf' : b.hdr.commitHeight = some b.ac.height := by simpa using hf
    rw [hm, hf']
    exact ⟨by simp, by simp only [Option.getD_some]; omega, fun _ => hlt⟩

/-- the certified height after a chain of accepted blocks is the certified height the chain carries,
and it never decreases -/
theorem C06_node_run_certified (s s' : BFT.State) (bs : List C06Block) (h : C06NodeRun s bs s') :
    s'.mhc = C06certifiedBlocks s.mhc bs ∧ s.mhc ≤ s'.mhc := by
  induction h with
  | nil s => exact ⟨rfl, Nat.le_refl _⟩
  | @cons s s₁ s₂ b r hstep hrest ih =>
    obtain ⟨h1, h2, h3⟩ := C06_node_step_certified _ _ _ hstep
    refine ⟨?_, by omega⟩
    rw [ih.1]
    simp only [C06certifiedBlocks, List.foldl_cons]
    congr 1
    cases he : b.ac.isEmpty with
    | true => rw [he] at h1; simpa using h1
    | false =>
      have := h3 he
      rw [he] at h1
      have h1' : s₁.mhc = b.ac.height := by simpa using h1
      simp only [Bool.false_eq_true, if_false]
      rw [h1', Nat.max_eq_right (Nat.le_of_lt this)]

/-- **An aggregate commit accepted after the chain `pre` has a height strictly above `certified(pre)`** —
for every chain of accepted blocks, whoever generated them. -/
theorem C06_accepted_commit_above_certified_of_chain (s s' : BFT.State) (pre post : List C06Block)
    (b : C06Block) (h : C06NodeRun s (pre ++ b :: post) s') (hne : b.ac.isEmpty = false) :
    C06certifiedBlocks s.mhc pre < b.ac.height := by
  induction pre generalizing s with
  | nil =>
    cases h with
    | cons hstep _ => exact (C06_node_step_certified _ _ _ hstep).2.2 hne
  | cons a r ih =>
    cases h with
    | cons hstep hrest =>
      rename_i s₁
      have hs := (C06_node_step_certified _ _ _ hstep).1
      have := ih s₁ hrest
      simp only [C06certifiedBlocks, List.foldl_cons] at this ⊢
      have heq : (if a.ac.isEmpty then s.mhc else max s.mhc a.ac.height) = s₁.mhc := by
        cases he : a.ac.isEmpty with
        | true => rw [he] at hs; simpa using hs.symm
        | false =>
          have hlt := (C06_node_step_certified _ _ _ hstep).2.2 he
          rw [he] at hs
          have hs' : s₁.mhc = a.ac.height := by simpa using hs
          simp only [Bool.false_eq_true, if_false]
          rw [hs', Nat.max_eq_right (Nat.le_of_lt hlt)]
      rw [heq]
      exact this

private theorem C06_run_all_above (s s' : BFT.State) (bs : List C06Block) (h : C06NodeRun s bs s') :
    ∀ b ∈ bs, b.ac.isEmpty = false → s.mhc < b.ac.height := by
  induction h with
  | nil s => intro b hb; cases hb
  | @cons s s₁ s₂ b r hstep hrest ih =>
    intro c hc hne
    obtain ⟨_, h2, h3⟩ := C06_node_step_certified _ _ _ hstep
    cases hc with
    | head => exact h3 hne
    | tail _ hmem => have := ih c hmem hne; omega

/-- **No aggregate commit is accepted twice.**  Along every chain of accepted blocks the heights of the
non-empty aggregate commits are strictly increasing: the same aggregate commit (a replay copied from an
earlier block), another one for the same height, or one for a lower height is never accepted later — no
matter whether the block that carried the first one implied votes. -/
theorem C06_no_aggregate_commit_accepted_twice (s s' : BFT.State) (bs : List C06Block)
    (h : C06NodeRun s bs s') :
    ((bs.filter (fun b => !b.ac.isEmpty)).map (fun b => b.ac.height)).Pairwise (· < ·) := by
  induction h with
  | nil s => exact List.Pairwise.nil
  | @cons s s₁ s₂ b r hstep hrest ih =>
    cases he : b.ac.isEmpty with
    | true => simpa [List.filter_cons, he] using ih
    | false =>
      have hs := (C06_node_step_certified _ _ _ hstep).1
      rw [he] at hs
      have hs' : s₁.mhc = b.ac.height := by simpa using hs
      have hall := C06_run_all_above _ _ _ hrest
      simp only [List.filter_cons, he, Bool.not_false, if_true, List.map_cons]
      refine List.Pairwise.cons ?_ ih
      intro x hx
      simp only [List.mem_map, List.mem_filter, Bool.not_eq_true'] at hx
      obtain ⟨c, ⟨hc, hce⟩, rfl⟩ := hx
      have := hall c hc hce
      omega

/-- in particular the heights are pairwise different -/
theorem C06_accepted_commit_heights_nodup (s s' : BFT.State) (bs : List C06Block) (h : C06NodeRun s bs s') :
    ((bs.filter (fun b => !b.ac.isEmpty)).map (fun b => b.ac.height)).Nodup := by
  have hp := C06_no_aggregate_commit_accepted_twice s s' bs h
  exact hp.imp (fun hlt => Nat.ne_of_lt hlt)

/-- **Replay rejected after any carrier.**  Once a block — of a voting validator, of a standby generator, of
a validator declaring `maxHeightGenerated ≥ height` — carrying the non-empty aggregate commit `ac` has been
accepted, every view that reads the certified height of the resulting BFT store rejects every non-empty
aggregate commit at or below `ac.height` (the same one included), however long the chain continues. -/
theorem C06_replay_rejected_after_any_carrier (s s₁ s₂ : BFT.State) (b : C06Block) (rest : List C06Block)
    (hstep : C06nodeStep s b s₁) (hne : b.ac.isEmpty = false) (hrest : C06NodeRun s₁ rest s₂)
    (view : Cert.State) (hview : view.mhc = s₂.mhc) (ac : Cert.AggCommit) (hac : ac.isEmpty = false)
    (hle : ac.height ≤ b.ac.height) : Cert.verifyAggregateCommit view ac ≠ .accept := by
  intro hacc
  have h1 := (C06_node_step_certified _ _ _ hstep).1
  rw [hne] at h1
  have h1' : s₁.mhc = b.ac.height := by simpa using h1
  have h2 := (C06_node_run_certified _ _ _ hrest).2
  have h3 := (C06_verify_sound view ac hacc hac).1
  omega

/-- the node's chains satisfy the hypothesis of `C06_certified_is_max_and_monotone`: the header chain of
a chain of accepted blocks is accepted by the BFT model and its commits are increasing -/
theorem C06_node_run_increasing (s s' : BFT.State) (bs : List C06Block) (h : C06NodeRun s bs s') :
    C02run s (bs.map (fun b => C02Ev.block b.hdr)) = s' ∧
    C06accepted s (bs.map (fun b => C02Ev.block b.hdr)) ∧
    C06increasing s.mhc (bs.map (fun b => C02Ev.block b.hdr)) := by
  induction h with
  | nil s => exact ⟨rfl, trivial, trivial⟩
  | @cons s s₁ s₂ b r hstep hrest ih =>
    obtain ⟨hf, hv, hacc, hp⟩ := hstep
    have hst : C02step s (.block b.hdr) = s₁ := by simp only [C02step, hp]
    obtain ⟨h1, h2, h3⟩ := C06_node_step_certified _ _ _ ⟨hf, hv, hacc, hp⟩
    refine ⟨?_, ⟨⟨s₁, hp⟩, ?_⟩, ⟨?_, ?_⟩⟩
    · simp only [List.map_cons, C02run, List.foldl_cons, hst]; exact ih.1
    · simp only [hst]; exact ih.2.1
    · intro x hx
      simp only [C06commitOf] at hx
      rw [hf] at hx
      cases he : b.ac.isEmpty with
      | true => rw [he] at hx; simp at hx
      | false =>
        rw [he] at hx
        have hx' : b.ac.height = x := by simpa using hx
        subst hx'
        exact h3 he
    · have hc : (C06commitOf (.block b.hdr)).getD s.mhc = s₁.mhc := by
        have hm : s₁.mhc = b.hdr.commitHeight.getD s.mhc := (BFT.process_facts hp).choose_spec.2.2.2.2.2.1
        simp only [C06commitOf, hm]
      rw [hc]
      exact ih.2.2

/-! ## non-vacuity and the counterexample -/

/-- one BFT validator `0a` (weight 1, thresholds 1), batch size 3, parameters valid from height 1 -/
def C06cxBFT : BFT.State :=
  match BFT.setParams (BFT.initGenesis 3 0) 1 1 [⟨[0x0a], 1⟩] with
  | .ok s => s
  | .error _ => BFT.initGenesis 3 0

/-- blocks 1 .. 6 of the validator (truthful headers, empty aggregate commit): height 5 gets precommitted -/
def C06cxChain : List C02Ev :=
  [.block ⟨1, [0x0a], 0, 0, none⟩, .block ⟨2, [0x0a], 1, 1, none⟩, .block ⟨3, [0x0a], 2, 2, none⟩,
   .block ⟨4, [0x0a], 3, 3, none⟩, .block ⟨5, [0x0a], 4, 4, none⟩, .block ⟨6, [0x0a], 5, 5, none⟩]

/-- block 7 is generated by the standby generator `0b` (no BFT weight) and carries the aggregate commit for
height 5 -/
def C06cxStandbyHdr : BFT.Header := ⟨7, [0x0b], 0, 6, some 5⟩

/-- block 7 generated by the validator, declaring `maxHeightGenerated = height` (implies no votes) -/
def C06cxMhgHdr : BFT.Header := ⟨7, [0x0a], 7, 6, some 5⟩

/-- the aggregate commit for height 5 of `Props/C06.lean` (validators with keys 20, 30, 40 signed block 105) -/
def C06cxAc : Cert.AggCommit := ⟨5, Cert.Bits.ofBytes [0x0e], some (.agg [20, 30, 40] ⟨1, 105⟩)⟩

/-- the header implies votes (what `updatePrevotesPrecommits` tests before it counts anything) -/
def C06impliesVotes (s : BFT.State) (h : BFT.Header) : Bool :=
  decide (h.mhg < h.height) && (BFT.findActive s.active h.gen).isSome

/-- a step function that returns early when the header implies no votes — before the certified-height
update and the pruning (the seeded change C06-16) -/
def C06processSkipping (s : BFT.State) (h : BFT.Header) : Except BFT.Err BFT.State :=
  match BFT.process s h with
  | .error e => .error e
  | .ok s' =>
    if C06impliesVotes s h then .ok s' else .ok { s' with mhc := s.mhc, params := s.params, keys := s.keys }

/-- what a step function does with block 7 after the example chain: certified and precommitted height
afterwards, "the votes of the blocks 1 .. 6 are unchanged", and the verdict on the SAME aggregate commit of a
verifier's view that reads the new certified height -/
def C06cxCheck (step : BFT.State → BFT.Header → Except BFT.Err BFT.State) (h : BFT.Header) :
    Option (Nat × Nat × Bool × Cert.Verdict) :=
  match step (C02run C06cxBFT C06cxChain) h with
  | .ok s' => some (s'.mhc, s'.mhpc, decide (s'.infos.tail = (C02run C06cxBFT C06cxChain).infos.take 8),
      Cert.verifyAggregateCommit { C06cxState with mhc := s'.mhc } C06cxAc)
  | .error _ => none

private theorem C06cxCheck_elim {step : BFT.State → BFT.Header → Except BFT.Err BFT.State} {h : BFT.Header}
    {r : Nat × Nat × Bool × Cert.Verdict} (hc : C06cxCheck step h = some r) :
    ∃ s', step (C02run C06cxBFT C06cxChain) h = .ok s' ∧ s'.mhc = r.1 ∧ s'.mhpc = r.2.1 ∧
      Cert.verifyAggregateCommit { C06cxState with mhc := s'.mhc } C06cxAc = r.2.2.2 := by
  unfold C06cxCheck at hc
  cases hp : step (C02run C06cxBFT C06cxChain) h with
  | error e => rw [hp] at hc; cases hc
  | ok s' =>
    rw [hp] at hc
    simp only [Option.some.injEq] at hc
    subst hc
    exact ⟨s', rfl, rfl, rfl, rfl⟩

/-- Non-vacuity: the example chain is accepted, height 5 is precommitted and nothing is certified when block
7 arrives; block 7 of the standby generator and block 7 declaring `maxHeightGenerated = height` are accepted
by `process`, change no vote weight and no precommitted height, and set `maxHeightCertified` to 5; the
verifier's view of `Props/C06.lean` (certified height 0, precommitted height 5) accepts the aggregate commit,
so the node step exists; afterwards the view with the new certified height rejects the same commit. -/
theorem C06_certified_example :
    C06accepted C06cxBFT C06cxChain ∧
    (C02run C06cxBFT C06cxChain).mhc = 0 ∧ (C02run C06cxBFT C06cxChain).mhpc = 5 ∧
    C06impliesVotes (C02run C06cxBFT C06cxChain) C06cxStandbyHdr = false ∧
    C06impliesVotes (C02run C06cxBFT C06cxChain) C06cxMhgHdr = false ∧
    C06cxCheck BFT.process C06cxStandbyHdr = some (5, 5, true, .reject .notIncreasing) ∧
    C06cxCheck BFT.process C06cxMhgHdr = some (5, 5, true, .reject .notIncreasing) ∧
    (∀ h ∈ [C06cxStandbyHdr, C06cxMhgHdr], ∃ s',
      C06nodeStep (C02run C06cxBFT C06cxChain) ⟨h, C06cxAc, C06cxState⟩ s' ∧ s'.mhc = 5) := by
  have e1 : (C02run C06cxBFT C06cxChain).mhc = 0 ∧ (C02run C06cxBFT C06cxChain).mhpc = 5 := by decide +kernel
  have c1 : C06cxCheck BFT.process C06cxStandbyHdr = some (5, 5, true, .reject .notIncreasing) := by decide +kernel
  have c2 : C06cxCheck BFT.process C06cxMhgHdr = some (5, 5, true, .reject .notIncreasing) := by decide +kernel
  have hacc : Cert.verifyAggregateCommit C06cxState C06cxAc = .accept := by decide
  have acc : C06accepted C06cxBFT C06cxChain := by
    have hb : ∀ (s : BFT.State) (h : BFT.Header),
        (match BFT.process s h with | .ok _ => true | .error _ => false) = true → ∃ s', BFT.process s h = .ok s' := by
      intro s h hh
      cases hp : BFT.process s h with
      | ok s' => exact ⟨s', rfl⟩
      | error e => rw [hp] at hh; cases hh
    refine ⟨hb _ _ (by decide +kernel), hb _ _ (by decide +kernel), hb _ _ (by decide +kernel),
      hb _ _ (by decide +kernel), hb _ _ (by decide +kernel), hb _ _ (by decide +kernel), trivial⟩
  refine ⟨acc, e1.1, e1.2, by decide +kernel, by decide +kernel, c1, c2, ?_⟩
  intro h hh
  simp only [List.mem_cons, List.not_mem_nil, or_false] at hh
  rcases hh with rfl | rfl
  · obtain ⟨s', hp, hm, _, _⟩ := C06cxCheck_elim c1
    exact ⟨s', ⟨by decide, by rw [e1.1]; rfl, hacc, hp⟩, hm⟩
  · obtain ⟨s', hp, hm, _, _⟩ := C06cxCheck_elim c2
    exact ⟨s', ⟨by decide, by rw [e1.1]; rfl, hacc, hp⟩, hm⟩

/-- **Counterexample.**  With the early return the stored certified height is NOT a function of the chain:
after the example chain, block 7 of the standby generator (and likewise block 7 declaring
`maxHeightGenerated = height`) carries the valid aggregate commit for height 5 and is accepted — by the
skipping step function too —, the chain has certified height 5, yet `maxHeightCertified` stays 0, and the
view that reads it accepts the very same aggregate commit a second time (the real step function makes that
view reject it: `C06_certified_example`).  On headers that imply votes the two step functions agree, which
is why chains of voting validators do not show the difference. -/
theorem C06_skipping_step_counterexample :
    (∀ h ∈ [C06cxStandbyHdr, C06cxMhgHdr],
      h.commitHeight = some 5 ∧
      C06certified 0 (C06cxChain ++ [.block h]) = 5 ∧
      Cert.verifyAggregateCommit C06cxState C06cxAc = .accept ∧
      ∃ s', C06processSkipping (C02run C06cxBFT C06cxChain) h = .ok s' ∧ s'.mhc = 0 ∧
        Cert.verifyAggregateCommit { C06cxState with mhc := s'.mhc } C06cxAc = .accept) ∧
    (∀ (s : BFT.State) (h : BFT.Header), C06impliesVotes s h = true →
      C06processSkipping s h = BFT.process s h) := by
  constructor
  · have c1 : C06cxCheck C06processSkipping C06cxStandbyHdr = some (0, 5, true, .accept) := by decide +kernel
    have c2 : C06cxCheck C06processSkipping C06cxMhgHdr = some (0, 5, true, .accept) := by decide +kernel
    have hacc : Cert.verifyAggregateCommit C06cxState C06cxAc = .accept := by decide
    intro h hh
    simp only [List.mem_cons, List.not_mem_nil, or_false] at hh
    rcases hh with rfl | rfl
    · obtain ⟨s', hp, hm, _, hv⟩ := C06cxCheck_elim c1
      exact ⟨rfl, by decide, hacc, s', hp, hm, hv⟩
    · obtain ⟨s', hp, hm, _, hv⟩ := C06cxCheck_elim c2
      exact ⟨rfl, by decide, hacc, s', hp, hm, hv⟩
  · intro s h hv
    unfold C06processSkipping
    cases BFT.process s h with
    | error e => rfl
    | ok s' => simp only [hv, if_true]
