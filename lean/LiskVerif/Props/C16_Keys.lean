/-
C16 — the diff record stored for a committed block names exactly the keys the block changed, for state
keys of ANY length (the model's keys are arbitrary byte strings; the tree key of a key is built from the key
and never replaces it).  The record is what `Revert` and the restart recovery (`Init`) undo the block with
(`C16_revert_restores_state_and_root`, `C16_init_recovers_to_engine_tip`); the correspondence C16WIDE reads
it back from the application database after every Commit (`diff <h>`) for module store keys of 0..70 bytes.
-/
import LiskVerif.Props.C16
import LiskVerif.Props.C12_More

open LiskVerif LiskVerif.DiffDB LiskVerif.Exec

/-- **The stored diff is the diff of the block**: after a successful (non-dry) `Commit` the record found under
the block's height is the diff of the staged overlay of the block (`DiffDB.commit`, property C12) — its keys are
the state keys the module code used, not the keys of the state tree. -/
theorem C16_stored_diff_is_block_diff (P : Params) (a : App) (c : Ctx) (hctx : a.ctx = some c)
    (expected : Option Bytes) (a' : App) (root : Bytes)
    (hc : Exec.commit P a expected false = (a', some root)) :
    findDiff a'.diffs c.height = some (DiffDB.commit (stOf a c)).2 := by
  unfold Exec.commit at hc
  rw [hctx] at hc
  dsimp only at hc
  split at hc
  · simp at hc
  · simp only [Bool.false_eq_true, if_false, Prod.mk.injEq, Option.some.injEq] at hc
    rw [← hc.1]
    exact findDiff_putDiff _ _ _

/-- **The stored diff names exactly the keys the block changed** (any key lengths): `Added` are the keys absent
from the committed state before the block and present in the state of the block, `Deleted` the keys present
before and absent after with the value they had, every key whose value changed is in `Updated` with its
previous value, and no key is named twice. -/
theorem C16_stored_diff_names_changed_keys (P : Params) (a : App) (c : Ctx) (hctx : a.ctx = some c)
    (hinv : C12Inv (stOf a c)) (expected : Option Bytes) (a' : App) (root : Bytes)
    (hc : Exec.commit P a expected false = (a', some root)) :
    ∃ d, findDiff a'.diffs c.height = some d ∧
      (∀ k, k ∈ d.added ↔ slookup a.store k = none ∧ (eff (stOf a c) k).isSome = true) ∧
      (∀ k i, (k, i) ∈ d.deleted ↔ slookup a.store k = some i ∧ eff (stOf a c) k = none) ∧
      (∀ k i v, slookup a.store k = some i → eff (stOf a c) k = some v → v ≠ i → (k, i) ∈ d.updated) ∧
      (C12diffKeys d).Nodup :=
  ⟨_, C16_stored_diff_is_block_diff P a c hctx expected a' root hc,
    fun k => C12_diff_added_iff (stOf a c) hinv k,
    fun k i => C12_diff_deleted_iff (stOf a c) hinv k i,
    fun k i v hs he hv => C12_diff_updated_of_changed (stOf a c) hinv k i v hs he hv,
    C12_diff_disjoint (stOf a c) hinv⟩

/-- the tree key of a state key of any length: the (at most) 6 leading bytes followed by the hash of the rest —
a value computed FROM the key; the key itself is what the diff and the database hold -/
theorem C16_tree_key_shape (H : Bytes → Bytes) (k : Bytes) :
    treeKey H k = k.take 6 ++ H (k.drop 6) ∧ (treeKey H k).length = min 6 k.length + (H (k.drop 6)).length := by
  refine ⟨rfl, ?_⟩
  simp [treeKey, List.length_take]

/-- non-vacuity: a block over a 40-byte key (state db key of 41 bytes) -/
example :
    let k : Bytes := [0, 0, 0, 1, 0, 0] ++ List.replicate 34 0xa1
    let a : App := { ctx := some { height := 1, cache := (DiffDB.set { store := [] } k [1]).cache } }
    (findDiff (Exec.commit { H := fun b => b, smtRoot := fun _ => [] } a none false).1.diffs 1).map (·.added) = some [k] := by
  decide
