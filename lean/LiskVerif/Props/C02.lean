/-
C02 — BFT heights are a deterministic function of the header chain (LIP-0058).

Basic theorems about `LiskVerif.Model.BFT` (the transcription of liskbft that the correspondence
harness compares with the real module after every header). Deeper invariants (monotonicity, window
shape, specification refinement) are in `Props/C02_Inv.lean`.
-/
import LiskVerif.Model.BFT

open LiskVerif LiskVerif.BFT

/-- one event of a node's history as far as the BFT store is concerned -/
inductive C02Ev where
  | block (h : Header)
  | setParams (precommitThreshold certThreshold : Nat) (validators : List Validator)
  | setKeys (gens : List Bytes)

/-- apply an event; a rejected block or parameter change leaves the state unchanged (the staged
store is dropped) -/
def C02step (s : State) : C02Ev → State
  | .block h => match process s h with | .ok s' => s' | .error _ => s
  | .setParams pc ct vs => match setParams s pc ct vs with | .ok s' => s' | .error _ => s
  | .setKeys g => setKeys s g

def C02run (s : State) (evs : List C02Ev) : State := evs.foldl C02step s

/-- Determinism: the BFT state (heights, weights, vote info, parameters) is a function of the
genesis configuration and the event sequence alone — two nodes that processed the same chain agree. -/
theorem C02_deterministic (batchSize genesisHeight : Nat) (evs₁ evs₂ : List C02Ev) (h : evs₁ = evs₂) :
    C02run (initGenesis batchSize genesisHeight) evs₁ = C02run (initGenesis batchSize genesisHeight) evs₂ := by
  subst h; rfl

/-- Processing a chain in two batches is the same as processing it at once (no hidden state). -/
theorem C02_run_append (s : State) (a b : List C02Ev) : C02run s (a ++ b) = C02run (C02run s a) b := by
  unfold C02run; exact List.foldl_append

