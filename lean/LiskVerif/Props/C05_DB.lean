/-
C05, clause "restores exactly the PERSISTENT node state": the exactness theorems of `Props/C05.lean` /
`Props/C12.lean` are statements about the database as a finite map. The map is what a read returns; what pebble
keeps is a history of entries per key, reduced by flush / compaction (`Model/KeyHistory.lean`). The map-level
theorems carry over to the durable state (after flush, compaction, reopen) exactly when every entry the write API
appends erases the history of its key:

* tie A (`C05_db_del_is_plain_delete`, `C05_db_write_calls_erase_history`): on the facts tools/wskelgen regenerates
  from pkg/db on every run (`Gen.WS.batchMethods`, `Gen.WS.dbWriteMethods`) `Batch.Del` issues `pebble.Batch.Delete`
  and `DB.Del` issues `pebble.DB.Delete` - not `SingleDelete` (which cancels only the newest `Set`), not a range
  delete, not a merge; `Set` issues `Set`.
* model level: for EVERY history of such writes storage maintenance is invisible
  (`C05_db_flush_invisible_all_histories`), so "delete after any number of writes of a key = the key is absent"
  also durably (`C05_db_delete_apply_identity_durable`: revert of an added key that later blocks updated); with a
  single delete the same history brings an overwritten value back (`C05_db_single_delete_counterexample` by
  evaluation, `C05_db_single_delete_resurrects` in general) - and is fine exactly for write-once keys
  (`C05_db_single_delete_write_once`).
Harness: C05DUR (harness/c05/durable.go) runs the node histories and commit / revert stacks on a pebble with small
memtables and compares the dumps across Flush + Compact + reopen.
-/
import LiskVerif.Model.KeyHistory
import LiskVerif.Gen.WriteSkeletons

open LiskVerif LiskVerif.KeyHistory

/-! ### tie A: which pebble call each write method of pkg/db issues -/

/-- `db.Batch.Del` is a plain (history-erasing) `pebble.Batch.Delete`, `db.Batch.Set` a `Set`; `db.DB.Del` / `Set`
are the synced `Delete` / `Set` of the pebble handle (regenerated from pkg/db/batch.go, pkg/db/db.go) -/
theorem C05_db_del_is_plain_delete :
    Gen.WS.batchMethods.lookup "Del" = some ["Delete"] ∧
    Gen.WS.batchMethods.lookup "Set" = some ["Set"] ∧
    Gen.WS.dbWriteMethods.lookup "Del" = some "Delete:pebble.Sync" ∧
    Gen.WS.dbWriteMethods.lookup "Set" = some "Set:pebble.Sync" := by decide

/-- every pebble call a method of `db.Batch` issues appends a history-erasing entry (no `SingleDelete`,
`DeleteRange`, `Merge`, ...), and the batch type has no other methods -/
theorem C05_db_write_calls_erase_history :
    Gen.WS.batchMethods.all (fun m => m.2.all plainCall) = true ∧
    Gen.WS.batchMethods.map (·.1) = ["Del", "Set"] := by decide

/-- the entries these calls append -/
theorem C05_db_entries_of_calls (v : Bytes) :
    entryOfCall "Set" v = some (.set v) ∧ entryOfCall "Delete" v = some .del ∧
    entryOfCall "SingleDelete" v = some .sdel := ⟨rfl, rfl, rfl⟩

/-! ### model level -/

private theorem visible_compact_of_head (es : List Entry) (h : es.head? ≠ some .sdel) :
    visible (compact es) = visible es := by
  cases es with
  | nil => rfl
  | cons e rest =>
    cases e with
    | set v => rfl
    | del => rfl
    | sdel => exact absurd rfl h

/-- flush + compaction does not change what a read of a plain history returns -/
theorem C05_db_flush_invisible_key (es : List Entry) (h : Plain es) : visible (compact es) = visible es := by
  apply visible_compact_of_head
  cases es with
  | nil => simp
  | cons e rest =>
    intro he
    simp at he
    exact h e (by simp) he

private theorem plain_apply (o : Op) (s : Store) (h : ∀ k, Plain (s k)) : ∀ k, Plain (o.apply s k) := by
  intro k e he
  cases o with
  | put k0 v =>
    simp only [Op.apply, putKey] at he
    split at he
    · rcases List.mem_cons.mp he with rfl | h'
      · intro c; cases c
      · exact h k e h'
    · exact h k e he
  | del k0 =>
    simp only [Op.apply, deleteKey] at he
    split at he
    · rcases List.mem_cons.mp he with rfl | h'
      · intro c; cases c
      · exact h k e h'
    · exact h k e he

private theorem plain_run (os : List Op) : ∀ (s : Store), (∀ k, Plain (s k)) → ∀ k, Plain (run s os k) := by
  induction os with
  | nil => intro s h; exact h
  | cons o os ih => intro s h; exact ih (o.apply s) (plain_apply o s h)

/-- for EVERY history of `Set` / `Delete` writes on a store that was written this way, what is read after memtable
flush + compaction of the whole key range is what was read before: the map-level theorems of C05 / C12 hold for
the durable state -/
theorem C05_db_flush_invisible_all_histories (s : Store) (hs : ∀ k, Plain (s k)) (os : List Op) (k : Bytes) :
    readKey (settle (run s os)) k = readKey (run s os) k :=
  C05_db_flush_invisible_key _ (plain_run os s hs k)

private theorem puts_other (k k' : Bytes) (hk : k' ≠ k) (vs : List Bytes) (s : Store) : puts k vs s k' = s k' := by
  induction vs with
  | nil => rfl
  | cons v vs ih => simp [puts, putKey, hk, ih]

/-- the revert of a block that ADDED a key which later blocks updated any number of times (and whose updates were
reverted before: `vs` are all values ever written): after the plain delete the key is absent and every other key
reads as before - also after flush / compaction, whatever the history `s` of the store was.  With
`readKey s k = none` (the key did not exist before the block) this is delete ∘ apply = identity on every key. -/
theorem C05_db_delete_apply_identity_durable (s : Store) (k : Bytes) (vs : List Bytes) :
    readKey (settle (deleteKey k (puts k vs s))) k = none ∧
    ∀ k', k' ≠ k → readKey (deleteKey k (puts k vs s)) k' = readKey s k' ∧
      (Plain (s k') → readKey (settle (deleteKey k (puts k vs s))) k' = readKey s k') := by
  refine ⟨by simp [readKey, settle, deleteKey, compact, compactAux, visible], ?_⟩
  intro k' hk
  have h1 : deleteKey k (puts k vs s) k' = s k' := by
    simp [deleteKey, hk, puts_other k k' hk vs s]
  refine ⟨by simp [readKey, h1], ?_⟩
  intro hp
  simp only [readKey, settle, h1]
  exact C05_db_flush_invisible_key _ hp

/-- the same history with a single delete: block X adds K = v1, block Y updates it to v2, Y is reverted (v1 written
back), X is reverted with a SINGLE delete: right after the write the key reads absent, after flush / compaction it
exists again with the value of the deleted block Y -/
theorem C05_db_single_delete_counterexample :
    let k : Bytes := [10, 7]
    let s := singleDeleteKey k (putKey k [1] (putKey k [2] (putKey k [1] emptyStore)))
    readKey s k = none ∧ readKey (settle s) k = some [2] := by decide

/-- in general: a single delete over two or more writes of a key resurrects the write below the newest one -/
theorem C05_db_single_delete_resurrects (s : Store) (k v v' : Bytes) :
    readKey (singleDeleteKey k (putKey k v' (putKey k v s))) k = none ∧
    readKey (settle (singleDeleteKey k (putKey k v' (putKey k v s)))) k = some v := by
  simp [readKey, settle, singleDeleteKey, putKey, compact, compactAux, visible]

/-- and it is exact for write-once keys (the contract of pebble's SingleDelete): one write on an emptyStore history -/
theorem C05_db_single_delete_write_once (s : Store) (k v : Bytes) (h : s k = []) :
    readKey (settle (singleDeleteKey k (putKey k v s))) k = none := by
  simp [readKey, settle, singleDeleteKey, putKey, compact, compactAux, visible, h]

/-- non-vacuity: a concrete plain history on which the invariance is used with a changed read -/
example : readKey (settle (run emptyStore [.put [1] [5], .put [1] [6], .del [1], .put [2] [7]])) [1] = none ∧
    readKey (settle (run emptyStore [.put [1] [5], .put [1] [6], .del [1], .put [2] [7]])) [2] = some [7] := by decide

example : Gen.WS.batchMethods.lookup "Del" ≠ some ["SingleDelete"] := by decide
