/-
C04, clause "the stored finalized height is raised ... in the same step that applies the block causing it":
on the write skeletons regenerated from the source (tools/wskelgen, `Gen/WriteSkeletons.lean`) the finalized-height
marker is staged in the block's batch and reaches the disk with the block in ONE synced write - there is no direct
(own, synced) write on the path, no second write, and no unsynced write method.
The obligations are those of C13 (crash atomicity), restated here because they carry this clause of C04: a change
that writes the marker outside the batch, or commits blocks unsynced, breaks them.
-/
import LiskVerif.Props.C13

open LiskVerif LiskVerif.Crash LiskVerif.C13

/-- `DataAccess.saveBlock` (which stores the finalized height) only stages into the caller's batch: no direct
`database.Set/Del`, no `Write` of its own -/
theorem C04_marker_staged_in_block_batch : stagesOnly "batch" (step Gen.WS.DataAccess_saveBlock) = true :=
  C13_saveBlock_stages_only

/-- the block step (`processValidated`, with `Chain.AddBlock` inlined) performs exactly one database write -/
theorem C04_block_step_one_write :
    singleWrite (step Gen.WS.Executer_processValidated) = true ∧
    singleWriteWith "batch" (step Gen.WS.Chain_AddBlock) = true :=
  ⟨C13_processValidated_single_write, C13_AddBlock_single_write⟩

/-- that write is `pebble.Apply(batch, pebble.Sync)`: the only unsynced mutating method of `db.DB` is `DropAll`, so a
raise of the finalized height announced by an event is durable when the step returns -/
theorem C04_block_write_is_synced : Gen.WS.dbWriteMethods =
    [("Del", "Delete:pebble.Sync"), ("DropAll", "DeleteRange:pebble.NoSync"), ("Set", "Set:pebble.Sync"),
     ("Write", "Apply:pebble.Sync")] :=
  C13_db_write_is_synced_apply

/-- the same for the removal step (the marker is never lowered there: see `C04_fin_monotone`) -/
theorem C04_delete_step_one_write : singleWrite (step Gen.WS.Executer_deleteBlock) = true :=
  C13_deleteBlock_single_write
