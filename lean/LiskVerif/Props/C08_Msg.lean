/-
C08 — message-level theorems for the codec model (`LiskVerif.Model.Codec`): whole structs, not just
varints.

* `C08_roundtrip_flat`            Decode / DecodeStrict of Encode returns the values (flat structs)
* `C08_strict_canonical_flat`     DecodeStrict accepts only the canonical byte string
                                  (kinds uint, bool, bytes, string, [][]byte)
* `C08_transaction_roundtrip`, `C08_transaction_strict_canonical`
                                  both for the regenerated `blockchain.Transaction` schema
* `C08_uint32_noncanonical_counterexample`, `C08_uints_noncanonical_counterexample`
                                  why uint32 and packed-array fields are excluded from canonicity
* `C08_roundtrip_nested1`         round trip with one level of nested structs
* `C08_decode_empty_flat`         lenient decoding: absent fields take their zero values
* `C08_msg_coverage`              how many regenerated schemas these theorems cover

Helper lemmas: `LiskVerif/Lemmas/CodecMsg.lean`.
-/
import LiskVerif.Lemmas.CodecMsg
import LiskVerif.Gen.Schemas

open LiskVerif LiskVerif.Codec LiskVerif.Gen

/-! ### flat schemas -/

/-- the kinds a flat struct may contain (no nested struct, no array of structs) -/
def C08FlatKind : Kind → Bool
  | .uint | .uint32 | .int32 | .bool | .bytes | .string | .bytesArr | .uints => true
  | _ => false

/-- A flat, well-formed struct: only scalar / bytes / array-of-scalar fields, field numbers
strictly increasing from 1 and small enough for a 64-bit key, at most 100 fields (so the fuel of
`decode` is never exhausted), and Encode / Decode / DecodeStrict agreeing as in `C08WellFormed`. -/
def C08Flat (s : Schema) : Bool :=
  fieldsAbove 0 s.enc &&
  s.enc.all (fun f => C08FlatKind f.kind && decide (f.num * 8 + 2 < 2 ^ 64)) &&
  decide (s.enc.length ≤ 100) &&
  decide ((s.enc.map fun f => (f.num, f.kind)) = (s.dec.map fun f => (f.num, f.kind))) &&
  decide ((s.enc.map fun f => (f.num, f.kind)) = (s.decStrict.map fun f => (f.num, f.kind))) &&
  s.dec.all (fun f => !f.strict) &&
  s.decStrict.all (fun f => f.strict == singleValued f.kind)

/-- One value has the Go type of a field of kind `k`, and is something the node itself produces:
64/32-bit ranges, byte strings shorter than 2^63, strings valid UTF-8 and already NFC-normalised
(`normalize b = b`), packed arrays shorter than 2^63 bytes. -/
def C08TypedVal (nfc : NFC) : Kind → Value → Bool
  | .uint, .uint n => decide (n < 2 ^ 64)
  | .uint32, .uint n => decide (n < 2 ^ 32)
  | .int32, .int i => decide (-2 ^ 31 ≤ i ∧ i < 2 ^ 31)
  | .bool, .bool _ => true
  | .bytes, .bytes b => decide (b.length < 2 ^ 63)
  | .string, .bytes b =>
    decide (b.length < 2 ^ 63) && utf8Valid b && nfc.normal b && decide (nfc.normalize b = b)
  | .bytesArr, .bytesArr l => l.all fun b => decide (b.length < 2 ^ 63)
  | .uints, .uints l =>
    l.all (fun n => decide (n < 2 ^ 64)) && decide (((l.map putUvarint).flatten).length < 2 ^ 63)
  | _, _ => false

/-- the value list is well-typed for the field list (same length, each value `C08TypedVal`) -/
def C08Typed (nfc : NFC) : List Field → List Value → Bool
  | [], [] => true
  | f :: fs, v :: vs => C08TypedVal nfc f.kind v && C08Typed nfc fs vs
  | _, _ => false

/-- no packed `uints` field -/
def C08NoUints (s : Schema) : Bool := s.enc.all fun f => decide (f.kind ≠ .uints)

private theorem C08FlatKind_eq : C08FlatKind = flatKind := by
  funext k; cases k <;> rfl

private theorem C08TypedVal_eq (nfc : NFC) : C08TypedVal nfc = typedVal nfc := by
  funext k v; cases k <;> cases v <;> rfl

private theorem C08Typed_eq (nfc : NFC) : ∀ fs vs, C08Typed nfc fs vs = typedVals nfc fs vs := by
  intro fs
  induction fs with
  | nil => intro vs; cases vs <;> rfl
  | cons f fs ih =>
    intro vs
    cases vs with
    | nil => rfl
    | cons v vs => simp only [C08Typed, typedVals, ih, C08TypedVal_eq]

private theorem C08Flat_unpack {s : Schema} (h : C08Flat s = true) :
    fieldsAbove 0 s.enc = true ∧ s.enc.all flatField = true ∧ s.enc.length ≤ 100 ∧
    s.enc.map fieldShape = s.dec.map fieldShape ∧ s.enc.map fieldShape = s.decStrict.map fieldShape ∧
    s.decStrict.all (fun f => f.strict == singleValued f.kind) = true := by
  simp only [C08Flat, Bool.and_eq_true, decide_eq_true_eq, C08FlatKind_eq] at h
  obtain ⟨⟨⟨⟨⟨⟨h1, h2⟩, h3⟩, h4⟩, h5⟩, _⟩, h7⟩ := h
  exact ⟨h1, h2, h3, h4, h5, h7⟩

/-- **Round trip** for flat structs: both the lenient and the strict decoder accept the node's own
encoding of well-typed values and return exactly those values. (`hlen`: if the struct has a packed
`uints` field the encoding must be shorter than 2^63 bytes — Go's `int` index arithmetic in
`ReadUInts` wraps beyond that; no condition otherwise.) -/
theorem C08_roundtrip_flat (t : Table) (nfc : NFC) (s : Schema) (vals : List Value)
    (hs : C08Flat s = true) (hv : C08Typed nfc s.enc vals = true)
    (hlen : C08NoUints s = true ∨ (encode t nfc s vals).length < 2 ^ 63) :
    decode t nfc s (encode t nfc s vals) = .ok vals ∧
    decodeStrict t nfc s (encode t nfc s vals) = .ok vals := by
  obtain ⟨h1, h2, h3, h4, h5, _⟩ := C08Flat_unpack hs
  rw [C08Typed_eq] at hv
  change noUints s.enc = true ∨ _ at hlen
  constructor
  · unfold decode encode at *
    rw [encodeFields_congr t nfc 8 s.enc s.dec vals h4, noUints_congr _ _ h4] at hlen
    rw [encodeFields_congr t nfc 8 s.enc s.dec vals h4]
    have hl : s.dec.length ≤ 100 := by
      have := congrArg List.length h4; simp at this; omega
    rw [decodeFields_flat_roundtrip t nfc 8 _ s.dec vals
      (by rw [← fieldsAbove_congr _ _ 0 h4]; exact h1)
      (by rw [← flatField_congr _ _ h4]; exact h2)
      (by rw [← typedVals_congr nfc _ _ vals h4]; exact hv)
      (by unfold fuelFor; omega) hlen]
  · unfold decodeStrict encode at *
    rw [encodeFields_congr t nfc 8 s.enc s.decStrict vals h5, noUints_congr _ _ h5] at hlen
    rw [encodeFields_congr t nfc 8 s.enc s.decStrict vals h5]
    have hl : s.decStrict.length ≤ 100 := by
      have := congrArg List.length h5; simp at this; omega
    rw [decodeFields_flat_roundtrip t nfc 8 _ s.decStrict vals
      (by rw [← fieldsAbove_congr _ _ 0 h5]; exact h1)
      (by rw [← flatField_congr _ _ h5]; exact h2)
      (by rw [← typedVals_congr nfc _ _ vals h5]; exact hv)
      (by unfold fuelFor; omega) hlen]
    simp [Reader.new]

/-! ### canonical strict decoding -/

/-- the kinds for which strict decoding is canonical: `uint32`/`int32` truncate the 64-bit varint
and a packed `uints` field may be present-but-empty, so those are excluded -/
def C08CanonKind : Kind → Bool
  | .uint | .bool | .bytes | .string | .bytesArr => true
  | _ => false

private theorem C08CanonKind_eq : C08CanonKind = canonKind := by
  funext k; cases k <;> rfl

/-- **Canonical strict decoding**: for a flat struct of canonical kinds, `decodeStrict` accepts only
the byte string that `encode` produces for the decoded values — shortest varints, every field
present and in order, nothing trailing, booleans 0/1, strings normalised. -/
theorem C08_strict_canonical_flat (t : Table) (nfc : NFC) (s : Schema) (b : Bytes) (vals : List Value)
    (hs : C08Flat s = true) (hk : s.enc.all (fun f => C08CanonKind f.kind) = true)
    (hlaw : ∀ x, nfc.normal x = true → nfc.normalize x = x)
    (h : decodeStrict t nfc s b = .ok vals) : encode t nfc s vals = b := by
  obtain ⟨_, _, _, _, h5, h7⟩ := C08Flat_unpack hs
  have hcf : s.decStrict.all canonField = true := by
    have e : s.decStrict.all (fun f => canonKind f.kind) = s.enc.all (fun f => canonKind f.kind) := by
      have e1 : ∀ fs : List Field, fs.all (fun f => canonKind f.kind) =
          (fs.map fieldShape).all (fun x => canonKind x.2) := by
        intro fs; simp [List.all_map, fieldShape, Function.comp_def]
      rw [e1, e1, h5]
    rw [C08CanonKind_eq] at hk
    rw [← e] at hk
    rw [List.all_eq_true] at hk h7 ⊢
    intro f hf
    simp only [canonField, Bool.and_eq_true]
    exact ⟨hk f hf, h7 f hf⟩
  unfold decodeStrict at h
  split at h
  · exact absurd h (by simp)
  · rename_i vs r' hd
    split at h
    · exact absurd h (by simp)
    · rename_i hend
      injection h with h
      subst h
      unfold encode
      rw [encodeFields_congr t nfc 8 s.enc s.decStrict _ h5]
      exact decodeFields_canon_whole t nfc 8 hlaw s.decStrict _ b r' _ hcf hd (by simpa using hend)

/-! ### the regenerated transaction schema -/

/-- the field list of `blockchain.Transaction` (module, command: string; nonce, fee: uint64;
senderPublicKey, params: bytes; signatures: [][]byte), `st` = the strict flag of single values -/
def C08txFields (st : Bool) : List Field :=
  [⟨1, .string, st⟩, ⟨2, .string, st⟩, ⟨3, .uint, st⟩, ⟨4, .uint, st⟩, ⟨5, .bytes, st⟩,
   ⟨6, .bytes, st⟩, ⟨7, .bytesArr, false⟩]

/-- the generated table contains the transaction schema with exactly these field lists -/
theorem C08_transaction_schema :
    (allSchemas.find "blockchain.Transaction").map (fun s => (s.enc, s.dec, s.decStrict)) =
      some (C08txFields false, C08txFields false, C08txFields true) := by
  decide +kernel

private theorem C08tx_fields {s : Schema} (hs : allSchemas.find "blockchain.Transaction" = some s) :
    s.enc = C08txFields false ∧ s.dec = C08txFields false ∧ s.decStrict = C08txFields true := by
  have h := C08_transaction_schema
  rw [hs] at h
  simp only [Option.map_some, Option.some.injEq, Prod.mk.injEq] at h
  exact h

private theorem C08tx_flat {s : Schema} (hs : allSchemas.find "blockchain.Transaction" = some s) :
    C08Flat s = true ∧ s.enc.all (fun f => C08CanonKind f.kind) = true ∧ C08NoUints s = true := by
  obtain ⟨h1, h2, h3⟩ := C08tx_fields hs
  unfold C08Flat C08NoUints
  rw [h1, h2, h3]
  decide

private theorem C08_ascii_utf8Valid : ∀ b : Bytes, b.all (fun x => decide (x.toNat < 128)) = true →
    utf8Valid b = true := by
  intro b
  induction b with
  | nil => intro _; rfl
  | cons x b ih =>
    intro h
    simp only [List.all_cons, Bool.and_eq_true, decide_eq_true_eq] at h
    unfold utf8Valid
    simp [h.1, ih h.2]

/-- **Transaction round trip**: a transaction with ASCII module/command names, 64-bit nonce and fee
and byte strings shorter than 2^63 is returned unchanged by `Decode` and by `DecodeStrict` applied to
its `Encode`. (On ASCII strings the NFC instance `asciiNFC` is exact: they are already normalised.) -/
theorem C08_transaction_roundtrip (s : Schema) (hs : allSchemas.find "blockchain.Transaction" = some s)
    (module command : Bytes) (nonce fee : Nat) (senderPublicKey params : Bytes) (signatures : List Bytes)
    (hm : module.all (fun x => decide (x.toNat < 128)) = true) (hml : module.length < 2 ^ 63)
    (hc : command.all (fun x => decide (x.toNat < 128)) = true) (hcl : command.length < 2 ^ 63)
    (hn : nonce < 2 ^ 64) (hf : fee < 2 ^ 64)
    (hk : senderPublicKey.length < 2 ^ 63) (hp : params.length < 2 ^ 63)
    (hsig : ∀ x ∈ signatures, x.length < 2 ^ 63) :
    let vals := [.bytes module, .bytes command, .uint nonce, .uint fee, .bytes senderPublicKey,
      .bytes params, .bytesArr signatures]
    decode allSchemas asciiNFC s (encode allSchemas asciiNFC s vals) = .ok vals ∧
    decodeStrict allSchemas asciiNFC s (encode allSchemas asciiNFC s vals) = .ok vals := by
  intro vals
  obtain ⟨hflat, _, hnu⟩ := C08tx_flat hs
  refine C08_roundtrip_flat allSchemas asciiNFC s vals hflat ?_ (Or.inl hnu)
  rw [(C08tx_fields hs).1]
  simp only [vals, C08txFields, C08Typed, C08TypedVal, Bool.and_eq_true, decide_eq_true_eq,
    List.all_eq_true, asciiNFC, id, C08_ascii_utf8Valid module hm, C08_ascii_utf8Valid command hc]
  exact ⟨⟨⟨⟨hml, trivial⟩, trivial⟩, trivial⟩, ⟨⟨⟨hcl, trivial⟩, trivial⟩, trivial⟩, hn, hf, hk, hp, hsig, trivial⟩

/-- **Transaction IDs are unambiguous at the byte level**: the only byte string `DecodeStrict`
accepts for a transaction is the `Encode` of the transaction it returns. -/
theorem C08_transaction_strict_canonical (s : Schema)
    (hs : allSchemas.find "blockchain.Transaction" = some s) (b : Bytes) (vals : List Value)
    (h : decodeStrict allSchemas asciiNFC s b = .ok vals) : encode allSchemas asciiNFC s vals = b := by
  obtain ⟨hflat, hk, _⟩ := C08tx_flat hs
  exact C08_strict_canonical_flat allSchemas asciiNFC s b vals hflat hk (fun _ _ => rfl) h

/-! ### non-vacuity -/

/-- a concrete transaction -/
def C08exampleTx : List Value :=
  [.bytes [0x74, 0x6f, 0x6b, 0x65, 0x6e], .bytes [0x74, 0x72, 0x61, 0x6e, 0x73, 0x66, 0x65, 0x72],
   .uint 7, .uint 10000000, .bytes [1, 2, 3], .bytes [0xff, 0x00], .bytesArr [[9, 9], [], [8]]]

/-- the hypotheses of `C08_roundtrip_flat` / `C08_strict_canonical_flat` are satisfiable: the
generated transaction schema is flat with canonical kinds and `C08exampleTx` is well-typed for it -/
example : ∃ s, allSchemas.find "blockchain.Transaction" = some s ∧ C08Flat s = true ∧
    s.enc.all (fun f => C08CanonKind f.kind) = true ∧ C08Typed asciiNFC s.enc C08exampleTx = true := by
  cases h : allSchemas.find "blockchain.Transaction" with
  | none => have := C08_transaction_schema; rw [h] at this; simp at this
  | some s =>
    refine ⟨s, rfl, (C08tx_flat h).1, (C08tx_flat h).2.1, ?_⟩
    rw [(C08tx_fields h).1]
    decide

/-- a flat schema with every flat kind, and well-typed values for it (including a packed array) -/
example : C08Flat
    { name := "x",
      enc := [⟨1, .uint, false⟩, ⟨2, .uint32, false⟩, ⟨3, .int32, false⟩, ⟨4, .bool, false⟩,
        ⟨5, .bytes, false⟩, ⟨6, .string, false⟩, ⟨7, .bytesArr, false⟩, ⟨9, .uints, false⟩],
      dec := [⟨1, .uint, false⟩, ⟨2, .uint32, false⟩, ⟨3, .int32, false⟩, ⟨4, .bool, false⟩,
        ⟨5, .bytes, false⟩, ⟨6, .string, false⟩, ⟨7, .bytesArr, false⟩, ⟨9, .uints, false⟩],
      decStrict := [⟨1, .uint, true⟩, ⟨2, .uint32, true⟩, ⟨3, .int32, true⟩, ⟨4, .bool, true⟩,
        ⟨5, .bytes, true⟩, ⟨6, .string, true⟩, ⟨7, .bytesArr, false⟩, ⟨9, .uints, false⟩] } = true ∧
    C08Typed asciiNFC
      [⟨1, .uint, false⟩, ⟨2, .uint32, false⟩, ⟨3, .int32, false⟩, ⟨4, .bool, false⟩,
        ⟨5, .bytes, false⟩, ⟨6, .string, false⟩, ⟨7, .bytesArr, false⟩, ⟨9, .uints, false⟩]
      [.uint (2 ^ 64 - 1), .uint 5, .int (-3), .bool true, .bytes [1], .bytes [0x41], .bytesArr [],
        .uints []] = true := by
  constructor <;> decide

/-- the strict decoder really accepts something (so `C08_transaction_strict_canonical` is not
vacuous): the encoding of `C08exampleTx` -/
example (s : Schema) (hs : allSchemas.find "blockchain.Transaction" = some s) :
    decodeStrict allSchemas asciiNFC s (encode allSchemas asciiNFC s C08exampleTx) = .ok C08exampleTx :=
  (C08_transaction_roundtrip s hs _ _ 7 10000000 _ _ _ (by decide) (by decide) (by decide) (by decide)
    (by decide) (by decide) (by decide) (by decide) (by decide)).2

/-! ### where strict decoding is NOT canonical -/

/-- the field list of `blockchain.AggregateCommit` (height: uint32; aggregationBits,
certificateSignature: bytes) -/
def C08acFields (st : Bool) : List Field := [⟨1, .uint32, st⟩, ⟨2, .bytes, st⟩, ⟨3, .bytes, st⟩]

theorem C08_aggregateCommit_schema :
    (allSchemas.find "blockchain.AggregateCommit").map (fun s => (s.enc, s.dec, s.decStrict)) =
      some (C08acFields false, C08acFields false, C08acFields true) := by
  decide +kernel

/-- **`uint32` fields are not canonical**: `DecodeStrict` of an AggregateCommit accepts a height
written as the 5-byte varint of 2^32; `uint32(val)` truncates it to 0, so re-encoding gives other
bytes. Two different byte strings decode (strictly) to the same AggregateCommit. -/
theorem C08_uint32_noncanonical_counterexample (s : Schema)
    (hs : allSchemas.find "blockchain.AggregateCommit" = some s) :
    let b : Bytes := [0x08, 0x80, 0x80, 0x80, 0x80, 0x10, 0x12, 0x00, 0x1a, 0x00]
    let vals : List Value := [.uint 0, .bytes [], .bytes []]
    decodeStrict allSchemas asciiNFC s b = .ok vals ∧
    encode allSchemas asciiNFC s vals = [0x08, 0x00, 0x12, 0x00, 0x1a, 0x00] ∧
    encode allSchemas asciiNFC s vals ≠ b ∧
    decodeStrict allSchemas asciiNFC s (encode allSchemas asciiNFC s vals) = .ok vals := by
  intro b vals
  have h := C08_aggregateCommit_schema
  rw [hs] at h
  simp only [Option.map_some, Option.some.injEq, Prod.mk.injEq] at h
  obtain ⟨he, _, hst⟩ := h
  have henc : encode allSchemas asciiNFC s vals = [0x08, 0x00, 0x12, 0x00, 0x1a, 0x00] := by
    unfold encode
    rw [he]
    simp [vals, C08acFields, encodeFields, writeKey, writeBytes, putUvarint_lt]
  refine ⟨?_, henc, ?_, ?_⟩
  · unfold decodeStrict
    rw [hst]
    rfl
  · rw [henc]; decide
  · rw [henc]
    unfold decodeStrict
    rw [hst]
    rfl

/-- the field list of `rmt.Proof` (size: uint64; idxs: packed []uint64; siblingHashes: [][]byte) -/
def C08proofFields (st : Bool) : List Field := [⟨1, .uint, st⟩, ⟨2, .uints, false⟩, ⟨3, .bytesArr, false⟩]

theorem C08_rmtProof_schema :
    (allSchemas.find "rmt.Proof").map (fun s => (s.enc, s.dec, s.decStrict)) =
      some (C08proofFields false, C08proofFields false, C08proofFields true) := by
  decide +kernel

/-- **packed `uints` fields are not canonical**: `DecodeStrict` accepts a packed field that is
present with length 0 (`12 00`), which the writer never emits for an empty array; the canonical
encoding `08 00` of the same value is accepted too. -/
theorem C08_uints_noncanonical_counterexample (s : Schema) (hs : allSchemas.find "rmt.Proof" = some s) :
    decodeStrict allSchemas asciiNFC s [0x08, 0x00, 0x12, 0x00] = .ok [.uint 0, .uints [], .bytesArr []] ∧
    encode allSchemas asciiNFC s [.uint 0, .uints [], .bytesArr []] = [0x08, 0x00] ∧
    decodeStrict allSchemas asciiNFC s [0x08, 0x00] = .ok [.uint 0, .uints [], .bytesArr []] := by
  have h := C08_rmtProof_schema
  rw [hs] at h
  simp only [Option.map_some, Option.some.injEq, Prod.mk.injEq] at h
  obtain ⟨he, _, hst⟩ := h
  refine ⟨?_, ?_, ?_⟩
  · unfold decodeStrict
    rw [hst]
    rfl
  · unfold encode
    rw [he]
    simp [C08proofFields, encodeFields, writeKey, putUvarint_lt]
  · unfold decodeStrict
    rw [hst]
    rfl

/-! ### one level of nesting, and absent fields -/

/-- a field of a struct with at most one level of nesting: flat, or a nested struct (`ReadDecodable`)
whose own schema is in the table and flat -/
def C08Nested1Field (t : Table) (f : Field) : Bool :=
  decide (f.num * 8 + 2 < 2 ^ 64) &&
  match f.kind with
  | .msg name => (match t.find name with | some sn => C08Flat sn | none => false)
  | k => C08FlatKind k

/-- as `C08Flat`, but fields may also be nested structs with flat schemas -/
def C08Nested1 (t : Table) (s : Schema) : Bool :=
  fieldsAbove 0 s.enc &&
  s.enc.all (C08Nested1Field t) &&
  decide (s.enc.length ≤ 100) &&
  decide ((s.enc.map fun f => (f.num, f.kind)) = (s.dec.map fun f => (f.num, f.kind))) &&
  decide ((s.enc.map fun f => (f.num, f.kind)) = (s.decStrict.map fun f => (f.num, f.kind))) &&
  s.dec.all (fun f => !f.strict) &&
  s.decStrict.all (fun f => f.strict == singleValued f.kind)

/-- well-typed value of a field of kind `k`; a nested struct must be present (non-nil pointer) and
its fields well-typed for its (flat) schema -/
def C08Typed1Val (t : Table) (nfc : NFC) : Kind → Value → Bool
  | .msg name, .msg true vals =>
    (match t.find name with | some sn => C08Typed nfc sn.enc vals | none => false)
  | .msg _, _ => false
  | k, v => C08TypedVal nfc k v

def C08Typed1 (t : Table) (nfc : NFC) : List Field → List Value → Bool
  | [], [] => true
  | f :: fs, v :: vs => C08Typed1Val t nfc f.kind v && C08Typed1 t nfc fs vs
  | _, _ => false

private theorem C08_fieldOK1 (t : Table) (nfc : NFC) (f : Field) (v : Value)
    (hf : C08Nested1Field t f = true) (hv : C08Typed1Val t nfc f.kind v = true) :
    fieldOK1 t nfc f v := by
  obtain ⟨num, kind, st⟩ := f
  simp only [C08Nested1Field, Bool.and_eq_true, decide_eq_true_eq] at hf
  obtain ⟨hnum, hk⟩ := hf
  by_cases hmsg : ∃ name, kind = .msg name
  · obtain ⟨name, rfl⟩ := hmsg
    simp only at hk hv
    cases hfind : t.find name with
    | none => rw [hfind] at hk; simp at hk
    | some sn =>
      rw [hfind] at hk
      simp only at hk
      obtain ⟨h1, h2, h3, h4, _, _⟩ := C08Flat_unpack hk
      cases v with
      | msg present vals =>
        cases present with
        | false => simp [C08Typed1Val] at hv
        | true =>
          simp only [C08Typed1Val, hfind] at hv
          rw [C08Typed_eq] at hv
          refine Or.inr ⟨name, sn, vals, rfl, hfind, rfl, hnum, ?_, ?_, ?_, h4, ?_⟩
          · rw [← fieldsAbove_congr _ _ 0 h4]; exact h1
          · rw [← flatField_congr _ _ h4]; exact h2
          · rw [← typedVals_congr nfc _ _ vals h4]; exact hv
          · have := congrArg List.length h4; simp at this; omega
      | _ => simp [C08Typed1Val] at hv
  · have hk' : C08FlatKind kind = true := by
      cases kind <;> first | exact hk | exact absurd ⟨_, rfl⟩ hmsg
    have hv' : C08TypedVal nfc kind v = true := by
      cases kind <;> first | exact hv | exact absurd ⟨_, rfl⟩ hmsg
    refine Or.inl ⟨?_, ?_⟩
    · simp only [flatField, Bool.and_eq_true, decide_eq_true_eq, ← C08FlatKind_eq]
      exact ⟨hk', hnum⟩
    · rw [← C08TypedVal_eq]; exact hv'

private theorem C08_forall₂_fieldOK1 (t : Table) (nfc : NFC) : ∀ (fs : List Field) (vs : List Value),
    fs.all (C08Nested1Field t) = true → C08Typed1 t nfc fs vs = true →
    List.Forall₂ (fieldOK1 t nfc) fs vs := by
  intro fs
  induction fs with
  | nil => intro vs _ h; cases vs with
    | nil => exact .nil
    | cons v vs => simp [C08Typed1] at h
  | cons f fs ih =>
    intro vs hf h
    cases vs with
    | nil => simp [C08Typed1] at h
    | cons v vs =>
      simp only [C08Typed1, Bool.and_eq_true, List.all_cons] at h hf
      exact .cons (C08_fieldOK1 t nfc f v hf.1 h.1) (ih vs hf.2 h.2)

/-- **Round trip with one level of nesting**: for a struct whose fields are flat or present nested
structs with flat schemas, `Decode` and `DecodeStrict` return the encoded values. (The nested
decode is the lenient one also under `DecodeStrict`, as in the code.) -/
theorem C08_roundtrip_nested1 (t : Table) (nfc : NFC) (s : Schema) (vals : List Value)
    (hs : C08Nested1 t s = true) (hv : C08Typed1 t nfc s.enc vals = true)
    (hlen : (encode t nfc s vals).length < 2 ^ 63) :
    decode t nfc s (encode t nfc s vals) = .ok vals ∧
    decodeStrict t nfc s (encode t nfc s vals) = .ok vals := by
  simp only [C08Nested1, Bool.and_eq_true, decide_eq_true_eq] at hs
  obtain ⟨⟨⟨⟨⟨⟨h1, h2⟩, h3⟩, h4⟩, h5⟩, _⟩, _⟩ := hs
  have h4 : s.enc.map fieldShape = s.dec.map fieldShape := h4
  have h5 : s.enc.map fieldShape = s.decStrict.map fieldShape := h5
  have hall := C08_forall₂_fieldOK1 t nfc s.enc vals h2 hv
  constructor
  · unfold decode encode at *
    rw [encodeFields_congr t nfc 8 s.enc s.dec vals h4] at hlen ⊢
    have hl : s.dec.length ≤ 100 := by
      have := congrArg List.length h4; simp at this; omega
    rw [decodeFields_nested1_put t nfc 7 _ s.dec vals _
      (by rw [← fieldsAbove_congr _ _ 0 h4]; exact h1)
      (forall₂_shape_congr (fieldOK1 t nfc) (fun _ _ _ e h => fieldOK1_congr e h) _ _ _ h4 hall)
      (by unfold fuelFor; omega) hlen (Reader.Holds.new _)]
  · unfold decodeStrict encode at *
    rw [encodeFields_congr t nfc 8 s.enc s.decStrict vals h5] at hlen ⊢
    have hl : s.decStrict.length ≤ 100 := by
      have := congrArg List.length h5; simp at this; omega
    rw [decodeFields_nested1_put t nfc 7 _ s.decStrict vals _
      (by rw [← fieldsAbove_congr _ _ 0 h5]; exact h1)
      (forall₂_shape_congr (fieldOK1 t nfc) (fun _ _ _ e h => fieldOK1_congr e h) _ _ _ h5 hall)
      (by unfold fuelFor; omega) hlen (Reader.Holds.new _)]
    simp [Reader.new]

/-- **Absent ⇒ default** (lenient decoding): `Decode` of the empty byte string returns the zero
value of every field of a flat struct — it never fails on missing fields. -/
theorem C08_decode_empty_flat (t : Table) (nfc : NFC) (s : Schema) (hs : C08Flat s = true) :
    decode t nfc s [] = .ok (s.dec.map fun f => zeroValue f.kind) := by
  have hs' := hs
  simp only [C08Flat, Bool.and_eq_true, decide_eq_true_eq, C08FlatKind_eq] at hs'
  obtain ⟨⟨⟨⟨⟨⟨_, _⟩, h3⟩, _⟩, _⟩, h6⟩, _⟩ := hs'
  obtain ⟨_, h2, _, h4, _, _⟩ := C08Flat_unpack hs
  have hl : s.dec.length ≤ 100 := by
    have := congrArg List.length h4; simp at this; omega
  have hf : s.dec.all (fun f => flatKind f.kind && !f.strict) = true := by
    rw [flatField_congr _ _ h4] at h2
    rw [List.all_eq_true] at h2 h6 ⊢
    intro f hf
    have := h2 f hf
    simp only [flatField, Bool.and_eq_true] at this
    simp only [Bool.and_eq_true]
    exact ⟨this.1, h6 f hf⟩
  unfold decode
  rw [decodeFields_absent t nfc s.dec _ _ hf (by unfold fuelFor; omega) (Reader.Holds.new [])]

/-- in contrast, strict decoding of the empty string fails as soon as the struct has a
single-valued field (here: the transaction's `module`) -/
example (s : Schema) (hs : allSchemas.find "blockchain.Transaction" = some s) :
    decodeStrict allSchemas asciiNFC s [] = .error .fieldNumberNotFound := by
  unfold decodeStrict
  rw [(C08tx_fields hs).2.2]
  rfl

/-- non-vacuity of `C08_roundtrip_nested1`: the generated `labi.VerifyTransactionRequest`
(contextID: bytes, transaction: *Transaction) has one level of nesting, and a request carrying
`C08exampleTx` is well-typed for it; so is the block header (with its nested AggregateCommit) -/
example :
    (allSchemas.find "labi.VerifyTransactionRequest").any (fun s =>
      C08Nested1 allSchemas s &&
      C08Typed1 allSchemas asciiNFC s.enc [.bytes [1, 2], .msg true C08exampleTx]) = true ∧
    (allSchemas.find "blockchain.BlockHeader").any (C08Nested1 allSchemas) = true := by
  constructor <;> decide +kernel

/-- non-vacuity of `C08_decode_empty_flat`: an empty payload decodes (leniently) to the zero
transaction -/
example (s : Schema) (hs : allSchemas.find "blockchain.Transaction" = some s) :
    decode allSchemas asciiNFC s [] =
      .ok [.bytes [], .bytes [], .uint 0, .uint 0, .bytes [], .bytes [], .bytesArr []] := by
  rw [C08_decode_empty_flat allSchemas asciiNFC s (C08tx_flat hs).1, (C08tx_fields hs).2.1]
  rfl

/-- **Coverage** over the regenerated table: how many of the generated structs the message-level
theorems apply to — flat (`C08_roundtrip_flat`), flat with canonical kinds
(`C08_strict_canonical_flat`), at most one level of nesting (`C08_roundtrip_nested1`). -/
theorem C08_msg_coverage :
    59 ≤ (allSchemas.filter C08Flat).length ∧
    41 ≤ (allSchemas.filter fun s => C08Flat s && s.enc.all (fun f => C08CanonKind f.kind)).length ∧
    64 ≤ (allSchemas.filter (C08Nested1 allSchemas)).length := by
  decide +kernel
