/- C14: promotion (`reorg`) preserves the pool invariant. -/
import LiskVerif.Lemmas.TxPoolAdd

namespace LiskVerif.TxPool

theorem take_range' : ∀ (k s m : Nat), (List.range' s m).take k = List.range' s (min k m) := by
  intro k
  induction k with
  | zero => intro s m; simp
  | succ k ih =>
    intro s m
    cases m with
    | zero => simp
    | succ m =>
      rw [List.range'_succ, List.take_succ_cons, ih, Nat.succ_min_succ, List.range'_succ]

theorem takeRun_subset : ∀ (more : List Nat) (last x : Nat), x ∈ takeRun last more → x ∈ more := by
  intro more
  induction more with
  | nil => intro last x h; simp [takeRun] at h
  | cons n r ih =>
    intro last x h
    unfold takeRun at h
    split at h
    · rcases List.mem_cons.1 h with rfl | h
      · exact List.mem_cons_self
      · exact List.mem_cons_of_mem _ (ih n x h)
    · cases h

/-- the promotable nonces are a run that starts right after the highest processable nonce -/
theorem promotableNonces_spec (a : Acct) :
    ∃ first m, a.promotableNonces = List.range' first m ∧
      (∀ hi, a.proc.getLast? = some hi → first = hi + 1) ∧
      ∀ n ∈ a.promotableNonces, ∃ t ∈ a.txs, t.nonce = n := by
  have hnil : ∃ first m, ([] : List Nat) = List.range' first m ∧
      (∀ hi, a.proc.getLast? = some hi → first = hi + 1) := by
    cases hl : a.proc.getLast? with
    | none => exact ⟨0, 0, by simp, (by intro hi h; cases h)⟩
    | some hi => exact ⟨hi + 1, 0, by simp, (by intro hi' h; cases h; rfl)⟩
  unfold Acct.promotableNonces
  cases hd : a.sortedNonces.drop a.proc.length with
  | nil =>
    obtain ⟨f, m, h1, h2⟩ := hnil
    exact ⟨f, m, h1, h2, (by intro n hn; cases hn)⟩
  | cons first more =>
    have hsub : ∀ n ∈ first :: takeRun first more, ∃ t ∈ a.txs, t.nonce = n := by
      intro n hn
      apply sortedNonces_mem
      apply List.mem_of_mem_drop (i := a.proc.length)
      rw [hd]
      rcases List.mem_cons.1 hn with rfl | hn
      · exact List.mem_cons_self
      · exact List.mem_cons_of_mem _ (takeRun_subset more first n hn)
    simp only
    cases hl : a.proc.getLast? with
    | none =>
      simp only
      exact ⟨first, _, takeRun_range more first, (by intro hi h; cases h), hsub⟩
    | some hi =>
      simp only
      by_cases hc : (first != hi + 1) = true
      · rw [if_pos hc]
        exact ⟨hi + 1, 0, by simp, (by intro hi' h; cases h; rfl), (by intro n hn; cases hn)⟩
      · rw [if_neg hc]
        have hf : first = hi + 1 := by simpa using hc
        exact ⟨first, _, takeRun_range more first, (by intro hi' h; cases h; exact hf), hsub⟩

theorem map_nonce_filterMap_get (a : Acct) : ∀ (l : List Nat), (∀ n ∈ l, ∃ t ∈ a.txs, t.nonce = n) →
    (l.filterMap a.get).map (·.nonce) = l := by
  intro l
  induction l with
  | nil => intro _; rfl
  | cons n r ih =>
    intro h
    obtain ⟨t, ht, htn⟩ := h n List.mem_cons_self
    obtain ⟨t', ht'⟩ := get_isSome_of_mem ht
    rw [htn] at ht'
    rw [List.filterMap_cons, ht', List.map_cons, (get_some ht').2,
      ih (fun m hm => h m (List.mem_cons_of_mem _ hm))]

theorem promotable_subset {a : Acct} {t : Tx} (h : t ∈ a.promotable) : t ∈ a.txs := by
  unfold Acct.promotable at h
  obtain ⟨n, _, hg⟩ := List.mem_filterMap.1 h
  exact (get_some hg).1

/-- promoting a prefix of the promotable transactions keeps the sender-list invariant -/
theorem promote_inv {cfg : Cfg} {s : Nat} {a : Acct} (h : AcctInv cfg s a) (k : Nat) :
    AcctInv cfg s (a.promote (a.promotable.take k)) ∧ (a.promote (a.promotable.take k)).txs = a.txs := by
  unfold Acct.promote
  split
  · refine ⟨⟨h.nonempty, h.nodup, h.sender, h.bound, ?_, ?_⟩, rfl⟩
    · obtain ⟨first, m, hr, hfirst, hin⟩ := promotableNonces_spec a
      have : (a.promotable.take k).map (·.nonce) = List.range' first (min k m) := by
        rw [List.map_take]
        unfold Acct.promotable
        rw [map_nonce_filterMap_get a _ hin, hr, take_range']
      simp only [this]
      exact gapFree_sortUniq_append a.proc first _ h.gapfree hfirst
    · intro n hn
      simp only [mem_sortUniq, List.mem_append] at hn
      rcases hn with hn | hn
      · exact h.procIn n hn
      · obtain ⟨t, ht, htn⟩ := List.mem_map.1 hn
        exact ⟨t, promotable_subset (a := a) (List.mem_of_mem_take ht), htn⟩
  · exact ⟨h, rfl⟩

/-- replacing the processable set of one registered list -/
theorem setProc_inv {cfg : Cfg} {p : Pool} (h : C14Inv cfg p) {s : Nat} {a a1 : Acct}
    (ha : findAcct p.accts s = some a) (hai : AcctInv cfg s a1) (htx : a1.txs = a.txs) :
    C14Inv cfg { p with accts := setAcct p.accts s a1 } := by
  have hmem := findAcct_some ha
  refine ⟨h.noFault, h.allNodup, nodup_setAcct _ _ h.acctsNodup, ?_, ?_, ?_, h.heapPerm, h.bounded⟩
  · intro e he
    rcases mem_setAcct.1 he with rfl | he
    · exact hai
    · exact h.acctOk e he.1
  · intro x hx
    obtain ⟨ax, hax, hxax⟩ := h.allInAcct x hx
    by_cases hs : x.sender = s
    · rw [hs] at hax
      have := inj_of_nodup_map _ _ h.acctsNodup _ hax _ hmem rfl
      rw [(Prod.mk.inj this).2, ← htx] at hxax
      exact ⟨a1, by rw [hs]; exact mem_setAcct.2 (Or.inl rfl), hxax⟩
    · exact ⟨ax, mem_setAcct.2 (Or.inr ⟨hax, hs⟩), hxax⟩
  · intro e he x hx
    rcases mem_setAcct.1 he with rfl | he
    · simp only at hx; rw [htx] at hx; exact h.acctInAll _ hmem x hx
    · exact h.acctInAll e he.1 x hx

theorem foldl_remove_inv {cfg : Cfg} (l : List Tx) : ∀ {p : Pool}, C14Inv cfg p →
    C14Inv cfg (l.foldl (fun q t => (remove q t.id).1) p) := by
  induction l with
  | nil => intro p h; exact h
  | cons t r ih => intro p h; exact ih (remove_inv h t.id)

theorem reorgAcct_inv {cfg : Cfg} {p : Pool} (h : C14Inv cfg p) (v : Nat → Verdict) (s : Nat) :
    C14Inv cfg (reorgAcct v p s) := by
  unfold reorgAcct
  cases ha : findAcct p.accts s with
  | none => exact h
  | some a =>
    simp only
    have hai : AcctInv cfg s a := h.acctOk _ (findAcct_some ha)
    by_cases hempty : a.promotable.isEmpty = true
    · rw [if_pos hempty]; exact h
    · rw [if_neg hempty]
      have hfull : a.promotable = a.promotable.take a.promotable.length := (List.take_length).symm
      cases hfi : firstInvalid v (a.processables ++ a.promotable) with
      | none =>
        simp only
        have := promote_inv hai a.promotable.length
        rw [← hfull] at this
        exact setProc_inv h ha this.1 this.2
      | some fi =>
        simp only
        apply foldl_remove_inv
        by_cases hc : fi ≥ a.processables.length + 1
        · rw [if_pos hc]
          have := promote_inv hai (fi - a.processables.length)
          exact setProc_inv h ha this.1 this.2
        · rw [if_neg hc]
          exact setProc_inv h ha hai rfl

theorem reorg_inv {cfg : Cfg} {p : Pool} (h : C14Inv cfg p) (v : Nat → Verdict) : C14Inv cfg (reorg v p) := by
  unfold reorg
  generalize p.accts.map (·.1) = l
  induction l generalizing p with
  | nil => exact h
  | cons s r ih => exact ih (reorgAcct_inv h v s)

theorem blockApplied_inv {cfg : Cfg} (ids : List Nat) : ∀ {p : Pool}, C14Inv cfg p →
    C14Inv cfg (blockApplied p ids) := by
  unfold blockApplied
  induction ids with
  | nil => intro p h; exact h
  | cons t r ih => intro p h; exact ih (remove_inv h t)

theorem blockReverted_inv {cfg : Cfg} (hmax : 1 ≤ cfg.maxTx) (hper : 1 ≤ cfg.maxPerAcct) (l : List AddArg) :
    ∀ {p : Pool}, C14Inv cfg p → C14Inv cfg (blockReverted cfg p l) := by
  unfold blockReverted
  induction l with
  | nil => intro p h; exact h
  | cons x r ih => intro p h; exact ih (add_inv hmax hper h x.tx x.v x.pubOk x.tie)

theorem init_inv (cfg : Cfg) : C14Inv cfg {} :=
  ⟨rfl, List.nodup_nil, List.nodup_nil, (by intro e he; cases he), (by intro t ht; cases ht),
   (by intro e he; cases he), List.Perm.refl _, Nat.zero_le _⟩

theorem applyOp_inv {cfg : Cfg} (hmax : 1 ≤ cfg.maxTx) (hper : 1 ≤ cfg.maxPerAcct) {p : Pool} (h : C14Inv cfg p)
    (op : Op) : C14Inv cfg (applyOp cfg p op) := by
  cases op with
  | add x => exact add_inv hmax hper h x.tx x.v x.pubOk x.tie
  | remove id => exact remove_inv h id
  | reorg v => exact reorg_inv h v
  | applied ids => exact blockApplied_inv ids h
  | reverted l => exact blockReverted_inv hmax hper l h

theorem run_inv {cfg : Cfg} (hmax : 1 ≤ cfg.maxTx) (hper : 1 ≤ cfg.maxPerAcct) (ops : List Op) :
    C14Inv cfg (run cfg ops) := by
  unfold run
  have : ∀ (p : Pool), C14Inv cfg p → C14Inv cfg (ops.foldl (applyOp cfg) p) := by
    induction ops with
    | nil => intro p h; exact h
    | cons op r ih => intro p h; exact ih _ (applyOp_inv hmax hper h op)
  exact this _ (init_inv cfg)

end LiskVerif.TxPool
