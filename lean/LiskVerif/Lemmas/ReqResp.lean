/-
C17 — invariant of the fixed request/response protocol (Model/ReqResp.lean) and its preservation
by every action of the interleaving relation.
-/
import LiskVerif.Model.ReqResp

namespace LiskVerif.ReqResp

/-- pcs between the creation of an attempt and the end of its `select` -/
def RPc.preWait : RPc → Bool
  | .regLock | .regStore | .regUnlock | .send | .wait => true
  | _ => false

/-- pcs of an attempt whose request is not yet on the wire -/
def RPc.preSend : RPc → Bool
  | .regLock | .regStore | .regUnlock | .send => true
  | _ => false

/-- The inductive invariant. -/
structure Inv (P : Nat → Nat) (s : State) : Prop where
  /-- a requester is at a lock-holding pc iff it is the holder of `resMu` -/
  lockReq : ∀ (i : Nat) (r : Req), s.reqs[i]? = some r → (r.pc.holds = true ↔ s.lock = some (.req i))
  lockHdl : ∀ (j : Nat) (h : Hdl), s.hdls[j]? = some h → (h.pc.holds = true ↔ s.lock = some (.hdl j))
  /-- the holder exists -/
  lockExR : ∀ i, s.lock = some (.req i) → i < s.reqs.length
  lockExH : ∀ j, s.lock = some (.hdl j) → j < s.hdls.length
  /-- from registration to unregistration the entry of the attempt is in the map -/
  regd : ∀ (i : Nat) (r : Req), s.reqs[i]? = some r → r.pc.registered = true → s.resCh.lookup r.id = some i
  /-- every entry of the map belongs to the attempt that registered it -/
  chSound : ∀ (id i : Nat), (id, i) ∈ s.resCh → ∃ r : Req, s.reqs[i]? = some r ∧ r.id = id ∧ r.pc.registered = true
  /-- ids are fresh -/
  fresh : ∀ (i : Nat) (r : Req), s.reqs[i]? = some r → r.pc ≠ .start → r.id < s.nextId
  uniq : ∀ (i i' : Nat) (r r' : Req), s.reqs[i]? = some r → s.reqs[i']? = some r' → i ≠ i' →
    r.pc ≠ .start → r'.pc ≠ .start → r.id ≠ r'.id
  /-- whatever sits in a requester's channel / was received is the handler's answer to its own id -/
  bufOk : ∀ (i : Nat) (r : Req) (m : Resp), s.reqs[i]? = some r → r.buf = some m → m = ⟨r.id, P r.id⟩
  outOk : ∀ (i : Nat) (r : Req) (m : Resp), s.reqs[i]? = some r → r.out = some (.got m) → m = ⟨r.id, P r.id⟩
  outNone : ∀ (i : Nat) (r : Req), s.reqs[i]? = some r → r.pc.preWait = true → r.out = none
  /-- responses in flight / being handled are genuine answers of the remote handler -/
  msgOk : ∀ (j : Nat) (h : Hdl), s.hdls[j]? = some h → h.msg.payload = P h.msg.rid
  netOk : ∀ m : Resp, m ∈ s.net → m.payload = P m.rid
  /-- the channel a handler is about to send on is the one registered under the message's id -/
  target : ∀ (j : Nat) (h : Hdl) (ch : Nat), s.hdls[j]? = some h → h.pc = .deliver ch → s.resCh.lookup h.msg.rid = some ch
  /-- every id is used for at most one request on the wire, and responses only answer such requests -/
  sentLt : ∀ id : Nat, id ∈ s.sent → id < s.nextId
  sentNodup : s.sent.Nodup
  notSent : ∀ (i : Nat) (r : Req), s.reqs[i]? = some r → r.pc.preSend = true → r.id ∉ s.sent
  netSent : ∀ m : Resp, m ∈ s.net → m.rid ∈ s.sent
  msgSent : ∀ (j : Nat) (h : Hdl), s.hdls[j]? = some h → h.msg.rid ∈ s.sent
  /-- ghost: once a response was handed over during the select, the attempt cannot time out -/
  ghost : ∀ (i : Nat) (r : Req), s.reqs[i]? = some r → r.arrived = true →
    (r.pc = .wait ∧ r.buf.isSome = true) ∨ (∃ m, r.out = some (.got m)) ∨ r.out = some .cancelled

theorem lookup_erase_ne (m : List (Nat × Nat)) (a b : Nat) (h : a ≠ b) :
    (eraseId m b).lookup a = m.lookup a := by
  induction m with
  | nil => simp [eraseId]
  | cons e m ih =>
    obtain ⟨k, v⟩ := e
    simp only [eraseId] at ih ⊢
    simp only [List.filter_cons, List.lookup_cons]
    grind
theorem lookup_erase_eq (m : List (Nat × Nat)) (a : Nat) : (eraseId m a).lookup a = none := by
  induction m with
  | nil => simp [eraseId]
  | cons e m ih =>
    obtain ⟨k, v⟩ := e
    simp only [eraseId] at ih ⊢
    simp only [List.filter_cons]
    grind
theorem mem_of_lookup (m : List (Nat × Nat)) (a v : Nat) (h : m.lookup a = some v) : (a, v) ∈ m := by
  induction m with
  | nil => simp at h
  | cons e m ih =>
    obtain ⟨k, w⟩ := e
    grind
theorem mem_erase (m : List (Nat × Nat)) (a b v : Nat) : (a, v) ∈ eraseId m b ↔ (a, v) ∈ m ∧ a ≠ b := by
  simp [eraseId]

theorem inv_init (P : Nat → Nat) : Inv P init := by
  constructor <;> simp [init]


set_option maxHeartbeats 400000

/-- one tactic block per field of `Inv`: the listed fields of the pre-state invariant are the only
facts the field needs (grind does the case analysis over program counters and list updates) -/
macro "inv_fields " hI:ident : tactic => `(tactic| (
  constructor
  · have := ($hI).lockReq; have := ($hI).lockHdl; have := ($hI).lockExR; have := ($hI).lockExH; clear $hI
    grind [stepReq, afterAttempt, stepEnv, newReq, RPc.holds, HPc.holds]
  · have := ($hI).lockReq; have := ($hI).lockHdl; have := ($hI).lockExR; have := ($hI).lockExH; clear $hI
    grind [stepReq, afterAttempt, stepEnv, newReq, RPc.holds, HPc.holds]
  · have := ($hI).lockExR; clear $hI
    grind [stepReq, afterAttempt, stepEnv, newReq]
  · have := ($hI).lockExH; clear $hI
    grind [stepReq, afterAttempt, stepEnv, newReq]
  · have := ($hI).regd; have := ($hI).uniq; clear $hI
    grind [stepReq, afterAttempt, stepEnv, newReq, RPc.registered, storeId, lookup_erase_ne, lookup_erase_eq]
  · have := ($hI).chSound; clear $hI
    grind [stepReq, afterAttempt, stepEnv, newReq, RPc.registered, storeId, mem_erase]
  · have := ($hI).fresh; clear $hI
    grind [stepReq, afterAttempt, stepEnv, newReq]
  · have := ($hI).uniq; have := ($hI).fresh; clear $hI
    grind [stepReq, afterAttempt, stepEnv, newReq]
  · first
    | assumption
    | (have := ($hI).bufOk; clear $hI
       grind [stepReq, afterAttempt, stepEnv, newReq])
  · have := ($hI).outOk; have := ($hI).bufOk; clear $hI
    grind [stepReq, afterAttempt, stepEnv, newReq]
  · have := ($hI).outNone; clear $hI
    grind [stepReq, afterAttempt, stepEnv, newReq, RPc.preWait]
  · have := ($hI).msgOk; have := ($hI).netOk; clear $hI
    grind [stepReq, afterAttempt, stepEnv, newReq, List.mem_of_getElem?]
  · have := ($hI).netOk; clear $hI
    grind [stepReq, afterAttempt, stepEnv, newReq, List.mem_of_mem_eraseIdx]
  · have := ($hI).target; have := ($hI).lockReq; have := ($hI).lockHdl; clear $hI
    grind [stepReq, afterAttempt, stepEnv, newReq, RPc.holds, HPc.holds, storeId]
  · have := ($hI).sentLt; have := ($hI).fresh; clear $hI
    grind [stepReq, afterAttempt, stepEnv, newReq]
  · have := ($hI).sentNodup; have := ($hI).notSent; clear $hI
    grind [stepReq, afterAttempt, stepEnv, newReq, RPc.preSend]
  · have := ($hI).notSent; have := ($hI).sentLt; have := ($hI).uniq; clear $hI
    grind [stepReq, afterAttempt, stepEnv, newReq, RPc.preSend]
  · have := ($hI).netSent; clear $hI
    grind [stepReq, afterAttempt, stepEnv, newReq, List.mem_of_mem_eraseIdx, List.mem_of_getElem?]
  · have := ($hI).msgSent; have := ($hI).netSent; clear $hI
    grind [stepReq, afterAttempt, stepEnv, newReq, List.mem_of_getElem?]
  · first
    | assumption
    | (have := ($hI).ghost; have := ($hI).outNone; clear $hI
       grind [stepReq, afterAttempt, stepEnv, newReq, RPc.preWait])))

theorem hStep_cases (P : Nat → Nat) (s s' : State) (j : Nat) (hs : step P s (.hStep j) = some s') :
    ∃ h, s.hdls[j]? = some h ∧
      ((h.pc = .lock ∧ s.lock = none ∧
          s' = { s with lock := some (.hdl j), hdls := s.hdls.set j { h with pc := .lookup } }) ∨
       (∃ ch, h.pc = .lookup ∧ s.resCh.lookup h.msg.rid = some ch ∧
          s' = { s with hdls := s.hdls.set j { h with pc := .deliver ch } }) ∨
       (h.pc = .lookup ∧ s.resCh.lookup h.msg.rid = none ∧
          s' = { s with unknown := h.msg.rid :: s.unknown, hdls := s.hdls.set j { h with pc := .unlock } }) ∨
       (∃ ch r, h.pc = .deliver ch ∧ s.reqs[ch]? = some r ∧
          s' = { s with hdls := s.hdls.set j { h with pc := .unlock },
                        reqs := s.reqs.set ch { r with buf := if r.buf = none then some h.msg else r.buf,
                                                       arrived := r.arrived || r.pc == .wait } }) ∨
       (∃ ch, h.pc = .deliver ch ∧ s.reqs[ch]? = none ∧
          s' = { s with hdls := s.hdls.set j { h with pc := .unlock } }) ∨
       (h.pc = .unlock ∧ s' = { s with lock := none, hdls := s.hdls.set j { h with pc := .done } })) := by
  simp only [step] at hs
  cases hh : s.hdls[j]? with
  | none => simp [hh] at hs
  | some h =>
    refine ⟨h, rfl, ?_⟩
    simp only [hh, stepHdl] at hs
    cases hpc : h.pc with
    | lock =>
      simp only [hpc] at hs
      split at hs
      · next hl => cases hs; exact Or.inl ⟨rfl, hl, rfl⟩
      · cases hs
    | lookup =>
      simp only [hpc] at hs
      cases hl : s.resCh.lookup h.msg.rid with
      | some ch => simp only [hl] at hs; cases hs; exact Or.inr (Or.inl ⟨ch, rfl, rfl, rfl⟩)
      | none => simp only [hl] at hs; cases hs; exact Or.inr (Or.inr (Or.inl ⟨rfl, rfl, rfl⟩))
    | deliver ch =>
      simp only [hpc] at hs
      cases hr : s.reqs[ch]? with
      | some r => simp only [hr] at hs; cases hs; exact Or.inr (Or.inr (Or.inr (Or.inl ⟨ch, r, rfl, hr, rfl⟩)))
      | none => simp only [hr] at hs; cases hs; exact Or.inr (Or.inr (Or.inr (Or.inr (Or.inl ⟨ch, rfl, hr, rfl⟩))))
    | unlock =>
      simp only [hpc] at hs; cases hs
      exact Or.inr (Or.inr (Or.inr (Or.inr (Or.inr ⟨rfl, rfl⟩))))
    | done => simp [hpc] at hs

theorem inv_rStep (P : Nat → Nat) (s s' : State) (i : Nat) (hI : Inv P s)
    (hs : step P s (.rStep i) = some s') : Inv P s' := by
  simp only [step] at hs
  inv_fields hI

theorem inv_rSendOk (P : Nat → Nat) (s s' : State) (i : Nat) (hI : Inv P s)
    (hs : step P s (.rSendOk i) = some s') : Inv P s' := by
  simp only [step] at hs
  inv_fields hI

theorem inv_rSendErr (P : Nat → Nat) (s s' : State) (i : Nat) (hI : Inv P s)
    (hs : step P s (.rSendErr i) = some s') : Inv P s' := by
  simp only [step] at hs
  inv_fields hI

theorem inv_rRecv (P : Nat → Nat) (s s' : State) (i : Nat) (hI : Inv P s)
    (hs : step P s (.rRecv i) = some s') : Inv P s' := by
  simp only [step] at hs
  inv_fields hI

theorem inv_rTimeout (P : Nat → Nat) (s s' : State) (i : Nat) (hI : Inv P s)
    (hs : step P s (.rTimeout i) = some s') : Inv P s' := by
  simp only [step] at hs
  inv_fields hI

theorem inv_rCancel (P : Nat → Nat) (s s' : State) (i : Nat) (hI : Inv P s)
    (hs : step P s (.rCancel i) = some s') : Inv P s' := by
  simp only [step] at hs
  inv_fields hI

theorem inv_nRespond (P : Nat → Nat) (s s' : State) (id : Nat) (hI : Inv P s)
    (hs : step P s (.nRespond id) = some s') : Inv P s' := by
  simp only [step] at hs
  inv_fields hI

theorem inv_nDup (P : Nat → Nat) (s s' : State) (k : Nat) (hI : Inv P s)
    (hs : step P s (.nDup k) = some s') : Inv P s' := by
  simp only [step] at hs
  inv_fields hI

theorem inv_nDrop (P : Nat → Nat) (s s' : State) (k : Nat) (hI : Inv P s)
    (hs : step P s (.nDrop k) = some s') : Inv P s' := by
  simp only [step] at hs
  inv_fields hI

theorem inv_nDeliver (P : Nat → Nat) (s s' : State) (k : Nat) (hI : Inv P s)
    (hs : step P s (.nDeliver k) = some s') : Inv P s' := by
  simp only [step] at hs
  inv_fields hI

theorem inv_spawn (P : Nat → Nat) (s s' : State) (b : Nat) (hI : Inv P s)
    (hs : step P s (.spawn b) = some s') : Inv P s' := by
  simp only [step] at hs
  inv_fields hI

theorem inv_hStep (P : Nat → Nat) (s s' : State) (j : Nat) (hI : Inv P s)
    (hs : step P s (.hStep j) = some s') : Inv P s' := by
  obtain ⟨h, hh, hc⟩ := hStep_cases P s s' j hs
  clear hs
  rcases hc with ⟨hpc, hl, rfl⟩ | ⟨ch, hpc, hl, rfl⟩ | ⟨hpc, hl, rfl⟩ | ⟨ch, r, hpc, hr, rfl⟩ | ⟨ch, hpc, hr, rfl⟩ | ⟨hpc, rfl⟩
  · inv_fields hI
  · inv_fields hI
  · inv_fields hI
  · have hmsg : h.msg = ⟨r.id, P r.id⟩ := by
      have h1 := mem_of_lookup _ _ _ (hI.target j h ch hh hpc)
      obtain ⟨r0, hr0, hid, _⟩ := hI.chSound _ _ h1
      have h2 := hI.msgOk j h hh
      rw [hr] at hr0; cases hr0
      cases hm : h.msg with
      | mk rid pl => rw [hm] at h2 hid; simp at h2 hid; rw [h2, hid]
    have hsome : ∀ (b : Option Resp) (m : Resp), (if b = none then some m else b).isSome = true := by
      intro b m; cases b <;> simp
    have hg : ∀ (i : Nat) (r1 : Req),
        (s.reqs.set ch { r with buf := if r.buf = none then some h.msg else r.buf,
                                arrived := r.arrived || r.pc == .wait })[i]? = some r1 → r1.arrived = true →
        (r1.pc = .wait ∧ r1.buf.isSome = true) ∨ (∃ m, r1.out = some (.got m)) ∨ r1.out = some .cancelled := by
      intro i r1 h1 ha
      have hG := hI.ghost
      by_cases hic : ch = i
      · subst hic
        have hlt : ch < s.reqs.length := by
          have := List.getElem?_eq_some_iff.mp hr
          exact this.1
        rw [List.getElem?_set_self hlt] at h1
        cases h1
        by_cases hw : r.pc = .wait
        · exact Or.inl ⟨hw, hsome _ _⟩
        · have ha' : r.arrived = true := by simpa [hw] using ha
          rcases hG ch r hr ha' with ⟨h1, _⟩ | h2 | h3
          · exact absurd h1 hw
          · exact Or.inr (Or.inl h2)
          · exact Or.inr (Or.inr h3)
      · rw [List.getElem?_set_ne hic] at h1
        exact hG i r1 h1 ha
    inv_fields hI
  · inv_fields hI
  · inv_fields hI

/-- every action preserves the invariant -/
theorem inv_step (P : Nat → Nat) (s s' : State) (a : Action) (hI : Inv P s)
    (hs : step P s a = some s') : Inv P s' := by
  cases a with
  | rStep i => exact inv_rStep P s s' i hI hs
  | rSendOk i => exact inv_rSendOk P s s' i hI hs
  | rSendErr i => exact inv_rSendErr P s s' i hI hs
  | rRecv i => exact inv_rRecv P s s' i hI hs
  | rTimeout i => exact inv_rTimeout P s s' i hI hs
  | rCancel i => exact inv_rCancel P s s' i hI hs
  | hStep j => exact inv_hStep P s s' j hI hs
  | nRespond id => exact inv_nRespond P s s' id hI hs
  | nDup k => exact inv_nDup P s s' k hI hs
  | nDrop k => exact inv_nDrop P s s' k hI hs
  | nDeliver k => exact inv_nDeliver P s s' k hI hs
  | spawn b => exact inv_spawn P s s' b hI hs

/-- the invariant holds in every reachable state -/
theorem inv_reachable (P : Nat → Nat) (s : State) (h : Reachable P s) : Inv P s := by
  induction h with
  | init => exact inv_init P
  | step a _ hs ih => exact inv_step P _ _ a ih hs

end LiskVerif.ReqResp
