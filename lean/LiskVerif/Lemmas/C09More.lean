/-
Lemmas for Props/C09_More.lean (codec model `LiskVerif.Model.Codec`):

* `Value.dyn` … : the number of dynamically allocated units of a decoded value tree (bytes of byte
  strings, one unit + its bytes per `[][]byte` element, one unit per packed integer, one unit + its
  content per element of an array of structs); `decode_dyn_aux`: whatever the decoder returns, at any
  nesting depth and for ANY table / fuel, has at most as many units as the decoder consumed bytes —
  a length prefix cannot make the decoder allocate more than the input it has actually read;
* `decodeFields_lax`: a field list that differs from another one only by weaker `strict` flags accepts
  everything the stricter list accepts, with the same result (`DecodeStrict` ok ⇒ `Decode` ok).
-/
import LiskVerif.Lemmas.CodecTotal

namespace LiskVerif.Codec

/-! ### allocation units of a decoded value -/

/-- `[][]byte`: one unit per element (the slice header) plus its bytes -/
def baSize : List Bytes → Nat
  | [] => 0
  | b :: r => b.length + 1 + baSize r

mutual
/-- dynamically allocated units of a decoded value. Scalars and the struct a `.msg` field points to
are of static size (determined by the schema, not by the input) and count 0. -/
def Value.dyn : Value → Nat
  | .uint _ => 0
  | .int _ => 0
  | .bool _ => 0
  | .bytes b => b.length
  | .bytesArr l => baSize l
  | .uints l => l.length
  | .msg _ fields => Value.dynList fields
  | .msgArr l => Value.dynLL l
def Value.dynList : List Value → Nat
  | [] => 0
  | v :: vs => Value.dyn v + Value.dynList vs
/-- array of structs: one unit per element (the struct `creator()` allocates) plus its content -/
def Value.dynLL : List (List Value) → Nat
  | [] => 0
  | vs :: r => Value.dynList vs + 1 + Value.dynLL r
end

theorem baSize_append (l : List Bytes) (b : Bytes) : baSize (l ++ [b]) = baSize l + b.length + 1 := by
  induction l with
  | nil => simp [baSize]
  | cons a r ih => simp only [List.cons_append, baSize, ih]; omega

theorem baSize_length_le (l : List Bytes) : l.length ≤ baSize l := by
  induction l with
  | nil => simp [baSize]
  | cons a r ih => simp only [List.length_cons, baSize]; omega

theorem baSize_mem {l : List Bytes} {b : Bytes} (h : b ∈ l) : b.length + 1 ≤ baSize l := by
  induction l with
  | nil => cases h
  | cons a r ih =>
    simp only [baSize]
    rcases List.mem_cons.mp h with rfl | h
    · omega
    · have := ih h; omega

/-- sum of the element lengths plus the number of elements -/
theorem baSize_eq (l : List Bytes) : baSize l = (l.map List.length).sum + l.length := by
  induction l with
  | nil => rfl
  | cons a r ih => simp only [baSize, List.map_cons, List.sum_cons, List.length_cons, ih]; omega

theorem Value.dynLL_append (l : List (List Value)) (vs : List Value) :
    Value.dynLL (l ++ [vs]) = Value.dynLL l + Value.dynList vs + 1 := by
  induction l with
  | nil => simp [Value.dynLL]
  | cons a r ih => simp only [List.cons_append, Value.dynLL, ih]; omega

theorem Value.dynLL_length_le (l : List (List Value)) : l.length ≤ Value.dynLL l := by
  induction l with
  | nil => simp [Value.dynLL]
  | cons a r ih => simp only [List.length_cons, Value.dynLL]; omega

theorem Value.dynLL_mem {l : List (List Value)} {vs : List Value} (h : vs ∈ l) :
    Value.dynList vs + 1 ≤ Value.dynLL l := by
  induction l with
  | nil => cases h
  | cons a r ih =>
    simp only [Value.dynLL]
    rcases List.mem_cons.mp h with rfl | h
    · omega
    · have := ih h; omega

theorem Value.dynList_mem {vs : List Value} {v : Value} (h : v ∈ vs) :
    Value.dyn v ≤ Value.dynList vs := by
  induction vs with
  | nil => cases h
  | cons a r ih =>
    simp only [Value.dynList]
    rcases List.mem_cons.mp h with rfl | h
    · omega
    · have := ih h; omega

theorem Value.dynList_getElem? {vs : List Value} {i : Nat} {v : Value} (h : vs[i]? = some v) :
    Value.dyn v ≤ Value.dynList vs :=
  Value.dynList_mem (List.mem_of_getElem? h)

theorem Value.dyn_zeroValue (k : Kind) : Value.dyn (zeroValue k) = 0 := by
  cases k <;> simp [zeroValue, Value.dyn, Value.dynList, Value.dynLL, baSize]

theorem Value.dynList_zeros (fs : List Field) :
    Value.dynList (fs.map fun f => zeroValue f.kind) = 0 := by
  induction fs with
  | nil => rfl
  | cons f r ih => simp only [List.map_cons, Value.dynList, Value.dyn_zeroValue, ih]

theorem Value.dyn_defaultMsg (t : Table) (name : String) : Value.dyn (defaultMsg t name) = 0 := by
  unfold defaultMsg
  split
  · simp only [Value.dyn, Value.dynList_zeros]
  · simp [Value.dyn, Value.dynList]

/-! ### primitive reads: what they return is paid for by the bytes they consume -/

theorem Reader.readBytes_dyn {r r' : Reader} {b : Bytes} (h : r.readBytes = .ok (b, r')) :
    b.length + r.index + 1 ≤ r'.index ∧ r'.index ≤ r.data.length := by
  unfold Reader.readBytes at h
  have hu := r.readUInt_safe
  split at h
  · cases h
  · rename_i size r1 heq
    have h1 := hu.of_ok heq
    simp only [AdvS] at h1
    simp only at h
    split at h
    · cases h
    · rename_i hle
      cases h
      simp only [List.length_take, List.length_drop]
      omega

theorem Reader.readString_dyn {nfc : NFC} {r r' : Reader} {b : Bytes}
    (h : r.readString nfc = .ok (b, r')) :
    b.length + r.index + 1 ≤ r'.index ∧ r'.index ≤ r.data.length := by
  unfold Reader.readString at h
  split at h
  · cases h
  · rename_i b1 r1 heq
    split at h
    · cases h
    · split at h
      · cases h
      · cases h
        exact Reader.readBytes_dyn heq

theorem readBytesArray_dyn : ∀ (fuel : Nat) (r r' : Reader) (fn : Nat) (acc l : List Bytes),
    readBytesArray fuel r fn acc = .ok (l, r') → baSize l + r.index ≤ baSize acc + r'.index := by
  intro fuel
  induction fuel with
  | zero => intro r r' fn acc l h; simp [readBytesArray] at h
  | succ fuel ih =>
    intro r r' fn acc l h
    unfold readBytesArray at h
    split at h
    · split at h
      · cases h
      · cases h; omega
      · rename_i r1 heq
        have h1 := Safe.of_ok (r.enterArr_safe fn 2) heq r1 rfl
        split at h
        · cases h
        · rename_i b r2 hr
          have h2 := Reader.readBytes_dyn hr
          have h3 := ih r2 r' fn _ l h
          rw [baSize_append] at h3
          simp only [AdvS] at h1
          omega
    · cases h; omega

theorem readPackedUInts_dyn : ∀ (fuel : Nat) (r r' : Reader) (stop : Int) (acc l : List Nat),
    readPackedUInts fuel r stop acc = .ok (l, r') → l.length + r.index ≤ acc.length + r'.index := by
  intro fuel
  induction fuel with
  | zero => intro r r' stop acc l h; simp [readPackedUInts] at h
  | succ fuel ih =>
    intro r r' stop acc l h
    unfold readPackedUInts at h
    split at h
    · split at h
      · cases h
      · rename_i v r1 heq
        have h1 := Safe.of_ok r.readUInt_safe heq
        have h3 := ih r1 r' stop _ l h
        simp only [AdvS] at h1
        simp only [List.length_append, List.length_singleton] at h3
        omega
    · cases h; omega

/-! ### the mutual decoder -/

set_option hygiene false in
/-- single-value field of static size: `enter` then one primitive read -/
local macro "dyn_scalar" rd:term : tactic => `(tactic| (
  split at h
  · cases h
  · cases h; simp [Value.dyn]
  · rename_i r1 he
    have h1 := Safe.of_ok (Reader.enter_safe _ _ _ _) he r1 rfl
    split at h
    · cases h
    · rename_i v r2 hr
      have h2 := Safe.of_ok ($rd r1) hr
      cases h
      simp only [AdvS] at h1 h2
      simp only [Value.dyn]
      omega))

/-- **Allocation is paid for by consumed input**, for every table (ranked or not), every NFC
implementation, every fuel and every reader state: a successful call returns a value whose dynamic
size is at most the number of bytes by which it advanced the index. -/
theorem decode_dyn_aux (t : Table) (nfc : NFC) : ∀ fuel : Nat,
    (∀ (fs : List Field) (r : Reader) (vs : List Value) (r' : Reader),
      decodeFields t nfc fuel fs r = .ok (vs, r') → Value.dynList vs + r.index ≤ r'.index) ∧
    (∀ (f : Field) (r : Reader) (v : Value) (r' : Reader),
      decodeField t nfc fuel f r = .ok (v, r') → Value.dyn v + r.index ≤ r'.index) ∧
    (∀ (name : String) (r : Reader) (v : Value) (r' : Reader),
      decodeNested t nfc fuel name r = .ok (v, r') → Value.dyn v + r.index + 1 ≤ r'.index) ∧
    (∀ (name : String) (fn : Nat) (r : Reader) (acc l : List (List Value)) (r' : Reader),
      decodeMsgArr t nfc fuel name fn r acc = .ok (l, r') →
      Value.dynLL l + r.index ≤ Value.dynLL acc + r'.index) := by
  intro fuel
  induction fuel with
  | zero =>
    refine ⟨?_, ?_, ?_, ?_⟩
    · intro fs r vs r' h
      cases fs with
      | nil => simp only [decodeFields] at h; cases h; simp [Value.dynList]
      | cons f fs => simp [decodeFields] at h
    · intro f r v r' h; simp [decodeField] at h
    · intro name r v r' h; simp [decodeNested] at h
    · intro name fn r acc l r' h; simp [decodeMsgArr] at h
  | succ fuel ih =>
    obtain ⟨ihFs, ihF, ihN, ihA⟩ := ih
    refine ⟨?_, ?_, ?_, ?_⟩
    · -- decodeFields
      intro fs r vs r' h
      cases fs with
      | nil => simp only [decodeFields] at h; cases h; simp [Value.dynList]
      | cons f fs =>
        simp only [decodeFields] at h
        split at h
        · cases h
        · rename_i v r1 he
          have h1 := ihF f r v r1 he
          split at h
          · cases h
          · rename_i vs' r2 he2
            have h2 := ihFs fs r1 vs' r2 he2
            cases h
            simp only [Value.dynList]
            omega
    · -- decodeField
      intro f r v r' h
      obtain ⟨num, kind, st⟩ := f
      cases kind with
      | uint => simp only [decodeField] at h; dyn_scalar Reader.readUInt_safe
      | uint32 => simp only [decodeField] at h; dyn_scalar Reader.readUInt_safe
      | int32 => simp only [decodeField] at h; dyn_scalar Reader.readUInt_safe
      | bool => simp only [decodeField] at h; dyn_scalar Reader.readBool_safe
      | bytes =>
        simp only [decodeField] at h
        split at h
        · cases h
        · cases h; simp [Value.dyn]
        · rename_i r1 he
          have h1 := Safe.of_ok (Reader.enter_safe _ _ _ _) he r1 rfl
          split at h
          · cases h
          · rename_i b r2 hr
            have h2 := Reader.readBytes_dyn hr
            cases h
            simp only [AdvS] at h1
            simp only [Value.dyn]
            omega
      | string =>
        simp only [decodeField] at h
        split at h
        · cases h
        · cases h; simp [Value.dyn]
        · rename_i r1 he
          have h1 := Safe.of_ok (Reader.enter_safe _ _ _ _) he r1 rfl
          split at h
          · cases h
          · rename_i b r2 hr
            have h2 := Reader.readString_dyn hr
            cases h
            simp only [AdvS] at h1
            simp only [Value.dyn]
            omega
      | bytesArr =>
        simp only [decodeField] at h
        split at h
        · cases h
        · rename_i l r1 he
          have h1 := readBytesArray_dyn _ _ _ _ _ _ he
          cases h
          simp only [Value.dyn]
          simp only [baSize] at h1
          omega
      | uints =>
        simp only [decodeField] at h
        split at h
        · cases h
        · cases h; simp [Value.dyn]
        · rename_i r1 he
          have h1 := Safe.of_ok (Reader.enterArr_safe _ _ _) he r1 rfl
          split at h
          · cases h
          · rename_i len r2 hr
            have h2 := Safe.of_ok (Reader.readUInt_safe r1) hr
            split at h
            · cases h
            · rename_i l r3 he3
              have h3 := readPackedUInts_dyn _ _ _ _ _ _ he3
              cases h
              simp only [AdvS] at h1 h2
              simp only [List.length_nil] at h3
              simp only [Value.dyn]
              omega
      | msg name =>
        simp only [decodeField] at h
        split at h
        · cases h
        · cases h
          simp only [Value.dyn_defaultMsg]
          omega
        · rename_i r1 he
          have h1 := Safe.of_ok (Reader.enter_safe _ _ _ _) he r1 rfl
          have h2 := ihN name r1 v r' h
          simp only [AdvS] at h1
          omega
      | msgArr name =>
        simp only [decodeField] at h
        split at h
        · cases h
        · rename_i l r1 he
          have h1 := ihA name num r [] l r1 he
          cases h
          simp only [Value.dyn]
          simp only [Value.dynLL] at h1
          omega
      | unknown src => simp [decodeField] at h
    · -- decodeNested
      intro name r v r' h
      simp only [decodeNested] at h
      split at h
      · cases h
      · rename_i size r2 hr
        have h2 := Safe.of_ok (Reader.readUInt_safe r) hr
        simp only [AdvS] at h2
        split at h
        · cases h
        · rename_i s hs
          split at h
          · cases h
          · rename_i vals rn he
            have h3 := ihFs _ _ _ _ he
            cases h
            simp only [Value.dyn]
            simp only at h3
            omega
    · -- decodeMsgArr
      intro name fn r acc l r' h
      simp only [decodeMsgArr] at h
      split at h
      · split at h
        · cases h
        · cases h; omega
        · rename_i r1 he
          have h1 := Safe.of_ok (Reader.enterArr_safe _ _ _) he r1 rfl
          simp only [AdvS] at h1
          split at h
          · cases h
          · rename_i pres vals r2 he2
            have h2 := ihN name r1 _ r2 he2
            have h3 := ihA name fn r2 _ l r' h
            rw [Value.dynLL_append] at h3
            simp only [Value.dyn] at h2
            omega
          · cases h
      · cases h; omega

/-- `decodeFields` from any reader state, any fuel: dynamic size of the result ≤ bytes consumed -/
theorem decodeFields_dyn (t : Table) (nfc : NFC) {fuel : Nat} {fs : List Field} {r r' : Reader}
    {vs : List Value} (h : decodeFields t nfc fuel fs r = .ok (vs, r')) :
    Value.dynList vs + r.index ≤ r'.index :=
  (decode_dyn_aux t nfc fuel).1 fs r vs r' h

/-! ### size of the whole decoded tree (static part included) -/

mutual
/-- number of nodes of a decoded value: every scalar, every struct (also the default structs
`creator()` returns for absent fields), every array, every element, every byte -/
def Value.nodes : Value → Nat
  | .uint _ => 1
  | .int _ => 1
  | .bool _ => 1
  | .bytes b => 1 + b.length
  | .bytesArr l => 1 + baSize l
  | .uints l => 1 + l.length
  | .msg _ fields => 1 + Value.nodesList fields
  | .msgArr l => 1 + Value.nodesLL l
def Value.nodesList : List Value → Nat
  | [] => 0
  | v :: vs => Value.nodes v + Value.nodesList vs
def Value.nodesLL : List (List Value) → Nat
  | [] => 0
  | vs :: r => 1 + Value.nodesList vs + Value.nodesLL r
end

theorem Value.nodesLL_append (l : List (List Value)) (vs : List Value) :
    Value.nodesLL (l ++ [vs]) = Value.nodesLL l + 1 + Value.nodesList vs := by
  induction l with
  | nil => simp [Value.nodesLL]
  | cons a r ih => simp only [List.cons_append, Value.nodesLL, ih]; omega

/-- static size of one field given the static sizes `σ` of the structs: the field itself, plus the
struct behind a `.msg` pointer (present or default) -/
def staticField (σ : String → Nat) (f : Field) : Nat :=
  match f.kind with
  | .msg n => 1 + σ n
  | _ => 1

def staticFields (σ : String → Nat) : List Field → Nat
  | [] => 0
  | f :: fs => staticField σ f + staticFields σ fs

/-- `σ` bounds the static size of every struct of the table (closed under nesting) by less than 40 -/
def staticOK (t : Table) (σ : String → Nat) : Bool :=
  t.all fun s => decide (staticFields σ s.dec ≤ σ s.name) && decide (σ s.name < 40)

theorem staticOK_find {t : Table} {σ : String → Nat} (h : staticOK t σ = true) {name : String}
    {s : Schema} (hf : t.find name = some s) : staticFields σ s.dec ≤ σ name ∧ σ name < 40 := by
  unfold Table.find at hf
  have hm := List.mem_of_find?_eq_some hf
  have hn : s.name = name := by simpa using List.find?_some hf
  have := List.all_eq_true.mp h s hm
  simp only [Bool.and_eq_true, decide_eq_true_eq] at this
  rw [hn] at this
  exact this

theorem staticField_pos (σ : String → Nat) (f : Field) : 1 ≤ staticField σ f := by
  unfold staticField; split <;> omega

theorem Value.nodes_zeroValue (k : Kind) : Value.nodes (zeroValue k) = 1 := by
  cases k <;> simp [zeroValue, Value.nodes, Value.nodesList, Value.nodesLL, baSize]

theorem Value.nodesList_zeros (σ : String → Nat) (fs : List Field) :
    Value.nodesList (fs.map fun f => zeroValue f.kind) ≤ staticFields σ fs := by
  induction fs with
  | nil => simp [Value.nodesList, staticFields]
  | cons f r ih =>
    have := staticField_pos σ f
    simp only [List.map_cons, Value.nodesList, Value.nodes_zeroValue, staticFields]
    omega

theorem Value.nodes_defaultMsg {t : Table} {σ : String → Nat} (h : staticOK t σ = true)
    (name : String) : Value.nodes (defaultMsg t name) ≤ 1 + σ name := by
  unfold defaultMsg
  split
  · rename_i s hf
    have h1 := (staticOK_find h hf).1
    have h2 := Value.nodesList_zeros σ s.dec
    simp only [Value.nodes]
    omega
  · simp [Value.nodes, Value.nodesList]

set_option hygiene false in
/-- single-value field of static size: `enter` then one primitive read -/
local macro "nodes_scalar" rd:term : tactic => `(tactic| (
  split at h
  · cases h
  · cases h; simp [Value.nodes, staticField]
  · rename_i r1 he
    have h1 := Safe.of_ok (Reader.enter_safe _ _ _ _) he r1 rfl
    split at h
    · cases h
    · rename_i v r2 hr
      have h2 := Safe.of_ok ($rd r1) hr
      cases h
      simp only [AdvS] at h1 h2
      simp only [Value.nodes, staticField]
      omega))

/-- **The whole decoded tree is paid for by the static size of the struct plus 40 nodes per consumed
byte**, for every table with a static-size bound `σ`, every NFC implementation, fuel and reader state. -/
theorem decode_nodes_aux (t : Table) (nfc : NFC) (σ : String → Nat) (hσ : staticOK t σ = true) :
    ∀ fuel : Nat,
    (∀ (fs : List Field) (r : Reader) (vs : List Value) (r' : Reader),
      decodeFields t nfc fuel fs r = .ok (vs, r') →
      Value.nodesList vs + 40 * r.index ≤ staticFields σ fs + 40 * r'.index) ∧
    (∀ (f : Field) (r : Reader) (v : Value) (r' : Reader),
      decodeField t nfc fuel f r = .ok (v, r') →
      Value.nodes v + 40 * r.index ≤ staticField σ f + 40 * r'.index) ∧
    (∀ (name : String) (r : Reader) (v : Value) (r' : Reader),
      decodeNested t nfc fuel name r = .ok (v, r') →
      Value.nodes v + 40 * r.index + 40 ≤ 1 + σ name + 40 * r'.index ∧ σ name < 40) ∧
    (∀ (name : String) (fn : Nat) (r : Reader) (acc l : List (List Value)) (r' : Reader),
      decodeMsgArr t nfc fuel name fn r acc = .ok (l, r') →
      Value.nodesLL l + 40 * r.index ≤ Value.nodesLL acc + 40 * r'.index) := by
  intro fuel
  induction fuel with
  | zero =>
    refine ⟨?_, ?_, ?_, ?_⟩
    · intro fs r vs r' h
      cases fs with
      | nil => simp only [decodeFields] at h; cases h; simp [Value.nodesList, staticFields]
      | cons f fs => simp [decodeFields] at h
    · intro f r v r' h; simp [decodeField] at h
    · intro name r v r' h; simp [decodeNested] at h
    · intro name fn r acc l r' h; simp [decodeMsgArr] at h
  | succ fuel ih =>
    obtain ⟨ihFs, ihF, ihN, ihA⟩ := ih
    refine ⟨?_, ?_, ?_, ?_⟩
    · -- decodeFields
      intro fs r vs r' h
      cases fs with
      | nil => simp only [decodeFields] at h; cases h; simp [Value.nodesList, staticFields]
      | cons f fs =>
        simp only [decodeFields] at h
        split at h
        · cases h
        · rename_i v r1 he
          have h1 := ihF f r v r1 he
          split at h
          · cases h
          · rename_i vs' r2 he2
            have h2 := ihFs fs r1 vs' r2 he2
            cases h
            simp only [Value.nodesList, staticFields]
            omega
    · -- decodeField
      intro f r v r' h
      obtain ⟨num, kind, st⟩ := f
      cases kind with
      | uint => simp only [decodeField] at h; nodes_scalar Reader.readUInt_safe
      | uint32 => simp only [decodeField] at h; nodes_scalar Reader.readUInt_safe
      | int32 => simp only [decodeField] at h; nodes_scalar Reader.readUInt_safe
      | bool => simp only [decodeField] at h; nodes_scalar Reader.readBool_safe
      | bytes =>
        simp only [decodeField] at h
        split at h
        · cases h
        · cases h; simp [Value.nodes, staticField]
        · rename_i r1 he
          have h1 := Safe.of_ok (Reader.enter_safe _ _ _ _) he r1 rfl
          split at h
          · cases h
          · rename_i b r2 hr
            have h2 := Reader.readBytes_dyn hr
            cases h
            simp only [AdvS] at h1
            simp only [Value.nodes, staticField]
            omega
      | string =>
        simp only [decodeField] at h
        split at h
        · cases h
        · cases h; simp [Value.nodes, staticField]
        · rename_i r1 he
          have h1 := Safe.of_ok (Reader.enter_safe _ _ _ _) he r1 rfl
          split at h
          · cases h
          · rename_i b r2 hr
            have h2 := Reader.readString_dyn hr
            cases h
            simp only [AdvS] at h1
            simp only [Value.nodes, staticField]
            omega
      | bytesArr =>
        simp only [decodeField] at h
        split at h
        · cases h
        · rename_i l r1 he
          have h1 := readBytesArray_dyn _ _ _ _ _ _ he
          cases h
          simp only [Value.nodes, staticField]
          simp only [baSize] at h1
          omega
      | uints =>
        simp only [decodeField] at h
        split at h
        · cases h
        · cases h; simp [Value.nodes, staticField]
        · rename_i r1 he
          have h1 := Safe.of_ok (Reader.enterArr_safe _ _ _) he r1 rfl
          split at h
          · cases h
          · rename_i len r2 hr
            have h2 := Safe.of_ok (Reader.readUInt_safe r1) hr
            split at h
            · cases h
            · rename_i l r3 he3
              have h3 := readPackedUInts_dyn _ _ _ _ _ _ he3
              cases h
              simp only [AdvS] at h1 h2
              simp only [List.length_nil] at h3
              simp only [Value.nodes, staticField]
              omega
      | msg name =>
        simp only [decodeField] at h
        split at h
        · cases h
        · cases h
          have := Value.nodes_defaultMsg hσ name
          simp only [staticField]
          omega
        · rename_i r1 he
          have h1 := Safe.of_ok (Reader.enter_safe _ _ _ _) he r1 rfl
          have h2 := (ihN name r1 v r' h).1
          simp only [AdvS] at h1
          simp only [staticField]
          omega
      | msgArr name =>
        simp only [decodeField] at h
        split at h
        · cases h
        · rename_i l r1 he
          have h1 := ihA name num r [] l r1 he
          cases h
          simp only [Value.nodes, staticField]
          simp only [Value.nodesLL] at h1
          omega
      | unknown src => simp [decodeField] at h
    · -- decodeNested
      intro name r v r' h
      simp only [decodeNested] at h
      split at h
      · cases h
      · rename_i size r2 hr
        have h2 := Safe.of_ok (Reader.readUInt_safe r) hr
        simp only [AdvS] at h2
        split at h
        · cases h
        · rename_i s hs
          obtain ⟨hs1, hs2⟩ := staticOK_find hσ hs
          split at h
          · cases h
          · rename_i vals rn he
            have h3 := ihFs _ _ _ _ he
            cases h
            simp only [Value.nodes]
            simp only at h3
            exact ⟨by omega, hs2⟩
    · -- decodeMsgArr
      intro name fn r acc l r' h
      simp only [decodeMsgArr] at h
      split at h
      · split at h
        · cases h
        · cases h; omega
        · rename_i r1 he
          have h1 := Safe.of_ok (Reader.enterArr_safe _ _ _) he r1 rfl
          simp only [AdvS] at h1
          split at h
          · cases h
          · rename_i pres vals r2 he2
            obtain ⟨h2, h2'⟩ := ihN name r1 _ r2 he2
            have h3 := ihA name fn r2 _ l r' h
            rw [Value.nodesLL_append] at h3
            simp only [Value.nodes] at h2
            omega
          · cases h
      · cases h; omega

/-- `decodeFields` from any reader state, any fuel -/
theorem decodeFields_nodes (t : Table) (nfc : NFC) (σ : String → Nat) (hσ : staticOK t σ = true)
    {fuel : Nat} {fs : List Field} {r r' : Reader} {vs : List Value}
    (h : decodeFields t nfc fuel fs r = .ok (vs, r')) :
    Value.nodesList vs + 40 * r.index ≤ staticFields σ fs + 40 * r'.index :=
  (decode_nodes_aux t nfc σ hσ fuel).1 fs r vs r' h

/-! ### weaker `strict` flags accept more, with the same result -/

/-- `f` is `g` with a possibly weaker `strict` flag -/
def laxerField (f g : Field) : Bool :=
  decide (f.num = g.num) && decide (f.kind = g.kind) && (!f.strict || g.strict)

def laxerFields : List Field → List Field → Bool
  | [], [] => true
  | f :: fs, g :: gs => laxerField f g && laxerFields fs gs
  | _, _ => false

theorem staticFields_lax (σ : String → Nat) : ∀ (fs gs : List Field), laxerFields fs gs = true →
    staticFields σ fs = staticFields σ gs := by
  intro fs
  induction fs with
  | nil =>
    intro gs h
    cases gs with
    | nil => rfl
    | cons g gs => simp [laxerFields] at h
  | cons f fs ih =>
    intro gs h
    cases gs with
    | nil => simp [laxerFields] at h
    | cons g gs =>
      simp only [laxerFields, laxerField, Bool.and_eq_true, decide_eq_true_eq] at h
      simp only [staticFields, staticField, h.1.1.2, ih gs h.2]

theorem Reader.enter_lax {r : Reader} {n wt : Nat} {sf sg : Bool} {o : Option Reader}
    (h : r.enter n wt sg = .ok o) (hs : (!sf || sg) = true) : r.enter n wt sf = .ok o := by
  cases sg with
  | false =>
    cases sf with
    | false => exact h
    | true => simp at hs
  | true =>
    unfold Reader.enter at h ⊢
    cases hc : r.check n wt with
    | ok r1 => rw [hc] at h; exact h
    | error e =>
      rw [hc] at h
      simp only at h
      split at h
      · cases h
      · simp at h

theorem decodeField_lax (t : Table) (nfc : NFC) {fuel : Nat} {f g : Field} {r : Reader}
    {x : Value × Reader} (hl : laxerField f g = true) (h : decodeField t nfc fuel g r = .ok x) :
    decodeField t nfc fuel f r = .ok x := by
  obtain ⟨num, kind, sf⟩ := f
  obtain ⟨num', kind', sg⟩ := g
  simp only [laxerField, Bool.and_eq_true, decide_eq_true_eq] at hl
  obtain ⟨⟨hn, hk⟩, hs⟩ := hl
  subst hn; subst hk
  cases fuel with
  | zero => simp [decodeField] at h
  | succ fuel =>
    cases kind with
    | uint =>
      simp only [decodeField] at h ⊢
      cases he : r.enter num 0 sg with
      | error e => rw [he] at h; cases h
      | ok o => rw [he] at h; rw [Reader.enter_lax he hs]; exact h
    | uint32 =>
      simp only [decodeField] at h ⊢
      cases he : r.enter num 0 sg with
      | error e => rw [he] at h; cases h
      | ok o => rw [he] at h; rw [Reader.enter_lax he hs]; exact h
    | int32 =>
      simp only [decodeField] at h ⊢
      cases he : r.enter num 0 sg with
      | error e => rw [he] at h; cases h
      | ok o => rw [he] at h; rw [Reader.enter_lax he hs]; exact h
    | bool =>
      simp only [decodeField] at h ⊢
      cases he : r.enter num 0 sg with
      | error e => rw [he] at h; cases h
      | ok o => rw [he] at h; rw [Reader.enter_lax he hs]; exact h
    | bytes =>
      simp only [decodeField] at h ⊢
      cases he : r.enter num 2 sg with
      | error e => rw [he] at h; cases h
      | ok o => rw [he] at h; rw [Reader.enter_lax he hs]; exact h
    | string =>
      simp only [decodeField] at h ⊢
      cases he : r.enter num 2 sg with
      | error e => rw [he] at h; cases h
      | ok o => rw [he] at h; rw [Reader.enter_lax he hs]; exact h
    | msg name =>
      simp only [decodeField] at h ⊢
      cases he : r.enter num 2 sg with
      | error e => rw [he] at h; cases h
      | ok o => rw [he] at h; rw [Reader.enter_lax he hs]; exact h
    | bytesArr => simp only [decodeField] at h ⊢; exact h
    | uints => simp only [decodeField] at h ⊢; exact h
    | msgArr name => simp only [decodeField] at h ⊢; exact h
    | unknown src => simp [decodeField] at h

theorem decodeFields_lax (t : Table) (nfc : NFC) : ∀ (fuel : Nat) (fs gs : List Field) (r : Reader)
    (x : List Value × Reader), laxerFields fs gs = true →
    decodeFields t nfc fuel gs r = .ok x → decodeFields t nfc fuel fs r = .ok x := by
  intro fuel
  induction fuel with
  | zero =>
    intro fs gs r x hl h
    cases fs with
    | nil =>
      cases gs with
      | nil => exact h
      | cons g gs => simp [laxerFields] at hl
    | cons f fs =>
      cases gs with
      | nil => simp [laxerFields] at hl
      | cons g gs => simp [decodeFields] at h
  | succ fuel ih =>
    intro fs gs r x hl h
    cases fs with
    | nil =>
      cases gs with
      | nil => exact h
      | cons g gs => simp [laxerFields] at hl
    | cons f fs =>
      cases gs with
      | nil => simp [laxerFields] at hl
      | cons g gs =>
        simp only [laxerFields, Bool.and_eq_true] at hl
        simp only [decodeFields] at h ⊢
        cases hd : decodeField t nfc fuel g r with
        | error e => rw [hd] at h; cases h
        | ok p =>
          obtain ⟨v, r1⟩ := p
          rw [hd] at h
          rw [decodeField_lax t nfc hl.1 hd]
          simp only at h ⊢
          cases hd2 : decodeFields t nfc fuel gs r1 with
          | error e => rw [hd2] at h; cases h
          | ok q =>
            rw [hd2] at h
            rw [ih fs gs r1 q hl.2 hd2]
            exact h

/-- `DecodeStrict` ok ⇒ `Decode` ok with the same value, for a struct whose lenient field list is
the strict one with weaker flags (true of every generated struct) -/
theorem decodeStrict_ok_decode_ok (t : Table) (nfc : NFC) (s : Schema) (data : Bytes)
    (vals : List Value) (hl : laxerFields s.dec s.decStrict = true)
    (h : decodeStrict t nfc s data = .ok vals) : decode t nfc s data = .ok vals := by
  unfold decodeStrict at h
  unfold decode
  cases hd : decodeFields t nfc (fuelFor data) s.decStrict (Reader.new data) with
  | error e => rw [hd] at h; cases h
  | ok p =>
    obtain ⟨vs, r⟩ := p
    rw [hd] at h
    simp only at h
    rw [decodeFields_lax t nfc _ _ _ _ _ hl hd]
    split at h
    · cases h
    · exact h

end LiskVerif.Codec
