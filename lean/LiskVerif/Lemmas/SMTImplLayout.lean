/-
Layout facts about layout trees (Lemmas/SMTImplTree.lean) and arranged trees (Lemmas/SMTImplSem.lean `Arr`):
the flattening has one depth per node, fills its subtree exactly (Kraft equality), `LT.collapse` is idempotent
and keeps the arrangement, and an arranged tree of at most 8 levels is a well-formed stored subtree.
Core Lean only.
-/
import LiskVerif.Lemmas.SMTImplCollapse
import LiskVerif.Lemmas.SMTImplSem
import LiskVerif.Lemmas.SMTImplCodec
namespace LiskVerif.SMTImpl
open LiskVerif LiskVerif.SMT

/-! ### flattening -/

theorem LT.length_nodes_depths (t : LT) (d : Nat) : (t.depths d).length = t.nodes.length := by
  induction t generalizing d with
  | tip n => simp [LT.depths, LT.nodes]
  | br l r ihl ihr => simp [LT.depths, LT.nodes, ihl, ihr]

/-- Kraft equality: the layout fills the subtree exactly -/
theorem LT.kraft (t : LT) (d s : Nat) (h : t.maxDepth d ≤ s) :
    ((t.depths d).map fun x => 2 ^ (s - x)).sum = 2 ^ (s - d) := by
  induction t generalizing d with
  | tip n => simp [LT.depths]
  | br l r ihl ihr =>
    simp only [LT.maxDepth] at h
    have h1 := l.le_maxDepth (d + 1)
    have e : s - d = (s - (d + 1)) + 1 := by omega
    simp only [LT.depths, List.map_append, List.sum_append]
    rw [ihl (d + 1) (by omega), ihr (d + 1) (by omega), e, Nat.pow_succ]
    omega

theorem layout_length_le_sum (s : Nat) (l : List Nat) : l.length ≤ (l.map fun x => 2 ^ (s - x)).sum := by
  induction l with
  | nil => simp
  | cons a l ih =>
    have : 1 ≤ 2 ^ (s - a) := Nat.one_le_two_pow
    simp only [List.length_cons, List.map_cons, List.sum_cons]
    omega

theorem LT.nodes_le (t : LT) (d s : Nat) (h : t.maxDepth d ≤ s) : t.nodes.length ≤ 2 ^ (s - d) := by
  rw [← t.length_nodes_depths d, ← t.kraft d s h]
  exact layout_length_le_sum s _

theorem LT.depths_bounds (t : LT) (d : Nat) : ∀ x ∈ t.depths d, d ≤ x ∧ x ≤ t.maxDepth d := by
  induction t generalizing d with
  | tip n => intro x hx; simp [LT.depths] at hx; subst hx; simp [LT.maxDepth]
  | br l r ihl ihr =>
    intro x hx
    simp only [LT.depths, List.mem_append] at hx
    simp only [LT.maxDepth]
    rcases hx with hx | hx
    · have := ihl (d + 1) x hx; omega
    · have := ihr (d + 1) x hx; omega

/-! ### `collapse` -/

theorem layout_mergeTips_maxDepth (a b : Node) (d : Nat) : (mergeTips a b).maxDepth d ≤ d + 1 := by
  unfold mergeTips
  split
  · simp [LT.maxDepth]
  · split
    · simp [LT.maxDepth]
    · split
      · simp [LT.maxDepth]
      · simp [LT.maxDepth]

theorem LT.collapse_maxDepth (t : LT) (d : Nat) : t.collapse.maxDepth d ≤ t.maxDepth d := by
  induction t generalizing d with
  | tip n => simp [LT.collapse]
  | br l r ihl ihr =>
    have hl := ihl (d + 1)
    have hr := ihr (d + 1)
    have h1 := l.le_maxDepth (d + 1)
    cases hcl : l.collapse with
    | tip a =>
      cases hcr : r.collapse with
      | tip b =>
        rw [LT.collapse_br_tip_tip hcl hcr]
        have := layout_mergeTips_maxDepth a b d
        simp only [LT.maxDepth]
        omega
      | br x y =>
        rw [LT.collapse_br_right hcr, hcl]
        rw [hcl] at hl; rw [hcr] at hr
        simp only [LT.maxDepth] at hl hr ⊢
        omega
    | br x y =>
      rw [LT.collapse_br_left hcl]
      rw [hcl] at hl
      simp only [LT.maxDepth] at hl hr ⊢
      omega

/-- no sibling pair that `calculateSubTree` would merge -/
def LT.Canon : LT → Prop
  | .tip _ => True
  | .br l r => l.Canon ∧ r.Canon ∧ ∀ a b, l = .tip a → r = .tip b → mergeTips a b = .br (.tip a) (.tip b)

theorem layout_mergeTips_canon (a b : Node) : (mergeTips a b).Canon := by
  by_cases h1 : a.kind = .empty ∧ b.kind = .empty
  · simp [mergeTips, h1, LT.Canon]
  · by_cases h2 : a.kind = .empty ∧ b.kind = .leaf
    · simp [mergeTips, h2, LT.Canon]
    · by_cases h3 : a.kind = .leaf ∧ b.kind = .empty
      · simp [mergeTips, h3, LT.Canon]
      · have e : mergeTips a b = .br (.tip a) (.tip b) := by
          unfold mergeTips; rw [if_neg h1, if_neg h2, if_neg h3]
        rw [e]
        refine ⟨trivial, trivial, ?_⟩
        intro a' b' ha hb
        cases ha; cases hb
        exact e

theorem LT.collapse_canon (t : LT) : t.collapse.Canon := by
  induction t with
  | tip n => simp [LT.collapse, LT.Canon]
  | br l r ihl ihr =>
    cases hcl : l.collapse with
    | tip a =>
      cases hcr : r.collapse with
      | tip b =>
        rw [LT.collapse_br_tip_tip hcl hcr]
        exact layout_mergeTips_canon a b
      | br x y =>
        rw [LT.collapse_br_right hcr, hcl]
        rw [hcr] at ihr
        exact ⟨trivial, ihr, by intro a' b' _ hb; cases hb⟩
    | br x y =>
      rw [LT.collapse_br_left hcl]
      rw [hcl] at ihl
      exact ⟨ihl, ihr, by intro a' b' ha; cases ha⟩

theorem LT.collapse_of_canon (t : LT) (h : t.Canon) : t.collapse = t := by
  induction t with
  | tip n => rfl
  | br l r ihl ihr =>
    obtain ⟨hl, hr, hm⟩ := h
    have el := ihl hl
    have er := ihr hr
    cases l with
    | tip a =>
      cases r with
      | tip b =>
        rw [LT.collapse_br_tip_tip el er]
        exact hm a b rfl rfl
      | br x y => rw [LT.collapse_br_right er, el]
    | br x y => rw [LT.collapse_br_left el, er]

theorem LT.collapse_idem (t : LT) : t.collapse.collapse = t.collapse :=
  t.collapse.collapse_of_canon t.collapse_canon

/-! ### arranged trees -/

theorem layout_br_tips {H : HashFn} {S : Nat → List Entry → Bytes → Prop} {rem d : Nat} {a b : Node}
    {es : List Entry} (hm : mergeTips a b = .br (.tip a) (.tip b))
    (ta : ArrTip H S rem d a (goL es)) (tb : ArrTip H S rem d b (goR es)) :
    Arr H S (rem + 1) (d + 1) (mergeTips a b) es := by
  rw [hm]
  exact Arr.br _ _ _ _ _ (Arr.tip _ _ _ _ ta) (Arr.tip _ _ _ _ tb)

/-- a pair of sibling tips, merged as `calculateSubTree` does, arranges the same entries -/
theorem layout_merge {H : HashFn} {S : Nat → List Entry → Bytes → Prop} {rem d : Nat} {a b : Node}
    {es : List Entry} (hw : WFE (d + 1) es)
    (ta : ArrTip H S rem d a (goL es)) (tb : ArrTip H S rem d b (goR es)) :
    Arr H S (rem + 1) (d + 1) (mergeTips a b) es := by
  have hsum := length_goL_add_goR es (wfe_path_ne_nil hw)
  have ta' := ta
  have tb' := tb
  generalize hgl : goL es = gl at ta
  generalize hgr : goR es = gr at tb
  cases ta with
  | empty =>
    cases tb with
    | empty =>
      rw [hgl, hgr] at hsum
      have hes : es = [] := List.length_eq_zero_iff.mp (by simpa using hsum.symm)
      subst hes
      have e : mergeTips (newEmptyNode H) (newEmptyNode H) = .tip (newEmptyNode H) := by
        simp [mergeTips, newEmptyNode]
      rw [e]
      exact Arr.tip _ _ _ _ ArrTip.empty
    | leaf e' hv =>
      rw [hgl, hgr] at hsum
      have h1 : es.length = 1 := by simpa using hsum.symm
      obtain ⟨e, rfl⟩ := List.length_eq_one_iff.mp h1
      obtain ⟨hk, hvv⟩ := goR_single_kv hgr
      have e1 : mergeTips (newEmptyNode H) (newLeafNode H e'.key e'.value) =
          .tip (newLeafNode H e'.key e'.value) := by
        simp [mergeTips, newEmptyNode, newLeafNode]
      rw [e1, hk, hvv]
      exact Arr.tip _ _ _ _ (ArrTip.leaf e (by rw [← hvv]; exact hv))
    | stub es' h0 h2 hS =>
      exact layout_br_tips (by simp [mergeTips, newEmptyNode, newStubNode]) ta' tb'
  | leaf e' hv =>
    cases tb with
    | empty =>
      rw [hgl, hgr] at hsum
      have h1 : es.length = 1 := by simpa using hsum.symm
      obtain ⟨e, rfl⟩ := List.length_eq_one_iff.mp h1
      obtain ⟨hk, hvv⟩ := goL_single_kv hgl
      have e1 : mergeTips (newLeafNode H e'.key e'.value) (newEmptyNode H) =
          .tip (newLeafNode H e'.key e'.value) := by
        simp [mergeTips, newEmptyNode, newLeafNode]
      rw [e1, hk, hvv]
      exact Arr.tip _ _ _ _ (ArrTip.leaf e (by rw [← hvv]; exact hv))
    | leaf e'' hv' =>
      exact layout_br_tips (by simp [mergeTips, newLeafNode]) ta' tb'
    | stub es' h0 h2 hS =>
      exact layout_br_tips (by simp [mergeTips, newLeafNode, newStubNode]) ta' tb'
  | stub es' h0 h2 hS =>
    cases tb with
    | empty =>
      exact layout_br_tips (by simp [mergeTips, newEmptyNode, newStubNode]) ta' tb'
    | leaf e'' hv' =>
      exact layout_br_tips (by simp [mergeTips, newLeafNode, newStubNode]) ta' tb'
    | stub es'' h0' h2' hS' =>
      exact layout_br_tips (by simp [mergeTips, newStubNode]) ta' tb'

/-- the collapsed tree arranges the same entries -/
theorem Arr.collapse {H : HashFn} {S : Nat → List Entry → Bytes → Prop} {rem d : Nat} {t : LT} {es : List Entry}
    (hw : WFE d es) (h : Arr H S rem d t es) : Arr H S rem d t.collapse es := by
  induction h with
  | tip rem d n es ht => exact Arr.tip _ _ _ _ ht
  | br rem d l r es _ _ ihl ihr =>
    have hl := ihl (wfe_goL hw)
    have hr := ihr (wfe_goR hw)
    cases hcl : l.collapse with
    | tip a =>
      cases hcr : r.collapse with
      | tip b =>
        rw [LT.collapse_br_tip_tip hcl hcr]
        rw [hcl] at hl; rw [hcr] at hr
        have ta : ArrTip H S rem d a (goL es) := by cases hl; assumption
        have tb : ArrTip H S rem d b (goR es) := by cases hr; assumption
        exact layout_merge hw ta tb
      | br x y =>
        rw [LT.collapse_br_right hcr, hcl]
        rw [hcl] at hl; rw [hcr] at hr
        exact Arr.br _ _ _ _ _ hl hr
    | br x y =>
      rw [LT.collapse_br_left hcl]
      rw [hcl] at hl
      exact Arr.br _ _ _ _ _ hl hr

/-- depth bound of an arranged tree: a tree rooted with `rem` levels left is at most `rem` deep -/
theorem Arr.maxDepth_le {H : HashFn} {S : Nat → List Entry → Bytes → Prop} {rem d : Nat} {t : LT} {es : List Entry}
    (h : Arr H S rem d t es) (dpt : Nat) : t.maxDepth dpt ≤ dpt + rem := by
  induction h generalizing dpt with
  | tip rem d n es ht => simp [LT.maxDepth]
  | br rem d l r es _ _ ihl ihr =>
    have h1 := ihl (dpt + 1)
    have h2 := ihr (dpt + 1)
    simp only [LT.maxDepth]
    omega

theorem layout_root_length {c : Cfg} (hH : ∀ x, (c.H x).length = c.hashSize) (d : Nat) (es : List Entry)
    (h2 : 2 ≤ es.length) : (root c.H d es).length = c.hashSize := by
  cases d with
  | zero => rw [root_zero_two c.H es h2]; exact hH _
  | succ d => rw [root_succ_two c.H d es h2]; exact hH _

/-- the nodes of an arranged tree are well-formed record nodes -/
theorem Arr.wfNodes {c : Cfg} {S : Nat → List Entry → Bytes → Prop} {rem d : Nat} {t : LT} {es : List Entry}
    (h : Arr c.H S rem d t es) (hk : ∀ e ∈ es, e.key.length = c.keyLen ∧ e.value.length = c.hashSize)
    (hH : ∀ x, (c.H x).length = c.hashSize) : ∀ n ∈ t.nodes, WFNode c n := by
  induction h with
  | tip rem d n es ht =>
    intro m hm
    simp only [LT.nodes, List.mem_singleton] at hm
    subst hm
    cases ht with
    | empty => exact Or.inl rfl
    | leaf e hv =>
      obtain ⟨h1, h2⟩ := hk e (by simp)
      exact Or.inr (Or.inl ⟨e.key, e.value, h1, h2, rfl⟩)
    | stub es h0 h2 hS =>
      exact Or.inr (Or.inr ⟨root c.H d es, layout_root_length hH d es h2, rfl⟩)
  | br rem d l r es _ _ ihl ihr =>
    intro m hm
    simp only [LT.nodes, List.mem_append] at hm
    rcases hm with hm | hm
    · refine ihl ?_ m hm
      intro e' he'
      obtain ⟨e, he, _, hk', hv'⟩ := mem_goL.mp he'
      rw [hk', hv']; exact hk e he
    · refine ihr ?_ m hm
      intro e' he'
      obtain ⟨e, he, _, hk', hv'⟩ := mem_goR.mp he'
      rw [hk', hv']; exact hk e he

/-- an arranged tree no deeper than 8 levels is a well-formed stored subtree -/
theorem Arr.wfSub {c : Cfg} {S : Nat → List Entry → Bytes → Prop} {d : Nat} {t : LT} {es : List Entry}
    (h : Arr c.H S c.sth d t es) (hs : c.sth ≤ 8)
    (hk : ∀ e ∈ es, e.key.length = c.keyLen ∧ e.value.length = c.hashSize)
    (hH : ∀ x, (c.H x).length = c.hashSize) : WFSub c ⟨t.depths 0, t.hash c.H, t.nodes⟩ := by
  have hm : t.maxDepth 0 ≤ c.sth := by simpa using h.maxDepth_le 0
  refine ⟨t.length_nodes_depths 0, t.nodes_length_pos, ?_, ?_, h.wfNodes hk hH, newSubtreeFromData_tree c.H t⟩
  · have h1 := t.nodes_le 0 c.sth hm
    have h2 : 2 ^ (c.sth - 0) ≤ 2 ^ 8 := Nat.pow_le_pow_right (by omega) (by omega)
    show t.nodes.length ≤ 256
    omega
  · intro x hx
    have := (t.depths_bounds 0 x hx).2
    omega

#print axioms LiskVerif.SMTImpl.Arr.collapse
#print axioms LiskVerif.SMTImpl.Arr.wfSub

end LiskVerif.SMTImpl
