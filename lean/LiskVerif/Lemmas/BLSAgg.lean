/-
Lemmas about Model/BLSAgg.lean: the loops of BLSVerifyAggSig / BLSVerifyWeightedAggSig compute the
flagged sub-lists and the (wrapping) sum of the flagged weights; with the length guards they never
leave the bitmap or the weight slice.
-/
import LiskVerif.Model.BLSAgg

namespace LiskVerif.BLSAgg

theorem u64_pos : 0 < u64 := by decide

/-- inside the bitmap `Bits.read` returns the bit of the specification -/
theorem bitsRead_eq (bits : Bytes) (i : Nat) (h : i / 8 < bits.length) :
    bitsRead bits i = some (bitSet bits i) := by
  unfold bitsRead bitSet
  have hx : bits[i / 8]? = some bits[i / 8] := List.getElem?_eq_getElem h
  rw [hx]
  simp only [List.getD_eq_getElem?_getD, hx, Option.getD_some, Nat.shiftRight_eq_div_pow]

/-- outside the bitmap `Bits.read` panics -/
theorem bitsRead_none (bits : Bytes) (i : Nat) (h : bits.length ≤ i / 8) : bitsRead bits i = none := by
  unfold bitsRead
  rw [List.getElem?_eq_none h]

theorem flaggedFrom_length_le {α : Type} (bits : Bytes) : ∀ (l : List α) (i : Nat), (flaggedFrom bits i l).length ≤ l.length
  | [], _ => by simp [flaggedFrom]
  | a :: r, i => by
    unfold flaggedFrom
    split
    · simp only [List.length_cons]; have := flaggedFrom_length_le bits r (i + 1); omega
    · simp only [List.length_cons]; have := flaggedFrom_length_le bits r (i + 1); omega

/-- the flagged sub-list only depends on the list length for its shape: two lists of the same length are
flagged at the same positions -/
theorem flaggedFrom_length_eq {α β : Type} (bits : Bytes) :
    ∀ (l : List α) (l' : List β) (i : Nat), l.length = l'.length →
      (flaggedFrom bits i l).length = (flaggedFrom bits i l').length
  | [], [], _, _ => by simp [flaggedFrom]
  | [], _ :: _, _, h => by simp at h
  | _ :: _, [], _, h => by simp at h
  | a :: r, b :: r', i, h => by
    have ih := flaggedFrom_length_eq bits r r' (i + 1) (by simpa using h)
    unfold flaggedFrom
    split <;> simp [ih]

theorem flaggedFrom_sum_le (bits : Bytes) : ∀ (l : List Nat) (i : Nat), (flaggedFrom bits i l).sum ≤ l.sum
  | [], _ => by simp [flaggedFrom]
  | a :: r, i => by
    unfold flaggedFrom
    have := flaggedFrom_sum_le bits r (i + 1)
    split
    · simp only [List.sum_cons]; omega
    · simp only [List.sum_cons]; omega

/-- the flagged sub-list depends only on the bits at the positions of the list -/
theorem flaggedFrom_congr {α : Type} (b1 b2 : Bytes) :
    ∀ (l : List α) (i : Nat), (∀ j, i ≤ j → j < i + l.length → bitSet b1 j = bitSet b2 j) →
      flaggedFrom b1 i l = flaggedFrom b2 i l
  | [], _, _ => by simp [flaggedFrom]
  | a :: r, i, h => by
    have h0 : bitSet b1 i = bitSet b2 i := h i (Nat.le_refl _) (by simp)
    have ih := flaggedFrom_congr b1 b2 r (i + 1) (fun j hj hj' => h j (by omega) (by simp only [List.length_cons]; omega))
    unfold flaggedFrom
    rw [h0, ih]

/-- **the selection loop** inside the bitmap: the accumulated keys followed by the flagged ones -/
theorem selectLoop_eq {κ : Type} (bits : Bytes) :
    ∀ (ks : List κ) (i : Nat) (acc : List κ), i + ks.length ≤ 8 * bits.length →
      selectLoop bits i ks acc = some (acc ++ flaggedFrom bits i ks)
  | [], _, acc, _ => by simp [selectLoop, flaggedFrom]
  | k :: ks, i, acc, h => by
    have hi : i / 8 < bits.length := by simp only [List.length_cons] at h; omega
    have ih := fun acc' => selectLoop_eq bits ks (i + 1) acc' (by simp only [List.length_cons] at h; omega)
    unfold selectLoop flaggedFrom
    rw [bitsRead_eq bits i hi]
    cases hb : bitSet bits i
    · simp only [ih, Bool.false_eq_true, if_false]
    · simp only [ih, if_true, List.append_assoc, List.singleton_append]

/-- **the weighted loop** inside bitmap and weight slice: the flagged keys and the wrapping sum of the
flagged weights (`ws` = the weights at the positions of `ks`) -/
theorem weightedLoop_eq {κ : Type} (bits : Bytes) (weights : List Nat) :
    ∀ (ks : List κ) (ws : List Nat) (i : Nat) (acc : List κ) (s : Nat),
      ws.length = ks.length → (∀ j, j < ks.length → weights[i + j]? = ws[j]?) →
      i + ks.length ≤ 8 * bits.length → s < u64 →
      weightedLoop bits weights i ks acc s =
        some (acc ++ flaggedFrom bits i ks, (s + (flaggedFrom bits i ws).sum) % u64)
  | [], [], _, acc, s, _, _, _, hs => by
    simp [weightedLoop, flaggedFrom, Nat.mod_eq_of_lt hs]
  | [], _ :: _, _, _, _, hl, _, _, _ => by simp at hl
  | _ :: _, [], _, _, _, hl, _, _, _ => by simp at hl
  | k :: ks, w :: ws, i, acc, s, hl, hw, h, hs => by
    have hi : i / 8 < bits.length := by simp only [List.length_cons] at h; omega
    have hwi : weights[i]? = some w := by
      have := hw 0 (by simp)
      simpa using this
    have hw' : ∀ j, j < ks.length → weights[i + 1 + j]? = ws[j]? := by
      intro j hj
      have := hw (j + 1) (by simp only [List.length_cons]; omega)
      rw [show i + (j + 1) = i + 1 + j by omega] at this
      simpa using this
    have hl' : ws.length = ks.length := by simpa using hl
    have ih := fun acc' s' hs' =>
      weightedLoop_eq bits weights ks ws (i + 1) acc' s' hl' hw' (by simp only [List.length_cons] at h; omega) hs'
    unfold weightedLoop
    rw [bitsRead_eq bits i hi]
    cases hb : bitSet bits i
    · simp only []
      rw [ih acc s hs]
      simp [flaggedFrom, hb]
    · simp only [hwi]
      rw [ih _ _ (Nat.mod_lt _ u64_pos)]
      simp only [flaggedFrom, hb, if_true, List.sum_cons, List.append_assoc, List.singleton_append]
      congr 2
      rw [Nat.add_mod, Nat.mod_mod, ← Nat.add_mod, Nat.add_assoc]

end LiskVerif.BLSAgg
