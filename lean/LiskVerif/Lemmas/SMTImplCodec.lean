/-
Stored subtree records (Model/SMTImpl.lean `SubTree.encode` / `newSubTree`): well-formed subtrees and the
decode ∘ encode round trip.
-/
import LiskVerif.Model.SMTImpl

namespace LiskVerif.SMTImpl
open LiskVerif LiskVerif.SMT

/-- the three kinds of node a stored subtree holds, with the field lengths the record format relies on -/
def WFNode (c : Cfg) (n : Node) : Prop :=
  n = newEmptyNode c.H ∨
  (∃ k v, k.length = c.keyLen ∧ v.length = c.hashSize ∧ n = newLeafNode c.H k v) ∨
  (∃ h, h.length = c.hashSize ∧ n = newStubNode h)

/-- well-formed subtree: one depth (< 256) per node, 1 … 256 nodes, well-formed nodes, and the root is the one
`newSubtreeFromData` computes -/
structure WFSub (c : Cfg) (t : SubTree) : Prop where
  len : t.struct.length = t.nodes.length
  pos : 1 ≤ t.nodes.length
  le : t.nodes.length ≤ 256
  small : ∀ s ∈ t.struct, s < 256
  nodes : ∀ n ∈ t.nodes, WFNode c n
  root : newSubtreeFromData c.H t.struct t.nodes = .ok t

theorem decodeNodes_nil (H : HashFn) (kl hs fuel : Nat) : decodeNodes H kl hs fuel [] = .ok [] := by
  cases fuel <;> rfl

theorem decodeNodes_flat (c : Cfg) : ∀ (ns : List Node) (fuel : Nat), (∀ n ∈ ns, WFNode c n) → ns.length ≤ fuel →
    decodeNodes c.H c.keyLen c.hashSize fuel (ns.flatMap (·.data)) = .ok ns
  | [], fuel, _, _ => by simp [decodeNodes_nil]
  | n :: ns, 0, _, h => by simp at h
  | n :: ns, fuel + 1, hw, h => by
    have ih := decodeNodes_flat c ns fuel (fun x hx => hw x (List.mem_cons_of_mem _ hx)) (by simpa using h)
    rcases hw n (List.mem_cons_self) with rfl | ⟨k, v, hk, hv, rfl⟩ | ⟨hh, hl, rfl⟩
    · simp [newEmptyNode, decodeNodes, ih, Except.map]
    · have h1 : ¬ (k ++ v ++ ns.flatMap (·.data)).length < c.keyLen + c.hashSize := by
        simp [List.length_append]; omega
      have h2 : (k ++ v ++ ns.flatMap (·.data)).drop (c.keyLen + c.hashSize) = ns.flatMap (·.data) := by
        rw [← hk, ← hv, ← List.length_append]; exact List.drop_left
      have h3 : (k ++ v ++ ns.flatMap (·.data)).take c.keyLen = k := by
        rw [← hk, List.append_assoc]; exact List.take_left
      have h4 : ((k ++ v ++ ns.flatMap (·.data)).drop c.keyLen).take c.hashSize = v := by
        rw [← hk, List.append_assoc, List.drop_left, ← hv]; exact List.take_left
      simp only [List.flatMap_cons, newLeafNode, List.cons_append, decodeNodes, if_true]
      rw [if_neg h1, h2, h3, h4, ih]
      rfl
    · have h1 : ¬ (hh ++ ns.flatMap (·.data)).length < c.hashSize := by
        simp [List.length_append]; omega
      have h2 : (hh ++ ns.flatMap (·.data)).drop c.hashSize = ns.flatMap (·.data) := by
        rw [← hl]; exact List.drop_left
      have h3 : (hh ++ ns.flatMap (·.data)).take c.hashSize = hh := by
        rw [← hl]; exact List.take_left
      simp only [List.flatMap_cons, newStubNode, List.cons_append, decodeNodes]
      simp only [if_true, if_neg h1, h2, h3, ih]
      simp [Except.map]

theorem map_toNat_ofNat (l : List Nat) (h : ∀ s ∈ l, s < 256) : (l.map UInt8.ofNat).map (·.toNat) = l := by
  induction l with
  | nil => rfl
  | cons a l ih =>
    have ha : a < 256 := h a List.mem_cons_self
    simp only [List.map_cons, ih (fun s hs => h s (List.mem_cons_of_mem _ hs))]
    congr 1
    simp [UInt8.toNat_ofNat']
    omega

/-- decode ∘ encode = id on well-formed subtrees -/
theorem newSubTree_encode (c : Cfg) (t : SubTree) (h : WFSub c t) : newSubTree c t.encode = .ok t := by
  have hl : (UInt8.ofNat (t.struct.length + 255)).toNat + 1 = t.struct.length := by
    have := h.pos; have := h.le; have := h.len
    simp [UInt8.toNat_ofNat']; omega
  have hlen : (t.struct.map UInt8.ofNat).length = t.struct.length := by simp
  unfold SubTree.encode newSubTree
  simp only [hl]
  rw [if_neg (by simp [List.length_append])]
  have h1 : (t.struct.map UInt8.ofNat ++ t.nodes.flatMap (·.data)).take t.struct.length = t.struct.map UInt8.ofNat := by
    rw [← hlen]; exact List.take_left
  have h2 : (t.struct.map UInt8.ofNat ++ t.nodes.flatMap (·.data)).drop t.struct.length = t.nodes.flatMap (·.data) := by
    rw [← hlen]; exact List.drop_left
  rw [h1, h2, map_toNat_ofNat _ h.small]
  have hd := decodeNodes_flat c t.nodes ((t.nodes.flatMap (·.data)).length + 1) h.nodes (by
    have : t.nodes.length ≤ (t.nodes.flatMap (·.data)).length := by
      have hw := h.nodes
      generalize t.nodes = ns at hw
      induction ns with
      | nil => simp
      | cons n ns ih =>
        have := ih (fun x hx => hw x (List.mem_cons_of_mem _ hx))
        have hn : 1 ≤ n.data.length := by
          rcases hw n List.mem_cons_self with rfl | ⟨k, v, _, _, rfl⟩ | ⟨hh, _, rfl⟩ <;>
            simp [newEmptyNode, newLeafNode, newStubNode]
        simp only [List.flatMap_cons, List.length_append, List.length_cons]; omega
    omega)
  simp only [hd]
  exact h.root

end LiskVerif.SMTImpl
