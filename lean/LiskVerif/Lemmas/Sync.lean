/-
Lemmas about the sync model (peer selection loops, height lookup, height helpers, downloader).
-/
import LiskVerif.Model.Sync
import LiskVerif.Lemmas.Sort

namespace LiskVerif.Sync

/-! ### `largestBy` is "filter by the maximum" -/

section Largest
variable {α : Type}

/-- running maximum of the keys, starting from `m` -/
def maxKey (key : α → Nat) : List α → Nat → Nat
  | [], m => m
  | v :: r, m => maxKey key r (max m (key v))

theorem le_maxKey (key : α → Nat) (l : List α) (m : Nat) : m ≤ maxKey key l m := by
  induction l generalizing m with
  | nil => exact Nat.le_refl _
  | cons v r ih =>
    have := ih (max m (key v))
    simp only [maxKey]
    omega

theorem key_le_maxKey (key : α → Nat) (l : List α) (m : Nat) (x : α) (hx : x ∈ l) :
    key x ≤ maxKey key l m := by
  induction l generalizing m with
  | nil => cases hx
  | cons v r ih =>
    simp only [maxKey]
    rcases List.mem_cons.mp hx with rfl | h
    · have := le_maxKey key r (max m (key x)); omega
    · exact ih _ h

theorem maxKey_attained (key : α → Nat) (l : List α) (m : Nat) :
    maxKey key l m = m ∨ ∃ x ∈ l, key x = maxKey key l m := by
  induction l generalizing m with
  | nil => exact Or.inl rfl
  | cons v r ih =>
    simp only [maxKey]
    rcases ih (max m (key v)) with h | ⟨x, hx, hk⟩
    · by_cases hm : key v ≤ m
      · left; rw [h]; omega
      · right; exact ⟨v, List.mem_cons_self, by rw [h]; omega⟩
    · right; exact ⟨x, List.mem_cons_of_mem _ hx, hk⟩

theorem largestByLoop_eq (key : α → Nat) (l : List α) (m : Nat) (res : List α)
    (hres : ∀ x ∈ res, key x = m) :
    largestByLoop key l m res
      = res.filter (fun x => key x == maxKey key l m) ++ l.filter (fun x => key x == maxKey key l m) := by
  induction l generalizing m res with
  | nil =>
    simp only [largestByLoop, maxKey, List.filter_nil, List.append_nil]
    rw [List.filter_eq_self.mpr]
    intro x hx; simp [hres x hx]
  | cons v r ih =>
    simp only [largestByLoop, maxKey]
    by_cases h1 : key v > m
    · simp only [h1, if_true]
      have hmax : max m (key v) = key v := by omega
      simp only [hmax]
      rw [ih (key v) [v] (by intro x hx; simp at hx; rw [hx])]
      have hge := le_maxKey key r (key v)
      have hnil : res.filter (fun x => key x == maxKey key r (key v)) = [] := by
        rw [List.filter_eq_nil_iff]
        intro x hx
        have := hres x hx
        simp; omega
      rw [hnil]
      simp only [List.filter_cons, List.filter_nil, List.nil_append]
      split <;> simp
    · simp only [h1, if_false]
      by_cases h2 : key v = m
      · simp only [h2, if_true]
        have hmax : max m m = m := by omega
        simp only [hmax]
        rw [ih m (res ++ [v]) (by
          intro x hx
          rcases List.mem_append.mp hx with h | h
          · exact hres x h
          · simp at h; rw [h]; exact h2)]
        simp only [List.filter_append, List.filter_cons, List.filter_nil, List.append_assoc]
        split <;> simp
      · simp only [h2, if_false]
        have hmax : max m (key v) = m := by omega
        simp only [hmax]
        rw [ih m res hres]
        have hge := le_maxKey key r m
        have : (key v == maxKey key r m) = false := by simp; omega
        simp [List.filter_cons, this]

/-- the maximum key of a non-empty list -/
def maxOf (key : α → Nat) : List α → Nat
  | [] => 0
  | v :: r => maxKey key (v :: r) (key v)

theorem largestBy_eq (key : α → Nat) (l : List α) :
    largestBy key l = l.filter (fun x => key x == maxOf key l) := by
  cases l with
  | nil => rfl
  | cons v r =>
    simp only [largestBy, maxOf]
    rw [largestByLoop_eq key (v :: r) (key v) [] (by intro x hx; cases hx)]
    simp

theorem le_maxOf (key : α → Nat) (l : List α) (x : α) (hx : x ∈ l) : key x ≤ maxOf key l := by
  cases l with
  | nil => cases hx
  | cons v r => exact key_le_maxKey key (v :: r) (key v) x hx

theorem maxOf_attained (key : α → Nat) (l : List α) (hl : l ≠ []) : ∃ x ∈ l, key x = maxOf key l := by
  cases l with
  | nil => exact absurd rfl hl
  | cons v r =>
    rcases maxKey_attained key (v :: r) (key v) with h | h
    · exact ⟨v, List.mem_cons_self, by simp only [maxOf]; rw [h]⟩
    · exact h

theorem mem_largestBy (key : α → Nat) (l : List α) (t : α) :
    t ∈ largestBy key l ↔ t ∈ l ∧ ∀ u ∈ l, key u ≤ key t := by
  rw [largestBy_eq]
  simp only [List.mem_filter, beq_iff_eq]
  constructor
  · rintro ⟨ht, hk⟩
    exact ⟨ht, fun u hu => by rw [hk]; exact le_maxOf key l u hu⟩
  · rintro ⟨ht, hall⟩
    refine ⟨ht, ?_⟩
    have h1 := le_maxOf key l t ht
    obtain ⟨x, hx, hxk⟩ := maxOf_attained key l (by intro h; rw [h] at ht; cases ht)
    have := hall x hx
    omega

theorem largestBy_ne_nil (key : α → Nat) (l : List α) (hl : l ≠ []) : largestBy key l ≠ [] := by
  obtain ⟨x, hx, hxk⟩ := maxOf_attained key l hl
  intro h
  have : x ∈ largestBy key l := by
    rw [largestBy_eq]; simp [hx, hxk]
  rw [h] at this; cases this

end Largest

/-! ### the `range frequency` loop -/

section Pick
variable {ι : Type}

/-- invariant of the loop state: `max` is the count of `blockID` -/
def PickInv (cnt : ι → Nat) (m : Nat) (cur : Option ι) : Prop :=
  (cur = none ∧ m = 0) ∨ ∃ c, cur = some c ∧ cnt c = m

theorem pickLoop_spec (cnt : ι → Nat) (order : List ι) (m : Nat) (cur : Option ι)
    (inv : PickInv cnt m cur) (i : ι) (h : pickLoop cnt order m cur = some i) :
    m ≤ cnt i ∧ (∀ j ∈ order, cnt j ≤ cnt i) ∧ (i ∈ order ∨ cur = some i) := by
  induction order generalizing m cur with
  | nil =>
    simp only [pickLoop] at h
    rcases inv with ⟨hn, _⟩ | ⟨c, hc, hm⟩
    · rw [hn] at h; cases h
    · rw [hc] at h; cases h
      exact ⟨by omega, fun j hj => (by cases hj), Or.inr hc⟩
  | cons j r ih =>
    simp only [pickLoop] at h
    by_cases hj : cnt j > m
    · simp only [hj, if_true] at h
      obtain ⟨h1, h2, h3⟩ := ih (cnt j) (some j) (Or.inr ⟨j, rfl, rfl⟩) h
      refine ⟨by omega, ?_, ?_⟩
      · intro k hk
        rcases List.mem_cons.mp hk with rfl | hk
        · exact h1
        · exact h2 k hk
      · left
        rcases h3 with h3 | h3
        · exact List.mem_cons_of_mem _ h3
        · cases h3; exact List.mem_cons_self
    · simp only [hj, if_false] at h
      obtain ⟨h1, h2, h3⟩ := ih m cur inv h
      refine ⟨h1, ?_, ?_⟩
      · intro k hk
        rcases List.mem_cons.mp hk with rfl | hk
        · omega
        · exact h2 k hk
      · rcases h3 with h3 | h3
        · exact Or.inl (List.mem_cons_of_mem _ h3)
        · exact Or.inr h3

theorem pickLoop_pos (cnt : ι → Nat) (order : List ι) (m : Nat) (cur : Option ι) (i : ι)
    (h : pickLoop cnt order m cur = some i) : cur = some i ∨ cnt i > m := by
  induction order generalizing m cur with
  | nil => exact Or.inl h
  | cons j r ih =>
    simp only [pickLoop] at h
    by_cases hj : cnt j > m
    · simp only [hj, if_true] at h
      rcases ih (cnt j) (some j) h with h1 | h1
      · cases h1; exact Or.inr hj
      · right; omega
    · simp only [hj, if_false] at h
      exact ih m cur h

theorem pickLoop_isSome (cnt : ι → Nat) (order : List ι) (m : Nat) (cur : Option ι)
    (h : cur ≠ none ∨ ∃ j ∈ order, cnt j > m) : ∃ i, pickLoop cnt order m cur = some i := by
  induction order generalizing m cur with
  | nil =>
    rcases h with h | ⟨j, hj, _⟩
    · cases cur with
      | none => exact absurd rfl h
      | some c => exact ⟨c, rfl⟩
    · cases hj
  | cons j r ih =>
    simp only [pickLoop]
    by_cases hj : cnt j > m
    · simp only [hj, if_true]
      exact ih (cnt j) (some j) (Or.inl (by simp))
    · simp only [hj, if_false]
      apply ih m cur
      rcases h with h | ⟨k, hk, hkm⟩
      · exact Or.inl h
      · rcases List.mem_cons.mp hk with rfl | hk
        · exact absurd hkm hj
        · exact Or.inr ⟨k, hk, hkm⟩

theorem pickLoop_keep (cnt : ι → Nat) (order : List ι) (m : Nat) (cur : Option ι)
    (h : ∀ j ∈ order, cnt j ≤ m) : pickLoop cnt order m cur = cur := by
  induction order generalizing m cur with
  | nil => rfl
  | cons j r ih =>
    simp only [pickLoop]
    have hj : ¬ cnt j > m := by have := h j List.mem_cons_self; omega
    simp only [hj, if_false]
    exact ih m cur (fun k hk => h k (List.mem_cons_of_mem _ hk))

theorem countId_pos_of_mem [DecidableEq ι] (l : List (Tip ι)) (t : Tip ι) (ht : t ∈ l) : countId l t.id > 0 := by
  unfold countId
  apply List.length_pos_of_mem (a := t)
  simp [ht]

end Pick

/-! ### height helpers -/

theorem u32_of_lt {n : Nat} (h : n < two32) : u32 n = n := Nat.mod_eq_of_lt h

theorem u32sub_of_le {a b : Nat} (hb : b ≤ a) (ha : a < two32) : u32sub a b = a - b := by
  unfold u32sub two32 at *
  omega

theorem gapLoop_spec (start minimum gap : Nat) (hs : start < two32) (fuel i : Nat)
    (hno : minimum + (i + fuel) * gap < two32) :
    ∃ k, k ≤ fuel ∧
      gapLoop start minimum gap fuel i = (List.range k).map (fun j => start - (i + j) * gap) ∧
      (∀ j, j < k → minimum + (i + j) * gap ≤ start) ∧
      (k < fuel → start < minimum + (i + k) * gap) := by
  induction fuel generalizing i with
  | zero => exact ⟨0, Nat.le_refl _, rfl, fun j hj => by omega, fun h => by omega⟩
  | succ f ih =>
    have hmono : i * gap ≤ (i + (f + 1)) * gap := Nat.mul_le_mul_right gap (by omega)
    have h1 : u32 (i * gap) = i * gap := u32_of_lt (by omega)
    have h2 : u32 (minimum + i * gap) = minimum + i * gap := u32_of_lt (by omega)
    simp only [gapLoop, h1, h2]
    by_cases hlt : start < minimum + i * gap
    · simp only [hlt, if_true]
      exact ⟨0, Nat.zero_le _, rfl, fun j hj => by omega, fun _ => by simpa using hlt⟩
    · simp only [hlt, if_false]
      have hno' : minimum + (i + 1 + f) * gap < two32 := by
        have : i + 1 + f = i + (f + 1) := by omega
        rw [this]; exact hno
      obtain ⟨k, hk, hlist, hall, hstop⟩ := ih (i + 1) hno'
      refine ⟨k + 1, by omega, ?_, ?_, ?_⟩
      · rw [hlist, u32sub_of_le (by omega) hs, List.range_succ_eq_map, List.map_cons, List.map_map]
        simp only [Nat.add_zero, List.cons.injEq, true_and]
        apply List.map_congr_left
        intro j _
        simp only [Function.comp]
        have : i + 1 + j = i + (j + 1) := by omega
        rw [this]
      · intro j hj
        cases j with
        | zero => simp only [Nat.add_zero]; omega
        | succ j' =>
          have := hall j' (by omega)
          have e : i + 1 + j' = i + (j' + 1) := by omega
          rw [e] at this; exact this
      · intro hkf
        have := hstop (by omega)
        have e : i + 1 + k = i + (k + 1) := by omega
        rw [e] at this; exact this

theorem lastLoop_eq_gapLoop (start fuel i : Nat) : lastLoop start fuel i = gapLoop start 0 1 fuel i := by
  induction fuel generalizing i with
  | zero => rfl
  | succ f ih =>
    simp only [lastLoop, gapLoop, Nat.mul_one, Nat.zero_add, ih]
    have : u32 (u32 i) = u32 i := by unfold u32; exact Nat.mod_mod _ _
    rw [this]

/-! ### applying blocks -/

section Apply
variable {ι : Type}

theorem applyAll_prefix (applies : List (Blk ι) → Blk ι → Bool) (c bs c' : List (Blk ι)) (ok : Bool)
    (h : applyAll applies c bs = (c', ok)) : ∃ app, c' = c ++ app ∧ (ok = true → app = bs) := by
  induction bs generalizing c with
  | nil =>
    simp only [applyAll, Prod.mk.injEq] at h
    exact ⟨[], by simp [h.1], fun _ => rfl⟩
  | cons b r ih =>
    simp only [applyAll] at h
    by_cases hb : applies c b = true
    · simp only [hb, if_true] at h
      obtain ⟨app, happ, hok⟩ := ih (c ++ [b]) h
      exact ⟨b :: app, by simp [happ], fun h1 => by rw [hok h1]⟩
    · simp only [hb, Bool.false_eq_true, if_false, Prod.mk.injEq] at h
      exact ⟨[], by simp [h.1], fun h1 => by rw [← h.2] at h1; cases h1⟩

theorem reapply_append (applies : List (Blk ι) → Blk ι → Bool) (c rest c'' rem : List (Blk ι))
    (h : reapply applies c rest = (c'', rem)) : c'' ++ rem = c ++ rest := by
  induction rest generalizing c with
  | nil =>
    simp only [reapply, Prod.mk.injEq] at h
    rw [← h.1, ← h.2]
  | cons b r ih =>
    simp only [reapply] at h
    by_cases hb : applies c b = true
    · simp only [hb, if_true] at h
      have := ih (c ++ [b]) h
      simpa using this
    · simp only [hb, Bool.false_eq_true, if_false, Prod.mk.injEq] at h
      rw [← h.1, ← h.2]

/-- every block of the chain (except the first) is accepted on top of the blocks below it -/
def ValidChain (applies : List (Blk ι) → Blk ι → Bool) (q : List (Blk ι)) : Prop :=
  ∀ pre b post, q = pre ++ b :: post → pre ≠ [] → applies pre b = true

theorem reapply_valid (applies : List (Blk ι) → Blk ι → Bool) (q c rest : List (Blk ι))
    (hv : ValidChain applies q) (hq : q = c ++ rest) (hc : c ≠ []) :
    reapply applies c rest = (q, []) := by
  induction rest generalizing c with
  | nil => simp [reapply, hq]
  | cons b r ih =>
    simp only [reapply]
    have hb : applies c b = true := hv c b r hq hc
    simp only [hb, if_true]
    exact ih (c ++ [b]) (by simp [hq]) (by simp)

theorem applyAll_valid (applies : List (Blk ι) → Blk ι → Bool) (p c rest : List (Blk ι))
    (hv : ValidChain applies p) (hp : p = c ++ rest) (hc : c ≠ []) :
    applyAll applies c rest = (p, true) := by
  induction rest generalizing c with
  | nil => simp [applyAll, hp]
  | cons b r ih =>
    simp only [applyAll]
    have hb : applies c b = true := hv c b r hp hc
    simp only [hb, if_true]
    exact ih (c ++ [b]) (by simp [hp]) (by simp)

theorem reapply_prefix (applies : List (Blk ι) → Blk ι → Bool) (c rest c'' rem : List (Blk ι))
    (h : reapply applies c rest = (c'', rem)) : ∃ app, c'' = c ++ app := by
  induction rest generalizing c with
  | nil =>
    simp only [reapply, Prod.mk.injEq] at h
    exact ⟨[], by simp [h.1]⟩
  | cons b r ih =>
    simp only [reapply] at h
    by_cases hb : applies c b = true
    · simp only [hb, if_true] at h
      obtain ⟨app, happ⟩ := ih (c ++ [b]) h
      exact ⟨b :: app, by simp [happ]⟩
    · simp only [hb, Bool.false_eq_true, if_false, Prod.mk.injEq] at h
      exact ⟨[], by simp [h.1]⟩

theorem streamApply_prefix (applies : List (Blk ι) → Blk ι → Bool) (c bs c' : List (Blk ι)) (r : Option SyncErr)
    (h : streamApply applies c bs = (c', r)) : ∃ app, c' = c ++ app := by
  induction bs generalizing c with
  | nil =>
    simp only [streamApply, Prod.mk.injEq] at h
    exact ⟨[], by simp [h.1]⟩
  | cons b rest ih =>
    simp only [streamApply] at h
    by_cases hok : (!b.ok) = true
    · simp only [hok, if_true, Prod.mk.injEq] at h
      exact ⟨[], by simp [h.1]⟩
    · simp only [hok, Bool.false_eq_true, if_false] at h
      by_cases hb : applies c b = true
      · simp only [hb, if_true] at h
        obtain ⟨app, happ⟩ := ih (c ++ [b]) h
        exact ⟨b :: app, by simp [happ]⟩
      · simp only [hb, Bool.false_eq_true, if_false, Prod.mk.injEq] at h
        exact ⟨[], by simp [h.1]⟩

theorem take_take_append {α : Type} (q app : List α) (k f : Nat) (hk : f + 1 ≤ k) (hq : f + 1 ≤ q.length) :
    (q.take k ++ app).take (f + 1) = q.take (f + 1) := by
  rw [List.take_append_of_le_length (by rw [List.length_take]; omega), List.take_take]
  congr 1
  omega

end Apply

/-! ### honest responder: lookups, segments, the downloader -/

section Honest
variable {ι : Type} [DecidableEq ι]

/-- the blocks follow a block with id `lid` at height `lh`: consecutive heights, `prev` links -/
def Linked : ι → Nat → List (Blk ι) → Prop
  | _, _, [] => True
  | lid, lh, b :: r => b.height = lh + 1 ∧ b.prev = lid ∧ Linked b.id b.height r

/-- id and height of the last block of `bs`, or the given ones when `bs` is empty -/
def lastOf : List (Blk ι) → ι → Nat → ι × Nat
  | [], lid, lh => (lid, lh)
  | b :: r, _, _ => lastOf r b.id b.height

theorem heightOf_split (pre : List (Blk ι)) (b : Blk ι) (post : List (Blk ι))
    (hpre : ∀ x ∈ pre, x.id ≠ b.id) : heightOf (pre ++ b :: post) b.id = some pre.length := by
  induction pre with
  | nil => simp [heightOf]
  | cons a r ih =>
    have ha : a.id ≠ b.id := hpre a List.mem_cons_self
    simp only [List.cons_append, heightOf, ha, if_false, List.length_cons]
    rw [ih (fun x hx => hpre x (List.mem_cons_of_mem _ hx))]
    rfl

theorem heightOf_lt_of_mem (pre post : List (Blk ι)) (x : Blk ι) (hx : x ∈ pre) (k : Nat)
    (hk : heightOf (pre ++ post) x.id = some k) : k < pre.length := by
  induction pre generalizing k with
  | nil => cases hx
  | cons a r ih =>
    simp only [List.cons_append, heightOf] at hk
    by_cases ha : a.id = x.id
    · simp only [ha, if_true] at hk
      cases hk
      simp
    · simp only [ha, if_false] at hk
      rcases List.mem_cons.mp hx with rfl | hx'
      · exact absurd rfl ha
      · cases hr : heightOf (r ++ post) x.id with
        | none => rw [hr] at hk; cases hk
        | some k' =>
          rw [hr] at hk
          simp only [Option.map_some, Option.some.injEq] at hk
          have := ih hx' k' hr
          simp only [List.length_cons]
          omega

theorem take_min_length {α : Type} (l : List α) (k : Nat) : l.take (min k l.length) = l.take k := by
  by_cases h : k ≤ l.length
  · rw [Nat.min_eq_left h]
  · have h' : l.length ≤ k := by omega
    rw [Nat.min_eq_right h', List.take_of_length_le h', List.take_of_length_le (Nat.le_refl _)]

theorem handleBlocksFromID_split (pre : List (Blk ι)) (b : Blk ι) (post : List (Blk ι))
    (hpre : ∀ x ∈ pre, x.id ≠ b.id) :
    handleBlocksFromID (fun _ => true) (pre ++ b :: post) (some b.id) = .blocks (post.take maxBlocksPerResponse) := by
  simp only [handleBlocksFromID, if_true, heightOf_split pre b post hpre]
  congr 1
  have hdrop : (pre ++ b :: post).drop (pre.length + 1) = post := by
    have : pre ++ b :: post = (pre ++ [b]) ++ post := by simp
    rw [this]
    exact List.drop_left' (by simp)
  rw [hdrop]
  have hlen : (pre ++ b :: post).length - 1 = pre.length + post.length := by
    rw [List.length_append, List.length_cons]; omega
  rw [hlen]
  have : min (pre.length + maxBlocksPerResponse) (pre.length + post.length) + 1 - (pre.length + 1)
      = min maxBlocksPerResponse post.length := by omega
  rw [this]
  exact take_min_length post maxBlocksPerResponse

theorem sortAsc_linked (lid : ι) (lh : Nat) (bs : List (Blk ι)) (h : Linked lid lh bs) : sortAsc bs = bs := by
  induction bs generalizing lid lh with
  | nil => rfl
  | cons a r ih =>
    obtain ⟨_, _, hr⟩ := h
    unfold sortAsc at ih ⊢
    simp only [isort]
    rw [ih a.id a.height hr]
    cases r with
    | nil => rfl
    | cons b r' =>
      obtain ⟨hb, _, _⟩ := hr
      simp only [insertBy]
      have : decide (a.height ≤ b.height) = true := by simp; omega
      simp [this]

theorem linked_append (lid : ι) (lh : Nat) (s r : List (Blk ι)) :
    Linked lid lh (s ++ r) ↔ Linked lid lh s ∧ Linked (lastOf s lid lh).1 (lastOf s lid lh).2 r := by
  induction s generalizing lid lh with
  | nil => simp [Linked, lastOf]
  | cons a s' ih =>
    simp only [List.cons_append, Linked, lastOf, ih a.id a.height]
    constructor
    · rintro ⟨h1, h2, h3, h4⟩; exact ⟨⟨h1, h2, h3⟩, h4⟩
    · rintro ⟨⟨h1, h2, h3⟩, h4⟩; exact ⟨h1, h2, h3, h4⟩

theorem lastOf_height (lid : ι) (lh : Nat) (s : List (Blk ι)) (h : Linked lid lh s) :
    (lastOf s lid lh).2 = lh + s.length ∧ ∀ x ∈ s, lh < x.height ∧ x.height ≤ lh + s.length := by
  induction s generalizing lid lh with
  | nil => simp [lastOf]
  | cons a s' ih =>
    obtain ⟨ha, _, hr⟩ := h
    obtain ⟨h1, h2⟩ := ih a.id a.height hr
    simp only [lastOf, List.length_cons]
    refine ⟨by omega, ?_⟩
    intro x hx
    rcases List.mem_cons.mp hx with rfl | hx
    · omega
    · have := h2 x hx; omega

theorem lastOf_append_singleton (lid : ι) (lh : Nat) (s : List (Blk ι)) (e : Blk ι) :
    lastOf (s ++ [e]) lid lh = (e.id, e.height) := by
  induction s generalizing lid lh with
  | nil => rfl
  | cons a s' ih => simp only [List.cons_append, lastOf, ih]

/-- scanning a linked response that does not contain the end block: everything is delivered and the
download continues after its last block -/
theorem scanSeg_cont (endId : ι) (endH : Nat) (bs : List (Blk ι)) (lid : ι) (lh : Nat)
    (hl : Linked lid lh bs) (hid : ∀ b ∈ bs, b.id ≠ endId) (hh : ∀ b ∈ bs, b.height < endH) :
    scanSeg endId endH bs lid lh = (bs, .cont (lastOf bs lid lh).1 (lastOf bs lid lh).2) := by
  induction bs generalizing lid lh with
  | nil => rfl
  | cons a r ih =>
    obtain ⟨h1, h2, hr⟩ := hl
    have ha := hid a List.mem_cons_self
    have hah := hh a List.mem_cons_self
    have hbad : ¬ (a.height ≠ lh + 1 ∨ a.prev ≠ lid ∨ (a.height ≥ endH ∧ a.id ≠ endId)) := by
      intro h; rcases h with h | h | h
      · exact h h1
      · exact h h2
      · omega
    simp only [scanSeg, hbad, if_false, ha, lastOf]
    rw [ih a.id a.height hr (fun b hb => hid b (List.mem_cons_of_mem _ hb)) (fun b hb => hh b (List.mem_cons_of_mem _ hb))]

/-- scanning a linked response that ends with the end block -/
theorem scanSeg_fin (endId : ι) (endH : Nat) (s : List (Blk ι)) (e : Blk ι) (lid : ι) (lh : Nat)
    (hl : Linked lid lh (s ++ [e])) (he : e.id = endId)
    (hid : ∀ b ∈ s, b.id ≠ endId) (hh : ∀ b ∈ s, b.height < endH) :
    scanSeg endId endH (s ++ [e]) lid lh = (s ++ [e], .fin) := by
  subst he
  induction s generalizing lid lh with
  | nil =>
    obtain ⟨h1, h2, _⟩ := hl
    have hbad : ¬ (e.height ≠ lh + 1 ∨ e.prev ≠ lid ∨ (e.height ≥ endH ∧ e.id ≠ e.id)) := by
      intro h; rcases h with h | h | h
      · exact h h1
      · exact h h2
      · exact h.2 rfl
    simp only [List.nil_append, scanSeg, hbad, if_false, if_true]
  | cons a r ih =>
    obtain ⟨h1, h2, hr⟩ := hl
    have ha := hid a List.mem_cons_self
    have hah := hh a List.mem_cons_self
    have hbad : ¬ (a.height ≠ lh + 1 ∨ a.prev ≠ lid ∨ (a.height ≥ endH ∧ a.id ≠ e.id)) := by
      intro h; rcases h with h | h | h
      · exact h h1
      · exact h h2
      · omega
    simp only [List.cons_append, scanSeg, hbad, if_false, ha]
    rw [ih a.id a.height hr (fun b hb => hh b (List.mem_cons_of_mem _ hb)) (fun b hb => hid b (List.mem_cons_of_mem _ hb))]

theorem nodup_split_ne (l1 l2 : List (Blk ι)) (hnd : ((l1 ++ l2).map (·.id)).Nodup) :
    ∀ x ∈ l1, ∀ y ∈ l2, x.id ≠ y.id := by
  rw [List.map_append, List.nodup_append] at hnd
  intro x hx y hy
  exact hnd.2.2 x.id (List.mem_map_of_mem hx) y.id (List.mem_map_of_mem hy)

theorem dlLoop_step (seg : ι → Option (List (Blk ι))) (endId : ι) (endH f : Nat) (lid : ι) (lh : Nat)
    (L : List (Blk ι)) (hseg : seg lid = some L) (hne : L ≠ []) :
    dlLoop seg endId endH (f + 1) lid lh =
      match scanSeg endId endH (sortAsc L) lid lh with
      | (em, .fin) => (em, true)
      | (em, .bad) => (em, false)
      | (em, .cont lid' lh') => (em ++ (dlLoop seg endId endH f lid' lh').1, (dlLoop seg endId endH f lid' lh').2) := by
  cases L with
  | nil => exact absurd rfl hne
  | cons x xs =>
    simp only [dlLoop, hseg]
    generalize scanSeg endId endH (sortAsc (x :: xs)) lid lh = r
    rcases r with ⟨em, sc⟩
    cases sc <;> rfl

theorem honest_segment_split (mhp : Nat) (pre : List (Blk ι)) (b : Blk ι) (post : List (Blk ι))
    (hnd : ((pre ++ b :: post).map (·.id)).Nodup) :
    (honest (pre ++ b :: post) mhp).segment b.id = some (post.take maxBlocksPerResponse) := by
  have hpre : ∀ x ∈ pre, x.id ≠ b.id :=
    fun x hx => nodup_split_ne pre (b :: post) hnd x hx b List.mem_cons_self
  simp only [honest, handleBlocksFromID_split pre b post hpre]

/-- the downloader against an honest responder delivers exactly the responder's blocks after the
start block, up to the end block -/
theorem dlLoop_honest (p : List (Blk ι)) (mhp : Nat) (hnd : (p.map (·.id)).Nodup) (e : Blk ι)
    (fuel : Nat) (pre : List (Blk ι)) (b : Blk ι) (s : List (Blk ι))
    (hp : p = pre ++ b :: (s ++ [e])) (hl : Linked b.id b.height (s ++ [e])) (hf : s.length + 1 ≤ fuel) :
    dlLoop (honest p mhp).segment e.id e.height fuel b.id b.height = (s ++ [e], true) := by
  induction fuel generalizing pre b s with
  | zero => omega
  | succ f ih =>
    have hK : 1 ≤ maxBlocksPerResponse := by unfold maxBlocksPerResponse; omega
    -- facts from Nodup and Linked
    have hids : ∀ y ∈ s, y.id ≠ e.id := by
      have : p = (pre ++ [b] ++ s) ++ [e] := by rw [hp]; simp
      rw [this] at hnd
      intro y hy
      exact nodup_split_ne _ _ hnd y (List.mem_append_right _ hy) e (List.mem_singleton.mpr rfl)
    obtain ⟨hls, hle⟩ := (linked_append b.id b.height s [e]).mp hl
    obtain ⟨hlast, hhs⟩ := lastOf_height b.id b.height s hls
    have heh : e.height = b.height + s.length + 1 := by
      have := hle.1; rw [hlast] at this; exact this
    have hhts : ∀ y ∈ s, y.height < e.height := by
      intro y hy; have := (hhs y hy).2; omega
    have hseg : (honest p mhp).segment b.id = some ((s ++ [e]).take maxBlocksPerResponse) := by
      rw [hp]; exact honest_segment_split mhp pre b (s ++ [e]) (by rw [← hp]; exact hnd)
    by_cases hcase : s.length + 1 ≤ maxBlocksPerResponse
    · -- the rest of the chain fits in one response
      have htake : (s ++ [e]).take maxBlocksPerResponse = s ++ [e] :=
        List.take_of_length_le (by simp; omega)
      rw [htake] at hseg
      rw [dlLoop_step _ _ _ _ _ _ _ hseg (by simp)]
      rw [sortAsc_linked b.id b.height _ hl, scanSeg_fin e.id e.height s e b.id b.height hl rfl hids hhts]
    · -- a full response, the download continues after its last block
      have hKs : maxBlocksPerResponse ≤ s.length := by omega
      have htake : (s ++ [e]).take maxBlocksPerResponse = s.take maxBlocksPerResponse :=
        List.take_append_of_le_length hKs
      rw [htake] at hseg
      have hs1len : (s.take maxBlocksPerResponse).length = maxBlocksPerResponse := by
        rw [List.length_take]; omega
      have hs1ne : s.take maxBlocksPerResponse ≠ [] := by
        intro h; rw [h] at hs1len; simp at hs1len; omega
      -- split the response into its last block and the blocks before it
      obtain ⟨s1', x, hs1⟩ : ∃ s1' x, s.take maxBlocksPerResponse = s1' ++ [x] :=
        ⟨_, _, (List.dropLast_concat_getLast hs1ne).symm⟩
      have hsplit : s = s1' ++ [x] ++ s.drop maxBlocksPerResponse := by
        rw [← hs1, List.take_append_drop]
      have hl1 : Linked b.id b.height (s1' ++ [x]) := by
        rw [hsplit, List.append_assoc] at hls
        rw [← List.append_assoc] at hls
        exact ((linked_append b.id b.height (s1' ++ [x]) _).mp hls).1
      have hmem1 : ∀ y ∈ s1' ++ [x], y ∈ s := by
        intro y hy; rw [hsplit]; exact List.mem_append_left _ hy
      rw [dlLoop_step _ _ _ _ _ _ _ hseg hs1ne, hs1]
      rw [sortAsc_linked b.id b.height _ hl1,
        scanSeg_cont e.id e.height (s1' ++ [x]) b.id b.height hl1
          (fun y hy => hids y (hmem1 y hy)) (fun y hy => hhts y (hmem1 y hy))]
      simp only [lastOf_append_singleton]
      -- the remaining download
      have hp' : p = (pre ++ b :: s1') ++ x :: (s.drop maxBlocksPerResponse ++ [e]) := by
        rw [hp]; conv => lhs; rw [hsplit]
        simp
      have hl' : Linked x.id x.height (s.drop maxBlocksPerResponse ++ [e]) := by
        have h1 := hl
        conv at h1 => rw [hsplit]
        rw [List.append_assoc] at h1
        have h2 := ((linked_append b.id b.height (s1' ++ [x]) _).mp h1).2
        rw [lastOf_append_singleton] at h2
        exact h2
      have hf' : (s.drop maxBlocksPerResponse).length + 1 ≤ f := by
        rw [List.length_drop]; omega
      rw [ih (pre ++ b :: s1') x (s.drop maxBlocksPerResponse) hp' hl' hf']
      simp only [Prod.mk.injEq, and_true]
      conv => rhs; rw [hsplit]
      simp

end Honest

end LiskVerif.Sync
