/-
Lemmas about the event-emitter model (`Model/Emitter.lean`): the effect of a publication on the receive logs,
the effect of closing duplicate-free lists, and the invariant of emitters whose channels are all distinct.
Core Lean only.
-/
import LiskVerif.Model.Emitter

namespace LiskVerif.Emitter

/-! ### receive logs -/

theorem lookup_pushRecv_self (r : List (Chan × List Msg)) (c : Chan) (m : Msg) :
    ((pushRecv r c m).lookup c).getD [] = (r.lookup c).getD [] ++ [m] := by
  induction r with
  | nil => simp [pushRecv, List.lookup]
  | cons p r ih =>
    obtain ⟨c', l⟩ := p
    by_cases h : c' = c
    · subst h; simp [pushRecv, List.lookup]
    · have h' : (c == c') = false := by simp; exact fun e => h e.symm
      have h'' : (c' == c) = false := by simp [h]
      simp [pushRecv, List.lookup, h', h'', ih]

theorem lookup_pushRecv_other (r : List (Chan × List Msg)) (c d : Chan) (m : Msg) (h : d ≠ c) :
    ((pushRecv r c m).lookup d) = (r.lookup d) := by
  induction r with
  | nil =>
    have : (d == c) = false := by simp [h]
    simp [pushRecv, List.lookup, this]
  | cons p r ih =>
    obtain ⟨c', l⟩ := p
    by_cases h1 : c' = c
    · subst h1
      have : (d == c') = false := by simp [h]
      simp [pushRecv, List.lookup, this]
    · have h'' : (c' == c) = false := by simp [h1]
      by_cases h2 : d = c'
      · subst h2; simp [pushRecv, List.lookup, h'']
      · have : (d == c') = false := by simp [h2]
        simp [pushRecv, List.lookup, h'', this, ih]

/-- a round of sends to channels none of which is closed: nobody panics, every channel's log grows by
one copy of the message per occurrence in the list, nothing else changes -/
theorem sendAll_spec (m : Msg) (l : List Chan) (s : St) (hd : s.dead = false) (hc : ∀ c ∈ l, c ∉ s.closed) :
    (sendAll s m l).dead = false ∧ (sendAll s m l).subs = s.subs ∧ (sendAll s m l).topics = s.topics ∧
    (sendAll s m l).closed = s.closed ∧ (sendAll s m l).next = s.next ∧
    ∀ d, (sendAll s m l).recvOf d = s.recvOf d ++ List.replicate (l.count d) m := by
  induction l generalizing s with
  | nil => simp [sendAll, hd]
  | cons c r ih =>
    have hcc : s.closed.contains c = false := by
      have := hc c (by simp)
      simpa using this
    have ih' := ih { s with recv := pushRecv s.recv c m } hd (fun x hx => hc x (by simp [hx]))
    simp only [sendAll, hcc, Bool.false_eq_true, if_false]
    refine ⟨ih'.1, ih'.2.1, ih'.2.2.1, ih'.2.2.2.1, ih'.2.2.2.2.1, ?_⟩
    intro d
    rw [ih'.2.2.2.2.2 d]
    by_cases h : d = c
    · subst h
      simp only [St.recvOf, lookup_pushRecv_self, List.count_cons_self, List.replicate_succ]
      simp
    · have hne : (c == d) = false := by simp; exact fun e => h e.symm
      simp only [St.recvOf, lookup_pushRecv_other _ _ _ _ h, List.count_cons, hne]
      simp

/-- closing a duplicate-free list of open channels: nobody panics, exactly these channels get closed -/
theorem closeList_spec (l : List Chan) (s : St) (hd : s.dead = false) (hn : l.Nodup) (hc : ∀ c ∈ l, c ∉ s.closed) :
    (closeList s l).dead = false ∧ (closeList s l).closed = s.closed ++ l ∧ (closeList s l).subs = s.subs ∧
    (closeList s l).topics = s.topics ∧ (closeList s l).next = s.next ∧ (closeList s l).recv = s.recv := by
  induction l generalizing s with
  | nil => simp [closeList, hd]
  | cons c r ih =>
    have hcc : s.closed.contains c = false := by
      have := hc c (by simp)
      simpa using this
    have hn' := List.nodup_cons.mp hn
    have ih' := ih { s with closed := s.closed ++ [c] } hd hn'.2 (by
      intro x hx
      simp only [List.mem_append, List.mem_singleton, not_or]
      exact ⟨hc x (by simp [hx]), fun e => hn'.1 (e ▸ hx)⟩)
    simp only [closeList, hcc, Bool.false_eq_true, if_false]
    refine ⟨ih'.1, ?_, ih'.2.2.1, ih'.2.2.2.1, ih'.2.2.2.2.1, ih'.2.2.2.2.2⟩
    rw [ih'.2.1]; simp

theorem inj_of_nodup_map {α β : Type} {f : α → β} {l : List α} (h : (l.map f).Nodup) {a b : α}
    (ha : a ∈ l) (hb : b ∈ l) (e : f a = f b) : a = b := by
  induction l with
  | nil => cases ha
  | cons x r ih =>
    rw [List.map_cons, List.nodup_cons] at h
    rcases List.mem_cons.mp ha with rfl | ha' <;> rcases List.mem_cons.mp hb with rfl | hb'
    · rfl
    · exact absurd (List.mem_map.mpr ⟨b, hb', e.symm⟩) h.1
    · exact absurd (List.mem_map.mpr ⟨a, ha', e⟩) h.1
    · exact ih h.2 ha' hb'

/-! ### the invariant of an emitter whose registered channels are pairwise distinct -/

/-- every registration is of a distinct, allocated, open channel; closed channels are allocated; no panic
happened.  `Subscribe` keeps it (fresh channels), `On` with an already registered channel breaks it. -/
structure Inv (s : St) : Prop where
  nodup : (s.subs.map (·.2)).Nodup
  alloc : ∀ p ∈ s.subs, p.2 < s.next
  open_ : ∀ p ∈ s.subs, p.2 ∉ s.closed
  closedAlloc : ∀ c ∈ s.closed, c < s.next
  alive : s.dead = false

theorem inv_init : Inv {} := by
  constructor <;> simp

theorem chansOf_sublist (s : St) (t : String) : (s.chansOf t).Sublist (s.subs.map (·.2)) := by
  unfold St.chansOf
  exact List.Sublist.map _ (List.filter_sublist)

theorem mem_chansOf {s : St} {t : String} {c : Chan} : c ∈ s.chansOf t ↔ (t, c) ∈ s.subs := by
  unfold St.chansOf
  simp only [List.mem_map, List.mem_filter, beq_iff_eq]
  constructor
  · rintro ⟨p, ⟨hp, ht⟩, hc⟩
    obtain ⟨a, b⟩ := p
    simp at ht hc; subst ht; subst hc; exact hp
  · intro h; exact ⟨(t, c), ⟨h, rfl⟩, rfl⟩

theorem Inv.chansOf_nodup {s : St} (h : Inv s) (t : String) : (s.chansOf t).Nodup :=
  List.Sublist.nodup (chansOf_sublist s t) h.nodup

theorem Inv.chansOf_open {s : St} (h : Inv s) (t : String) : ∀ c ∈ s.chansOf t, c ∉ s.closed := by
  intro c hc
  exact h.open_ (t, c) (mem_chansOf.mp hc)

/-- the operations the engine uses (`Subscribe`, never `On` with a shared channel) -/
def Op.fresh : Op → Bool
  | .on _ _ => false
  | _ => true

theorem inv_newChan {s : St} (h : Inv s) : Inv (newChan s).1 := by
  constructor
  · exact h.nodup
  · intro p hp; exact Nat.lt_succ_of_lt (h.alloc p hp)
  · exact h.open_
  · intro c hc; exact Nat.lt_succ_of_lt (h.closedAlloc c hc)
  · exact h.alive

theorem inv_subscribe {s : St} (h : Inv s) (t : String) : Inv (subscribe s t).1 := by
  constructor
  · show ((s.subs ++ [(t, s.next)]).map (·.2)).Nodup
    rw [List.map_append, List.nodup_append]
    refine ⟨h.nodup, by simp, ?_⟩
    intro a ha b hb
    simp at hb; subst hb
    obtain ⟨p, hp, rfl⟩ := List.mem_map.mp ha
    exact Nat.ne_of_lt (h.alloc p hp)
  · intro p hp
    show p.2 < s.next + 1
    rcases List.mem_append.mp hp with hp | hp
    · exact Nat.lt_succ_of_lt (h.alloc p hp)
    · simp at hp; subst hp; simp
  · intro p hp
    show p.2 ∉ s.closed
    rcases List.mem_append.mp hp with hp | hp
    · exact h.open_ p hp
    · simp at hp; subst hp
      intro hc; exact Nat.lt_irrefl _ (h.closedAlloc _ hc)
  · intro c hc; exact Nat.lt_succ_of_lt (h.closedAlloc c hc)
  · exact h.alive

theorem inv_publish {s : St} (h : Inv s) (t : String) (m : Msg) : Inv (publish s t m) := by
  have sp := sendAll_spec m (s.chansOf t) s h.alive (h.chansOf_open t)
  unfold publish
  constructor
  · rw [sp.2.1]; exact h.nodup
  · rw [sp.2.1, sp.2.2.2.2.1]; exact h.alloc
  · rw [sp.2.1, sp.2.2.2.1]; exact h.open_
  · rw [sp.2.2.2.1, sp.2.2.2.2.1]; exact h.closedAlloc
  · exact sp.1

theorem inv_closeAll {s : St} (h : Inv s) : Inv (closeAll s) := by
  have sp := closeList_spec (s.subs.map (·.2)) s h.alive h.nodup (by
    intro c hc
    obtain ⟨p, hp, rfl⟩ := List.mem_map.mp hc
    exact h.open_ p hp)
  unfold closeAll
  simp only [sp.1, Bool.false_eq_true, if_false]
  constructor
  · simp
  · simp
  · simp
  · intro c hc
    simp only [sp.2.1, sp.2.2.2.2.1] at hc ⊢
    rcases List.mem_append.mp hc with hc | hc
    · exact h.closedAlloc c hc
    · obtain ⟨p, hp, rfl⟩ := List.mem_map.mp hc
      exact h.alloc p hp
  · simpa using sp.1

theorem inv_unsubscribeAll {s : St} (h : Inv s) (t : String) : Inv (unsubscribeAll s t).1 := by
  unfold unsubscribeAll
  by_cases hk : s.topics.contains t
  · have sp := closeList_spec (s.chansOf t) s h.alive (h.chansOf_nodup t) (h.chansOf_open t)
    simp only [hk, Bool.not_true, Bool.false_eq_true, if_false, sp.1]
    constructor
    · simp only [sp.2.2.1]
      exact List.Sublist.nodup (List.Sublist.map _ List.filter_sublist) h.nodup
    · intro p hp
      simp only [sp.2.2.1, sp.2.2.2.2.1] at hp ⊢
      exact h.alloc p (List.mem_filter.mp hp).1
    · intro p hp
      simp only [sp.2.2.1, sp.2.1] at hp ⊢
      have hp' := List.mem_filter.mp hp
      simp only [List.mem_append, not_or]
      refine ⟨h.open_ p hp'.1, ?_⟩
      intro hc
      have hm := mem_chansOf.mp hc
      -- (t, p.2) and p are two registrations of the same channel: they coincide, so p.1 = t
      have hidx := inj_of_nodup_map h.nodup hm hp'.1 rfl
      have : p.1 = t := by rw [← hidx]
      simp [this] at hp'
    · intro c hc
      simp only [sp.2.1, sp.2.2.2.2.1] at hc ⊢
      rcases List.mem_append.mp hc with hc | hc
      · exact h.closedAlloc c hc
      · exact h.alloc (t, c) (mem_chansOf.mp hc)
    · simpa using sp.1
  · simp only [hk, Bool.not_false, if_true]; exact h

theorem inv_unsubscribe {s : St} (h : Inv s) (t : String) (c : Chan) : Inv (unsubscribe s t c).1 := by
  unfold unsubscribe
  by_cases hk : s.topics.contains t
  · have hsub : ((s.chansOf t).filter (· == c)).Sublist (s.chansOf t) := List.filter_sublist
    have sp := closeList_spec ((s.chansOf t).filter (· == c)) s h.alive
      (List.Sublist.nodup hsub (h.chansOf_nodup t))
      (fun x hx => h.chansOf_open t x (hsub.subset hx))
    simp only [hk, Bool.not_true, Bool.false_eq_true, if_false, sp.1]
    constructor
    · simp only [sp.2.2.1]
      exact List.Sublist.nodup (List.Sublist.map _ List.filter_sublist) h.nodup
    · intro p hp
      simp only [sp.2.2.1, sp.2.2.2.2.1] at hp ⊢
      exact h.alloc p (List.mem_filter.mp hp).1
    · intro p hp
      simp only [sp.2.2.1, sp.2.1] at hp ⊢
      have hp' := List.mem_filter.mp hp
      simp only [List.mem_append, not_or]
      refine ⟨h.open_ p hp'.1, ?_⟩
      intro hc
      have hc' := List.mem_filter.mp hc
      have hm := mem_chansOf.mp hc'.1
      have hidx := inj_of_nodup_map h.nodup hm hp'.1 rfl
      have e1 : p.1 = t := by rw [← hidx]
      have e2 : p.2 = c := by simpa using hc'.2
      simp [e1, e2] at hp'
    · intro d hd
      simp only [sp.2.1, sp.2.2.2.2.1] at hd ⊢
      rcases List.mem_append.mp hd with hd | hd
      · exact h.closedAlloc d hd
      · exact h.alloc (t, d) (mem_chansOf.mp (hsub.subset hd))
    · simpa using sp.1
  · simp only [hk, Bool.not_false, if_true]; exact h

theorem inv_step {s : St} (h : Inv s) (o : Op) (ho : o.fresh = true) : Inv (step s o) := by
  unfold step
  simp only [h.alive, Bool.false_eq_true, if_false]
  cases o with
  | newChan => exact inv_newChan h
  | on t c => simp [Op.fresh] at ho
  | subscribe t => exact inv_subscribe h t
  | publish t m => exact inv_publish h t m
  | close => exact inv_closeAll h
  | unsubscribeAll t => exact inv_unsubscribeAll h t
  | unsubscribe t c => exact inv_unsubscribe h t c

theorem inv_foldl {s : St} (h : Inv s) (ops : List Op) (ho : ∀ o ∈ ops, o.fresh = true) : Inv (ops.foldl step s) := by
  induction ops generalizing s with
  | nil => exact h
  | cons o r ih =>
    exact ih (inv_step h o (ho o (by simp))) (fun x hx => ho x (by simp [hx]))

end LiskVerif.Emitter
