/-
`deleteBlock` key by key; preservation of the refinement by `deleteTip`.
-/
import LiskVerif.Lemmas.NodeRef

namespace LiskVerif.Node
open LiskVerif LiskVerif.DiffDB

theorem bval_ne_none (ops : List BOp) (op : BOp) (h : op ∈ ops) : bval ops op.key ≠ none := by
  induction ops with
  | nil => cases h
  | cons o r ih =>
    simp only [bval]
    simp only [List.mem_cons] at h
    rcases h with rfl | h
    · cases bval r op.key <;> simp
    · cases hb : bval r op.key with
      | none => exact absurd hb (ih h)
      | some v => simp

/-- **Key-set symmetry**: every key `saveBlock` (and the state-diff write of `processValidated`)
sets for a block is deleted by `deleteBlock` / `removeBlock` of that block. -/
theorem persist_keys_removed (cd : Codecs) (b : Block) (x : Exec) (st : Bool) :
    ∀ k ∈ (persistOps cd b x).map BOp.key,
      k ∈ (BOp.del (kDiff b.hdr.height) :: removeBlockOps b st).map BOp.key := by
  intro k hk
  unfold persistOps blockSetOps at hk
  unfold removeBlockOps
  by_cases ht : b.txs.isEmpty = true <;> by_cases he : x.events.isEmpty = true <;>
    by_cases ha : b.assets.isEmpty = true <;> cases st <;>
    simp only [ht, he, ha, if_true, if_false, List.map_cons, List.map_append, List.map_map,
      List.map_nil, List.mem_cons, List.mem_append, List.mem_map, List.not_mem_nil, or_false,
      false_or, List.append_nil, Bool.false_eq_true, BOp.key, Function.comp] at hk ⊢
  all_goals
    repeat' (apply Or.elim hk <;> (clear hk; intro hk))
  all_goals first
    | (obtain ⟨a, ha', hk⟩ := hk
       have : ∃ a', a' ∈ b.txs ∧ kTx a'.1 = k := ⟨a, ha', hk⟩
       simp [this]; done)
    | (subst hk; simp; done)

/-- the only key `deleteBlock` deletes without `processValidated` having set it is the event key
of a block that emitted no events -/
theorem removed_keys_persist (cd : Codecs) (b : Block) (x : Exec) :
    ∀ k ∈ (BOp.del (kDiff b.hdr.height) :: removeBlockOps b false).map BOp.key,
      k ∈ (persistOps cd b x).map BOp.key ∨ (x.events = [] ∧ k = kEvents b.hdr.height) := by
  intro k hk
  unfold removeBlockOps at hk
  unfold persistOps blockSetOps
  by_cases ht : b.txs.isEmpty = true <;> by_cases he : x.events.isEmpty = true <;>
    by_cases ha : b.assets.isEmpty = true <;>
    simp only [ht, he, ha, if_true, if_false, List.map_cons, List.map_append, List.map_map,
      List.map_nil, List.mem_cons, List.mem_append, List.mem_map, List.not_mem_nil, or_false,
      false_or, List.append_nil, Bool.false_eq_true, BOp.key, Function.comp] at hk ⊢
  all_goals
    repeat' (apply Or.elim hk <;> (clear hk; intro hk))
  all_goals first
    | (obtain ⟨a, ha', hk⟩ := hk
       have : ∃ a', a' ∈ b.txs ∧ kTx a'.1 = k := ⟨a, ha', hk⟩
       simp [this])
    | (subst hk; simp; done)
    | (subst hk; simp [List.isEmpty_iff.mp he]; done)

theorem removeOps_val (b : Block) (st : Bool) :
    ∀ op ∈ BOp.del (kDiff b.hdr.height) :: removeBlockOps b st,
      op.val = none ∨ op.key = kTemp b.hdr.height := by
  intro op hop
  unfold removeBlockOps at hop
  by_cases ht : b.txs.isEmpty = true <;> by_cases ha : b.assets.isEmpty = true <;> cases st <;>
    simp only [ht, ha, if_true, if_false, List.mem_cons, List.mem_append, List.mem_map,
      List.not_mem_nil, or_false, false_or, List.append_nil, Bool.false_eq_true] at hop
  all_goals
    repeat' (apply Or.elim hop <;> (clear hop; intro hop))
  all_goals first
    | (obtain ⟨t, _, hop⟩ := hop; subst hop; left; rfl)
    | (subst hop; simp [BOp.key, BOp.val])

/-- the database after a successful `deleteBlock` -/
def deleteDb (db : Store) (d : Diff) (tip : Block) (st : Bool) : Store :=
  applyBatch (revertDiff db d) (.del (kDiff tip.hdr.height) :: removeBlockOps tip st)

theorem nodup_deleteDb (db : Store) (d : Diff) (tip : Block) (st : Bool) (h : NoDupKeys db) :
    NoDupKeys (deleteDb db d tip st) :=
  nodup_applyBatch _ _ (nodup_revertDiff _ _ h)

theorem kTemp_vol (f h : Nat) : Vol f (kTemp h) := Or.inr (Or.inl (by simp [kTemp]))

theorem kDiff_not_vol {f h : Nat} (hlt : h < u32) (hle : f ≤ h) : ¬ Vol f (kDiff h) := by
  intro hv
  rcases hv with h1 | h1 | ⟨_, h2⟩ | ⟨m, _, h2⟩
  · simp [kDiff, kFin] at h1
  · simp [kDiff] at h1
  · simp only [kDiff, List.drop_succ_cons, List.drop_zero] at h2
    rw [decU32_encU32_of_lt hlt] at h2
    omega
  · have := inRange_events_head h2
    simp [kDiff] at this

/-- `DbRef` is preserved by a successful `deleteBlock` of the chain's tip: the chain loses its
newest block and the database is again what the shorter chain produces. -/
theorem dbRef_delete {cd : Codecs} {base : Store} {baseH : Nat} {db : Store} {c : Chain}
    {b : Block} {x : Exec} {st : Bool} {fin : Nat}
    (hR : DbRef cd base baseH db ((b, x) :: c)) (hf : finOf db = some fin) (hlt : fin < b.hdr.height) :
    DbRef cd base baseH (deleteDb db (diffOf x.overlay) b st) c ∧
      finOf (deleteDb db (diffOf x.overlay) b st) = some fin := by
  obtain ⟨hstep, hheight, hwf⟩ := hR.wf
  have hstate_ov : ∀ k cv, clookup x.overlay k = some cv → isStateKey k :=
    fun k cv h => hstep.stateKeys _ (clookup_some_mem _ k cv h)
  -- the database agrees with the chain on the consensus store
  have hdb_state : ∀ k, isStateKey k → slookup db k = spec cd base ((b, x) :: c) k :=
    fun k hk => hR.agree fin hf k (fun hv => Vol_not_state hv hk)
  have hspec_state : ∀ k, isStateKey k → spec cd base ((b, x) :: c) k =
      match stateVal x.overlay k with | some v => v | none => spec cd base c k := by
    intro k hk
    simp only [spec]
    have : bval (persistOps cd b x) k = none :=
      bval_none _ _ (fun op hop he => allKeys_not_state (he ▸ persistOps_keys cd b x op hop) hk)
    rw [this]
    rfl
  -- revert, key by key
  have hrev : ∀ k, slookup (revertDiff db (diffOf x.overlay)) k =
      match clookup x.overlay k with
      | some cv => cv.init
      | none => slookup db k := by
    intro k
    apply revert_after_commit db x.overlay hR.nodup hstep.ov
    intro k
    cases hc : clookup x.overlay k with
    | none => simp [stateVal, hc]
    | some cv =>
      have hk := hstate_ov k cv hc
      rw [hdb_state k hk, hspec_state k hk]
      cases stateVal x.overlay k with
      | some v => rfl
      | none => simp only; exact (hstep.initOk k cv hc).symm
  have hlook : ∀ k, slookup (deleteDb db (diffOf x.overlay) b st) k =
      match bval (BOp.del (kDiff b.hdr.height) :: removeBlockOps b st) k with
      | some v => v
      | none => match clookup x.overlay k with
        | some cv => cv.init
        | none => slookup db k := by
    intro k
    unfold deleteDb
    rw [slookup_applyBatch, hrev k]
    rfl
  -- the finalized height marker is untouched
  have hfin' : finOf (deleteDb db (diffOf x.overlay) b st) = some fin := by
    unfold finOf at hf ⊢
    rw [hlook kFin]
    have h1 : bval (BOp.del (kDiff b.hdr.height) :: removeBlockOps b st) kFin = none := by
      apply bval_none
      intro op hop he
      rcases removeOps_keys b st op hop with h | h
      · rw [he] at h
        have := allKeys_not_state h
        unfold allKeys at h
        simp [kFin, kDiff, kHeader, kHeight, kTxs, kAssets, kEvents, kTx] at h
      · rw [he] at h; simp [kFin, kTemp] at h
    have h2 : clookup x.overlay kFin = none := by
      cases hc : clookup x.overlay kFin with
      | none => rfl
      | some cv => have := hstate_ov kFin cv hc; simp [isStateKey, kFin, pState] at this
    rw [h1, h2]
    exact hf
  obtain ⟨f1, hf1, hb0, ht0⟩ := hR.finOk
  have hfeq : f1 = fin := by rw [hf] at hf1; exact (Option.some.inj hf1).symm
  subst hfeq
  refine ⟨⟨nodup_deleteDb _ _ _ _ hR.nodup, ⟨f1, hfin', hb0, ?_⟩, ?_, hwf, ?_⟩, hfin'⟩
  · omega
  · intro f hf' k hk
    rw [hfin'] at hf'
    have hfe : f = f1 := (Option.some.inj hf').symm
    subst hfe
    rw [hlook k]
    cases hb : bval (BOp.del (kDiff b.hdr.height) :: removeBlockOps b st) k with
    | some v =>
      simp only
      obtain ⟨op, hop, hkey, hval⟩ := bval_some_mem _ _ _ hb
      rcases removeOps_val b st op hop with h | h
      · rw [h] at hval
        subst hval
        rcases removeOps_keys b st op hop with h2 | h2
        · rw [hkey] at h2; exact (hstep.fresh k h2).symm
        · rw [hkey] at h2; exact absurd (h2 ▸ kTemp_vol f b.hdr.height) hk
      · rw [hkey] at h; exact absurd (h ▸ kTemp_vol f b.hdr.height) hk
    | none =>
      simp only
      cases hc : clookup x.overlay k with
      | some cv => simp only; exact hstep.initOk k cv hc
      | none =>
        simp only
        rw [hR.agree f hf k hk]
        simp only [spec]
        have h1 : bval (persistOps cd b x) k = none := by
          cases hp : bval (persistOps cd b x) k with
          | none => rfl
          | some v =>
            exfalso
            obtain ⟨op, hop, hkey, _⟩ := bval_some_mem _ _ _ hp
            have hmem := persist_keys_removed cd b x st k
              (by rw [← hkey]; exact List.mem_map_of_mem hop)
            obtain ⟨op', hop', hk'⟩ := List.mem_map.mp hmem
            exact bval_ne_none _ op' hop' (hk' ▸ hb)
        rw [h1, stateVal_none_of_not_key _ _ hc]
  · have := hR.tipLt
    simp only [tipH] at this
    omega

end LiskVerif.Node
