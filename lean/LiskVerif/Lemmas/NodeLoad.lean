/-
Reading blocks back from the database: `getBlock` returns the blocks of the chain, `PrepareCache`
(restart, and the reload after the block cache ran empty) rebuilds a cache that agrees with the chain.
-/
import LiskVerif.Lemmas.NodeChain
import LiskVerif.Lemmas.Sort

namespace LiskVerif.Node
open LiskVerif LiskVerif.DiffDB

/-! ### small list facts -/

theorem chunks32_flatten : ∀ (ids : List Bytes), (∀ i ∈ ids, i.length = 32) →
    chunks32 ids.flatten = ids := by
  intro ids
  induction ids with
  | nil => intro _; simp [chunks32]
  | cons a r ih =>
    intro h
    have ha : a.length = 32 := h a List.mem_cons_self
    have hr := ih (fun i hi => h i (List.mem_cons_of_mem _ hi))
    unfold chunks32 at hr ⊢
    simp only [List.flatten_cons, List.length_append, ha]
    have : (32 + r.flatten.length) / 32 = r.flatten.length / 32 + 1 := by omega
    rw [this, List.range_succ_eq_map, List.map_cons, List.map_map]
    congr 1
    · simp [ha]
    · conv => rhs; rw [← hr]
      apply List.map_congr_left
      intro i _
      simp only [Function.comp]
      have : 32 * (i + 1) = a.length + 32 * i := by omega
      rw [this, List.drop_append]
      have h0 : List.drop (a.length + 32 * i) a = [] := List.drop_eq_nil_of_le (by omega)
      rw [h0, List.nil_append]
      congr 2
      omega

theorem mapM_lookup_txs (f : Bytes → Option Bytes) : ∀ (txs : List (Bytes × Bytes)),
    (∀ t ∈ txs, f t.1 = some t.2) →
    (txs.map (·.1)).mapM (fun i => (f i).map fun t => (i, t)) = some txs := by
  intro txs
  induction txs with
  | nil => intro _; rfl
  | cons a r ih =>
    intro h
    simp only [List.map_cons, List.mapM_cons, h a List.mem_cons_self, Option.map_some,
      ih (fun t ht => h t (List.mem_cons_of_mem _ ht))]
    rfl

theorem putUvarint_ne_nil (n : Nat) : Codec.putUvarint n ≠ [] := by
  unfold Codec.putUvarint
  split <;> simp

theorem field_ne_nil (n : Nat) (b : Bytes) : field n b ≠ [] := by
  unfold field Codec.writeKey
  intro h
  have := List.append_eq_nil_iff.mp h
  exact putUvarint_ne_nil _ this.1

theorem encList_isEmpty (l : List Bytes) (h : l ≠ []) : (encList l).isEmpty = false := by
  cases l with
  | nil => exact absurd rfl h
  | cons a r =>
    unfold encList
    simp only [List.map_cons, List.flatten_cons]
    cases hf : field 1 a with
    | nil => exact absurd hf (field_ne_nil 1 a)
    | cons x y => rfl

/-! ### keys of other blocks -/

theorem kHeader_mem_allKeys (id : Bytes) (b : Block) : kHeader id ∈ allKeys b ↔ id = b.hdr.id := by
  simp [allKeys, kHeader, kDiff, kHeight, kTxs, kAssets, kEvents, kTx]

theorem kTxs_mem_allKeys (id : Bytes) (b : Block) : kTxs id ∈ allKeys b ↔ id = b.hdr.id := by
  simp [allKeys, kHeader, kDiff, kHeight, kTxs, kAssets, kEvents, kTx]

theorem kAssets_mem_allKeys (id : Bytes) (b : Block) : kAssets id ∈ allKeys b ↔ id = b.hdr.id := by
  simp [allKeys, kHeader, kDiff, kHeight, kTxs, kAssets, kEvents, kTx]

theorem kHeight_mem_allKeys (h : Nat) (b : Block) (hlt : h < u32) (hb : b.hdr.height < u32) :
    kHeight h ∈ allKeys b ↔ h = b.hdr.height := by
  simp only [allKeys, kHeader, kDiff, kHeight, kTxs, kAssets, kEvents, kTx, List.cons_append,
    List.nil_append, List.mem_cons, List.cons.injEq, List.mem_map]
  constructor
  · intro hm
    rcases hm with h1 | h1 | h1 | h1 | h1 | h1 | ⟨t, _, h1⟩
    · simp at h1
    · simp at h1
    · exact encU32_inj hlt hb h1.2
    · simp at h1
    · simp at h1
    · simp at h1
    · simp at h1
  · intro he; subst he; simp

/-! ### the data of the blocks of the chain -/

/-- everything the database holds for a block of the chain -/
structure Stored (cd : Codecs) (base : Store) (c : Chain) (b : Block) : Prop where
  header : spec cd base c (kHeader b.hdr.id) = some b.hdrBytes
  height : spec cd base c (kHeight b.hdr.height) = some b.hdr.id
  txs : spec cd base c (kTxs b.hdr.id) = if b.txs = [] then none else some (b.txs.map (·.1)).flatten
  tx : ∀ t ∈ b.txs, spec cd base c (kTx t.1) = some t.2
  assets : spec cd base c (kAssets b.hdr.id) = if b.assets = [] then none else some (encList b.assets)

theorem stored_head {cd : Codecs} {base : Store} {c : Chain} {b : Block} {x : Exec}
    (hstep : StepOK cd base c b x) : Stored cd base ((b, x) :: c) b := by
  refine ⟨spec_head_persist (bval_persist_header cd b x), spec_head_persist (bval_persist_height cd b x),
    ?_, ?_, ?_⟩
  · have := bval_persist_txs cd b x
    split at this
    · rename_i h; rw [if_pos h]
      exact spec_head_absent hstep (by simp [allKeys]) this
    · rename_i h; rw [if_neg h]
      exact spec_head_persist this
  · intro t ht
    exact spec_head_persist (bval_persist_tx cd b x hstep.block.txConsistent t ht)
  · have := bval_persist_assets cd b x
    split at this
    · rename_i h; rw [if_pos h]
      exact spec_head_absent hstep (by simp [allKeys]) this
    · rename_i h; rw [if_neg h]
      exact spec_head_persist this

theorem stored_cons {cd : Codecs} {base : Store} {c : Chain} {b b' : Block} {x' : Exec}
    (hstep : StepOK cd base c b' x') (h : Stored cd base c b) : Stored cd base ((b', x') :: c) b := by
  have hne : b.hdr.id ≠ b'.hdr.id := kHeader_present_ne hstep h.header
  refine ⟨spec_present_cons hstep (kHeader_not_state _) h.header,
    spec_present_cons hstep (kHeight_not_state _) h.height, ?_, ?_, ?_⟩
  · by_cases ht : b.txs = []
    · rw [if_pos ht]
      rw [spec_cons_other cd base b' x' c _ hstep.stateKeys
        (fun hm => hne ((kTxs_mem_allKeys _ _).mp hm)) (kTxs_not_state _), h.txs, if_pos ht]
    · rw [if_neg ht]
      have := h.txs
      rw [if_neg ht] at this
      exact spec_present_cons hstep (kTxs_not_state _) this
  · intro t ht
    exact spec_present_cons hstep (kTx_not_state _) (h.tx t ht)
  · by_cases ht : b.assets = []
    · rw [if_pos ht]
      rw [spec_cons_other cd base b' x' c _ hstep.stateKeys
        (fun hm => hne ((kAssets_mem_allKeys _ _).mp hm)) (kAssets_not_state _), h.assets, if_pos ht]
    · rw [if_neg ht]
      have := h.assets
      rw [if_neg ht] at this
      exact spec_present_cons hstep (kAssets_not_state _) this

theorem stored_member {cd : Codecs} {base : Store} {baseH : Nat} : ∀ {c : Chain},
    ChainWF cd base baseH c → ∀ bx ∈ c, Stored cd base c bx.1 := by
  intro c
  induction c with
  | nil => intro _ bx h; cases h
  | cons e r ih =>
    obtain ⟨b, x⟩ := e
    intro hwf bx hm
    simp only [List.mem_cons] at hm
    rcases hm with rfl | hm
    · exact stored_head hwf.1
    · exact stored_cons hwf.1 (ih hwf.2.2 bx hm)

/-- `getBlock` returns a block whose data the database holds -/
theorem getBlock_of_lookups (cd : Codecs) (db : Store) (b : Block)
    (hb : BlockOK cd b)
    (h1 : slookup db (kHeader b.hdr.id) = some b.hdrBytes)
    (h2 : slookup db (kTxs b.hdr.id) = if b.txs = [] then none else some (b.txs.map (·.1)).flatten)
    (h3 : ∀ t ∈ b.txs, slookup db (kTx t.1) = some t.2)
    (h4 : slookup db (kAssets b.hdr.id) = if b.assets = [] then none else some (encList b.assets)) :
    getBlock cd db b.hdr.id = some b := by
  have htx : getTxs db b.hdr.id = some b.txs := by
    unfold getTxs
    rw [h2]
    by_cases ht : b.txs = []
    · simp [ht]
    · simp only [ht, if_false]
      rw [chunks32_flatten]
      · exact mapM_lookup_txs _ b.txs h3
      · intro i hi
        obtain ⟨t, ht', rfl⟩ := List.mem_map.mp hi
        exact hb.txIdLen t ht'
  have has : getAssets cd db b.hdr.id = some b.assets := by
    unfold getAssets
    rw [h4]
    by_cases ht : b.assets = []
    · simp [ht]
    · simp only [ht, if_false, encList_isEmpty _ ht, Bool.false_eq_true]
      exact hb.assetsRt ht
  unfold getBlock
  rw [h1]
  simp only [hb.hdrOk, htx, has]

theorem getBlock_member {cd : Codecs} {base : Store} {baseH : Nat} {db : Store} {c : Chain}
    (hR : DbRef cd base baseH db c) {bx : Block × Exec} (hm : bx ∈ c) :
    getBlock cd db bx.1.hdr.id = some bx.1 ∧ slookup db (kHeight bx.1.hdr.height) = some bx.1.hdr.id := by
  obtain ⟨f, hf, _, _⟩ := hR.finOk
  have hs := stored_member hR.wf bx hm
  have hb : BlockOK cd bx.1 := by
    have : ∀ {c : Chain}, ChainWF cd base baseH c → ∀ bx ∈ c, BlockOK cd bx.1 := by
      intro c
      induction c with
      | nil => intro _ bx h; cases h
      | cons e r ih =>
        obtain ⟨b, x⟩ := e
        intro hwf bx hm
        simp only [List.mem_cons] at hm
        rcases hm with rfl | hm
        · exact hwf.1.block
        · exact ih hwf.2.2 bx hm
    exact this hR.wf bx hm
  refine ⟨getBlock_of_lookups cd db bx.1 hb ?_ ?_ ?_ ?_, ?_⟩
  · rw [hR.agree f hf _ (kHeader_not_vol f _)]; exact hs.header
  · rw [hR.agree f hf _ (kTxs_not_vol f _)]; exact hs.txs
  · intro t ht; rw [hR.agree f hf _ (kTx_not_vol f _)]; exact hs.tx t ht
  · rw [hR.agree f hf _ (kAssets_not_vol f _)]; exact hs.assets
  · rw [hR.agree f hf _ (kHeight_not_vol f _)]; exact hs.height

end LiskVerif.Node

namespace LiskVerif.Node
open LiskVerif LiskVerif.DiffDB

/-! ### the base state -/

/-- consistency of the block index of the base database (a node state whose tip is finalized,
e.g. the state right after the genesis block) -/
structure BaseOK (cd : Codecs) (base : Store) (baseH : Nat) : Prop where
  idxShape : ∀ k v, slookup base k = some v → k.head? = some 4 → ∃ h, h ≤ baseH ∧ k = kHeight h
  idxHasHdr : ∀ h id, h ≤ baseH → slookup base (kHeight h) = some id →
    ∃ hb, slookup base (kHeader id) = some hb
  idxHdrHeight : ∀ h id hb hd, h ≤ baseH → slookup base (kHeight h) = some id →
    slookup base (kHeader id) = some hb → cd.decHdr hb = some hd → hd.height = h
  tipIdx : ∃ id, slookup base (kHeight baseH) = some id

theorem chain_covers {cd : Codecs} {base : Store} {baseH : Nat} : ∀ {c : Chain},
    ChainWF cd base baseH c → ∀ h, baseH < h → h ≤ tipH baseH c → ∃ bx ∈ c, bx.1.hdr.height = h := by
  intro c
  induction c with
  | nil => intro _ h h1 h2; simp only [tipH] at h2; omega
  | cons e r ih =>
    obtain ⟨b, x⟩ := e
    intro hwf h h1 h2
    simp only [tipH] at h2
    by_cases he : h = b.hdr.height
    · exact ⟨(b, x), List.mem_cons_self, he.symm⟩
    · have := hwf.2.1
      obtain ⟨bx, hbx, hh⟩ := ih hwf.2.2 h h1 (by omega)
      exact ⟨bx, List.mem_cons_of_mem _ hbx, hh⟩

theorem getBlock_some_hdr {cd : Codecs} {db : Store} {id : Bytes} {blk : Block}
    (h : getBlock cd db id = some blk) :
    ∃ hb, slookup db (kHeader id) = some hb ∧ cd.decHdr hb = some blk.hdr := by
  unfold getBlock at h
  cases hl : slookup db (kHeader id) with
  | none => simp [hl] at h
  | some hb =>
    simp only [hl] at h
    cases hd : cd.decHdr hb with
    | none => simp [hd] at h
    | some hdr =>
      simp only [hd] at h
      refine ⟨hb, rfl, ?_⟩
      split at h
      · simp only [Option.some.injEq] at h; rw [← h]; exact hd
      · cases h

/-- the index entry of a height at or below the base tip is the base's -/
theorem db_index_base {cd : Codecs} {base : Store} {baseH : Nat} {db : Store} {c : Chain}
    (hR : DbRef cd base baseH db c) {h : Nat} (hle : h ≤ baseH) :
    slookup db (kHeight h) = slookup base (kHeight h) := by
  obtain ⟨f, hf, _, _⟩ := hR.finOk
  rw [hR.agree f hf _ (kHeight_not_vol f h)]
  cases hb : slookup base (kHeight h) with
  | some id => exact spec_base_present hR.wf (kHeight_not_state h) hb
  | none =>
    cases hs : spec cd base c (kHeight h) with
    | none => rfl
    | some v =>
      exfalso
      have hlt : h < u32 := by have := tipH_ge hR.wf; have := hR.tipLt; omega
      rcases spec_some_origin hR.wf (kHeight_not_state h) hs with ⟨bx, hbx, hm⟩ | hb'
      · have hbl := chain_heights hR.wf bx hbx
        have hb32 : bx.1.hdr.height < u32 := by have := hR.tipLt; omega
        have := (kHeight_mem_allKeys h bx.1 hlt hb32).mp hm
        omega
      · rw [hb] at hb'; cases hb'

/-- what `GetBlockByHeight` returns from the database for a height up to the tip -/
theorem getBlockByHeight_ok {cd : Codecs} {base : Store} {baseH : Nat} {db : Store} {c : Chain}
    (hbase : BaseOK cd base baseH) (hR : DbRef cd base baseH db c)
    {h : Nat} (hle : h ≤ tipH baseH c) {blk : Block} (hg : getBlockByHeight cd db h = some blk) :
    blk.hdr.height = h ∧ (∀ bx ∈ c, bx.1.hdr.height = h → blk = bx.1) ∧
      (h ≤ baseH → hdrDB cd base h = some blk.hdr) := by
  obtain ⟨f, hf, _, _⟩ := hR.finOk
  unfold getBlockByHeight at hg
  by_cases hb : baseH < h
  · obtain ⟨bx, hbx, hh⟩ := chain_covers hR.wf h hb hle
    have hm := getBlock_member hR hbx
    rw [hh] at hm
    rw [hm.2] at hg
    simp only at hg
    rw [hm.1] at hg
    have hblk : blk = bx.1 := (Option.some.inj hg).symm
    refine ⟨by rw [hblk]; exact hh, ?_, fun h' => by omega⟩
    intro bx' hbx' hh'
    have hm' := getBlock_member hR hbx'
    rw [hh', hm.2] at hm'
    have hid : bx.1.hdr.id = bx'.1.hdr.id := Option.some.inj hm'.2
    rw [← hid, hm.1] at hm'
    rw [hblk]
    exact Option.some.inj hm'.1
  · have hle' : h ≤ baseH := by omega
    rw [db_index_base hR hle'] at hg
    cases hi : slookup base (kHeight h) with
    | none => simp [hi] at hg
    | some id =>
      simp only [hi] at hg
      obtain ⟨hb0, hhb0⟩ := hbase.idxHasHdr h id hle' hi
      obtain ⟨hb1, hhb1, hdec⟩ := getBlock_some_hdr hg
      have hsame : slookup db (kHeader id) = some hb0 := by
        rw [hR.agree f hf _ (kHeader_not_vol f id)]
        exact spec_base_present hR.wf (kHeader_not_state id) hhb0
      rw [hsame] at hhb1
      have he : hb0 = hb1 := Option.some.inj hhb1
      subst he
      refine ⟨hbase.idxHdrHeight h id hb0 blk.hdr hle' hi hhb0 hdec, ?_, ?_⟩
      · intro bx hbx hh
        have := (chain_heights hR.wf bx hbx).1
        omega
      · intro _
        simp only [hdrDB, hi, headerOf, hhb0, hdec]

/-! ### the highest index entry -/

private theorem kvGE_trans' (a b c : KV) (h1 : kvGE a b = true) (h2 : kvGE b c = true) : kvGE a c = true :=
  ble_trans _ _ _ h2 h1
private theorem kvGE_total' (a b : KV) : (kvGE a b || kvGE b a) = true := ble_total _ _

theorem ble_kHeight {a b : Nat} (ha : a < u32) (hb : b < u32) :
    ble (kHeight a) (kHeight b) = true ↔ a ≤ b := by
  unfold kHeight
  rw [ble_cons_same]
  exact ble_encU32 ha hb

/-- the last entry of the height index is the tip's -/
theorem top_index {cd : Codecs} {base : Store} {baseH : Nat} {db : Store} {c : Chain}
    (hbase : BaseOK cd base baseH) (hR : DbRef cd base baseH db c) :
    ∃ id, dbIterate db [4] 1 true = [(kHeight (tipH baseH c), id)] ∧
      slookup db (kHeight (tipH baseH c)) = some id := by
  obtain ⟨f, hf, _, _⟩ := hR.finOk
  have hTlt := hR.tipLt
  -- the tip's entry exists
  have htip : ∃ id, slookup db (kHeight (tipH baseH c)) = some id := by
    cases c with
    | nil =>
      obtain ⟨id, hid⟩ := hbase.tipIdx
      exact ⟨id, by rw [hR.agree f hf _ (kHeight_not_vol f _)]; exact hid⟩
    | cons e r => exact ⟨e.1.hdr.id, (getBlock_member hR (List.mem_cons_self)).2⟩
  obtain ⟨id, hid⟩ := htip
  refine ⟨id, ?_, hid⟩
  -- every entry of the index is a height up to the tip
  have hshape : ∀ kv ∈ db, hasPrefix kv.1 [4] = true → ∃ h, h ≤ tipH baseH c ∧ kv.1 = kHeight h := by
    intro kv hkv hp
    have hhead : kv.1.head? = some 4 := (hasPrefix_one kv.1 4).mp hp
    have hl : slookup db kv.1 = some kv.2 := (slookup_iff_mem db hR.nodup kv.1 kv.2).mpr hkv
    have hnv : ¬ Vol f kv.1 :=
      not_vol_of_head hhead (by decide) (by decide) (by decide) (by decide)
    have hns : ¬ isStateKey kv.1 := by simp [isStateKey, hhead, pState]
    rw [hR.agree f hf _ hnv] at hl
    rcases spec_some_origin hR.wf hns hl with ⟨bx, hbx, hm⟩ | hb
    · refine ⟨bx.1.hdr.height, (chain_heights hR.wf bx hbx).2, ?_⟩
      unfold allKeys at hm
      simp only [List.cons_append, List.nil_append, List.mem_cons, List.mem_map] at hm
      rcases hm with h1 | h1 | h1 | h1 | h1 | h1 | ⟨t, _, h1⟩
      · rw [h1] at hhead; simp [kDiff] at hhead
      · rw [h1] at hhead; simp [kHeader] at hhead
      · exact h1
      · rw [h1] at hhead; simp [kTxs] at hhead
      · rw [h1] at hhead; simp [kAssets] at hhead
      · rw [h1] at hhead; simp [kEvents] at hhead
      · rw [← h1] at hhead; simp [kTx] at hhead
    · obtain ⟨h, hh, hk⟩ := hbase.idxShape _ _ hb hhead
      exact ⟨h, Nat.le_trans hh (tipH_ge hR.wf), hk⟩
  -- the sorted scan starts with the largest key
  unfold dbIterate applyLimit sortDir
  simp only [if_true, Int.toNat_one]
  have hnl : ¬ ((1 : Int) < 0) := by omega
  simp only [hnl, if_false]
  let L := db.filter (fun kv => hasPrefix kv.1 [4])
  have hmemL : (kHeight (tipH baseH c), id) ∈ L :=
    List.mem_filter.mpr ⟨(slookup_iff_mem db hR.nodup _ _).mp hid, by simp [kHeight, hasPrefix]⟩
  have hperm := isort_perm kvGE L
  have hpw := isort_pairwise kvGE kvGE_trans' kvGE_total' L
  have hmemS : (kHeight (tipH baseH c), id) ∈ isort kvGE L := hperm.symm.subset hmemL
  show (isort kvGE L).take 1 = _
  cases hS : isort kvGE L with
  | nil => rw [hS] at hmemS; cases hmemS
  | cons x r =>
    rw [hS] at hmemS hpw
    have hxL : x ∈ L := hperm.subset (by rw [hS]; exact List.mem_cons_self)
    obtain ⟨hxdb, hxp⟩ := List.mem_filter.mp hxL
    obtain ⟨h, hh, hxk⟩ := hshape x hxdb hxp
    have hx1 : ble x.1 (kHeight (tipH baseH c)) = true := by
      rw [hxk]; exact (ble_kHeight (by omega) hTlt).mpr hh
    have hx2 : ble (kHeight (tipH baseH c)) x.1 = true := by
      simp only [List.mem_cons] at hmemS
      rcases hmemS with he | he
      · rw [← he]; unfold ble; rw [bcmp_self]; decide
      · exact (List.pairwise_cons.mp hpw).1 _ he
    have hkey : x.1 = kHeight (tipH baseH c) := ble_antisymm _ _ hx1 hx2
    have hval : x.2 = id := by
      have h1 : slookup db x.1 = some x.2 := (slookup_iff_mem db hR.nodup x.1 x.2).mpr hxdb
      rw [hkey, hid] at h1
      exact (Option.some.inj h1).symm
    simp only [List.take_succ_cons, List.take_zero]
    rw [← hkey, ← hval]

end LiskVerif.Node

namespace LiskVerif.Node
open LiskVerif LiskVerif.DiffDB

/-! ### pushing consecutive blocks -/

theorem consec_cons_sub {b t : Block} {r : List Block} {p : Prop} [Decidable p]
    (hc : Consec (t :: r)) (hb : b.hdr.height = t.hdr.height + 1) :
    Consec (b :: (if p then (t :: r).dropLast else t :: r)) := by
  have hsub : Consec (if p then (t :: r).dropLast else t :: r) := by
    split
    · exact consec_dropLast _ hc
    · exact hc
  cases hl : (if p then (t :: r).dropLast else t :: r) with
  | nil => trivial
  | cons a r' =>
    rw [hl] at hsub
    refine ⟨?_, hsub⟩
    have ha : a = t := by
      split at hl
      · cases r with
        | nil => simp at hl
        | cons r1 r2 => simp only [List.dropLast_cons_cons, List.cons.injEq] at hl; exact hl.1.symm
      · simp only [List.cons.injEq] at hl; exact hl.1.symm
    rw [ha, hb]

theorem push_some {cfg : Cfg} {c0 c1 : List Block} {b : Block} (h : push cfg c0 b = some c1) :
    (c0 = [] ∧ c1 = [b]) ∨
      (∃ t r, c0 = t :: r ∧ c1 = b :: (if c0.length ≥ cfg.maxCache then c0.dropLast else c0)) := by
  unfold push at h
  cases c0 with
  | nil => simp at h; exact Or.inl ⟨rfl, h.symm⟩
  | cons t r =>
    simp only at h
    split at h
    · cases h
    · exact Or.inr ⟨t, r, rfl, (Option.some.inj h).symm⟩

/-- pushing blocks with heights `lo, lo+1, …` onto a cache whose tip has height `lo - 1` (or onto
an empty cache) gives a cache of consecutive heights made of those blocks, ending with the last -/
theorem pushAll_ok (cfg : Cfg) : ∀ (l : List Block) (c0 c' : List Block) (lo : Nat),
    (∀ t, c0.head? = some t → t.hdr.height + 1 = lo) →
    l.map (·.hdr.height) = (List.range l.length).map (lo + ·) →
    Consec c0 → pushAll cfg c0 l = some c' →
    Consec c' ∧ (∀ t ∈ c', t ∈ c0 ∨ t ∈ l) ∧ (l ≠ [] → c'.head? = l.getLast?) := by
  intro l
  induction l with
  | nil =>
    intro c0 c' lo _ _ hc h
    simp only [pushAll, Option.some.injEq] at h
    subst h
    exact ⟨hc, fun t ht => Or.inl ht, fun h => absurd rfl h⟩
  | cons b r ih =>
    intro c0 c' lo hhead hmap hc h
    simp only [pushAll] at h
    cases hp : push cfg c0 b with
    | none => simp [hp] at h
    | some c1 =>
      simp only [hp] at h
      have hbh : b.hdr.height = lo := by
        simp only [List.map_cons, List.length_cons, List.range_succ_eq_map, List.map_cons,
          List.cons.injEq] at hmap
        simpa using hmap.1
      have hrmap : r.map (·.hdr.height) = (List.range r.length).map (lo + 1 + ·) := by
        simp only [List.map_cons, List.length_cons, List.range_succ_eq_map, List.map_cons,
          List.cons.injEq, List.map_map] at hmap
        rw [hmap.2]
        apply List.map_congr_left
        intro i _
        simp only [Function.comp]
        omega
      have hc1 := push_some hp
      have hcons1 : Consec c1 := by
        rcases hc1 with ⟨_, h1⟩ | ⟨t, rr, h0, h1⟩
        · rw [h1]; trivial
        · rw [h1, h0]
          rw [h0] at hc hhead
          have := hhead t rfl
          have hb' : b.hdr.height = t.hdr.height + 1 := by omega
          exact consec_cons_sub hc hb'
      have hh1 : c1.head? = some b := by
        rcases hc1 with ⟨_, h1⟩ | ⟨t, rr, _, h1⟩ <;> (rw [h1]; rfl)
      have hhead1 : ∀ t, c1.head? = some t → t.hdr.height + 1 = lo + 1 := by
        intro t ht
        rw [hh1] at ht
        have : b = t := Option.some.inj ht
        subst this
        omega
      have hmem1 : ∀ t ∈ c1, t ∈ c0 ∨ t = b := by
        intro t ht
        rcases hc1 with ⟨_, h1⟩ | ⟨t0, rr, _, h1⟩
        · rw [h1] at ht; simp at ht; exact Or.inr ht
        · rw [h1] at ht
          simp only [List.mem_cons] at ht
          rcases ht with ht | ht
          · exact Or.inr ht
          · left
            split at ht
            · exact List.dropLast_subset _ ht
            · exact ht
      obtain ⟨g1, g2, g3⟩ := ih c1 c' (lo + 1) hhead1 hrmap hcons1 h
      refine ⟨g1, ?_, ?_⟩
      · intro t ht
        rcases g2 t ht with h1 | h1
        · rcases hmem1 t h1 with h2 | h2
          · exact Or.inl h2
          · exact Or.inr (by rw [h2]; exact List.mem_cons_self)
        · exact Or.inr (List.mem_cons_of_mem _ h1)
      · intro _
        cases r with
        | nil =>
          simp only [pushAll, Option.some.injEq] at h
          subst h
          rw [hh1]; rfl
        | cons r1 r2 =>
          rw [g3 (by simp)]
          simp [List.getLast?_cons_cons]

theorem mapM_heights {g : Nat → Option Block} : ∀ (hs : List Nat) (bs : List Block),
    hs.mapM g = some bs → (∀ h ∈ hs, ∀ t, g h = some t → t.hdr.height = h) →
    bs.map (·.hdr.height) = hs ∧ ∀ t ∈ bs, ∃ h ∈ hs, g h = some t := by
  intro hs
  induction hs with
  | nil => intro bs h _; simp at h; subst h; simp
  | cons a r ih =>
    intro bs h hg
    simp only [List.mapM_cons] at h
    cases ha : g a with
    | none => simp [ha] at h
    | some t =>
      simp only [ha] at h
      cases hr : r.mapM g with
      | none => simp [hr] at h
      | some br =>
        simp only [hr] at h
        have hbs : bs = t :: br := by
          simp at h; exact h.symm
        subst hbs
        obtain ⟨h1, h2⟩ := ih br hr (fun h hh => hg h (List.mem_cons_of_mem _ hh))
        refine ⟨by simp [h1, hg a List.mem_cons_self t ha], ?_⟩
        intro t' ht'
        simp only [List.mem_cons] at ht'
        rcases ht' with rfl | ht'
        · exact ⟨a, List.mem_cons_self, ha⟩
        · obtain ⟨h, hh, hgh⟩ := h2 t' ht'
          exact ⟨h, List.mem_cons_of_mem _ hh, hgh⟩

/-- **`PrepareCache` is faithful**: whatever cache it builds from the database agrees with the
chain. -/
theorem loadCache_cacheRef {cd : Codecs} {cfg : Cfg} {base : Store} {baseH : Nat} {db : Store}
    {c : Chain} (hbase : BaseOK cd base baseH) (hR : DbRef cd base baseH db c)
    {cache : List Block} (hl : loadCache cd cfg db = some cache) :
    CacheRef cd base baseH cache c := by
  have hnil : CacheRef cd base baseH [] c :=
    ⟨fun t h => (by cases h), trivial, fun t h => (by cases h), fun t h => (by cases h)⟩
  obtain ⟨id, htop, hidx⟩ := top_index hbase hR
  unfold loadCache at hl
  rw [htop] at hl
  simp only at hl
  cases hlast : getBlock cd db id with
  | none => simp [hlast] at hl; subst hl; exact hnil
  | some last =>
    simp only [hlast] at hl
    have hgl : getBlockByHeight cd db (tipH baseH c) = some last := by
      unfold getBlockByHeight; rw [hidx]; exact hlast
    obtain ⟨hlh, hlc, hlb⟩ := getBlockByHeight_ok hbase hR (Nat.le_refl _) hgl
    -- the blocks below
    generalize hlow : (if last.hdr.height > cfg.genesisHeight then
        ((List.range (last.hdr.height - max cfg.genesisHeight (last.hdr.height - cfg.maxCache))).map
          fun i => max cfg.genesisHeight (last.hdr.height - cfg.maxCache) + i).mapM (getBlockByHeight cd db)
      else some []) = lower at hl
    cases lower with
    | none => cases hl
    | some bs =>
      simp only at hl
      -- heights of `bs`
      have hbs : ∃ lo n, lo + n = last.hdr.height ∧
          bs.map (·.hdr.height) = (List.range n).map (lo + ·) ∧
          ∀ t ∈ bs, ∃ h, h ≤ tipH baseH c ∧ getBlockByHeight cd db h = some t := by
        split at hlow
        · obtain ⟨h1, h2⟩ := mapM_heights _ bs hlow (by
            intro h hh t ht
            obtain ⟨i, hi, rfl⟩ := List.mem_map.mp hh
            have hi' := List.mem_range.mp hi
            exact (getBlockByHeight_ok hbase hR (by omega) ht).1)
          refine ⟨max cfg.genesisHeight (last.hdr.height - cfg.maxCache),
            last.hdr.height - max cfg.genesisHeight (last.hdr.height - cfg.maxCache),
            by omega, h1, ?_⟩
          intro t ht
          obtain ⟨h, hh, hg⟩ := h2 t ht
          obtain ⟨i, hi, rfl⟩ := List.mem_map.mp hh
          have hi' := List.mem_range.mp hi
          exact ⟨_, by omega, hg⟩
        · simp only [Option.some.injEq] at hlow
          subst hlow
          exact ⟨last.hdr.height, 0, by omega, by simp, fun t ht => by cases ht⟩
      obtain ⟨lo, n, hlon, hmap, hmem⟩ := hbs
      have hmap' : (bs ++ [last]).map (·.hdr.height) =
          (List.range (bs ++ [last]).length).map (lo + ·) := by
        have hlen : bs.length = n := by
          have := congrArg List.length hmap
          simpa using this
        simp only [List.map_append, List.map_cons, List.map_nil, List.length_append,
          List.length_cons, List.length_nil, hlen, List.range_succ, List.map_append, hmap]
        simp [hlon]
      obtain ⟨g1, g2, g3⟩ := pushAll_ok cfg (bs ++ [last]) [] cache lo
        (fun t h => by cases h) hmap' trivial hl
      have hq : ∀ t ∈ cache, ∃ h, h ≤ tipH baseH c ∧ getBlockByHeight cd db h = some t := by
        intro t ht
        rcases g2 t ht with h1 | h1
        · cases h1
        · simp only [List.mem_append, List.mem_cons, List.not_mem_nil, or_false] at h1
          rcases h1 with h1 | h1
          · exact hmem t h1
          · exact ⟨_, Nat.le_refl _, h1 ▸ hgl⟩
      refine ⟨?_, g1, ?_, ?_⟩
      · intro t ht
        rw [g3 (by simp)] at ht
        simp at ht
        rw [← ht]; exact hlh
      · intro t ht bx hbx hh
        obtain ⟨h, hle, hg⟩ := hq t ht
        obtain ⟨e1, e2, _⟩ := getBlockByHeight_ok hbase hR hle hg
        exact e2 bx hbx (by rw [hh, e1])
      · intro t ht hle
        obtain ⟨h, hle', hg⟩ := hq t ht
        obtain ⟨e1, _, e3⟩ := getBlockByHeight_ok hbase hR hle' hg
        rw [e1]
        exact e3 (by omega)

end LiskVerif.Node
