/-
Helper lemmas for the Lisk32 address model (`LiskVerif.Model.Lisk32`).
-/
import LiskVerif.Model.Lisk32

namespace LiskVerif.Lisk32

/-! ### polymod: XOR-linearity of one step -/

/-- the generator feedback selected by the top five bits -/
def fb (top : Nat) (l : List Nat) (c : Nat) : Nat :=
  l.foldl (fun c i => if (top >>> i) &&& 1 ≠ 0 then c ^^^ generator.getD i 0 else c) c

theorem polymodStep_eq (chk v : Nat) :
    polymodStep chk v = fb (chk >>> 25) (List.range 5) (((chk &&& 0x1ffffff) <<< 5) ^^^ v) := rfl

theorem xor_right_comm (a b c : Nat) : a ^^^ b ^^^ c = a ^^^ c ^^^ b := by
  rw [Nat.xor_assoc, Nat.xor_comm b c, ← Nat.xor_assoc]

theorem fb_xor (top : Nat) (l : List Nat) (a v : Nat) : fb top l (a ^^^ v) = fb top l a ^^^ v := by
  induction l generalizing a with
  | nil => rfl
  | cons i l ih =>
    simp only [fb, List.foldl_cons] at ih ⊢
    split
    · rw [xor_right_comm, ih]
    · exact ih a

theorem generator_lt (i : Nat) : generator.getD i 0 < 2 ^ 30 := by
  by_cases h : i < 5
  · have : i = 0 ∨ i = 1 ∨ i = 2 ∨ i = 3 ∨ i = 4 := by omega
    rcases this with h | h | h | h | h <;> subst h <;> decide
  · have : generator.length ≤ i := by simp [generator]; omega
    simp [List.getD, List.getElem?_eq_none this]

theorem fb_lt (top : Nat) (l : List Nat) (a : Nat) (ha : a < 2 ^ 30) : fb top l a < 2 ^ 30 := by
  induction l generalizing a with
  | nil => exact ha
  | cons i l ih =>
    simp only [fb, List.foldl_cons] at ih ⊢
    split
    · exact ih _ (Nat.xor_lt_two_pow ha (generator_lt i))
    · exact ih a ha

theorem shl5_xor_eq (b c : Nat) (hc : c < 32) : (b <<< 5) ^^^ c = 32 * b + c := by
  apply Nat.eq_of_testBit_eq
  intro j
  have h := Nat.testBit_two_pow_mul_add b (i := 5) (b := c) hc j
  rw [show (2:Nat) ^ 5 = 32 from rfl] at h
  rw [h, Nat.testBit_xor, Nat.testBit_shiftLeft]
  by_cases hj : j < 5
  · have : ¬ (j ≥ 5) := by omega
    simp [hj, this]
  · have h5 : j ≥ 5 := by omega
    have : c.testBit j = false := by
      apply Nat.testBit_lt_two_pow
      calc c < 32 := hc
        _ = 2 ^ 5 := rfl
        _ ≤ 2 ^ j := Nat.pow_le_pow_right (by decide) h5
    simp [hj, h5, this]

/-- every step lands in the 30-bit state space -/
theorem polymodStep_lt (chk v : Nat) (hv : v < 32) : polymodStep chk v < 2 ^ 30 := by
  rw [polymodStep_eq]
  apply fb_lt
  rw [shl5_xor_eq _ _ hv]
  have : chk &&& 0x1ffffff < 2 ^ 25 := Nat.and_lt_two_pow _ (by decide)
  omega

theorem polymodStep_value (s v : Nat) : polymodStep s v = polymodStep s 0 ^^^ v := by
  rw [polymodStep_eq, polymodStep_eq, fb_xor, Nat.xor_zero]

theorem polymodStep_low (a b : Nat) (hb : b < 2 ^ 25) :
    polymodStep (a ^^^ b) 0 = polymodStep a 0 ^^^ (b <<< 5) := by
  rw [polymodStep_eq, polymodStep_eq]
  have h1 : (a ^^^ b) >>> 25 = a >>> 25 := by
    rw [Nat.shiftRight_xor_distrib, Nat.shiftRight_eq_div_pow b, Nat.div_eq_of_lt hb, Nat.xor_zero]
  have h2 : b &&& 0x1ffffff = b := by
    have := Nat.and_two_pow_sub_one_eq_mod b 25
    rw [show (2:Nat) ^ 25 - 1 = 0x1ffffff from rfl] at this
    rw [this, Nat.mod_eq_of_lt hb]
  rw [h1, Nat.and_xor_distrib_right, h2, Nat.shiftLeft_xor_distrib, Nat.xor_zero, Nat.xor_zero,
    fb_xor]

/-- one step on a state perturbed in its low 25 bits -/
theorem polymodStep_pert (a b c : Nat) (hb : b < 2 ^ 25) (hc : c < 32) :
    polymodStep (a ^^^ b) c = polymodStep a 0 ^^^ (32 * b + c) := by
  rw [polymodStep_value, polymodStep_low a b hb, Nat.xor_assoc, shl5_xor_eq _ _ hc]

/-- Horner packing of base-32 digits on top of `b` -/
def pack (b : Nat) : List Nat → Nat
  | [] => b
  | c :: cs => pack (32 * b + c) cs

theorem foldl_polymodStep_pert (cs : List Nat) (a b j : Nat) (hb : b < 2 ^ (5 * j))
    (hj : cs.length + j ≤ 6) (hcs : ∀ c ∈ cs, c < 32) :
    cs.foldl polymodStep (a ^^^ b)
      = (List.replicate cs.length 0).foldl polymodStep a ^^^ pack b cs := by
  induction cs generalizing a b j with
  | nil => rfl
  | cons c cs ih =>
    have hc : c < 32 := hcs c (by simp)
    have hb25 : b < 2 ^ 25 := by
      have : j ≤ 5 := by simp at hj; omega
      exact Nat.lt_of_lt_of_le hb (Nat.pow_le_pow_right (by decide) (by omega))
    simp only [List.foldl_cons, List.length_cons, List.replicate_succ, pack]
    rw [polymodStep_pert a b c hb25 hc]
    apply ih _ _ (j + 1)
    · rw [show 5 * (j + 1) = 5 * j + 5 by omega, Nat.pow_add]
      have : (2:Nat) ^ 5 = 32 := rfl
      omega
    · simp at hj ⊢; omega
    · intro x hx; exact hcs x (by simp [hx])

/-! ### checksum -/

theorem and31 (x : Nat) : x &&& 31 = x % 32 := Nat.and_two_pow_sub_one_eq_mod x 5

def digits (m : Nat) : List Nat := (List.range 6).map fun p => (m >>> (5 * (5 - p))) &&& 31

theorem digits_eq (m : Nat) : digits m =
    [m / 2 ^ 25 % 32, m / 2 ^ 20 % 32, m / 2 ^ 15 % 32, m / 2 ^ 10 % 32, m / 2 ^ 5 % 32, m % 32] := by
  simp [digits, List.range, List.range.loop, and31, Nat.shiftRight_eq_div_pow]

theorem pack_digits (m : Nat) (hm : m < 2 ^ 30) : pack 0 (digits m) = m := by
  rw [digits_eq]
  simp only [pack]
  omega

theorem digits_lt (m : Nat) : ∀ c ∈ digits m, c < 32 := by
  intro c hc
  simp only [digits, List.mem_map] at hc
  obtain ⟨p, _, rfl⟩ := hc
  rw [and31]; omega

theorem createChecksum_eq (u5 : List Nat) :
    createChecksum u5 = digits (polymod (u5 ++ [0, 0, 0, 0, 0, 0]) ^^^ 1) := rfl

theorem zeros6_lt (s : Nat) : [0, 0, 0, 0, 0, 0].foldl polymodStep s < 2 ^ 30 := by
  simp only [List.foldl_cons, List.foldl_nil]
  exact polymodStep_lt _ _ (by decide)

theorem polymod_checksum (u5 : List Nat) : polymod (u5 ++ createChecksum u5) = 1 := by
  rw [createChecksum_eq]
  simp only [polymod, List.foldl_append]
  generalize List.foldl polymodStep 1 u5 = s
  have hz := zeros6_lt s
  generalize hm : [0, 0, 0, 0, 0, 0].foldl polymodStep s = z at *
  have hm1 : z ^^^ 1 < 2 ^ 30 := Nat.xor_lt_two_pow hz (by decide)
  have h := foldl_polymodStep_pert (digits (z ^^^ 1)) s 0 0 (by decide)
    (by simp [digits]) (digits_lt _)
  rw [Nat.xor_zero] at h
  rw [h, pack_digits _ hm1]
  have : (digits (z ^^^ 1)).length = 6 := by simp [digits]
  rw [this]
  change [0, 0, 0, 0, 0, 0].foldl polymodStep s ^^^ (z ^^^ 1) = 1
  rw [hm, ← Nat.xor_assoc, Nat.xor_self, Nat.zero_xor]

/-! ### bit regrouping: 5 bytes ↔ 8 quintets -/

theorem shr_eq_zero_of_lt (v k : Nat) (h : v < 2 ^ k) : v >>> k = 0 := by
  rw [Nat.shiftRight_eq_div_pow, Nat.div_eq_of_lt h]

theorem shl_or (a v k : Nat) (h : v < 2 ^ k) : (a <<< k) ||| v = a * 2 ^ k + v := by
  rw [← Nat.shiftLeft_add_eq_or_of_lt h, Nat.shiftLeft_eq]

theorem emit_succ (t fuel acc bits : Nat) (out : List Nat) (h : bits ≥ t) (ht : t > 0) :
    emit t (fuel + 1) acc bits out
      = emit t fuel acc (bits - t) (out ++ [acc / 2 ^ (bits - t) % 2 ^ t]) := by
  simp only [emit, h, ht, and_self, if_true, Nat.shiftRight_eq_div_pow,
    Nat.and_two_pow_sub_one_eq_mod]

theorem emit_stop (t fuel acc bits : Nat) (out : List Nat) (h : bits < t) :
    emit t fuel acc bits out = (bits, out) := by
  cases fuel with
  | zero => rfl
  | succ n =>
    have : ¬ (bits ≥ t ∧ t > 0) := by omega
    simp only [emit, this, if_false]

theorem convertLoop_cons (f t v : Nat) (rest : List Nat) (acc bits : Nat) (out : List Nat)
    (hv : v < 2 ^ f) :
    convertLoop f t (v :: rest) acc bits out =
      convertLoop f t rest (acc * 2 ^ f + v)
        (emit t (bits + f + 1) (acc * 2 ^ f + v) (bits + f) out).1
        (emit t (bits + f + 1) (acc * 2 ^ f + v) (bits + f) out).2 := by
  simp only [convertLoop, shr_eq_zero_of_lt v f hv, shl_or _ _ _ hv, ne_eq, not_true, if_false]

theorem step85_lo (v : Nat) (rest : List Nat) (acc bits : Nat) (out : List Nat)
    (hv : v < 256) (hb : bits < 2) :
    convertLoop 8 5 (v :: rest) acc bits out =
      convertLoop 8 5 rest (acc * 256 + v) (bits + 3)
        (out ++ [(acc * 256 + v) / 2 ^ (bits + 3) % 32]) := by
  rw [convertLoop_cons 8 5 v rest acc bits out hv,
    emit_succ 5 _ _ _ _ (by omega) (by omega), emit_stop _ _ _ _ _ (by omega)]
  simp only [show bits + 8 - 5 = bits + 3 by omega]

theorem step85_hi (v : Nat) (rest : List Nat) (acc bits : Nat) (out : List Nat)
    (hv : v < 256) (hb : 2 ≤ bits) (hb' : bits < 5) :
    convertLoop 8 5 (v :: rest) acc bits out =
      convertLoop 8 5 rest (acc * 256 + v) (bits - 2)
        (out ++ [(acc * 256 + v) / 2 ^ (bits + 3) % 32, (acc * 256 + v) / 2 ^ (bits - 2) % 32]) := by
  rw [convertLoop_cons 8 5 v rest acc bits out hv,
    show bits + 8 + 1 = (bits + 7) + 1 + 1 by omega,
    emit_succ 5 _ _ _ _ (by omega) (by omega), emit_succ 5 _ _ _ _ (by omega) (by omega),
    emit_stop _ _ _ _ _ (by omega)]
  simp only [show bits + 8 - 5 = bits + 3 by omega, show bits + 3 - 5 = bits - 2 by omega,
    List.append_assoc, List.cons_append, List.nil_append]

theorem block85 (b0 b1 b2 b3 b4 : Nat) (rest : List Nat) (acc : Nat) (out : List Nat)
    (h0 : b0 < 256) (h1 : b1 < 256) (h2 : b2 < 256) (h3 : b3 < 256) (h4 : b4 < 256) :
    convertLoop 8 5 (b0 :: b1 :: b2 :: b3 :: b4 :: rest) acc 0 out =
      convertLoop 8 5 rest (((((acc * 256 + b0) * 256 + b1) * 256 + b2) * 256 + b3) * 256 + b4) 0
        (out ++ [b0 / 8, b0 % 8 * 4 + b1 / 64, b1 / 2 % 32, b1 % 2 * 16 + b2 / 16,
          b2 % 16 * 2 + b3 / 128, b3 / 4 % 32, b3 % 4 * 8 + b4 / 32, b4 % 32]) := by
  rw [step85_lo b0 _ _ 0 _ h0 (by omega), step85_hi b1 _ _ (0+3) _ h1 (by omega) (by omega),
    step85_lo b2 _ _ (0+3-2) _ h2 (by omega), step85_hi b3 _ _ (0+3-2+3) _ h3 (by omega) (by omega),
    step85_hi b4 _ _ (0+3-2+3-2) _ h4 (by omega) (by omega)]
  simp only [List.append_assoc, List.cons_append, List.nil_append]
  congr 2
  simp only [List.cons.injEq, and_true]
  refine ⟨?_, ?_, ?_, ?_, ?_, ?_, ?_, ?_⟩ <;> simp only [Nat.reducePow, Nat.reduceAdd, Nat.reduceSub] <;> omega

theorem step58_lo (v : Nat) (rest : List Nat) (acc bits : Nat) (out : List Nat)
    (hv : v < 32) (hb : bits < 3) :
    convertLoop 5 8 (v :: rest) acc bits out =
      convertLoop 5 8 rest (acc * 32 + v) (bits + 5) out := by
  rw [convertLoop_cons 5 8 v rest acc bits out hv, emit_stop _ _ _ _ _ (by omega)]

theorem step58_hi (v : Nat) (rest : List Nat) (acc bits : Nat) (out : List Nat)
    (hv : v < 32) (hb : 3 ≤ bits) (hb' : bits < 8) :
    convertLoop 5 8 (v :: rest) acc bits out =
      convertLoop 5 8 rest (acc * 32 + v) (bits - 3)
        (out ++ [(acc * 32 + v) / 2 ^ (bits - 3) % 256]) := by
  rw [convertLoop_cons 5 8 v rest acc bits out hv,
    emit_succ 8 _ _ _ _ (by omega) (by omega), emit_stop _ _ _ _ _ (by omega)]
  simp only [show bits + 5 - 8 = bits - 3 by omega]

theorem block58 (q0 q1 q2 q3 q4 q5 q6 q7 : Nat) (rest : List Nat) (acc : Nat) (out : List Nat)
    (h0 : q0 < 32) (h1 : q1 < 32) (h2 : q2 < 32) (h3 : q3 < 32) (h4 : q4 < 32) (h5 : q5 < 32)
    (h6 : q6 < 32) (h7 : q7 < 32) :
    convertLoop 5 8 (q0 :: q1 :: q2 :: q3 :: q4 :: q5 :: q6 :: q7 :: rest) acc 0 out =
      convertLoop 5 8 rest
        ((((((((acc * 32 + q0) * 32 + q1) * 32 + q2) * 32 + q3) * 32 + q4) * 32 + q5) * 32 + q6)
          * 32 + q7) 0
        (out ++ [q0 * 8 + q1 / 4, q1 % 4 * 64 + q2 * 2 + q3 / 16, q3 % 16 * 16 + q4 / 2,
          q4 % 2 * 128 + q5 * 4 + q6 / 8, q6 % 8 * 32 + q7]) := by
  rw [step58_lo q0 _ _ 0 _ h0 (by omega), step58_hi q1 _ _ (0+5) _ h1 (by omega) (by omega),
    step58_lo q2 _ _ (0+5-3) _ h2 (by omega),
    step58_hi q3 _ _ (0+5-3+5) _ h3 (by omega) (by omega),
    step58_hi q4 _ _ (0+5-3+5-3) _ h4 (by omega) (by omega),
    step58_lo q5 _ _ (0+5-3+5-3-3) _ h5 (by omega),
    step58_hi q6 _ _ (0+5-3+5-3-3+5) _ h6 (by omega) (by omega),
    step58_hi q7 _ _ (0+5-3+5-3-3+5-3) _ h7 (by omega) (by omega)]
  simp only [List.append_assoc, List.cons_append, List.nil_append]
  congr 2
  simp only [List.cons.injEq, and_true]
  refine ⟨?_, ?_, ?_, ?_, ?_⟩ <;> simp only [Nat.reducePow, Nat.reduceAdd, Nat.reduceSub] <;> omega


/-- 5-byte blocks to quintets (closed form of `convertUIntArray · 8 5` on whole blocks) -/
def q85 : List Nat → List Nat
  | b0 :: b1 :: b2 :: b3 :: b4 :: rest =>
    b0 / 8 :: (b0 % 8 * 4 + b1 / 64) :: (b1 / 2 % 32) :: (b1 % 2 * 16 + b2 / 16) ::
      (b2 % 16 * 2 + b3 / 128) :: (b3 / 4 % 32) :: (b3 % 4 * 8 + b4 / 32) :: (b4 % 32) :: q85 rest
  | _ => []

/-- 8-quintet blocks to bytes (closed form of `convertUIntArray · 5 8` on whole blocks) -/
def q58 : List Nat → List Nat
  | q0 :: q1 :: q2 :: q3 :: q4 :: q5 :: q6 :: q7 :: rest =>
    (q0 * 8 + q1 / 4) :: (q1 % 4 * 64 + q2 * 2 + q3 / 16) :: (q3 % 16 * 16 + q4 / 2) ::
      (q4 % 2 * 128 + q5 * 4 + q6 / 8) :: (q6 % 8 * 32 + q7) :: q58 rest
  | _ => []

theorem length5 (l : List Nat) (k : Nat) (h : l.length = 5 * (k + 1)) :
    ∃ b0 b1 b2 b3 b4 rest, l = b0 :: b1 :: b2 :: b3 :: b4 :: rest ∧ rest.length = 5 * k := by
  rcases l with _ | ⟨b0, _ | ⟨b1, _ | ⟨b2, _ | ⟨b3, _ | ⟨b4, rest⟩⟩⟩⟩⟩ <;>
    simp only [List.length_cons, List.length_nil] at h <;> try omega
  exact ⟨b0, b1, b2, b3, b4, rest, rfl, by omega⟩

theorem length8 (l : List Nat) (k : Nat) (h : l.length = 8 * (k + 1)) :
    ∃ q0 q1 q2 q3 q4 q5 q6 q7 rest, l = q0 :: q1 :: q2 :: q3 :: q4 :: q5 :: q6 :: q7 :: rest ∧
      rest.length = 8 * k := by
  rcases l with _ | ⟨q0, _ | ⟨q1, _ | ⟨q2, _ | ⟨q3, _ | ⟨q4, _ | ⟨q5, _ | ⟨q6, _ | ⟨q7, rest⟩⟩⟩⟩⟩⟩⟩⟩ <;>
    simp only [List.length_cons, List.length_nil] at h <;> try omega
  exact ⟨q0, q1, q2, q3, q4, q5, q6, q7, rest, rfl, by omega⟩

theorem convertLoop85 (k : Nat) (l : List Nat) (hl : l.length = 5 * k) (hb : ∀ b ∈ l, b < 256)
    (acc : Nat) (out : List Nat) : convertLoop 8 5 l acc 0 out = some (out ++ q85 l) := by
  induction k generalizing l acc out with
  | zero =>
    have : l = [] := List.eq_nil_of_length_eq_zero (by omega)
    subst this; simp [convertLoop, q85]
  | succ k ih =>
    obtain ⟨b0, b1, b2, b3, b4, rest, rfl, hr⟩ := length5 l k hl
    simp only [List.mem_cons] at hb
    rw [block85 b0 b1 b2 b3 b4 rest acc out (hb _ (by simp)) (hb _ (by simp)) (hb _ (by simp))
      (hb _ (by simp)) (hb _ (by simp)), ih rest hr (fun b h => hb b (by simp [h]))]
    simp [q85]

theorem convertLoop58 (k : Nat) (l : List Nat) (hl : l.length = 8 * k) (hb : ∀ b ∈ l, b < 32)
    (acc : Nat) (out : List Nat) : convertLoop 5 8 l acc 0 out = some (out ++ q58 l) := by
  induction k generalizing l acc out with
  | zero =>
    have : l = [] := List.eq_nil_of_length_eq_zero (by omega)
    subst this; simp [convertLoop, q58]
  | succ k ih =>
    obtain ⟨q0, q1, q2, q3, q4, q5, q6, q7, rest, rfl, hr⟩ := length8 l k hl
    simp only [List.mem_cons] at hb
    rw [block58 q0 q1 q2 q3 q4 q5 q6 q7 rest acc out (hb _ (by simp)) (hb _ (by simp))
      (hb _ (by simp)) (hb _ (by simp)) (hb _ (by simp)) (hb _ (by simp)) (hb _ (by simp))
      (hb _ (by simp)), ih rest hr (fun b h => hb b (by simp [h]))]
    simp [q58]

theorem convert85 (k : Nat) (l : List Nat) (hl : l.length = 5 * k) (hb : ∀ b ∈ l, b < 256) :
    convertUIntArray l 8 5 = q85 l := by
  simp [convertUIntArray, convertLoop85 k l hl hb]

theorem convert58 (k : Nat) (l : List Nat) (hl : l.length = 8 * k) (hb : ∀ b ∈ l, b < 32) :
    convertUIntArray l 5 8 = q58 l := by
  simp [convertUIntArray, convertLoop58 k l hl hb]

theorem q85_props (k : Nat) (l : List Nat) (hl : l.length = 5 * k) (hb : ∀ b ∈ l, b < 256) :
    (q85 l).length = 8 * k ∧ (∀ q ∈ q85 l, q < 32) ∧ q58 (q85 l) = l := by
  induction k generalizing l with
  | zero =>
    have : l = [] := List.eq_nil_of_length_eq_zero (by omega)
    subst this; simp [q85, q58]
  | succ k ih =>
    obtain ⟨b0, b1, b2, b3, b4, rest, rfl, hr⟩ := length5 l k hl
    obtain ⟨i1, i2, i3⟩ := ih rest hr (fun b h => hb b (by simp [h]))
    have h0 := hb b0 (by simp)
    have h1 := hb b1 (by simp)
    have h2 := hb b2 (by simp)
    have h3 := hb b3 (by simp)
    have h4 := hb b4 (by simp)
    refine ⟨?_, ?_, ?_⟩
    · simp only [q85, List.length_cons, i1]; omega
    · intro q hq
      simp only [q85, List.mem_cons] at hq
      rcases hq with h | h | h | h | h | h | h | h | h
      all_goals first | exact i2 q h | omega
    · simp only [q85, q58, i3, List.cons.injEq, and_true]
      refine ⟨?_, ?_, ?_, ?_, ?_⟩ <;> omega

theorem q58_props (k : Nat) (l : List Nat) (hl : l.length = 8 * k) (hb : ∀ b ∈ l, b < 32) :
    (q58 l).length = 5 * k ∧ (∀ q ∈ q58 l, q < 256) ∧ q85 (q58 l) = l := by
  induction k generalizing l with
  | zero =>
    have : l = [] := List.eq_nil_of_length_eq_zero (by omega)
    subst this; simp [q85, q58]
  | succ k ih =>
    obtain ⟨q0, q1, q2, q3, q4, q5, q6, q7, rest, rfl, hr⟩ := length8 l k hl
    obtain ⟨i1, i2, i3⟩ := ih rest hr (fun b h => hb b (by simp [h]))
    have h0 := hb q0 (by simp)
    have h1 := hb q1 (by simp)
    have h2 := hb q2 (by simp)
    have h3 := hb q3 (by simp)
    have h4 := hb q4 (by simp)
    have h5 := hb q5 (by simp)
    have h6 := hb q6 (by simp)
    have h7 := hb q7 (by simp)
    refine ⟨?_, ?_, ?_⟩
    · simp only [q58, List.length_cons, i1]; omega
    · intro q hq
      simp only [q58, List.mem_cons] at hq
      rcases hq with h | h | h | h | h | h
      all_goals first | exact i2 q h | omega
    · simp only [q85, q58, i3, List.cons.injEq, and_true]
      refine ⟨?_, ?_, ?_, ?_, ?_, ?_, ?_, ?_⟩ <;> omega

/-- regrouping bytes → quintets → bytes is the identity on whole 5-byte blocks -/
theorem convert_8_5_8 (k : Nat) (l : List Nat) (hl : l.length = 5 * k) (hb : ∀ b ∈ l, b < 256) :
    convertUIntArray (convertUIntArray l 8 5) 5 8 = l := by
  obtain ⟨h1, h2, h3⟩ := q85_props k l hl hb
  rw [convert85 k l hl hb, convert58 k _ h1 h2, h3]

theorem convert_5_8_5 (k : Nat) (l : List Nat) (hl : l.length = 8 * k) (hb : ∀ b ∈ l, b < 32) :
    convertUIntArray (convertUIntArray l 5 8) 8 5 = l := by
  obtain ⟨h1, h2, h3⟩ := q58_props k l hl hb
  rw [convert58 k l hl hb, convert85 k _ h1 h2, h3]


/-! ### alphabet -/

theorem lskPrefix_eq : lskPrefix = [108, 115, 107] := by decide +kernel

theorem charset_eq : charset = [122, 120, 118, 99, 112, 109, 98, 110, 51, 52, 54, 53, 111, 57, 55, 56,
    117, 121, 114, 116, 107, 113, 101, 119, 50, 97, 100, 115, 106, 104, 102, 103] := by
  decide +kernel

theorem charset_length : charset.length = 32 := by rw [charset_eq]; rfl

/-- the character of a value -/
def charOf (v : Nat) : UInt8 := charset.getD v 0

theorem charIndex_charOf : ∀ v, v < 32 → charIndex (charOf v) = some v := by
  simp only [charIndex, charOf, charset_eq]
  decide

theorem charIndex_some (c : UInt8) (i : Nat) (h : charIndex c = some i) : i < 32 ∧ charOf i = c := by
  unfold charIndex at h
  simp only at h
  split at h
  · rename_i hlt
    injection h with h
    subst h
    refine ⟨by rw [← charset_length]; exact hlt, ?_⟩
    have := List.findIdx_getElem (p := (· == c)) (xs := charset) (w := hlt)
    simp only [beq_iff_eq] at this
    simp only [charOf, List.getD, List.getElem?_eq_getElem hlt, Option.getD_some]
    exact this
  · cases h

theorem mapM_cons_option {α β : Type} (f : α → Option β) (a : α) (l : List α) :
    (a :: l).mapM f = (f a).bind fun x => (l.mapM f).bind fun r => some (x :: r) := by
  simp [List.mapM_cons]

theorem mapM_charIndex_map (l : List Nat) (h : ∀ v ∈ l, v < 32) :
    (l.map charOf).mapM charIndex = some l := by
  induction l with
  | nil => rfl
  | cons a l ih =>
    rw [List.map_cons, mapM_cons_option, charIndex_charOf a (h a (by simp)),
      ih (fun v hv => h v (by simp [hv]))]
    rfl

theorem mapM_charIndex_some (s : Bytes) (r : List Nat) (h : s.mapM charIndex = some r) :
    s = r.map charOf ∧ ∀ v ∈ r, v < 32 := by
  induction s generalizing r with
  | nil =>
    simp only [List.mapM_nil] at h
    cases h
    simp
  | cons c s ih =>
    rw [mapM_cons_option] at h
    cases hc : charIndex c with
    | none => rw [hc] at h; cases h
    | some i =>
      cases hs : s.mapM charIndex with
      | none => rw [hc, hs] at h; cases h
      | some r' =>
        rw [hc, hs] at h
        simp only [Option.bind_some] at h
        cases h
        obtain ⟨e1, e2⟩ := ih r' hs
        obtain ⟨e3, e4⟩ := charIndex_some c i hc
        refine ⟨by rw [List.map_cons, e4, ← e1], ?_⟩
        intro v hv
        simp only [List.mem_cons] at hv
        rcases hv with rfl | hv
        · exact e3
        · exact e2 v hv


/-! ### the address functions on 20-byte inputs -/

theorem map_toNat_lt (b : Bytes) : ∀ v ∈ b.map (·.toNat), v < 256 := by
  intro v hv
  simp only [List.mem_map] at hv
  obtain ⟨x, _, rfl⟩ := hv
  exact x.toNat_lt

theorem map_ofNat_toNat (b : Bytes) : (b.map (·.toNat)).map UInt8.ofNat = b := by
  induction b with
  | nil => rfl
  | cons a b ih => simp only [List.map_cons, UInt8.ofNat_toNat, ih]

theorem map_toNat_ofNat (l : List Nat) (h : ∀ v ∈ l, v < 256) :
    (l.map UInt8.ofNat).map (·.toNat) = l := by
  induction l with
  | nil => rfl
  | cons a l ih =>
    have ha : a < 256 := h a (by simp)
    simp only [List.map_cons, UInt8.toNat_ofNat', ih (fun v hv => h v (by simp [hv]))]
    congr 1
    omega

/-- the quintets of a 20-byte value -/
def u5Of (b : Bytes) : List Nat := convertUIntArray (b.map (·.toNat)) 8 5

theorem u5Of_props (b : Bytes) (hb : b.length = 20) :
    (u5Of b).length = 32 ∧ (∀ v ∈ u5Of b, v < 32) ∧
      (convertUIntArray (u5Of b) 5 8).map UInt8.ofNat = b := by
  have hl : (b.map (·.toNat)).length = 5 * 4 := by simp [hb]
  have hlt := map_toNat_lt b
  obtain ⟨h1, h2, _⟩ := q85_props 4 _ hl hlt
  refine ⟨?_, ?_, ?_⟩
  · rw [u5Of, convert85 4 _ hl hlt, h1]
  · rw [u5Of, convert85 4 _ hl hlt]; exact h2
  · rw [u5Of, convert_8_5_8 4 _ hl hlt, map_ofNat_toNat]

theorem bytesToLisk32_eq (b : Bytes) (hb : b.length = 20) :
    bytesToLisk32 b = some (lskPrefix ++ (u5Of b ++ createChecksum (u5Of b)).map charOf) := by
  unfold bytesToLisk32
  rw [if_neg (by omega), if_neg (by omega)]
  rfl

theorem createChecksum_props (u : List Nat) :
    (createChecksum u).length = 6 ∧ ∀ v ∈ createChecksum u, v < 32 := by
  rw [createChecksum_eq]
  exact ⟨by simp [digits], digits_lt _⟩

theorem validate_eq (s : Bytes) (all : List Nat) (hs : s.length = 41)
    (hm : (s.drop 3).mapM charIndex = some all) : validate s = (polymod all == 1) := by
  unfold validate
  rw [if_neg (by omega), hm]

/-- the text produced for a 20-byte value is accepted by `validate` -/
theorem validate_encoded (u : List Nat) (hu : u.length = 32) (hlt : ∀ v ∈ u, v < 32) :
    validate (lskPrefix ++ (u ++ createChecksum u).map charOf) = true := by
  obtain ⟨c1, c2⟩ := createChecksum_props u
  have hall : ∀ v ∈ u ++ createChecksum u, v < 32 := by
    intro v hv
    rcases List.mem_append.mp hv with h | h
    · exact hlt v h
    · exact c2 v h
  have hd : (lskPrefix ++ (u ++ createChecksum u).map charOf).drop 3
      = (u ++ createChecksum u).map charOf := List.drop_left' (by rw [lskPrefix_eq]; rfl)
  rw [validate_eq _ (u ++ createChecksum u)
    (by simp [lskPrefix_eq, hu, c1]) (by rw [hd]; exact mapM_charIndex_map _ hall),
    polymod_checksum]
  rfl

theorem lisk32ToBytes_encoded (u : List Nat) (hu : u.length = 32) (hlt : ∀ v ∈ u, v < 32) :
    lisk32ToBytes (lskPrefix ++ (u ++ createChecksum u).map charOf)
      = some ((convertUIntArray u 5 8).map UInt8.ofNat) := by
  unfold lisk32ToBytes
  have hd : (lskPrefix ++ (u ++ createChecksum u).map charOf).drop 3
      = (u ++ createChecksum u).map charOf := List.drop_left' (by rw [lskPrefix_eq]; rfl)
  rw [if_neg (by simp [lskPrefix_eq]), validate_encoded u hu hlt, hd, ← List.map_take,
    List.take_left' hu, mapM_charIndex_map u hlt]
  rfl

/-! ### uniqueness of the checksum -/

theorem pack_unique (cs : List Nat) (m : Nat) (hl : cs.length = 6) (hlt : ∀ c ∈ cs, c < 32)
    (h : pack 0 cs = m) : digits m = cs := by
  rcases cs with _ | ⟨c0, _ | ⟨c1, _ | ⟨c2, _ | ⟨c3, _ | ⟨c4, _ | ⟨c5, _ | ⟨c6, r⟩⟩⟩⟩⟩⟩⟩ <;>
    simp only [List.length_cons, List.length_nil] at hl <;> try omega
  have h0 := hlt c0 (by simp)
  have h1 := hlt c1 (by simp)
  have h2 := hlt c2 (by simp)
  have h3 := hlt c3 (by simp)
  have h4 := hlt c4 (by simp)
  have h5 := hlt c5 (by simp)
  simp only [pack] at h
  rw [digits_eq]
  simp only [List.cons.injEq, and_true]
  refine ⟨?_, ?_, ?_, ?_, ?_, ?_⟩ <;> omega

theorem xor_eq_one (z p : Nat) (h : z ^^^ p = 1) : p = z ^^^ 1 := by
  rw [← h, ← Nat.xor_assoc, Nat.xor_self, Nat.zero_xor]

/-- a 6-value tail that makes `polymod` equal to 1 is the checksum -/
theorem checksum_unique (u cs : List Nat) (hl : cs.length = 6) (hlt : ∀ c ∈ cs, c < 32)
    (h : polymod (u ++ cs) = 1) : createChecksum u = cs := by
  rw [createChecksum_eq]
  simp only [polymod, List.foldl_append] at h ⊢
  generalize List.foldl polymodStep 1 u = s at *
  have hp := foldl_polymodStep_pert cs s 0 0 (by decide) (by omega) hlt
  rw [Nat.xor_zero, hl] at hp
  rw [hp] at h
  have := xor_eq_one _ _ h
  exact pack_unique cs _ hl hlt this


end LiskVerif.Lisk32
