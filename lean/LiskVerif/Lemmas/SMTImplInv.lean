/-
Structural invariants of the expansion phase of `updateSubtree` (Model/SMTImpl.lean): whatever the batch, the
database and the lower levels do, `updateNode` returns the flattening of a layout tree rooted at its position,
and the loop `updateNodes` over a subtree that is the flattening of a layout tree returns the flattening of a
layout tree again (every tip replaced by the tree `updateNode` made of it), no deeper than the subtree height.
-/
import LiskVerif.Lemmas.SMTImplTree

namespace LiskVerif.SMTImpl
open LiskVerif LiskVerif.SMT

theorem singleResult_shape {c : Cfg} {pos : Nat} {bins : List (List KV)} {cur : Node} {r : NS}
    (h : singleResult c pos bins cur = some r) : ∃ n, r = ([n], [pos]) := by
  unfold singleResult at h
  split at h
  · split at h
    · simp at h
    · split at h
      · split at h <;> (simp at h; exact ⟨_, h.symm⟩)
      · split at h
        · split at h <;> (simp at h; exact ⟨_, h.symm⟩)
        · simp at h
  · simp at h

theorem updateBottom_shape {c : Cfg} {lower : DB → List KV → SubTree → Nat → St SubTree} {height pos : Nat}
    {db db' : DB} {bins : List (List KV)} {cur : Node} {r : NS}
    (h : updateBottom c lower height pos db bins cur = (db', .ok r)) : ∃ n, r = ([n], [pos]) := by
  unfold updateBottom at h
  split at h
  · simp only at h
    split at h
    · simp at h
    · split at h
      · simp at h
      · split at h
        · simp at h; exact ⟨_, h.2.symm⟩
        · simp at h; exact ⟨_, h.2.symm⟩
  · simp at h

/-- `updateNode` with `rem ≤ subtreeHeight` levels left returns a layout tree rooted at depth
`subtreeHeight - rem`, no deeper than the subtree height -/
theorem updateNode_tree (c : Cfg) (lower : DB → List KV → SubTree → Nat → St SubTree) (height : Nat) :
    ∀ (rem : Nat) (db : DB) (bins : List (List KV)) (cur : Node) (db' : DB) (r : NS), rem ≤ c.sth →
      updateNode c lower height rem db bins cur = (db', .ok r) →
      ∃ t : LT, t.nodes = r.1 ∧ t.depths (c.sth - rem) = r.2 ∧ t.maxDepth (c.sth - rem) ≤ c.sth := by
  intro rem
  induction rem with
  | zero =>
    intro db bins cur db' r _ h
    unfold updateNode at h
    simp only at h
    split at h
    · simp at h
    · split at h
      · simp at h; exact ⟨.tip cur, by simp [LT.nodes, LT.depths, LT.maxDepth, ← h.2]⟩
      · split at h
        · rename_i r' hs
          obtain ⟨n, rfl⟩ := singleResult_shape hs
          simp at h; exact ⟨.tip n, by simp [LT.nodes, LT.depths, LT.maxDepth, ← h.2]⟩
        · obtain ⟨n, rfl⟩ := updateBottom_shape h
          exact ⟨.tip n, by simp [LT.nodes, LT.depths, LT.maxDepth]⟩
  | succ rem ih =>
    intro db bins cur db' r hle h
    unfold updateNode at h
    simp only at h
    split at h
    · simp at h
    · split at h
      · simp at h; exact ⟨.tip cur, by simp [LT.nodes, LT.depths, LT.maxDepth, ← h.2]⟩
      · split at h
        · rename_i r' hs
          obtain ⟨n, rfl⟩ := singleResult_shape hs
          simp at h; exact ⟨.tip n, by simp [LT.nodes, LT.depths, LT.maxDepth, ← h.2]⟩
        · split at h
          · simp at h
          · split at h
            · simp at h
            · split at h
              · simp at h
              · rename_i dbl l hl
                split at h
                · simp at h
                · rename_i dbr rr hr
                  obtain ⟨tl, hl1, hl2, hl3⟩ := ih _ _ _ _ _ (by omega) hl
                  obtain ⟨tr, hr1, hr2, hr3⟩ := ih _ _ _ _ _ (by omega) hr
                  simp at h
                  have hd : c.sth - rem = c.sth - (rem + 1) + 1 := by omega
                  rw [hd] at hl2 hl3 hr2 hr3
                  refine ⟨.br tl tr, ?_, ?_, ?_⟩
                  · simp [LT.nodes, hl1, hr1, ← h.2]
                  · simp [LT.depths, hl2, hr2, ← h.2]
                  · simp [LT.maxDepth]; omega

/-- the loop over the nodes of the current subtree, started on the flattening of a layout tree `t` (followed by
further nodes): the result starts with the flattening of a layout tree at the same depth and the loop continues
on the remaining nodes with the remaining bins -/
theorem updateNodes_tree (c : Cfg) (lower : DB → List KV → SubTree → Nat → St SubTree) (height : Nat) :
    ∀ (t : LT) (d : Nat) (ns : List Node) (hs : List Nat) (db : DB) (bins : List (List KV)) (off : Nat)
      (db' : DB) (on : List Node) (os : List Nat) (off' : Nat), t.maxDepth d ≤ c.sth →
      updateNodes c lower height (t.nodes ++ ns) (t.depths d ++ hs) db bins off = (db', .ok ((on, os), off')) →
      ∃ (t' : LT) (db1 : DB) (on' : List Node) (os' : List Nat),
        on = t'.nodes ++ on' ∧ os = t'.depths d ++ os' ∧ t'.maxDepth d ≤ c.sth ∧
        updateNodes c lower height ns hs db1 (bins.drop (2 ^ (c.sth - d))) (off + 2 ^ (c.sth - d)) =
          (db', .ok ((on', os'), off')) := by
  intro t
  induction t with
  | tip n =>
    intro d ns hs db bins off db' on os off' hd h
    simp only [LT.nodes, LT.depths, List.cons_append, List.nil_append, LT.maxDepth] at h hd
    unfold updateNodes at h
    split at h
    · simp at h
    · simp only at h
      split at h
      · simp at h
      · split at h
        · simp at h
        · rename_i db1 r hr
          split at h
          · simp at h
          · rename_i db2 rs off2 hrs
            obtain ⟨t', h1, h2, h3⟩ := updateNode_tree c lower height _ _ _ _ _ _ (by omega) hr
            have hdd : c.sth - (c.sth - d) = d := by omega
            rw [hdd] at h2 h3
            simp at h
            refine ⟨t', db1, rs.1, rs.2, ?_, ?_, h3, ?_⟩
            · rw [h1]; exact h.2.1.1.symm
            · rw [h2]; exact h.2.1.2.symm
            · rw [hrs, h.1, h.2.2]
  | br l r ihl ihr =>
    intro d ns hs db bins off db' on os off' hd h
    simp only [LT.nodes, LT.depths, List.append_assoc, LT.maxDepth] at h hd
    have hl : l.maxDepth (d + 1) ≤ c.sth := by omega
    have hr : r.maxDepth (d + 1) ≤ c.sth := by omega
    obtain ⟨tl, db1, on1, os1, e1, e2, m1, h1⟩ := ihl _ _ _ _ _ _ _ _ _ _ hl h
    obtain ⟨tr, db2, on2, os2, e3, e4, m2, h2⟩ := ihr _ _ _ _ _ _ _ _ _ _ hr h1
    have hge : d + 1 ≤ c.sth := by
      have : ∀ (t : LT) (d : Nat), d ≤ t.maxDepth d := by
        intro t; induction t with
        | tip _ => intro d; simp [LT.maxDepth]
        | br a b iha _ => intro d; have := iha (d + 1); simp [LT.maxDepth]; omega
      have := this l (d + 1); omega
    have hp : 2 ^ (c.sth - d) = 2 ^ (c.sth - (d + 1)) + 2 ^ (c.sth - (d + 1)) := by
      have : c.sth - d = (c.sth - (d + 1)) + 1 := by omega
      rw [this, Nat.pow_succ]; omega
    refine ⟨.br tl tr, db2, on2, os2, ?_, ?_, ?_, ?_⟩
    · simp [LT.nodes, e1, e3]
    · simp [LT.depths, e2, e4]
    · simp [LT.maxDepth]; omega
    · rw [List.drop_drop, Nat.add_assoc] at h2
      rw [hp]; exact h2

end LiskVerif.SMTImpl
