/-
Lemmas about the sparse Merkle tree specification (Model/SMTSpec.lean): bit strings of keys, permutation
invariance of `root`, association-list maps, the canonical tree `build` and the incremental algorithm.
-/
import LiskVerif.Model.SMTSpec

namespace LiskVerif.SMT

/-! ### key bits -/

theorem byteBits_length (b : UInt8) : (byteBits b).length = 8 := by simp [byteBits]

theorem keyBits_length (k : Bytes) : (keyBits k).length = 8 * k.length := by
  induction k with
  | nil => simp [keyBits]
  | cons b r ih => simp [keyBits, byteBits_length, ih]; omega

theorem byteBits_inj {a b : UInt8} (h : byteBits a = byteBits b) : a = b := by
  have hlt : ∀ x : UInt8, x.toNat < 2 ^ 8 := fun x => x.toNat_lt
  apply UInt8.toNat_inj.mp
  apply Nat.eq_of_testBit_eq
  intro i
  simp only [byteBits, List.cons.injEq, and_true] at h
  obtain ⟨h7, h6, h5, h4, h3, h2, h1, h0⟩ := h
  by_cases hi : i < 8
  · have : i = 0 ∨ i = 1 ∨ i = 2 ∨ i = 3 ∨ i = 4 ∨ i = 5 ∨ i = 6 ∨ i = 7 := by omega
    rcases this with h | h | h | h | h | h | h | h <;> subst h <;> assumption
  · have hp : 2 ^ 8 ≤ 2 ^ i := Nat.pow_le_pow_right (by omega) (by omega)
    rw [Nat.testBit_lt_two_pow (Nat.lt_of_lt_of_le (hlt a) hp),
        Nat.testBit_lt_two_pow (Nat.lt_of_lt_of_le (hlt b) hp)]

theorem keyBits_inj : ∀ {a b : Bytes}, keyBits a = keyBits b → a = b
  | [], [], _ => rfl
  | [], b :: r, h => by
    have := congrArg List.length h
    simp [keyBits, byteBits_length] at this
    omega
  | a :: r, [], h => by
    have := congrArg List.length h
    simp [keyBits, byteBits_length] at this
  | a :: r, b :: s, h => by
    simp only [keyBits] at h
    have hl : (byteBits a).length = (byteBits b).length := by simp [byteBits_length]
    obtain ⟨h1, h2⟩ := List.append_inj h hl
    rw [byteBits_inj h1, keyBits_inj h2]

/-! ### `root` -/

@[simp] theorem root_nil (H : HashFn) (d : Nat) : root H d [] = emptyHash H := by
  cases d <;> simp [root]

@[simp] theorem root_single (H : HashFn) (d : Nat) (e : Entry) : root H d [e] = leafHash H e.key e.value := by
  cases d <;> simp [root]

theorem root_succ_two (H : HashFn) (d : Nat) (es : List Entry) (h : 2 ≤ es.length) :
    root H (d + 1) es = branchHash H (root H d (goL es)) (root H d (goR es)) := by
  match es, h with
  | _ :: _ :: _, _ => simp [root]

theorem root_zero_two (H : HashFn) (es : List Entry) (h : 2 ≤ es.length) : root H 0 es = emptyHash H := by
  match es, h with
  | _ :: _ :: _, _ => simp [root]

theorem goL_perm {a b : List Entry} (h : a.Perm b) : (goL a).Perm (goL b) := h.filterMap _
theorem goR_perm {a b : List Entry} (h : a.Perm b) : (goR a).Perm (goR b) := h.filterMap _

/-- the root does not depend on the order in which the entries are listed -/
theorem root_perm (H : HashFn) : ∀ (d : Nat) {a b : List Entry}, a.Perm b → root H d a = root H d b := by
  intro d
  induction d with
  | zero =>
    intro a b h
    match a, b, h with
    | [], b, h => rw [List.Perm.eq_nil h.symm]
    | [e], b, h => rw [List.perm_singleton.mp h.symm]
    | e₁ :: e₂ :: es, b, h =>
      have hl := h.length_eq
      rw [root_zero_two H _ (by simp), root_zero_two H b (by rw [← hl]; simp)]
  | succ d ih =>
    intro a b h
    match a, b, h with
    | [], b, h => rw [List.Perm.eq_nil h.symm]
    | [e], b, h => rw [List.perm_singleton.mp h.symm]
    | e₁ :: e₂ :: es, b, h =>
      have hl := h.length_eq
      rw [root_succ_two H d _ (by simp), root_succ_two H d b (by rw [← hl]; simp),
        ih (goL_perm h), ih (goR_perm h)]

/-! ### association-list maps -/

def NoDupKeys (m : List KV) : Prop := (m.map Prod.fst).Nodup

theorem mget_eq_some_of_mem {m : List KV} (hn : NoDupKeys m) {k v : Bytes} (h : (k, v) ∈ m) :
    mget m k = some v := by
  induction m with
  | nil => simp at h
  | cons kv r ih =>
    simp only [NoDupKeys, List.map_cons, List.nodup_cons] at hn
    simp only [List.mem_cons] at h
    rcases h with h | h
    · subst h; simp [mget]
    · have hne : kv.1 ≠ k := by
        intro he
        apply hn.1
        rw [he]
        exact List.mem_map_of_mem (f := Prod.fst) h
      simp [mget, hne, ih hn.2 h]

theorem mem_of_mget_eq_some {m : List KV} {k v : Bytes} (h : mget m k = some v) : (k, v) ∈ m := by
  induction m with
  | nil => simp [mget] at h
  | cons kv r ih =>
    simp only [mget] at h
    split at h
    · next he => simp only [Option.some.injEq] at h; subst h; subst he; simp
    · exact List.mem_cons_of_mem _ (ih h)

theorem mget_eq_none_iff {m : List KV} {k : Bytes} : mget m k = none ↔ k ∉ m.map Prod.fst := by
  induction m with
  | nil => simp [mget]
  | cons kv r ih =>
    simp only [mget, List.map_cons, List.mem_cons, not_or]
    split
    · next he => simp [he]
    · next he => rw [ih]; constructor
                 · intro h; exact ⟨fun h' => he h'.symm, h⟩
                 · intro h; exact h.2

theorem nodup_of_nodupKeys {m : List KV} (h : NoDupKeys m) : m.Nodup :=
  List.Pairwise.of_map Prod.fst (fun _ _ hne he => hne (he ▸ rfl)) h

/-- two maps without duplicate keys that answer every lookup alike list the same pairs -/
theorem perm_of_mget_eq {m₁ m₂ : List KV} (h₁ : NoDupKeys m₁) (h₂ : NoDupKeys m₂)
    (h : ∀ k, mget m₁ k = mget m₂ k) : m₁.Perm m₂ := by
  rw [List.perm_ext_iff_of_nodup (nodup_of_nodupKeys h₁) (nodup_of_nodupKeys h₂)]
  intro ⟨k, v⟩
  constructor
  · intro hm
    exact mem_of_mget_eq_some ((h k) ▸ mget_eq_some_of_mem h₁ hm)
  · intro hm
    exact mem_of_mget_eq_some ((h k).symm ▸ mget_eq_some_of_mem h₂ hm)

theorem mdel_keys (m : List KV) (k : Bytes) :
    (mdel m k).map Prod.fst = (m.map Prod.fst).filter (fun x => decide (x ≠ k)) := by
  induction m with
  | nil => simp [mdel]
  | cons kv r ih =>
    unfold mdel at *
    by_cases hk : kv.1 = k
    · rw [List.filter_cons_of_neg (by simp [hk]), List.map_cons, List.filter_cons_of_neg (by simp [hk])]
      exact ih
    · rw [List.filter_cons_of_pos (by simp [hk]), List.map_cons, List.map_cons,
        List.filter_cons_of_pos (by simp [hk]), ih]

theorem nodupKeys_mdel {m : List KV} (h : NoDupKeys m) (k : Bytes) : NoDupKeys (mdel m k) := by
  unfold NoDupKeys at *
  rw [mdel_keys]
  exact h.filter _

theorem nodupKeys_mset {m : List KV} (h : NoDupKeys m) (k v : Bytes) : NoDupKeys (mset m k v) := by
  unfold NoDupKeys mset
  simp only [List.map_cons, List.nodup_cons]
  refine ⟨?_, nodupKeys_mdel h k⟩
  rw [mdel_keys]
  simp

theorem mget_mdel (m : List KV) (k k' : Bytes) :
    mget (mdel m k) k' = if k' = k then none else mget m k' := by
  induction m with
  | nil => simp [mdel, mget]
  | cons kv r ih =>
    simp only [mdel, List.filter_cons] at ih ⊢
    by_cases hk : kv.1 = k
    · simp only [hk, ne_eq, not_true_eq_false, decide_false, Bool.false_eq_true, ↓reduceIte, ih, mget]
      by_cases hk' : k' = k
      · simp [hk']
      · have : ¬ k = k' := fun h => hk' h.symm
        simp [hk', this]
    · simp only [ne_eq, hk, not_false_eq_true, decide_true, ↓reduceIte, mget, ih]
      by_cases hk' : k' = k
      · have : ¬ kv.1 = k' := by rw [hk']; exact hk
        simp [hk', hk]
      · simp [hk']

theorem mget_mset (m : List KV) (k v k' : Bytes) :
    mget (mset m k v) k' = if k' = k then some v else mget m k' := by
  simp only [mset, mget, mget_mdel]
  by_cases hk : k = k'
  · simp [hk]
  · have : ¬ k' = k := fun h => hk h.symm
    simp [hk, this]

theorem nodupKeys_applyOp {m : List KV} (h : NoDupKeys m) (op : Op) : NoDupKeys (applyOp m op) := by
  cases op with
  | set k v => exact nodupKeys_mset h k v
  | del k => exact nodupKeys_mdel h k

theorem nodupKeys_foldl_applyOp {m : List KV} (h : NoDupKeys m) (ops : List Op) :
    NoDupKeys (ops.foldl applyOp m) := by
  induction ops generalizing m with
  | nil => exact h
  | cons op r ih => exact ih (nodupKeys_applyOp h op)

theorem nodupKeys_applyBatch {m : List KV} (h : NoDupKeys m) (b : List KV) : NoDupKeys (applyBatch m b) :=
  nodupKeys_foldl_applyOp h _

theorem nodupKeys_finalMap (bs : List (List KV)) : NoDupKeys (finalMap bs) := by
  unfold finalMap
  suffices ∀ m, NoDupKeys m → NoDupKeys (bs.foldl applyBatch m) from this [] (by simp [NoDupKeys])
  induction bs with
  | nil => intro m h; exact h
  | cons b r ih => intro m h; exact ih _ (nodupKeys_applyBatch h b)

/-! ### batches -/

theorem keys_filter_ne (l : List KV) (k : Bytes) :
    (l.filter (fun x => decide (x.1 ≠ k))).map Prod.fst = (l.map Prod.fst).filter (fun x => decide (x ≠ k)) :=
  mdel_keys l k

theorem nodupKeys_dedupFirst (b : List KV) : NoDupKeys (dedupFirst b) := by
  induction b with
  | nil => simp [dedupFirst, NoDupKeys]
  | cons kv r ih =>
    unfold NoDupKeys at *
    simp only [dedupFirst, List.map_cons, List.nodup_cons]
    rw [keys_filter_ne]
    exact ⟨by simp, ih.filter _⟩

theorem find?_filter_of_imp {α : Type} (p q : α → Bool) (l : List α) (h : ∀ x, p x = true → q x = true) :
    (l.filter q).find? p = l.find? p := by
  induction l with
  | nil => rfl
  | cons a r ih =>
    by_cases hq : q a = true
    · rw [List.filter_cons_of_pos hq, List.find?_cons, List.find?_cons, ih]
    · rw [List.filter_cons_of_neg hq, List.find?_cons, ih]
      have : p a = false := by
        cases hp : p a
        · rfl
        · exact absurd (h a hp) hq
      simp [this]

theorem find?_dedupFirst (b : List KV) (k : Bytes) :
    (dedupFirst b).find? (fun kv => decide (kv.1 = k)) = b.find? (fun kv => decide (kv.1 = k)) := by
  induction b with
  | nil => rfl
  | cons kv r ih =>
    simp only [dedupFirst, List.find?_cons]
    by_cases hk : kv.1 = k
    · simp [hk]
    · simp only [hk, decide_false]
      rw [find?_filter_of_imp _ _ _ (by
        intro x hx
        simp only [decide_eq_true_eq] at hx
        simp only [ne_eq, decide_not, Bool.not_eq_eq_eq_not, Bool.not_true, decide_eq_false_iff_not]
        rw [hx]; exact fun h => hk h.symm), ih]

def opEffect (kv : KV) : Option Bytes := if kv.2 = [] then none else some kv.2

theorem mget_applyOp_opOfKV (m : List KV) (kv : KV) (k : Bytes) :
    mget (applyOp m (opOfKV kv)) k = if k = kv.1 then opEffect kv else mget m k := by
  unfold opOfKV opEffect
  by_cases hv : kv.2 = []
  · simp [hv, applyOp, mget_mdel]
  · simp [hv, applyOp, mget_mset]

theorem mget_foldl_ops (l : List KV) (hn : NoDupKeys l) (m : List KV) (k : Bytes) :
    mget ((l.map opOfKV).foldl applyOp m) k =
      match l.find? (fun kv => decide (kv.1 = k)) with
      | none => mget m k
      | some kv => opEffect kv := by
  induction l generalizing m with
  | nil => rfl
  | cons kv r ih =>
    simp only [NoDupKeys, List.map_cons, List.nodup_cons] at hn
    simp only [List.map_cons, List.foldl_cons, List.find?_cons]
    rw [ih hn.2]
    by_cases hk : kv.1 = k
    · have hnone : r.find? (fun kv => decide (kv.1 = k)) = none := by
        rw [List.find?_eq_none]
        intro x hx
        simp only [decide_eq_true_eq]
        intro hxk
        apply hn.1
        rw [hk, ← hxk]
        exact List.mem_map_of_mem (f := Prod.fst) hx
      simp [hk, hnone, mget_applyOp_opOfKV]
    · have hk' : ¬ k = kv.1 := fun h => hk h.symm
      simp only [hk, decide_false]
      cases r.find? (fun kv => decide (kv.1 = k)) with
      | none => simp [mget_applyOp_opOfKV, hk']
      | some x => rfl

theorem mget_applyBatch (m b : List KV) (k : Bytes) :
    mget (applyBatch m b) k =
      match b.find? (fun kv => decide (kv.1 = k)) with
      | none => mget m k
      | some kv => opEffect kv := by
  unfold applyBatch batchOps
  rw [mget_foldl_ops _ (nodupKeys_dedupFirst b), find?_dedupFirst]

theorem mapRoot_perm (H : HashFn) (keyLen : Nat) {m₁ m₂ : List KV} (h : m₁.Perm m₂) :
    mapRoot H keyLen m₁ = mapRoot H keyLen m₂ :=
  root_perm H _ (h.map _)

/-! ### children of a node -/

theorem stepL_false (e : Entry) (r : Bits) (h : e.path = false :: r) : stepL e = some ⟨r, e.key, e.value⟩ := by
  simp [stepL, h]
theorem stepL_true (e : Entry) (r : Bits) (h : e.path = true :: r) : stepL e = none := by
  simp [stepL, h]
theorem stepL_nil (e : Entry) (h : e.path = []) : stepL e = none := by
  simp [stepL, h]
theorem stepR_true (e : Entry) (r : Bits) (h : e.path = true :: r) : stepR e = some ⟨r, e.key, e.value⟩ := by
  simp [stepR, h]
theorem stepR_false (e : Entry) (r : Bits) (h : e.path = false :: r) : stepR e = none := by
  simp [stepR, h]
theorem stepR_nil (e : Entry) (h : e.path = []) : stepR e = none := by
  simp [stepR, h]

theorem stepL_some {e e' : Entry} (h : stepL e = some e') :
    e.path = false :: e'.path ∧ e'.key = e.key ∧ e'.value = e.value := by
  unfold stepL at h
  split at h
  · next r hr => simp only [Option.some.injEq] at h; subst h; simp [hr]
  · simp at h

theorem stepR_some {e e' : Entry} (h : stepR e = some e') :
    e.path = true :: e'.path ∧ e'.key = e.key ∧ e'.value = e.value := by
  unfold stepR at h
  split at h
  · next r hr => simp only [Option.some.injEq] at h; subst h; simp [hr]
  · simp at h

theorem mem_goL {es : List Entry} {e' : Entry} :
    e' ∈ goL es ↔ ∃ e ∈ es, e.path = false :: e'.path ∧ e'.key = e.key ∧ e'.value = e.value := by
  simp only [goL, List.mem_filterMap]
  constructor
  · rintro ⟨e, he, hs⟩; exact ⟨e, he, stepL_some hs⟩
  · rintro ⟨e, he, hp, hk, hv⟩
    refine ⟨e, he, ?_⟩
    rw [stepL_false e _ hp]
    cases e'; simp_all

theorem mem_goR {es : List Entry} {e' : Entry} :
    e' ∈ goR es ↔ ∃ e ∈ es, e.path = true :: e'.path ∧ e'.key = e.key ∧ e'.value = e.value := by
  simp only [goR, List.mem_filterMap]
  constructor
  · rintro ⟨e, he, hs⟩; exact ⟨e, he, stepR_some hs⟩
  · rintro ⟨e, he, hp, hk, hv⟩
    refine ⟨e, he, ?_⟩
    rw [stepR_true e _ hp]
    cases e'; simp_all

/-- well-formed entries below a node with `d` bits left: paths have length `d` and are pairwise distinct -/
def WFE (d : Nat) (es : List Entry) : Prop :=
  (∀ e ∈ es, e.path.length = d) ∧ es.Pairwise (fun a b => a.path ≠ b.path)

theorem wfe_nil (d : Nat) : WFE d [] := ⟨by simp, List.Pairwise.nil⟩

theorem wfe_goL {d : Nat} {es : List Entry} (h : WFE (d + 1) es) : WFE d (goL es) := by
  refine ⟨?_, ?_⟩
  · intro e' he'
    obtain ⟨e, he, hp, _, _⟩ := mem_goL.mp he'
    have := h.1 e he
    rw [hp] at this
    simpa using this
  · unfold goL
    rw [List.pairwise_filterMap]
    refine h.2.imp ?_
    intro a b hab a' ha' b' hb' heq
    apply hab
    rw [(stepL_some ha').1, (stepL_some hb').1, heq]

theorem wfe_goR {d : Nat} {es : List Entry} (h : WFE (d + 1) es) : WFE d (goR es) := by
  refine ⟨?_, ?_⟩
  · intro e' he'
    obtain ⟨e, he, hp, _, _⟩ := mem_goR.mp he'
    have := h.1 e he
    rw [hp] at this
    simpa using this
  · unfold goR
    rw [List.pairwise_filterMap]
    refine h.2.imp ?_
    intro a b hab a' ha' b' hb' heq
    apply hab
    rw [(stepR_some ha').1, (stepR_some hb').1, heq]

theorem wfe_zero_length {es : List Entry} (h : WFE 0 es) : es.length ≤ 1 := by
  match es, h with
  | [], _ => simp
  | [_], _ => simp
  | e₁ :: e₂ :: r, h =>
    exfalso
    have h1 := h.1 e₁ (by simp)
    have h2 := h.1 e₂ (by simp)
    have hne := (List.pairwise_cons.mp h.2).1 e₂ (by simp)
    apply hne
    rw [List.length_eq_zero_iff.mp h1, List.length_eq_zero_iff.mp h2]

theorem length_goL_add_goR (es : List Entry) (h : ∀ e ∈ es, e.path ≠ []) :
    (goL es).length + (goR es).length = es.length := by
  induction es with
  | nil => simp [goL, goR]
  | cons e r ih =>
    have ihr := ih (fun x hx => h x (List.mem_cons_of_mem _ hx))
    have he := h e (by simp)
    unfold goL goR at *
    match hp : e.path with
    | [] => exact absurd hp he
    | false :: p =>
      rw [List.filterMap_cons_some (stepL_false e p hp), List.filterMap_cons_none (stepR_false e p hp)]
      simp only [List.length_cons]; omega
    | true :: p =>
      rw [List.filterMap_cons_none (stepL_true e p hp), List.filterMap_cons_some (stepR_true e p hp)]
      simp only [List.length_cons]; omega

theorem wfe_path_ne_nil {d : Nat} {es : List Entry} (h : WFE (d + 1) es) : ∀ e ∈ es, e.path ≠ [] := by
  intro e he hp
  have := h.1 e he
  rw [hp] at this
  simp at this

/-! ### the canonical tree -/

@[simp] theorem build_nil (d : Nat) : build d [] = .empty := by cases d <;> simp [build]
@[simp] theorem build_single (d : Nat) (e : Entry) : build d [e] = .leaf e.path e.key e.value := by
  cases d <;> simp [build]

theorem build_succ_two (d : Nat) (es : List Entry) (h : 2 ≤ es.length) :
    build (d + 1) es = .branch (build d (goL es)) (build d (goR es)) := by
  match es, h with
  | _ :: _ :: _, _ => simp [build]

theorem build_zero_two (es : List Entry) (h : 2 ≤ es.length) : build 0 es = .empty := by
  match es, h with
  | _ :: _ :: _, _ => simp [build]

/-- the hash of the canonical tree is the declarative root -/
theorem hash_build (H : HashFn) : ∀ (d : Nat) (es : List Entry), (build d es).hash H = root H d es := by
  intro d
  induction d with
  | zero =>
    intro es
    match es with
    | [] => simp [Tree.hash]
    | [e] => simp [Tree.hash]
    | e₁ :: e₂ :: r => rw [build_zero_two _ (by simp), root_zero_two H _ (by simp)]; rfl
  | succ d ih =>
    intro es
    match es with
    | [] => simp [Tree.hash]
    | [e] => simp [Tree.hash]
    | e₁ :: e₂ :: r =>
      rw [build_succ_two d _ (by simp), root_succ_two H d _ (by simp)]
      simp [Tree.hash, ih]

/-- shape of the canonical tree of well-formed entries -/
theorem build_kind {d : Nat} {es : List Entry} (h : WFE d es) :
    (es = [] ∧ build d es = .empty) ∨ (∃ e, es = [e] ∧ build d es = .leaf e.path e.key e.value) ∨
    (2 ≤ es.length ∧ ∃ l r, build d es = .branch l r) := by
  match es, h with
  | [], _ => left; simp
  | [e], _ => right; left; exact ⟨e, rfl, by simp⟩
  | e₁ :: e₂ :: r, h =>
    right; right
    cases d with
    | zero => have := wfe_zero_length h; simp at this
    | succ d => exact ⟨by simp, _, _, build_succ_two d _ (by simp)⟩

/-- rebuilding a branch from the canonical trees of the two halves gives the canonical tree -/
theorem mkBranch_build {d : Nat} {es : List Entry} (h : WFE (d + 1) es) :
    mkBranch (build d (goL es)) (build d (goR es)) = build (d + 1) es := by
  match es, h with
  | [], _ => simp [goL, goR, mkBranch]
  | [e], h =>
    have hne := wfe_path_ne_nil h e (by simp)
    match hp : e.path with
    | [] => exact absurd hp hne
    | false :: p =>
      simp [goL, goR, stepL_false e p hp, stepR_false e p hp, mkBranch, hp]
    | true :: p =>
      simp [goL, goR, stepL_true e p hp, stepR_true e p hp, mkBranch, hp]
  | e₁ :: e₂ :: r, h =>
    rw [build_succ_two d _ (by simp)]
    have hlen := length_goL_add_goR (e₁ :: e₂ :: r) (wfe_path_ne_nil h)
    simp only [List.length_cons] at hlen
    rcases build_kind (wfe_goL h) with ⟨hl, hbl⟩ | ⟨el, hl, hbl⟩ | ⟨hl, l1, l2, hbl⟩
    · rcases build_kind (wfe_goR h) with ⟨hr, hbr⟩ | ⟨er, hr, hbr⟩ | ⟨hr, r1, r2, hbr⟩
      · rw [hl, hr] at hlen; simp at hlen
      · rw [hl, hr] at hlen; simp at hlen
      · rw [hbl, hbr]; rfl
    · rcases build_kind (wfe_goR h) with ⟨hr, hbr⟩ | ⟨er, hr, hbr⟩ | ⟨hr, r1, r2, hbr⟩
      · rw [hl, hr] at hlen; simp at hlen
      · rw [hbl, hbr]; rfl
      · rw [hbl, hbr]; rfl
    · rw [hbl]
      cases build d (goR (e₁ :: e₂ :: r)) <;> rfl

/-! ### removing / replacing the entry with a given path -/

def efilter (es : List Entry) (p : Bits) : List Entry := es.filter (fun e => decide (e.path ≠ p))

@[simp] theorem efilter_nil (p : Bits) : efilter [] p = [] := rfl

theorem efilter_cons_eq (e : Entry) (es : List Entry) (p : Bits) (h : e.path = p) :
    efilter (e :: es) p = efilter es p := by
  simp [efilter, h]

theorem efilter_cons_ne (e : Entry) (es : List Entry) (p : Bits) (h : e.path ≠ p) :
    efilter (e :: es) p = e :: efilter es p := by
  simp [efilter, h]

theorem mem_efilter {es : List Entry} {p : Bits} {e : Entry} : e ∈ efilter es p ↔ e ∈ es ∧ e.path ≠ p := by
  simp [efilter]

theorem wfe_efilter {d : Nat} {es : List Entry} (h : WFE d es) (p : Bits) : WFE d (efilter es p) :=
  ⟨fun e he => h.1 e (mem_efilter.mp he).1, h.2.filter _⟩

theorem wfe_cons_efilter {d : Nat} {es : List Entry} (h : WFE d es) (p : Bits) (k v : Bytes)
    (hp : p.length = d) : WFE d (⟨p, k, v⟩ :: efilter es p) := by
  refine ⟨?_, ?_⟩
  · intro e he
    rcases List.mem_cons.mp he with he | he
    · subst he; exact hp
    · exact (wfe_efilter h p).1 e he
  · rw [List.pairwise_cons]
    refine ⟨?_, (wfe_efilter h p).2⟩
    intro e he
    exact fun heq => (mem_efilter.mp he).2 heq.symm

theorem goL_efilter_false (es : List Entry) (r : Bits) :
    goL (efilter es (false :: r)) = efilter (goL es) r := by
  induction es with
  | nil => simp [goL]
  | cons e t ih =>
    unfold goL at *
    match hp : e.path with
    | [] =>
      rw [efilter_cons_ne e t _ (by simp [hp]), List.filterMap_cons_none (stepL_nil e hp),
        List.filterMap_cons_none (stepL_nil e hp), ih]
    | true :: q =>
      rw [efilter_cons_ne e t _ (by simp [hp]), List.filterMap_cons_none (stepL_true e q hp),
        List.filterMap_cons_none (stepL_true e q hp), ih]
    | false :: q =>
      by_cases hq : q = r
      · rw [efilter_cons_eq e t _ (by simp [hp, hq]), List.filterMap_cons_some (stepL_false e q hp),
          efilter_cons_eq _ _ _ (by simp [hq]), ih]
      · rw [efilter_cons_ne e t _ (by simp [hp, hq]), List.filterMap_cons_some (stepL_false e q hp),
          List.filterMap_cons_some (stepL_false e q hp), efilter_cons_ne _ _ _ (by simp [hq]), ih]

theorem goR_efilter_true (es : List Entry) (r : Bits) :
    goR (efilter es (true :: r)) = efilter (goR es) r := by
  induction es with
  | nil => simp [goR]
  | cons e t ih =>
    unfold goR at *
    match hp : e.path with
    | [] =>
      rw [efilter_cons_ne e t _ (by simp [hp]), List.filterMap_cons_none (stepR_nil e hp),
        List.filterMap_cons_none (stepR_nil e hp), ih]
    | false :: q =>
      rw [efilter_cons_ne e t _ (by simp [hp]), List.filterMap_cons_none (stepR_false e q hp),
        List.filterMap_cons_none (stepR_false e q hp), ih]
    | true :: q =>
      by_cases hq : q = r
      · rw [efilter_cons_eq e t _ (by simp [hp, hq]), List.filterMap_cons_some (stepR_true e q hp),
          efilter_cons_eq _ _ _ (by simp [hq]), ih]
      · rw [efilter_cons_ne e t _ (by simp [hp, hq]), List.filterMap_cons_some (stepR_true e q hp),
          List.filterMap_cons_some (stepR_true e q hp), efilter_cons_ne _ _ _ (by simp [hq]), ih]

theorem goR_efilter_false (es : List Entry) (r : Bits) : goR (efilter es (false :: r)) = goR es := by
  induction es with
  | nil => simp [goR]
  | cons e t ih =>
    unfold goR at *
    match hp : e.path with
    | [] =>
      rw [efilter_cons_ne e t _ (by simp [hp]), List.filterMap_cons_none (stepR_nil e hp),
        List.filterMap_cons_none (stepR_nil e hp), ih]
    | true :: q =>
      rw [efilter_cons_ne e t _ (by simp [hp]), List.filterMap_cons_some (stepR_true e q hp),
        List.filterMap_cons_some (stepR_true e q hp), ih]
    | false :: q =>
      by_cases hq : q = r
      · rw [efilter_cons_eq e t _ (by simp [hp, hq]), List.filterMap_cons_none (stepR_false e q hp), ih]
      · rw [efilter_cons_ne e t _ (by simp [hp, hq]), List.filterMap_cons_none (stepR_false e q hp),
          List.filterMap_cons_none (stepR_false e q hp), ih]

theorem goL_efilter_true (es : List Entry) (r : Bits) : goL (efilter es (true :: r)) = goL es := by
  induction es with
  | nil => simp [goL]
  | cons e t ih =>
    unfold goL at *
    match hp : e.path with
    | [] =>
      rw [efilter_cons_ne e t _ (by simp [hp]), List.filterMap_cons_none (stepL_nil e hp),
        List.filterMap_cons_none (stepL_nil e hp), ih]
    | false :: q =>
      rw [efilter_cons_ne e t _ (by simp [hp]), List.filterMap_cons_some (stepL_false e q hp),
        List.filterMap_cons_some (stepL_false e q hp), ih]
    | true :: q =>
      by_cases hq : q = r
      · rw [efilter_cons_eq e t _ (by simp [hp, hq]), List.filterMap_cons_none (stepL_true e q hp), ih]
      · rw [efilter_cons_ne e t _ (by simp [hp, hq]), List.filterMap_cons_none (stepL_true e q hp),
          List.filterMap_cons_none (stepL_true e q hp), ih]

/-- deleting a key from the canonical tree (with leaf lifting) gives the canonical tree of the rest -/
theorem delete_build : ∀ (d : Nat) (es : List Entry), WFE d es → ∀ (p : Bits), p.length = d →
    delete p (build d es) = build d (efilter es p) := by
  intro d
  induction d with
  | zero =>
    intro es h p hp
    match es, h with
    | [], _ => simp [delete]
    | [e], h =>
      have h1 : e.path = [] := List.length_eq_zero_iff.mp (h.1 e (by simp))
      have h2 : p = [] := List.length_eq_zero_iff.mp hp
      rw [build_single, efilter_cons_eq e [] p (by rw [h1, h2])]
      simp [delete, h1, h2]
    | e₁ :: e₂ :: r, h => have := wfe_zero_length h; simp at this
  | succ d ih =>
    intro es h p hp
    match es, h with
    | [], _ => simp [delete]
    | [e], h =>
      rw [build_single]
      by_cases he : e.path = p
      · rw [efilter_cons_eq e [] p he]; simp [delete, he]
      · rw [efilter_cons_ne e [] p he]; simp [delete, he]
    | e₁ :: e₂ :: r, h =>
      rw [build_succ_two d _ (by simp)]
      match p, hp with
      | false :: q, hp =>
        have hq : q.length = d := by simpa using hp
        simp only [delete, Bool.false_eq_true, ↓reduceIte]
        rw [ih _ (wfe_goL h) q hq, ← goL_efilter_false, ← goR_efilter_false (e₁ :: e₂ :: r) q]
        exact mkBranch_build (wfe_efilter h _)
      | true :: q, hp =>
        have hq : q.length = d := by simpa using hp
        simp only [delete, ↓reduceIte]
        rw [ih _ (wfe_goR h) q hq, ← goR_efilter_true, ← goL_efilter_true (e₁ :: e₂ :: r) q]
        exact mkBranch_build (wfe_efilter h _)

@[simp] theorem goL_nil : goL [] = [] := rfl
@[simp] theorem goR_nil : goR [] = [] := rfl
theorem goL_cons_false (e : Entry) (t : List Entry) (r : Bits) (h : e.path = false :: r) :
    goL (e :: t) = ⟨r, e.key, e.value⟩ :: goL t := by
  unfold goL; rw [List.filterMap_cons_some (stepL_false e r h)]
theorem goL_cons_true (e : Entry) (t : List Entry) (r : Bits) (h : e.path = true :: r) :
    goL (e :: t) = goL t := by
  unfold goL; rw [List.filterMap_cons_none (stepL_true e r h)]
theorem goR_cons_true (e : Entry) (t : List Entry) (r : Bits) (h : e.path = true :: r) :
    goR (e :: t) = ⟨r, e.key, e.value⟩ :: goR t := by
  unfold goR; rw [List.filterMap_cons_some (stepR_true e r h)]
theorem goR_cons_false (e : Entry) (t : List Entry) (r : Bits) (h : e.path = false :: r) :
    goR (e :: t) = goR t := by
  unfold goR; rw [List.filterMap_cons_none (stepR_false e r h)]

theorem one_le_efilter_of_two {d : Nat} {e₁ e₂ : Entry} {r : List Entry} (h : WFE d (e₁ :: e₂ :: r)) (p : Bits) :
    1 ≤ (efilter (e₁ :: e₂ :: r) p).length := by
  have hne : e₁.path ≠ e₂.path := (List.pairwise_cons.mp h.2).1 e₂ (by simp)
  by_cases h1 : e₁.path = p
  · have h2 : e₂.path ≠ p := fun h2 => hne (h1.trans h2.symm)
    rw [efilter_cons_eq _ _ _ h1, efilter_cons_ne _ _ _ h2]; simp
  · rw [efilter_cons_ne _ _ _ h1]; simp

/-- inserting / overwriting a key in the canonical tree gives the canonical tree of the updated entries -/
theorem insert_build (k v : Bytes) : ∀ (d : Nat) (es : List Entry), WFE d es → ∀ (p : Bits), p.length = d →
    insert k v p (build d es) = build d (⟨p, k, v⟩ :: efilter es p) := by
  intro d
  induction d with
  | zero =>
    intro es h p hp
    have h2 : p = [] := List.length_eq_zero_iff.mp hp
    subst h2
    match es, h with
    | [], _ => simp [insert]
    | [e], h =>
      have h1 : e.path = [] := List.length_eq_zero_iff.mp (h.1 e (by simp))
      rw [build_single, efilter_cons_eq e [] [] h1]
      simp [insert]
    | e₁ :: e₂ :: r, h => have := wfe_zero_length h; simp at this
  | succ d ih =>
    intro es h p hp
    match p, hp with
    | b :: q, hp =>
    have hq : q.length = d := by simpa using hp
    match es, h with
    | [], _ => simp [insert]
    | [e], h =>
      rw [build_single]
      by_cases he : e.path = b :: q
      · rw [efilter_cons_eq e [] _ he]; simp [insert, he]
      · rw [efilter_cons_ne e [] _ he, efilter_nil, build_succ_two d _ (by simp)]
        have hne := wfe_path_ne_nil h e (by simp)
        match hp' : e.path with
        | [] => exact absurd hp' hne
        | b' :: q' =>
          have hq' : q'.length = d := by
            have := h.1 e (by simp); rw [hp'] at this; simpa using this
          rw [hp'] at he
          have hwf : WFE d [⟨q', e.key, e.value⟩] := ⟨by simp [hq'], by simp⟩
          have hih := ih [⟨q', e.key, e.value⟩] hwf q hq
          rw [build_single] at hih
          cases b <;> cases b'
          · -- both go left
            have hqq : q' ≠ q := fun hh => he (by rw [hh])
            rw [efilter_cons_ne _ _ _ hqq, efilter_nil] at hih
            rw [goL_cons_false _ _ q rfl, goL_cons_false e _ q' hp', goR_cons_false _ _ q rfl,
              goR_cons_false e _ q' hp']
            simp [insert, he, hih]
          · rw [goL_cons_false _ _ q rfl, goL_cons_true e _ q' hp', goR_cons_false _ _ q rfl,
              goR_cons_true e _ q' hp']
            simp [insert, he]
          · rw [goL_cons_true _ _ q rfl, goL_cons_false e _ q' hp', goR_cons_true _ _ q rfl,
              goR_cons_false e _ q' hp']
            simp [insert, he]
          · have hqq : q' ≠ q := fun hh => he (by rw [hh])
            rw [efilter_cons_ne _ _ _ hqq, efilter_nil] at hih
            rw [goL_cons_true _ _ q rfl, goL_cons_true e _ q' hp', goR_cons_true _ _ q rfl,
              goR_cons_true e _ q' hp']
            simp [insert, he, hih]
    | e₁ :: e₂ :: r, h =>
      rw [build_succ_two d _ (by simp)]
      have hlen : 2 ≤ ((⟨b :: q, k, v⟩ : Entry) :: efilter (e₁ :: e₂ :: r) (b :: q)).length := by
        have := one_le_efilter_of_two h (b :: q)
        simp only [List.length_cons]; omega
      rw [build_succ_two d _ hlen]
      cases b
      · simp only [insert, Bool.false_eq_true, ↓reduceIte]
        rw [ih _ (wfe_goL h) q hq]
        rw [goL_cons_false ⟨false :: q, k, v⟩ _ q rfl, goL_efilter_false,
          goR_cons_false ⟨false :: q, k, v⟩ _ q rfl, goR_efilter_false]
      · simp only [insert, ↓reduceIte]
        rw [ih _ (wfe_goR h) q hq]
        rw [goL_cons_true ⟨true :: q, k, v⟩ _ q rfl, goL_efilter_true,
          goR_cons_true ⟨true :: q, k, v⟩ _ q rfl, goR_efilter_true]

/-! ### maps as entries -/

def KeysLen (keyLen : Nat) (m : List KV) : Prop := ∀ kv ∈ m, kv.1.length = keyLen

theorem entriesOf_mdel (m : List KV) (k : Bytes) : entriesOf (mdel m k) = efilter (entriesOf m) (keyBits k) := by
  induction m with
  | nil => rfl
  | cons kv r ih =>
    unfold entriesOf mdel at *
    by_cases hk : kv.1 = k
    · rw [List.filter_cons_of_neg (by simp [hk]), List.map_cons, efilter_cons_eq _ _ _ (by simp [hk]), ih]
    · have hb : keyBits kv.1 ≠ keyBits k := fun h => hk (keyBits_inj h)
      rw [List.filter_cons_of_pos (by simp [hk]), List.map_cons, List.map_cons,
        efilter_cons_ne _ _ _ (by simpa using hb), ih]

theorem wfe_entriesOf {keyLen : Nat} {m : List KV} (hn : NoDupKeys m) (hl : KeysLen keyLen m) :
    WFE (8 * keyLen) (entriesOf m) := by
  refine ⟨?_, ?_⟩
  · intro e he
    simp only [entriesOf, List.mem_map] at he
    obtain ⟨kv, hkv, rfl⟩ := he
    simp [keyBits_length, hl kv hkv]
  · unfold entriesOf
    rw [List.pairwise_map]
    have : m.Pairwise (fun a b => a.1 ≠ b.1) := by
      unfold NoDupKeys List.Nodup at hn
      rwa [List.pairwise_map] at hn
    exact this.imp (fun hab h => hab (keyBits_inj h))

theorem keysLen_mdel {keyLen : Nat} {m : List KV} (h : KeysLen keyLen m) (k : Bytes) : KeysLen keyLen (mdel m k) :=
  fun kv hkv => h kv (List.mem_filter.mp hkv).1

theorem keysLen_mset {keyLen : Nat} {m : List KV} (h : KeysLen keyLen m) (k v : Bytes) (hk : k.length = keyLen) :
    KeysLen keyLen (mset m k v) := by
  intro kv hkv
  rcases List.mem_cons.mp hkv with h' | h'
  · subst h'; exact hk
  · exact keysLen_mdel h k kv h'

theorem keysLen_applyOp {keyLen : Nat} {m : List KV} (h : KeysLen keyLen m) (op : Op) (hk : op.key.length = keyLen) :
    KeysLen keyLen (applyOp m op) := by
  cases op with
  | set k v => exact keysLen_mset h k v hk
  | del k => exact keysLen_mdel h k

/-- one step of the incremental algorithm keeps the tree canonical for the updated map -/
theorem applyOpTree_build {keyLen : Nat} {m : List KV} (hn : NoDupKeys m) (hl : KeysLen keyLen m) (op : Op)
    (hk : op.key.length = keyLen) :
    applyOpTree (build (8 * keyLen) (entriesOf m)) op = build (8 * keyLen) (entriesOf (applyOp m op)) := by
  have hw := wfe_entriesOf hn hl
  have hp : (keyBits op.key).length = 8 * keyLen := by rw [keyBits_length, hk]
  cases op with
  | set k v =>
    simp only [Op.key] at hp
    simp only [applyOpTree, applyOp, mset]
    rw [insert_build k v _ _ hw _ hp]
    simp only [entriesOf, List.map_cons]
    have := entriesOf_mdel m k
    unfold entriesOf at this
    rw [this]
  | del k =>
    simp only [Op.key] at hp
    simp only [applyOpTree, applyOp]
    rw [delete_build _ _ hw _ hp, entriesOf_mdel]

theorem foldl_applyOpTree_build {keyLen : Nat} (ops : List Op) (hk : ∀ op ∈ ops, op.key.length = keyLen) :
    ∀ (m : List KV), NoDupKeys m → KeysLen keyLen m →
      ops.foldl applyOpTree (build (8 * keyLen) (entriesOf m)) =
        build (8 * keyLen) (entriesOf (ops.foldl applyOp m)) := by
  induction ops with
  | nil => intro m _ _; rfl
  | cons op r ih =>
    intro m hn hl
    have hop := hk op (by simp)
    simp only [List.foldl_cons]
    rw [applyOpTree_build hn hl op hop]
    exact ih (fun o ho => hk o (List.mem_cons_of_mem _ ho)) _ (nodupKeys_applyOp hn op) (keysLen_applyOp hl op hop)

/-! ### well-formed stored maps -/

def ValuesNonempty (m : List KV) : Prop := ∀ kv ∈ m, kv.2 ≠ []

def OpOK (keyLen : Nat) (op : Op) : Prop :=
  op.key.length = keyLen ∧ ∀ k v, op = .set k v → v ≠ []

theorem valuesNonempty_mdel {m : List KV} (h : ValuesNonempty m) (k : Bytes) : ValuesNonempty (mdel m k) :=
  fun kv hkv => h kv (List.mem_filter.mp hkv).1

theorem valuesNonempty_applyOp {keyLen : Nat} {m : List KV} (h : ValuesNonempty m) (op : Op) (hop : OpOK keyLen op) :
    ValuesNonempty (applyOp m op) := by
  cases op with
  | del k => exact valuesNonempty_mdel h k
  | set k v =>
    intro kv hkv
    rcases List.mem_cons.mp hkv with h' | h'
    · subst h'; exact hop.2 k v rfl
    · exact valuesNonempty_mdel h k kv h'

theorem mem_dedupFirst {b : List KV} {kv : KV} (h : kv ∈ dedupFirst b) : kv ∈ b := by
  induction b with
  | nil => simp [dedupFirst] at h
  | cons x r ih =>
    simp only [dedupFirst, List.mem_cons, List.mem_filter] at h
    rcases h with h | h
    · simp [h]
    · exact List.mem_cons_of_mem _ (ih h.1)

theorem opOK_opOfKV {keyLen : Nat} (kv : KV) (h : kv.1.length = keyLen) : OpOK keyLen (opOfKV kv) := by
  unfold opOfKV
  split
  · exact ⟨h, fun k v hh => by cases hh⟩
  · next hv =>
    refine ⟨h, fun k v hh => ?_⟩
    cases hh
    exact hv

theorem batchOps_ok {keyLen : Nat} {b : List KV} (h : ∀ kv ∈ b, kv.1.length = keyLen) :
    ∀ op ∈ batchOps b, OpOK keyLen op := by
  intro op hop
  simp only [batchOps, List.mem_map] at hop
  obtain ⟨kv, hkv, rfl⟩ := hop
  exact opOK_opOfKV kv (h kv (mem_dedupFirst hkv))

theorem foldl_applyOp_inv {keyLen : Nat} (ops : List Op) (hops : ∀ op ∈ ops, OpOK keyLen op) :
    ∀ (m : List KV), KeysLen keyLen m → ValuesNonempty m →
      KeysLen keyLen (ops.foldl applyOp m) ∧ ValuesNonempty (ops.foldl applyOp m) := by
  induction ops with
  | nil => intro m h1 h2; exact ⟨h1, h2⟩
  | cons op r ih =>
    intro m h1 h2
    have hop := hops op (by simp)
    exact ih (fun o ho => hops o (List.mem_cons_of_mem _ ho)) _ (keysLen_applyOp h1 op hop.1)
      (valuesNonempty_applyOp h2 op hop)

theorem finalMap_inv {keyLen : Nat} (bs : List (List KV)) (hlen : ∀ b ∈ bs, ∀ kv ∈ b, kv.1.length = keyLen) :
    KeysLen keyLen (finalMap bs) ∧ ValuesNonempty (finalMap bs) := by
  unfold finalMap
  suffices ∀ (m : List KV), KeysLen keyLen m → ValuesNonempty m →
      KeysLen keyLen (bs.foldl applyBatch m) ∧ ValuesNonempty (bs.foldl applyBatch m) from
    this [] (by simp [KeysLen]) (by simp [ValuesNonempty])
  induction bs with
  | nil => intro m h1 h2; exact ⟨h1, h2⟩
  | cons b r ih =>
    intro m h1 h2
    have := foldl_applyOp_inv (batchOps b) (batchOps_ok (hlen b (by simp))) m h1 h2
    exact ih (fun b' hb' => hlen b' (List.mem_cons_of_mem _ hb')) _ this.1 this.2

/-! ### hash assumptions

A hash with outputs of one fixed length cannot be injective on all byte strings, so soundness is stated for
a hash without collisions between two FINITE, explicitly defined sets of inputs: the inputs hashed to compute
the root of the map (`treeInputs`) and the inputs the verifier hashes while checking the given proof
(`reconInputs` and the proven node). -/

/-- `H` has no collision between an input of `A` and an input of `B` -/
def NoColl (H : HashFn) (A B : List Bytes) : Prop := ∀ a ∈ A, ∀ b ∈ B, H a = H b → a = b

theorem NoColl.mono {H : HashFn} {A B A' B' : List Bytes} (h : NoColl H A B) (hA : ∀ a ∈ A', a ∈ A)
    (hB : ∀ b ∈ B', b ∈ B) : NoColl H A' B' :=
  fun a ha b hb => h a (hA a ha) b (hB b hb)

theorem noColl_of_injective {H : HashFn} (hinj : ∀ a b, H a = H b → a = b) (A B : List Bytes) : NoColl H A B :=
  fun a _ b _ => hinj a b

/-- the inputs hashed to compute `root H d es` -/
def treeInputs (H : HashFn) : Nat → List Entry → List Bytes
  | _, [] => [[]]
  | _, [e] => [0 :: (e.key ++ e.value)]
  | 0, _ :: _ :: _ => [[]]
  | d + 1, e₁ :: e₂ :: es =>
    (1 :: (root H d (goL (e₁ :: e₂ :: es)) ++ root H d (goR (e₁ :: e₂ :: es)))) ::
      (treeInputs H d (goL (e₁ :: e₂ :: es)) ++ treeInputs H d (goR (e₁ :: e₂ :: es)))

/-- the inputs hashed by `recon` -/
def reconInputs (H : HashFn) : Bits → List Bool → List Bytes → Bytes → List Bytes
  | dir :: ds, bm :: bs, sibs, cur =>
    if bm then
      match sibs with
      | [] => []
      | s :: ss =>
        match recon H ds bs ss cur with
        | some sub => (1 :: (if dir then s ++ sub else sub ++ s)) :: reconInputs H ds bs ss cur
        | none => []
    else
      match recon H ds bs sibs cur with
      | some sub =>
        (1 :: (if dir then emptyHash H ++ sub else sub ++ emptyHash H)) :: reconInputs H ds bs sibs cur
      | none => []
  | _, _, _, _ => []

theorem root_length {H : HashFn} {n : Nat} (hlen : ∀ x, (H x).length = n) (d : Nat) (es : List Entry) :
    (root H d es).length = n := by
  match d, es with
  | _, [] => simp [emptyHash, hlen]
  | _, [e] => simp [leafHash, hlen]
  | 0, _ :: _ :: _ => simp [root, emptyHash, hlen]
  | d + 1, _ :: _ :: _ => simp [root, branchHash, hlen]

/-- shape of the root of well-formed entries, with its preimage -/
theorem root_pre (H : HashFn) {d : Nat} {es : List Entry} (h : WFE d es) :
    (es = [] ∧ root H d es = H [] ∧ [] ∈ treeInputs H d es) ∨
    (∃ e, es = [e] ∧ root H d es = H (0 :: (e.key ++ e.value)) ∧
      (0 :: (e.key ++ e.value)) ∈ treeInputs H d es) ∨
    (2 ≤ es.length ∧ ∃ d', d = d' + 1 ∧
      root H d es = H (1 :: (root H d' (goL es) ++ root H d' (goR es))) ∧
      (1 :: (root H d' (goL es) ++ root H d' (goR es))) ∈ treeInputs H d es ∧
      (∀ b ∈ treeInputs H d' (goL es), b ∈ treeInputs H d es) ∧
      (∀ b ∈ treeInputs H d' (goR es), b ∈ treeInputs H d es)) := by
  match es, h with
  | [], _ => left; cases d <;> simp [treeInputs, emptyHash]
  | [e], _ => right; left; exact ⟨e, rfl, by simp [leafHash], by cases d <;> simp [treeInputs]⟩
  | e₁ :: e₂ :: r, h =>
    right; right
    cases d with
    | zero => have := wfe_zero_length h; simp at this
    | succ d =>
      refine ⟨by simp, d, rfl, ?_, ?_, ?_, ?_⟩
      · rw [root_succ_two H d _ (by simp)]; rfl
      · simp [treeInputs]
      · intro b hb; simp only [treeInputs, List.mem_cons, List.mem_append]; exact Or.inr (Or.inl hb)
      · intro b hb; simp only [treeInputs, List.mem_cons, List.mem_append]; exact Or.inr (Or.inr hb)

theorem root_eq_empty {H : HashFn} {d : Nat} {es : List Entry} (h : WFE d es)
    (hnc : NoColl H [[]] (treeInputs H d es)) (he : root H d es = H []) : es = [] := by
  rcases root_pre H h with ⟨h1, _⟩ | ⟨e, _, h2, hm⟩ | ⟨_, d', _, h2, hm, _⟩
  · exact h1
  · rw [h2] at he; have := hnc [] (by simp) _ hm he.symm; simp at this
  · rw [h2] at he; have := hnc [] (by simp) _ hm he.symm; simp at this

theorem root_eq_leaf {H : HashFn} {d : Nat} {es : List Entry} (h : WFE d es) {k v : Bytes}
    (hnc : NoColl H [0 :: (k ++ v)] (treeInputs H d es)) (hk : ∀ e ∈ es, e.key.length = k.length)
    (he : root H d es = H (0 :: (k ++ v))) : ∃ e, es = [e] ∧ e.key = k ∧ e.value = v := by
  rcases root_pre H h with ⟨_, h2, hm⟩ | ⟨e, h1, h2, hm⟩ | ⟨_, d', _, h2, hm, _⟩
  · rw [h2] at he; have := hnc _ (by simp) _ hm he.symm; simp at this
  · rw [h2] at he
    have := hnc _ (by simp) _ hm he.symm
    simp only [List.cons.injEq, true_and] at this
    have := List.append_inj this (hk e (by simp [h1])).symm
    exact ⟨e, h1, this.1.symm, this.2.symm⟩
  · rw [h2] at he; have := hnc _ (by simp) _ hm he.symm; simp at this

/-! ### walking down -/

/-- the entries below the node reached by the directions `dirs` -/
def descend : List Entry → Bits → List Entry
  | es, [] => es
  | es, b :: r => descend (if b then goR es else goL es) r

theorem wfe_descend : ∀ (dirs : Bits) {d : Nat} {es : List Entry}, WFE d es → dirs.length ≤ d →
    WFE (d - dirs.length) (descend es dirs)
  | [], _, _, h, _ => by simpa [descend] using h
  | b :: r, d, es, h, hl => by
    cases d with
    | zero => simp at hl
    | succ d =>
      have hl' : r.length ≤ d := by simpa using hl
      have : d + 1 - (b :: r).length = d - r.length := by simp
      rw [this]
      cases b
      · exact wfe_descend r (wfe_goL h) hl'
      · exact wfe_descend r (wfe_goR h) hl'

theorem mem_descend : ∀ (dirs : Bits) {es : List Entry} {e' : Entry},
    e' ∈ descend es dirs ↔ ∃ e ∈ es, e.path = dirs ++ e'.path ∧ e'.key = e.key ∧ e'.value = e.value
  | [], es, e' => by
    simp only [descend, List.nil_append]
    constructor
    · intro h; exact ⟨e', h, rfl, rfl, rfl⟩
    · rintro ⟨e, he, hp, hk, hv⟩
      have : e' = e := by cases e; cases e'; simp_all
      rw [this]; exact he
  | b :: r, es, e' => by
    simp only [descend]
    rw [mem_descend r]
    cases b
    · simp only [Bool.false_eq_true, ↓reduceIte]
      constructor
      · rintro ⟨e1, he1, hp, hk, hv⟩
        obtain ⟨e, he, hp2, hk2, hv2⟩ := mem_goL.mp he1
        exact ⟨e, he, by rw [hp2, hp]; rfl, by rw [hk, hk2], by rw [hv, hv2]⟩
      · rintro ⟨e, he, hp, hk, hv⟩
        refine ⟨⟨r ++ e'.path, e.key, e.value⟩, mem_goL.mpr ⟨e, he, by simpa using hp, rfl, rfl⟩, rfl, hk, hv⟩
    · simp only [↓reduceIte]
      constructor
      · rintro ⟨e1, he1, hp, hk, hv⟩
        obtain ⟨e, he, hp2, hk2, hv2⟩ := mem_goR.mp he1
        exact ⟨e, he, by rw [hp2, hp]; rfl, by rw [hk, hk2], by rw [hv, hv2]⟩
      · rintro ⟨e, he, hp, hk, hv⟩
        refine ⟨⟨r ++ e'.path, e.key, e.value⟩, mem_goR.mpr ⟨e, he, by simpa using hp, rfl, rfl⟩, rfl, hk, hv⟩

/-! ### reconstruction of the root from a single-key proof -/

/-- one step of `recon`, with the input hashed in that step -/
theorem recon_cons_some {H : HashFn} {dir : Bool} {ds : Bits} {bm : List Bool} {sibs : List Bytes} {x y : Bytes}
    (h : recon H (dir :: ds) bm sibs x = some y) :
    ∃ bs ss s sub, recon H ds bs ss x = some sub ∧
      y = H (1 :: (if dir then s ++ sub else sub ++ s)) ∧
      (1 :: (if dir then s ++ sub else sub ++ s)) ∈ reconInputs H (dir :: ds) bm sibs x ∧
      (∀ a ∈ reconInputs H ds bs ss x, a ∈ reconInputs H (dir :: ds) bm sibs x) := by
  match bm, h with
  | b :: bs, h =>
    simp only [recon] at h
    cases b
    · simp only [Bool.false_eq_true, ↓reduceIte, Option.map_eq_some_iff] at h
      obtain ⟨sub, hs, hy⟩ := h
      refine ⟨bs, sibs, emptyHash H, sub, hs, ?_, ?_, ?_⟩
      · rw [← hy]; cases dir <;> simp [branchHash]
      · simp [reconInputs, hs]
      · intro a ha; simp [reconInputs, hs, ha]
    · simp only [↓reduceIte] at h
      match sibs, h with
      | s :: ss, h =>
        simp only [Option.map_eq_some_iff] at h
        obtain ⟨sub, hs, hy⟩ := h
        refine ⟨bs, ss, s, sub, hs, ?_, ?_, ?_⟩
        · rw [← hy]; cases dir <;> simp [branchHash]
        · simp [reconInputs, hs]
        · intro a ha; simp [reconInputs, hs, ha]

theorem recon_length {H : HashFn} {n : Nat} (hlen : ∀ x, (H x).length = n) :
    ∀ (dirs : Bits) (bm : List Bool) (sibs : List Bytes) (x y : Bytes), x.length = n →
      recon H dirs bm sibs x = some y → y.length = n := by
  intro dirs bm sibs x y hx h
  match dirs, h with
  | [], h =>
    match bm, sibs, h with
    | [], [], h => simp only [recon, Option.some.injEq] at h; rw [← h]; exact hx
  | dir :: ds, h =>
    obtain ⟨_, _, _, _, _, hy, _, _⟩ := recon_cons_some h
    rw [hy]; exact hlen _

/-- **soundness core**: if the reconstruction from a node hash `x` along `dirs` gives the root of the entries
`es` (and `H` has no collision between the inputs of the reconstruction and those of the tree), then `x` is
the root of the entries below the node that `dirs` leads to. -/
theorem recon_sound {H : HashFn} {n : Nat} (hlen : ∀ x, (H x).length = n) :
    ∀ (dirs : Bits) (bm : List Bool) (sibs : List Bytes) (x : Bytes), x.length = n →
      ∀ (d : Nat) (es : List Entry), WFE d es →
        NoColl H (reconInputs H dirs bm sibs x) (treeInputs H d es) →
        recon H dirs bm sibs x = some (root H d es) →
        dirs.length ≤ d ∧ x = root H (d - dirs.length) (descend es dirs) ∧
          (∀ b ∈ treeInputs H (d - dirs.length) (descend es dirs), b ∈ treeInputs H d es) := by
  intro dirs
  induction dirs with
  | nil =>
    intro bm sibs x hx d es hw hnc h
    match bm, sibs, h with
    | [], [], h =>
      simp only [recon, Option.some.injEq] at h
      simp [descend, h]
  | cons dir ds ih =>
    intro bm sibs x hx d es hw hnc h
    obtain ⟨bs, ss, s, sub, hs, hy, hmem, hsubset⟩ := recon_cons_some h
    have hsub : sub.length = n := recon_length hlen _ _ _ _ _ hx hs
    rcases root_pre H hw with ⟨_, h2, hm⟩ | ⟨e, _, h2, hm⟩ | ⟨_, d', hd, h2, hm, hL, hR⟩
    · rw [h2] at hy; have := hnc _ hmem _ hm hy.symm; simp at this
    · rw [h2] at hy; have := hnc _ hmem _ hm hy.symm; simp at this
    · subst hd
      rw [h2] at hy
      have heq := hnc _ hmem _ hm hy.symm
      simp only [List.cons.injEq, true_and] at heq
      cases dir
      · simp only [Bool.false_eq_true, ↓reduceIte] at heq
        have := List.append_inj heq (by rw [hsub, root_length hlen])
        rw [this.1] at hs
        have := ih _ _ _ hx d' _ (wfe_goL hw) (hnc.mono hsubset hL) hs
        simp only [List.length_cons, descend, Bool.false_eq_true, ↓reduceIte]
        rw [show d' + 1 - (ds.length + 1) = d' - ds.length by omega]
        exact ⟨by omega, this.2.1, fun b hb => hL b (this.2.2 b hb)⟩
      · simp only [↓reduceIte] at heq
        have := List.append_inj' heq (by rw [hsub, root_length hlen])
        rw [this.2] at hs
        have := ih _ _ _ hx d' _ (wfe_goR hw) (hnc.mono hsubset hR) hs
        simp only [List.length_cons, descend, ↓reduceIte]
        rw [show d' + 1 - (ds.length + 1) = d' - ds.length by omega]
        exact ⟨by omega, this.2.1, fun b hb => hR b (this.2.2 b hb)⟩

/-! ### common prefixes -/

theorem take_eq_of_le_commonPrefixLen : ∀ (h : Nat) (a b : Bits), h ≤ commonPrefixLen a b → a.take h = b.take h
  | 0, _, _, _ => by simp
  | h + 1, [], _, hl => by simp [commonPrefixLen] at hl
  | h + 1, _ :: _, [], hl => by simp [commonPrefixLen] at hl
  | h + 1, x :: as, y :: bs, hl => by
    simp only [commonPrefixLen] at hl
    split at hl
    · next hxy =>
      subst hxy
      simp only [List.take_succ_cons, List.cons.injEq, true_and]
      exact take_eq_of_le_commonPrefixLen h as bs (by omega)
    · omega

theorem commonPrefixLen_append (x s t : Bits) : x.length ≤ commonPrefixLen (x ++ s) (x ++ t) := by
  induction x with
  | nil => simp
  | cons a r ih => simp [commonPrefixLen]; exact ih

/-! ### generated single-key proofs -/

theorem nodeHash_empty (H : HashFn) (k : Bytes) (bm : List Bool) (ss : List Bytes) :
    (Proof1.mk k [] bm ss).nodeHash H = emptyHash H := by simp [Proof1.nodeHash]

/-- what `prove1` returns: the height is at most the depth, the reconstruction along the query path gives the
root, and the proven node is the node the query path leads to (empty, or the single leaf below it). -/
theorem prove1_spec (H : HashFn) (qk : Bytes) :
    ∀ (d : Nat) (es : List Entry) (q : Bits), WFE d es → q.length = d → (∀ e ∈ es, e.value ≠ []) →
      let p := prove1 H qk d es q
      p.bitmap.length ≤ d ∧
      recon H (q.take p.bitmap.length) p.bitmap p.siblings (p.nodeHash H) = some (root H d es) ∧
      ((p.value = [] ∧ p.key = qk ∧ descend es (q.take p.bitmap.length) = []) ∨
       (∃ e, descend es (q.take p.bitmap.length) = [e] ∧ p.key = e.key ∧ p.value = e.value)) := by
  intro d
  induction d with
  | zero =>
    intro es q hw hq hv
    match es, hw with
    | [], _ => simp [prove1, recon, Proof1.nodeHash, descend]
    | [e], _ =>
      have := hv e (by simp)
      simp [prove1, recon, Proof1.nodeHash, descend, this]
    | e₁ :: e₂ :: r, hw => have := wfe_zero_length hw; simp at this
  | succ d ih =>
    intro es q hw hq hv
    match es, hw with
    | [], _ => simp [prove1, recon, Proof1.nodeHash, descend]
    | [e], _ =>
      have := hv e (by simp)
      simp [prove1, recon, Proof1.nodeHash, descend, this]
    | e₁ :: e₂ :: r, hw =>
      match q, hq with
      | b :: qr, hq =>
        have hqr : qr.length = d := by simpa using hq
        have hroot := root_succ_two H d (e₁ :: e₂ :: r) (by simp)
        cases b
        · -- the query goes left, the sibling is the right half
          have hvL : ∀ e ∈ goL (e₁ :: e₂ :: r), e.value ≠ [] := by
            intro e he; obtain ⟨e0, he0, _, _, hv0⟩ := mem_goL.mp he; rw [hv0]; exact hv e0 he0
          obtain ⟨h1, h2, h3⟩ := ih (goL (e₁ :: e₂ :: r)) qr (wfe_goL hw) hqr hvL
          simp only [prove1, Bool.false_eq_true, ↓reduceIte, List.length_cons, List.take_succ_cons, descend]
          refine ⟨by omega, ?_, h3⟩
          rw [hroot]
          by_cases hs : (goR (e₁ :: e₂ :: r)).isEmpty = true
          · have hnil : goR (e₁ :: e₂ :: r) = [] := List.isEmpty_iff.mp hs
            simp only [hs, Bool.not_true, ↓reduceIte, List.nil_append, recon, Bool.false_eq_true]
            have hn : (Proof1.nodeHash H { (prove1 H qk d (goL (e₁ :: e₂ :: r)) qr) with
                bitmap := false :: (prove1 H qk d (goL (e₁ :: e₂ :: r)) qr).bitmap,
                siblings := (prove1 H qk d (goL (e₁ :: e₂ :: r)) qr).siblings }) =
                (prove1 H qk d (goL (e₁ :: e₂ :: r)) qr).nodeHash H := rfl
            rw [hn, h2, hnil]; simp
          · have hs' : (goR (e₁ :: e₂ :: r)).isEmpty = false := by simpa using hs
            simp only [hs', Bool.not_false, Bool.false_eq_true, ↓reduceIte, List.cons_append, List.nil_append,
              recon]
            have hn : (Proof1.nodeHash H { (prove1 H qk d (goL (e₁ :: e₂ :: r)) qr) with
                bitmap := true :: (prove1 H qk d (goL (e₁ :: e₂ :: r)) qr).bitmap,
                siblings := root H d (goR (e₁ :: e₂ :: r)) :: (prove1 H qk d (goL (e₁ :: e₂ :: r)) qr).siblings }) =
                (prove1 H qk d (goL (e₁ :: e₂ :: r)) qr).nodeHash H := rfl
            rw [hn, h2]; simp
        · have hvR : ∀ e ∈ goR (e₁ :: e₂ :: r), e.value ≠ [] := by
            intro e he; obtain ⟨e0, he0, _, _, hv0⟩ := mem_goR.mp he; rw [hv0]; exact hv e0 he0
          obtain ⟨h1, h2, h3⟩ := ih (goR (e₁ :: e₂ :: r)) qr (wfe_goR hw) hqr hvR
          simp only [prove1, ↓reduceIte, List.length_cons, List.take_succ_cons, descend]
          refine ⟨by omega, ?_, h3⟩
          rw [hroot]
          by_cases hs : (goL (e₁ :: e₂ :: r)).isEmpty = true
          · have hnil : goL (e₁ :: e₂ :: r) = [] := List.isEmpty_iff.mp hs
            simp only [hs, Bool.not_true, ↓reduceIte, List.nil_append, recon, Bool.false_eq_true]
            have hn : (Proof1.nodeHash H { (prove1 H qk d (goR (e₁ :: e₂ :: r)) qr) with
                bitmap := false :: (prove1 H qk d (goR (e₁ :: e₂ :: r)) qr).bitmap,
                siblings := (prove1 H qk d (goR (e₁ :: e₂ :: r)) qr).siblings }) =
                (prove1 H qk d (goR (e₁ :: e₂ :: r)) qr).nodeHash H := rfl
            rw [hn, h2, hnil]; simp
          · have hs' : (goL (e₁ :: e₂ :: r)).isEmpty = false := by simpa using hs
            simp only [hs', Bool.not_false, Bool.false_eq_true, ↓reduceIte, List.cons_append, List.nil_append,
              recon]
            have hn : (Proof1.nodeHash H { (prove1 H qk d (goR (e₁ :: e₂ :: r)) qr) with
                bitmap := true :: (prove1 H qk d (goR (e₁ :: e₂ :: r)) qr).bitmap,
                siblings := root H d (goL (e₁ :: e₂ :: r)) :: (prove1 H qk d (goR (e₁ :: e₂ :: r)) qr).siblings }) =
                (prove1 H qk d (goR (e₁ :: e₂ :: r)) qr).nodeHash H := rfl
            rw [hn, h2]; simp

end LiskVerif.SMT
