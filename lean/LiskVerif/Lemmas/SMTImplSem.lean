/-
Semantics of the expansion phase of `updateSubtree` (Model/SMTImpl.lean) in terms of the entries of the
specification (Model/SMTSpec.lean): shared definitions.

* a pending write of a batch is an `Entry` (`value = []`: delete) whose `path` are the key bits below the current node;
* `applyE es ops`: the entries below a node after the writes `ops`;
* `BinsOK rem bins ops`: the `2^rem` bins handed to `updateNode` hold exactly the writes `ops`, split by their next
  `rem` key bits (most significant first);
* `Arr`: a layout tree arranges a list of entries (strengthening of `Exp`: the nodes are exactly the ones the
  code builds, stubs sit at the bottom of the subtree only and commit to the entries below them).
-/
import LiskVerif.Lemmas.SMTImplSpec

namespace LiskVerif.SMTImpl
open LiskVerif LiskVerif.SMT

/-- is the entry `e` left untouched by the writes `ops`? -/
def untouched (ops : List Entry) (e : Entry) : Bool := ops.all fun o => decide (o.path ≠ e.path)

/-- the entries after the writes: untouched old entries, then the non-empty writes -/
def applyE (es ops : List Entry) : List Entry :=
  es.filter (untouched ops) ++ ops.filter fun o => decide (o.value ≠ [])

/-- the write of the pair `kv` seen from absolute bit depth `D` -/
def opOf (D : Nat) (kv : KV) : Entry := ⟨(keyBits kv.1).drop D, kv.1, kv.2⟩

def kvOf (o : Entry) : KV := (o.key, o.value)

/-- the entry lies below the node reached by the bits `pre` -/
def Under (pre : Bits) (e : Entry) : Prop := keyBits e.key = pre ++ e.path

/-- the bins of a node with `rem` levels left in its subtree hold the writes `ops`, in batch order -/
def BinsOK : Nat → List (List KV) → List Entry → Prop
  | 0, bins, ops => bins = [ops.map kvOf]
  | rem + 1, bins, ops =>
    ∃ bl br, bins = bl ++ br ∧ bl.length = 2 ^ rem ∧ BinsOK rem bl (goL ops) ∧ BinsOK rem br (goR ops)

/-- a node of a stored subtree, with `rem` levels left below it inside the subtree and `d` key bits left, holds
the entries `es`; `S d es h`: the store holds the subtree of root `h` for the entries `es` (`d` bits left) -/
inductive ArrTip (H : HashFn) (S : Nat → List Entry → Bytes → Prop) (rem d : Nat) : Node → List Entry → Prop
  | empty : ArrTip H S rem d (newEmptyNode H) []
  | leaf (e : Entry) : e.value ≠ [] → ArrTip H S rem d (newLeafNode H e.key e.value) [e]
  | stub (es : List Entry) : rem = 0 → 2 ≤ es.length → S d es (root H d es) →
      ArrTip H S rem d (newStubNode (root H d es)) es

/-- a layout tree (root with `rem` levels left in the subtree, `d` key bits left) arranges the entries `es` -/
inductive Arr (H : HashFn) (S : Nat → List Entry → Bytes → Prop) : Nat → Nat → LT → List Entry → Prop
  | tip (rem d : Nat) (n : Node) (es : List Entry) : ArrTip H S rem d n es → Arr H S rem d (.tip n) es
  | br (rem d : Nat) (l r : LT) (es : List Entry) : Arr H S rem d l (goL es) → Arr H S rem d r (goR es) →
      Arr H S (rem + 1) (d + 1) (.br l r) es

theorem Arr.exp {H : HashFn} {S : Nat → List Entry → Bytes → Prop} {rem d : Nat} {t : LT} {es : List Entry}
    (h : Arr H S rem d t es) : Exp H d t es := by
  induction h with
  | tip rem d n es ht =>
    cases ht with
    | empty => exact Exp.empty d _ rfl rfl
    | leaf e _ => exact Exp.leaf d _ e rfl rfl
    | stub es _ h2 _ => exact Exp.stub d _ es rfl h2 rfl
  | br rem d l r es _ _ ihl ihr => exact Exp.br d l r es ihl ihr

theorem Arr.noTemp {H : HashFn} {S : Nat → List Entry → Bytes → Prop} {rem d : Nat} {t : LT} {es : List Entry}
    (h : Arr H S rem d t es) : t.noTemp := by
  induction h with
  | tip rem d n es ht =>
    cases ht <;> simp [LT.noTemp, newEmptyNode, newLeafNode, newStubNode]
  | br rem d l r es _ _ ihl ihr => exact ⟨ihl, ihr⟩

end LiskVerif.SMTImpl
