/-
Lemmas linking the index arithmetic of `calculatePathNodes` (single index) to the LIP-0031 inclusion path.
-/
import LiskVerif.Lemmas.RMT
namespace LiskVerif.RMT

/-- the sibling index inside a layer -/
def sibOf (k : Nat) : Nat := if k % 2 = 0 then k + 1 else k - 1

theorem sib_eq (k : Nat) : (k / 2) * 2 + (k + 1) % 2 = sibOf k := by
  unfold sibOf; split <;> omega

theorem sibOf_ne (k : Nat) : sibOf k ≠ k := by unfold sibOf; split <;> omega
theorem sibOf_div (k : Nat) : sibOf k / 2 = k / 2 := by unfold sibOf; split <;> omega

/-- every layer has at most `ceil(n / 2^j)` nodes -/
theorem layerMax_bound (j : Nat) : ∀ m r, layerMax j m r * 2 ^ j < m + 2 ^ j := by
  induction j with
  | zero => intro m r; simp [layerMax]
  | succ j ih =>
    intro m r
    simp only [layerMax]
    have hp : 0 < 2 ^ j := Nat.pow_pos (by decide)
    rw [Nat.pow_succ]
    split
    · have := ih (m / 2) (r + m % 2)
      have h2 : layerMax j (m / 2) (r + m % 2) * (2 ^ j * 2) = 2 * (layerMax j (m / 2) (r + m % 2) * 2 ^ j) := by
        rw [Nat.mul_comm (2 ^ j) 2, ← Nat.mul_assoc, Nat.mul_comm _ 2, Nat.mul_assoc]
      rw [h2]; omega
    · have := ih ((m + 1) / 2) (r + m % 2)
      have h2 : layerMax j ((m + 1) / 2) (r + m % 2) * (2 ^ j * 2) = 2 * (layerMax j ((m + 1) / 2) (r + m % 2) * 2 ^ j) := by
        rw [Nat.mul_comm (2 ^ j) 2, ← Nat.mul_assoc, Nat.mul_comm _ 2, Nat.mul_assoc]
      rw [h2]; omega

theorem layerStructure_getD (n l : Nat) : (layerStructure n).getD l 0 * 2 ^ l < n + 2 ^ l := by
  unfold layerStructure
  by_cases hl : l < getHeight n
  · have : ((List.range (getHeight n)).map fun layer => layerMax layer n 0).getD l 0 = layerMax l n 0 := by
      simp [List.getD, hl]
    rw [this]; exact layerMax_bound l n 0
  · have : ((List.range (getHeight n)).map fun layer => layerMax layer n 0).getD l 0 = 0 := by
      simp only [List.getD]
      rw [List.getElem?_eq_none (by simp; omega)]; rfl
    rw [this]; have := Nat.pow_pos (n := l) (show 0 < 2 by decide); omega

/-- `descend` multiplies the node index by two for every layer it goes down -/
theorem descend_shape (st : List Nat) : ∀ (f k l : Nat), l < f →
    ∃ l', l' ≤ l ∧ descend st f k l = (l', k * 2 ^ (l - l')) ∧ (k * 2 ^ (l - l') < st.getD l' 0 ∨ l' = 0) := by
  intro f
  induction f with
  | zero => intro k l h; omega
  | succ f ih =>
    intro k l hl
    simp only [descend]
    split
    · rename_i hc
      simp only [Bool.and_eq_true, decide_eq_true_eq] at hc
      obtain ⟨l', h1, h2, h3⟩ := ih (k * 2) (l - 1) (by omega)
      refine ⟨l', by omega, ?_, ?_⟩
      · rw [h2]
        have : l - l' = (l - 1 - l') + 1 := by omega
        rw [this, Nat.pow_succ]
        simp [Nat.mul_assoc, Nat.mul_comm]
      · have : l - l' = (l - 1 - l') + 1 := by omega
        rw [this, Nat.pow_succ]
        have e : k * (2 ^ (l - 1 - l') * 2) = k * 2 * 2 ^ (l - 1 - l') := by
          rw [Nat.mul_comm (2 ^ (l - 1 - l')) 2, Nat.mul_assoc]
        rw [e]; exact h3
    · rename_i hc
      simp only [Bool.and_eq_true, decide_eq_true_eq] at hc
      refine ⟨l, Nat.le_refl _, by simp, ?_⟩
      simp
      by_cases h0 : l = 0
      · right; exact h0
      · left
        rcases Nat.lt_or_ge k (st.getD l 0) with h | h
        · exact h
        · exact absurd ⟨h, by omega⟩ hc

/-- the sibling exists exactly when its first leaf exists; it sits `l - l'` layers below -/
theorem rightSiblingInfo_char (n k l : Nat) :
    (rightSiblingInfo (layerStructure n) k l n = none ∧ n ≤ sibOf k * 2 ^ l) ∨
    (∃ l', l' ≤ l ∧ rightSiblingInfo (layerStructure n) k l n = some (l', sibOf k * 2 ^ (l - l')) ∧
      sibOf k * 2 ^ l < n) := by
  unfold rightSiblingInfo
  rw [sib_eq]
  obtain ⟨l', h1, h2, h3⟩ := descend_shape (layerStructure n) (l + 1) (sibOf k) l (by omega)
  simp only [h2]
  have hpow : sibOf k * 2 ^ (l - l') * 2 ^ l' = sibOf k * 2 ^ l := by
    rw [Nat.mul_assoc, ← Nat.pow_add]; congr 2; omega
  have hp : 0 < 2 ^ l' := Nat.pow_pos (by decide)
  by_cases hx : sibOf k * 2 ^ (l - l') ≥ n
  · left
    simp only [hx, if_true, true_and]
    rcases h3 with h3 | h3
    · have := layerStructure_getD n l'
      have h4 : (sibOf k * 2 ^ (l - l') + 1) * 2 ^ l' ≤ (layerStructure n).getD l' 0 * 2 ^ l' :=
        Nat.mul_le_mul_right _ h3
      rw [Nat.add_mul, hpow] at h4
      have : n ≤ sibOf k * 2 ^ (l - l') * 2 ^ l' := Nat.le_trans hx (Nat.le_mul_of_pos_right _ hp)
      omega
    · subst h3; simpa using hx
  · right
    refine ⟨l', h1, by simp [hx], ?_⟩
    rcases h3 with h3 | h3
    · have := layerStructure_getD n l'
      have h4 : (sibOf k * 2 ^ (l - l') + 1) * 2 ^ l' ≤ (layerStructure n).getD l' 0 * 2 ^ l' :=
        Nat.mul_le_mul_right _ h3
      rw [Nat.add_mul, hpow] at h4
      omega
    · subst h3; simpa using hx

/-- index of the ancestor at layer `l` of leaf `i` in a tree of height `h` -/
def nodeIdx (h i l : Nat) : Nat := 2 ^ (h - l) + i / 2 ^ l

theorem div_pow_lt {i h l : Nat} (hi : i < 2 ^ h) (hl : l ≤ h) : i / 2 ^ l < 2 ^ (h - l) := by
  rw [Nat.div_lt_iff_lt_mul (Nat.pow_pos (by decide)), ← Nat.pow_add]
  rw [show h - l + l = h by omega]; exact hi

theorem nodeIdx_half (h i l : Nat) (hl : l + 1 ≤ h) : nodeIdx h i l / 2 = nodeIdx h i (l + 1) := by
  unfold nodeIdx
  have e : 2 ^ (h - l) = 2 * 2 ^ (h - (l + 1)) := by
    rw [show h - l = (h - (l + 1)) + 1 by omega, Nat.pow_succ]; omega
  have e2 : i / 2 ^ (l + 1) = i / 2 ^ l / 2 := by rw [Nat.pow_succ, Nat.div_div_eq_div_mul]
  rw [e, e2]; omega

theorem nodeIdx_mod2 (h i l : Nat) (hl : l + 1 ≤ h) : nodeIdx h i l % 2 = (i / 2 ^ l) % 2 := by
  unfold nodeIdx
  have e : 2 ^ (h - l) = 2 * 2 ^ (h - (l + 1)) := by
    rw [show h - l = (h - (l + 1)) + 1 by omega, Nat.pow_succ]; omega
  rw [e]; omega

theorem nodeIdx_log2 (h i l : Nat) (hi : i < 2 ^ h) (hl : l ≤ h) : Nat.log2 (nodeIdx h i l) = h - l := by
  unfold nodeIdx
  have := div_pow_lt hi hl
  generalize i / 2 ^ l = y at this
  apply log2_eq_of
  · omega
  · rw [Nat.pow_succ]; omega

/-- with `i < 2^(h-1)`: the index is the root index 2 exactly at layer `h - 1` -/
theorem nodeIdx_eq_two (h i l : Nat) (hh : 1 ≤ h) (hi : i < 2 ^ (h - 1)) (hl : l ≤ h) :
    nodeIdx h i l = 2 ↔ l = h - 1 := by
  unfold nodeIdx
  constructor
  · intro e
    by_cases h1 : l = h
    · subst h1
      have : i / 2 ^ l = 0 := by
        apply Nat.div_eq_of_lt
        have : 2 ^ (l - 1) ≤ 2 ^ l := Nat.pow_le_pow_right (by decide) (by omega)
        exact Nat.lt_of_lt_of_le hi this
      simp [this] at e
    · by_cases h2 : l = h - 1
      · exact h2
      · have : 2 ^ 2 ≤ 2 ^ (h - l) := Nat.pow_le_pow_right (by decide) (by omega)
        generalize i / 2 ^ l = y at e
        omega
  · intro e
    subst e
    have : i / 2 ^ (h - 1) = 0 := Nat.div_eq_of_lt hi
    rw [this, show h - (h - 1) = 1 by omega]

theorem newLoc_nodeIdx (h i l : Nat) (hi : i < 2 ^ h) (hl : l ≤ h) (loc : Loc)
    (e : newLoc (nodeIdx h i l) h = some loc) : loc = (l, i / 2 ^ l) := by
  unfold newLoc at e
  rw [nodeIdx_log2 h i l hi hl] at e
  split at e
  · cases e
  · split at e
    · cases e
    · simp only at e
      split at e
      · cases e
      · split at e
        · cases e
        · cases e
          simp [nodeIdx]; omega

theorem locIndex_eq (h l' k' sidx : Nat) (hl : l' + 2 ≤ h) (hk : k' < 2 ^ (h - 1 - l'))
    (e : locIndex (l', k') h = some sidx) : sidx = 2 ^ (h - l') + k' := by
  unfold locIndex at e
  simp only at e
  have hb : bitLen k' ≤ h - l' := by
    unfold bitLen
    split
    · omega
    · rename_i h0
      have : Nat.log2 k' < h - 1 - l' := (Nat.log2_lt h0).2 hk
      omega
  rw [Nat.max_eq_left hb] at e
  split at e
  · cases e
  · split at e
    · cases e
    · cases e; rfl

/-- Go map as association list: lookups after `mapSet` -/
theorem lookup_mapSet_self (m : List (Nat × Bytes)) (k : Nat) (v : Bytes) : (mapSet m k v).lookup k = some v := by
  simp [mapSet, List.lookup]

theorem lookup_filter_ne (m : List (Nat × Bytes)) (k k' : Nat) (h : k' ≠ k) :
    (m.filter (·.1 != k)).lookup k' = m.lookup k' := by
  induction m with
  | nil => rfl
  | cons a r ih =>
    obtain ⟨a1, a2⟩ := a
    by_cases ha : a1 = k
    · subst ha
      have : (k' == a1) = false := by simpa using h
      simp [List.filter, List.lookup, this, ih]
    · have hne : (a1 != k) = true := by simpa using ha
      simp only [List.filter, hne, List.lookup]
      by_cases hk : k' = a1
      · subst hk; simp
      · have : (k' == a1) = false := by simpa using hk
        simp [this, ih]

theorem lookup_mapSet_ne (m : List (Nat × Bytes)) (k k' : Nat) (v : Bytes) (h : k' ≠ k) :
    (mapSet m k v).lookup k' = m.lookup k' := by
  have : (k' == k) = false := by simpa using h
  simp only [mapSet, List.lookup, this]
  exact lookup_filter_ne m k k' h

theorem mem_mapSet (m : List (Nat × Bytes)) (k : Nat) (v : Bytes) (key : Nat) (w : Bytes)
    (h : (key, w) ∈ mapSet m k v) : key = k ∨ (key, w) ∈ m := by
  simp only [mapSet, List.mem_cons, List.mem_filter] at h
  rcases h with h | h
  · left; exact (Prod.mk.inj h).1
  · right; exact h.1

theorem lookup_some_mem (m : List (Nat × Bytes)) (k : Nat) (v : Bytes) (h : m.lookup k = some v) : (k, v) ∈ m := by
  induction m with
  | nil => simp [List.lookup] at h
  | cons a r ih =>
    obtain ⟨a1, a2⟩ := a
    simp only [List.lookup] at h
    by_cases hk : k = a1
    · subst hk; simp at h; subst h; simp
    · have : (k == a1) = false := by simpa using hk
      simp only [this] at h
      exact List.mem_cons_of_mem _ (ih h)

theorem lookup_none_of_not_key (m : List (Nat × Bytes)) (k : Nat) (h : ∀ v, (k, v) ∉ m) : m.lookup k = none := by
  cases e : m.lookup k with
  | none => rfl
  | some v => exact absurd (lookup_some_mem m k v e) (h v)

theorem insertIdx_nil (x : Nat) : insertIdx [] x = [x] := by
  simp [insertIdx, findInsertIndex]

/-- the single-leaf walk: layers `l, l+1, ...`; a sibling exists when its first leaf exists -/
def walk (hf : HashFns) (n i : Nat) : Nat → Nat → Bytes → List Bytes → Option Bytes
  | 0, _, cur, _ => some cur
  | f + 1, l, cur, sibs =>
    if sibOf (i / 2 ^ l) * 2 ^ l < n then
      match sibs with
      | [] => none
      | s :: ss =>
        walk hf n i f (l + 1) (if (i / 2 ^ l) % 2 == 0 then hf.branch cur s else hf.branch s cur) ss
    else walk hf n i f (l + 1) cur sibs

theorem lt_pow_height {n i : Nat} (hn : 1 ≤ n) (hi : i < n) : i < 2 ^ (getHeight n - 1) := by
  have := le_two_pow_clog2 n hn
  simp only [getHeight, Nat.add_sub_cancel]; omega

/-- a key of the form `nodeIdx h i s` determines `s` -/
theorem nodeIdx_inj_layer (h i s l' k' : Nat) (hi : i < 2 ^ h) (hs : s ≤ h) (hl : l' ≤ h)
    (hk : k' < 2 ^ (h - l')) (e : nodeIdx h i s = 2 ^ (h - l') + k') : s = l' ∧ i / 2 ^ s = k' := by
  have h1 := nodeIdx_log2 h i s hi hs
  have h2 : Nat.log2 (2 ^ (h - l') + k') = h - l' := by
    apply log2_eq_of
    · omega
    · rw [Nat.pow_succ]; omega
  rw [e, h2] at h1
  have hsl : s = l' := by omega
  subst hsl
  unfold nodeIdx at e
  generalize i / 2 ^ s = y at e ⊢
  exact ⟨rfl, by omega⟩

theorem nodeIdx_lt (h i l s : Nat) (hi : i < 2 ^ h) (hs : s ≤ l) (hl : l + 1 ≤ h) :
    nodeIdx h i (l + 1) < nodeIdx h i s := by
  unfold nodeIdx
  have h1 := div_pow_lt hi (show l + 1 ≤ h by omega)
  have h2 : 2 ^ (h - (l + 1)) * 2 ≤ 2 ^ (h - s) := by
    rw [← Nat.pow_succ]; exact Nat.pow_le_pow_right (by decide) (by omega)
  generalize i / 2 ^ (l + 1) = y at h1 ⊢
  generalize i / 2 ^ s = z
  omega

theorem calcLoop_single (hf : HashFns) (n i : Nat) (hn : 1 ≤ n) (hi : i < n) :
    ∀ (f l : Nat) (result cache : List (Nat × Bytes)) (cur : Bytes) (sibs : List Bytes)
      (res : List (Nat × Bytes)),
      l ≤ getHeight n - 1 →
      (∀ key v, (key, v) ∈ result → ∃ s, s ≤ l ∧ key = nodeIdx (getHeight n) i s) →
      look result cache (nodeIdx (getHeight n) i l) = some cur →
      calcLoop hf (layerStructure n) n (getHeight n) f [nodeIdx (getHeight n) i l] result cache sibs = some res →
      ∀ r, res.lookup 2 = some r → walk hf n i (getHeight n - 1 - l) l cur sibs = some r := by
  have hh1 : 1 ≤ getHeight n := by simp [getHeight]
  have hi1 := lt_pow_height hn hi
  have hiH : i < 2 ^ getHeight n :=
    Nat.lt_of_lt_of_le hi1 (Nat.pow_le_pow_right (by decide) (by omega))
  have hnH : n ≤ 2 ^ (getHeight n - 1) := by
    have := le_two_pow_clog2 n hn
    simpa [getHeight] using this
  -- the current index is the root index: the result map is returned
  have hroot : ∀ (l : Nat) (result cache : List (Nat × Bytes)) (cur r : Bytes) (sibs : List Bytes),
      l ≤ getHeight n - 1 →
      (∀ key v, (key, v) ∈ result → ∃ s, s ≤ l ∧ key = nodeIdx (getHeight n) i s) →
      look result cache (nodeIdx (getHeight n) i l) = some cur →
      result.lookup 2 = some r → walk hf n i (getHeight n - 1 - l) l cur sibs = some r := by
    intro l result cache cur r sibs hl hkeys hlook hr
    obtain ⟨s, hs, hs2⟩ := hkeys 2 r (lookup_some_mem _ _ _ hr)
    have hs' : s = getHeight n - 1 := (nodeIdx_eq_two _ i s hh1 hi1 (by omega)).1 hs2.symm
    have hl' : l = getHeight n - 1 := by omega
    have h2 : nodeIdx (getHeight n) i l = 2 := (nodeIdx_eq_two _ i l hh1 hi1 (by omega)).2 hl'
    rw [h2] at hlook
    simp only [look, hr] at hlook
    rw [hl', Nat.sub_self]
    simp [walk]; exact (Option.some.inj hlook).symm
  intro f
  induction f with
  | zero =>
    intro l result cache cur sibs res hl hkeys hlook hcalc r hr
    simp only [calcLoop] at hcalc
    cases hcalc
    exact hroot l result cache cur r sibs hl hkeys hlook hr
  | succ f ih =>
    intro l result cache cur sibs res hl hkeys hlook hcalc r hr
    simp only [calcLoop] at hcalc
    by_cases h2 : nodeIdx (getHeight n) i l = 2
    · simp only [h2, beq_self_eq_true, if_true] at hcalc
      cases hcalc
      exact hroot l result cache cur r sibs hl hkeys hlook hr
    · have hne : (nodeIdx (getHeight n) i l == 2) = false := by simpa using h2
      have hl2 : l + 1 ≤ getHeight n - 1 := by
        have : l ≠ getHeight n - 1 := fun e => h2 ((nodeIdx_eq_two _ i l hh1 hi1 (by omega)).2 e)
        omega
      simp only [hne] at hcalc
      rw [hlook] at hcalc
      simp only [Bool.false_eq_true, if_false] at hcalc
      -- the location of the current index
      cases hloc : newLoc (nodeIdx (getHeight n) i l) (getHeight n) with
      | none => rw [hloc] at hcalc; cases hcalc
      | some loc =>
        have hlocv := newLoc_nodeIdx _ i l hiH (by omega) loc hloc
        subst hlocv
        rw [hloc] at hcalc
        simp only at hcalc
        have hparent : nodeIdx (getHeight n) i l / 2 = nodeIdx (getHeight n) i (l + 1) :=
          nodeIdx_half _ i l (by omega)
        have hpnone : result.lookup (nodeIdx (getHeight n) i (l + 1)) = none := by
          apply lookup_none_of_not_key
          intro v hv
          obtain ⟨s, hs, hs2⟩ := hkeys _ v hv
          have := nodeIdx_lt (getHeight n) i l s hiH hs (by omega)
          omega
        have hfuel : getHeight n - 1 - l = (getHeight n - 1 - (l + 1)) + 1 := by omega
        rw [hparent, insertIdx_nil] at hcalc
        rcases rightSiblingInfo_char n (i / 2 ^ l) l with ⟨hnone, hge⟩ | ⟨l', hl', hsome, hlt⟩
        · -- no sibling: the hash is carried to the parent
          rw [hnone] at hcalc
          simp only at hcalc
          have hlook2 : look result (mapSet cache (nodeIdx (getHeight n) i (l + 1)) cur)
              (nodeIdx (getHeight n) i (l + 1)) = some cur := by
            simp [look, hpnone, lookup_mapSet_self]
          have := ih (l + 1) result _ cur sibs res hl2
            (fun key v hv => by obtain ⟨s, hs, hs2⟩ := hkeys key v hv; exact ⟨s, by omega, hs2⟩)
            hlook2 hcalc r hr
          rw [hfuel]
          simp only [walk]
          rw [if_neg (by omega)]
          exact this
        · rw [hsome] at hcalc
          simp only at hcalc
          cases hsidx : locIndex (l', sibOf (i / 2 ^ l) * 2 ^ (l - l')) (getHeight n) with
          | none => rw [hsidx] at hcalc; cases hcalc
          | some sidx =>
            rw [hsidx] at hcalc
            simp only at hcalc
            -- the sibling index is not one of the visited indexes
            have hk' : sibOf (i / 2 ^ l) * 2 ^ (l - l') < 2 ^ (getHeight n - 1 - l') := by
              have hp : sibOf (i / 2 ^ l) * 2 ^ (l - l') * 2 ^ l' = sibOf (i / 2 ^ l) * 2 ^ l := by
                rw [Nat.mul_assoc, ← Nat.pow_add]; congr 2; omega
              have h3 : sibOf (i / 2 ^ l) * 2 ^ (l - l') * 2 ^ l' < 2 ^ (getHeight n - 1 - l') * 2 ^ l' := by
                rw [hp, ← Nat.pow_add, show getHeight n - 1 - l' + l' = getHeight n - 1 by omega]
                omega
              exact Nat.lt_of_mul_lt_mul_right h3
            have hsidxv := locIndex_eq (getHeight n) l' _ sidx (by omega) hk' hsidx
            have hsnone : result.lookup sidx = none := by
              apply lookup_none_of_not_key
              intro v hv
              obtain ⟨s, hs, hs2⟩ := hkeys _ v hv
              rw [hsidxv] at hs2
              have hk2 : sibOf (i / 2 ^ l) * 2 ^ (l - l') < 2 ^ (getHeight n - l') :=
                Nat.lt_of_lt_of_le hk' (Nat.pow_le_pow_right (by decide) (by omega))
              obtain ⟨e1, e2⟩ := nodeIdx_inj_layer (getHeight n) i s l' _ hiH (by omega) (by omega) hk2 hs2.symm
              subst e1
              -- i / 2^s = sib * 2^(l-s): divide by 2^(l-s)
              have : i / 2 ^ s / 2 ^ (l - s) = sibOf (i / 2 ^ l) := by
                rw [e2, Nat.mul_div_cancel _ (Nat.pow_pos (by decide))]
              rw [Nat.div_div_eq_div_mul, ← Nat.pow_add, show s + (l - s) = l by omega] at this
              exact sibOf_ne _ this.symm
            cases sibs with
            | nil => simp only [takeSibling, hsnone] at hcalc; cases hcalc
            | cons sb ss =>
              simp only [takeSibling, hsnone, parentConflict, hpnone] at hcalc
              simp only [Bool.false_eq_true, if_false] at hcalc
              have hmod := nodeIdx_mod2 (getHeight n) i l (by omega)
              have hlook2 : ∀ ph : Bytes, look (mapSet result (nodeIdx (getHeight n) i (l + 1)) ph) cache
                  (nodeIdx (getHeight n) i (l + 1)) = some ph := by
                intro ph; simp [look, lookup_mapSet_self]
              have := ih (l + 1) _ cache _ ss res hl2
                (fun key v hv => by
                  rcases mem_mapSet _ _ _ _ _ hv with h | h
                  · exact ⟨l + 1, Nat.le_refl _, h⟩
                  · obtain ⟨s, hs, hs2⟩ := hkeys key v h; exact ⟨s, by omega, hs2⟩)
                (hlook2 _) hcalc r hr
              rw [hfuel]
              simp only [walk]
              rw [if_pos hlt]
              rw [hmod] at this
              exact this

/-- left/right pattern of the single-leaf walk from layer `l` on (`true`: the sibling is on the right) -/
def sidesFrom (n i : Nat) : Nat → Nat → List Bool
  | 0, _ => []
  | f + 1, l =>
    (if sibOf (i / 2 ^ l) * 2 ^ l < n then [(i / 2 ^ l) % 2 == 0] else []) ++ sidesFrom n i f (l + 1)

theorem walk_foldProof (hf : HashFns) (n i : Nat) :
    ∀ (f l : Nat) (cur : Bytes) (sibs : List Bytes) (r : Bytes), walk hf n i f l cur sibs = some r →
      ∃ p : List (Bool × Bytes), p.map (·.1) = sidesFrom n i f l ∧ p.map (·.2) <+: sibs ∧
        foldProof hf cur p = r := by
  intro f
  induction f with
  | zero =>
    intro l cur sibs r h
    simp [walk] at h
    exact ⟨[], by simp [sidesFrom], by simp, by simp [foldProof, h]⟩
  | succ f ih =>
    intro l cur sibs r h
    simp only [walk] at h
    split at h
    · rename_i hc
      cases sibs with
      | nil => cases h
      | cons s ss =>
        simp only at h
        obtain ⟨p, hp1, hp3, hp2⟩ := ih _ _ _ _ h
        refine ⟨((i / 2 ^ l) % 2 == 0, s) :: p, by simp [sidesFrom, hc, hp1], ?_, ?_⟩
        · simpa [List.cons_prefix_cons] using hp3
        · simp only [foldProof, List.foldl_cons] at hp2 ⊢
          exact hp2
    · rename_i hc
      obtain ⟨p, hp1, hp3, hp2⟩ := ih _ _ _ _ h
      exact ⟨p, by simp [sidesFrom, hc, hp1], hp3, hp2⟩

theorem sidesFrom_add (n i : Nat) : ∀ (f1 f2 l : Nat),
    sidesFrom n i (f1 + f2) l = sidesFrom n i f1 l ++ sidesFrom n i f2 (l + f1) := by
  intro f1
  induction f1 with
  | zero => intro f2 l; simp [sidesFrom]
  | succ f1 ih =>
    intro f2 l
    rw [show f1 + 1 + f2 = (f1 + f2) + 1 by omega]
    simp only [sidesFrom, ih, List.append_assoc]
    rw [show l + 1 + f1 = l + (f1 + 1) by omega]

/-- two walks agree on layers where the sibling test and the parity agree -/
theorem sidesFrom_congr (n i m j : Nat) : ∀ (f l : Nat),
    (∀ l', l ≤ l' → l' < l + f →
      ((sibOf (i / 2 ^ l') * 2 ^ l' < n ↔ sibOf (j / 2 ^ l') * 2 ^ l' < m) ∧ (i / 2 ^ l') % 2 = (j / 2 ^ l') % 2)) →
    sidesFrom n i f l = sidesFrom m j f l := by
  intro f
  induction f with
  | zero => intro l _; simp [sidesFrom]
  | succ f ih =>
    intro l h
    have h0 := h l (Nat.le_refl _) (by omega)
    simp only [sidesFrom]
    rw [ih (l + 1) (fun l' a b => h l' (by omega) (by omega)), h0.2]
    by_cases hc : sibOf (i / 2 ^ l) * 2 ^ l < n
    · rw [if_pos hc, if_pos (h0.1.1 hc)]
    · rw [if_neg hc, if_neg (fun x => hc (h0.1.2 x))]

theorem sidesFrom_none (n i : Nat) : ∀ (f l : Nat),
    (∀ l', l ≤ l' → l' < l + f → n ≤ sibOf (i / 2 ^ l') * 2 ^ l') → sidesFrom n i f l = [] := by
  intro f
  induction f with
  | zero => intro l _; simp [sidesFrom]
  | succ f ih =>
    intro l h
    have h0 := h l (Nat.le_refl _) (by omega)
    simp only [sidesFrom]
    rw [if_neg (by omega), ih (l + 1) (fun l' a b => h l' (by omega) (by omega))]
    rfl

theorem clog2_two_pow (a : Nat) : clog2 (2 ^ a) = a := by
  unfold clog2
  cases a with
  | zero => simp
  | succ a =>
    have h1 : 2 ^ a ≤ 2 ^ (a + 1) - 1 := by rw [Nat.pow_succ]; have := Nat.pow_pos (n := a) (show 0 < 2 by decide); omega
    have h2 : 2 ^ (a + 1) - 1 < 2 ^ (a + 1) := by have := Nat.pow_pos (n := a + 1) (show 0 < 2 by decide); omega
    have : ¬ 2 ^ (a + 1) ≤ 1 := by
      have := Nat.pow_pos (n := a) (show 0 < 2 by decide); rw [Nat.pow_succ]; omega
    rw [if_neg this, log2_eq_of h1 h2]

theorem clog2_le {m a : Nat} (h : m ≤ 2 ^ a) : clog2 m ≤ a := by
  unfold clog2
  split
  · omega
  · rename_i h1
    have hm : m - 1 ≠ 0 := by omega
    have : Nat.log2 (m - 1) < a := (Nat.log2_lt hm).2 (by omega)
    omega

/-- for `n ≥ 2`: `getHeight n = log2 (n - 1) + 2` -/
theorem getHeight_ge2 {n : Nat} (h : 2 ≤ n) : getHeight n = Nat.log2 (n - 1) + 2 := by
  unfold getHeight clog2; rw [if_neg (by omega)]

theorem sibOf_add_even (e k : Nat) (he : e % 2 = 0) : sibOf (e + k) = e + sibOf k := by
  unfold sibOf; split <;> split <;> omega

theorem sibOf_succ_le {k P : Nat} (h1 : k < P) (h2 : P % 2 = 0) : sibOf k + 1 ≤ P := by
  unfold sibOf; split <;> omega

theorem pow_split {a l : Nat} (h : l ≤ a) : 2 ^ (a - l) * 2 ^ l = 2 ^ a := by
  rw [← Nat.pow_add]; congr 1; omega

theorem add_div_pow {a l j : Nat} (h : l ≤ a) : (2 ^ a + j) / 2 ^ l = 2 ^ (a - l) + j / 2 ^ l := by
  rw [← pow_split h, Nat.add_comm, Nat.add_mul_div_right _ _ (Nat.pow_pos (by decide)), Nat.add_comm]

theorem even_pow {x : Nat} (h : 1 ≤ x) : 2 ^ x % 2 = 0 := by
  rw [show x = (x - 1) + 1 by omega, Nat.pow_succ]; omega

/-- the left/right pattern of the LIP-0031 path is the pattern of the index walk -/
theorem pathSpec_sides (hf : HashFns) : ∀ (n : Nat) (l : List Bytes) (i : Nat), l.length = n → 1 ≤ n → i < n →
    (pathSpec hf l i).map (·.1) = sidesFrom n i (getHeight n - 1) 0 := by
  intro n
  induction n using Nat.strongRecOn with
  | _ n ih =>
    intro l i hlen hn hi
    by_cases h1 : n = 1
    · subst h1
      rw [pathSpec_lt2 hf l i (by omega)]
      simp [getHeight, clog2, sidesFrom]
    · have hge : 2 ≤ l.length := by omega
      have hK := @splitPoint_lt l.length hge
      have hK0 := splitPoint_pos l.length
      rw [pathSpec_ge2 hf l i hge, hlen]
      rw [hlen] at hK hK0
      -- a = log2 (n-1), K = 2^a, getHeight n - 1 = a + 1
      have hH : getHeight n - 1 = Nat.log2 (n - 1) + 1 := by rw [getHeight_ge2 (by omega)]; omega
      have hKdef : splitPoint n = 2 ^ Nat.log2 (n - 1) := rfl
      have hnK : n ≤ 2 * 2 ^ Nat.log2 (n - 1) := by
        have := @Nat.lt_log2_self (n - 1); rw [Nat.pow_succ] at this; omega
      generalize ha : Nat.log2 (n - 1) = a at hH hKdef hnK
      rw [hH, sidesFrom_add n i a 1 0]
      simp only [Nat.zero_add]
      split
      · -- the leaf is in the left, perfect part
        rename_i hlt
        rw [hKdef] at hlt hK
        simp only [List.map_append, List.map_cons, List.map_nil]
        have hih := ih (2 ^ a) (by omega) (l.take (2 ^ a)) i (by simp; omega) (Nat.pow_pos (by decide)) hlt
        rw [hKdef, hih]
        have hHK : getHeight (2 ^ a) - 1 = a := by simp [getHeight, clog2_two_pow]
        rw [hHK]
        congr 1
        · -- layers below a: both conditions hold
          symm
          apply sidesFrom_congr
          intro l' _ hl'
          have hl'a : l' < a := by omega
          have hk := div_pow_lt hlt (show l' ≤ a by omega)
          have hev := even_pow (show 1 ≤ a - l' by omega)
          have hps := pow_split (show l' ≤ a by omega)
          have hq : 0 < 2 ^ l' := Nat.pow_pos (by decide)
          have hs : sibOf (i / 2 ^ l') + 1 ≤ 2 ^ (a - l') := sibOf_succ_le hk hev
          have h3 : (sibOf (i / 2 ^ l') + 1) * 2 ^ l' ≤ 2 ^ (a - l') * 2 ^ l' := Nat.mul_le_mul_right _ hs
          rw [hps, Nat.add_mul] at h3
          refine ⟨⟨fun _ => by omega, fun _ => by omega⟩, rfl⟩
        · -- layer a: the sibling is the right part
          have h0 : i / 2 ^ a = 0 := Nat.div_eq_of_lt hlt
          simp [sidesFrom, h0, sibOf]; omega
      · -- the leaf is in the right part of m = n - K leaves
        rename_i hge'
        rw [hKdef] at hge' hK
        simp only [List.map_append, List.map_cons, List.map_nil]
        have hm1 : 1 ≤ n - 2 ^ a := by omega
        have hih := ih (n - 2 ^ a) (by omega) (l.drop (2 ^ a)) (i - 2 ^ a) (by simp; omega) hm1 (by omega)
        rw [hKdef, hih]
        have hc : getHeight (n - 2 ^ a) - 1 = clog2 (n - 2 ^ a) := by simp [getHeight]
        have hca : clog2 (n - 2 ^ a) ≤ a := clog2_le (by omega)
        rw [hc]
        generalize hcdef : clog2 (n - 2 ^ a) = c at hca
        have hmc : n - 2 ^ a ≤ 2 ^ c := by rw [← hcdef]; exact le_two_pow_clog2 _ hm1
        rw [show a = c + (a - c) by omega, sidesFrom_add n i c (a - c) 0, ← show a = c + (a - c) by omega]
        simp only [Nat.zero_add]
        have hidec : i = 2 ^ a + (i - 2 ^ a) := by omega
        generalize hj : i - 2 ^ a = j at hidec hih
        have hjm : j < n - 2 ^ a := by omega
        rw [List.append_assoc]
        congr 1
        · -- layers below c: the walk inside the right part
          apply sidesFrom_congr
          intro l' _ hl'
          have hl'a : l' < a := by omega
          have hdiv : i / 2 ^ l' = 2 ^ (a - l') + j / 2 ^ l' := by rw [hidec]; exact add_div_pow (by omega)
          have hev := even_pow (show 1 ≤ a - l' by omega)
          have hps := pow_split (show l' ≤ a by omega)
          rw [hdiv, sibOf_add_even _ _ hev, Nat.add_mul, hps]
          refine ⟨⟨fun _ => by omega, fun _ => by omega⟩, by omega⟩
        · -- layers c .. a-1: no sibling; layer a: the left part
          have hnone : sidesFrom n i (a - c) c = [] := by
            apply sidesFrom_none
            intro l' hl1 hl2
            have hl'a : l' < a := by omega
            have hjl : j / 2 ^ l' = 0 := by
              apply Nat.div_eq_of_lt
              have : 2 ^ c ≤ 2 ^ l' := Nat.pow_le_pow_right (by decide) hl1
              omega
            have hdiv : i / 2 ^ l' = 2 ^ (a - l') := by
              rw [hidec, add_div_pow (by omega), hjl]; rfl
            have hev := even_pow (show 1 ≤ a - l' by omega)
            have hps := pow_split (show l' ≤ a by omega)
            have : 2 ^ c ≤ 2 ^ l' := Nat.pow_le_pow_right (by decide) hl1
            rw [hdiv]
            have : sibOf (2 ^ (a - l')) = 2 ^ (a - l') + 1 := by unfold sibOf; rw [if_pos hev]
            rw [this, Nat.add_mul, hps]; omega
          rw [hnone]
          have h1 : i / 2 ^ a = 1 := by
            rw [hidec, add_div_pow (Nat.le_refl a), Nat.sub_self]
            have : j / 2 ^ a = 0 := Nat.div_eq_of_lt (by omega)
            rw [this]
          simp [sidesFrom, h1, sibOf]; omega

/-- what `VerifyProof` computes for a single index `2^height + i`: if it accepts root `r`, the index
walk over the sibling hashes folds the query to `r` -/
theorem verify_single_walk (hf : HashFns) (n i : Nat) (hn : 1 ≤ n) (hi : i < n) (q : Bytes)
    (sibs : List Bytes) (r : Bytes)
    (h : verifyProof hf [q] ⟨n, [2 ^ getHeight n + i], sibs⟩ r = true) :
    walk hf n i (getHeight n - 1) 0 q sibs = some r := by
  have hidx : nodeIdx (getHeight n) i 0 = 2 ^ getHeight n + i := by simp [nodeIdx]
  have hpos : 0 < 2 ^ getHeight n := Nat.pow_pos (by decide)
  have hne : (2 ^ getHeight n + i != 0) = true := by simp
  rw [verifyProof_eq, Bool.and_eq_true] at h
  replace h := h.2
  unfold verifyProofOrig at h
  simp only [show ¬ n = 0 by omega, if_false] at h
  unfold calcPathNodes at h
  simp only [List.length_cons, List.length_nil, bne_self_eq_false, Bool.false_eq_true, if_false] at h
  have hsort : sortIdx ([2 ^ getHeight n + i].filter (· != 0)) = [2 ^ getHeight n + i] := by
    simp [List.filter, hne, sortIdx, isort, insertBy]
  have hinit : initResult [q] [2 ^ getHeight n + i] [] = [(2 ^ getHeight n + i, q)] := by
    have : (2 ^ getHeight n + i == 0) = false := by simp
    simp [initResult, this, mapSet]
  simp only [hsort, hinit] at h
  split at h
  · cases h
  · rename_i res hres
    split at h
    · cases h
    · rename_i r' hr'
      have hrr : r' = r := by simpa using h
      subst hrr
      rw [← hidx] at hres
      have := calcLoop_single hf n i hn hi _ 0 _ [] q sibs res (by omega)
        (fun key v hv => by
          simp at hv
          exact ⟨0, Nat.le_refl _, hv.1⟩)
        (by simp [look, hidx, List.lookup]) hres r' hr'
      simpa using this

theorem newLoc_nodeIdx_some (h i l : Nat) (hi : i < 2 ^ (h - 1)) (hl : l + 1 ≤ h) (hb : h ≤ 30) :
    newLoc (nodeIdx h i l) h = some (l, i / 2 ^ l) := by
  have hiH : i < 2 ^ h := Nat.lt_of_lt_of_le hi (Nat.pow_le_pow_right (by decide) (by omega))
  have hlog := nodeIdx_log2 h i l hiH (by omega)
  have hk := div_pow_lt hiH (show l ≤ h by omega)
  have h2 : 2 ^ 1 ≤ 2 ^ (h - l) := Nat.pow_le_pow_right (by decide) (by omega)
  have h30 : 2 ^ (h - l) ≤ 2 ^ 30 := Nat.pow_le_pow_right (by decide) (by omega)
  unfold newLoc
  rw [hlog]
  dsimp only
  unfold nodeIdx
  generalize i / 2 ^ l = k at hk ⊢
  generalize 2 ^ (h - l) = P at hk h2 h30 ⊢
  have e63 : (2:Nat) ^ 63 = 9223372036854775808 := by decide
  have e31 : (2:Nat) ^ 31 = 2147483648 := by decide
  have e30 : (2:Nat) ^ 30 = 1073741824 := by decide
  rw [if_neg (by omega), if_neg (by omega), if_neg (by omega), if_neg (by omega)]
  congr 2 <;> omega

/-! ### the check of the index list (`idxsValid`) on leaf positions -/

theorem layerStructure_getD_zero (n : Nat) : (layerStructure n).getD 0 0 = n := by
  unfold layerStructure
  have h : 0 < getHeight n := by simp [getHeight]
  simp [List.getD, h, layerMax]

theorem distinctIdx_iff (l : List Nat) : distinctIdx l = true ↔ l.Nodup := by
  induction l with
  | nil => simp [distinctIdx]
  | cons a r ih => simp [distinctIdx, ih, List.nodup_cons]

theorem filter_ne_zero_leaves (h : Nat) (pos : List Nat) :
    (pos.map fun p => 2 ^ h + p).filter (· != 0) = pos.map fun p => 2 ^ h + p := by
  rw [List.filter_eq_self]
  intro a ha
  simp only [List.mem_map] at ha
  obtain ⟨p, _, rfl⟩ := ha
  have : 0 < 2 ^ h := Nat.pow_pos (by decide)
  simp only [bne_iff_ne, ne_eq]; omega

theorem nodup_leaves (h : Nat) (pos : List Nat) :
    (pos.map fun p => 2 ^ h + p).Nodup ↔ pos.Nodup := by
  simp only [List.Nodup, List.pairwise_map]
  constructor <;> intro hp <;> refine hp.imp ?_ <;> intro a b hab <;> omega

/-- a leaf position inside the tree passes the index check (height at most 30: the 32-bit index parser) -/
theorem idxInTree_leaf {n i : Nat} (hn : 1 ≤ n) (hi : i < n) (hb : getHeight n ≤ 30) :
    idxInTree (layerStructure n) (getHeight n) (2 ^ getHeight n + i) = true := by
  have hh1 : 1 ≤ getHeight n := by simp [getHeight]
  have := newLoc_nodeIdx_some (getHeight n) i 0 (lt_pow_height hn hi) (by omega) hb
  simp only [nodeIdx, Nat.sub_zero, Nat.pow_zero, Nat.div_one] at this
  unfold idxInTree
  rw [this]
  dsimp only
  rw [layerStructure_getD_zero]
  simpa using hi

/-- a leaf-layer index that passes the index check is a position inside the tree -/
theorem idxInTree_leaf_lt {n p : Nat}
    (h : idxInTree (layerStructure n) (getHeight n) (2 ^ getHeight n + p) = true) : p < n := by
  unfold idxInTree at h
  split at h
  · cases h
  · rename_i loc hloc
    by_cases hp : p < 2 ^ getHeight n
    · have hl := newLoc_nodeIdx (getHeight n) p 0 hp (Nat.zero_le _) loc
        (by simpa [nodeIdx] using hloc)
      subst hl
      dsimp only at h
      rw [layerStructure_getD_zero] at h
      simpa using h
    · exfalso
      have hlog : getHeight n + 1 ≤ Nat.log2 (2 ^ getHeight n + p) := by
        have hpos : 0 < 2 ^ getHeight n := Nat.pow_pos (by decide)
        rw [Nat.le_log2 (by omega), Nat.pow_succ]; omega
      unfold newLoc at hloc
      simp only at hloc
      split at hloc
      · cases hloc
      · split at hloc
        · cases hloc
        · split at hloc
          · cases hloc
          · split at hloc
            · cases hloc
            · omega

theorem idxsValid_leaves {n : Nat} (hn : 1 ≤ n) (hb : getHeight n ≤ 30) (pos : List Nat)
    (hnd : pos.Nodup) (hlt : ∀ p ∈ pos, p < n) :
    idxsValid n (pos.map fun p => 2 ^ getHeight n + p) = true := by
  unfold idxsValid
  rw [filter_ne_zero_leaves, Bool.and_eq_true, distinctIdx_iff, nodup_leaves, List.all_eq_true]
  refine ⟨hnd, ?_⟩
  intro a ha
  simp only [List.mem_map] at ha
  obtain ⟨p, hp, rfl⟩ := ha
  exact idxInTree_leaf hn (hlt p hp) hb

/-- an index list of leaf-layer positions that passes the check: the positions are pairwise distinct and
inside the tree (no bound on the size is needed in this direction) -/
theorem idxsValid_leaves_inv {n : Nat} (pos : List Nat)
    (h : idxsValid n (pos.map fun p => 2 ^ getHeight n + p) = true) :
    pos.Nodup ∧ ∀ p ∈ pos, p < n := by
  unfold idxsValid at h
  rw [filter_ne_zero_leaves, Bool.and_eq_true, distinctIdx_iff, nodup_leaves, List.all_eq_true] at h
  refine ⟨h.1, ?_⟩
  intro p hp
  exact idxInTree_leaf_lt (h.2 _ (List.mem_map.2 ⟨p, hp, rfl⟩))

theorem locIndex_some (h l' k' : Nat) (hl : l' + 2 ≤ h) (hk : k' < 2 ^ (h - 1 - l')) (hb : h ≤ 30) :
    locIndex (l', k') h = some (2 ^ (h - l') + k') := by
  have hb2 : bitLen k' ≤ h - l' := by
    unfold bitLen
    split
    · omega
    · rename_i h0
      have : Nat.log2 k' < h - 1 - l' := (Nat.log2_lt h0).2 hk
      omega
  have h1 : 2 ^ (h - 1 - l') * 2 = 2 ^ (h - l') := by
    rw [← Nat.pow_succ]; congr 1; omega
  have h30 : 2 ^ (h - l') ≤ 2 ^ 30 := Nat.pow_le_pow_right (by decide) (by omega)
  have e31 : (2:Nat) ^ 31 = 2147483648 := by decide
  have e30 : (2:Nat) ^ 30 = 1073741824 := by decide
  unfold locIndex
  simp only
  rw [if_neg (by omega), Nat.max_eq_left hb2, if_neg (by omega)]

theorem two_pow_clog2_lt {n : Nat} (h : 2 ≤ n) : 2 ^ (clog2 n - 1) < n := by
  unfold clog2
  rw [if_neg (by omega)]
  have := @Nat.log2_self_le (n - 1) (by omega)
  simp only [Nat.add_sub_cancel]
  omega

/-- at the layer below the root a sibling always exists -/
theorem top_sibling_exists {n i : Nat} (hn : 2 ≤ n) (hi : i < n) :
    sibOf (i / 2 ^ (getHeight n - 2)) * 2 ^ (getHeight n - 2) < n := by
  have hi1 := lt_pow_height (show 1 ≤ n by omega) hi
  have hc : 1 ≤ clog2 n := by unfold clog2; rw [if_neg (by omega)]; omega
  have hH : getHeight n - 2 = clog2 n - 1 := by simp [getHeight]
  have hH1 : getHeight n - 1 = (clog2 n - 1) + 1 := by simp [getHeight]; omega
  rw [hH]
  rw [hH1, Nat.pow_succ] at hi1
  have hlt := two_pow_clog2_lt hn
  have hp : 0 < 2 ^ (clog2 n - 1) := Nat.pow_pos (by decide)
  have hk : i / 2 ^ (clog2 n - 1) < 2 := (Nat.div_lt_iff_lt_mul hp).2 (by omega)
  generalize i / 2 ^ (clog2 n - 1) = k at hk
  have : k = 0 ∨ k = 1 := by omega
  rcases this with h | h <;> subst h <;> simp [sibOf] <;> omega

theorem calcLoop_single_complete (hf : HashFns) (n i : Nat) (hn : 1 ≤ n) (hi : i < n)
    (hb : getHeight n ≤ 30) :
    ∀ (f l : Nat) (result cache : List (Nat × Bytes)) (cur : Bytes) (sibs : List Bytes) (r : Bytes),
      l ≤ getHeight n - 1 →
      (∀ key v, (key, v) ∈ result → ∃ s, s ≤ l ∧ key = nodeIdx (getHeight n) i s) →
      look result cache (nodeIdx (getHeight n) i l) = some cur →
      (l = getHeight n - 1 → result.lookup 2 = some cur) →
      getHeight n - 1 - l < f →
      walk hf n i (getHeight n - 1 - l) l cur sibs = some r →
      ∃ res, calcLoop hf (layerStructure n) n (getHeight n) f [nodeIdx (getHeight n) i l] result cache sibs = some res
        ∧ res.lookup 2 = some r := by
  have hh1 : 1 ≤ getHeight n := by simp [getHeight]
  have hi1 := lt_pow_height hn hi
  have hiH : i < 2 ^ getHeight n :=
    Nat.lt_of_lt_of_le hi1 (Nat.pow_le_pow_right (by decide) (by omega))
  have hnH : n ≤ 2 ^ (getHeight n - 1) := by
    have := le_two_pow_clog2 n hn
    simpa [getHeight] using this
  intro f
  induction f with
  | zero => intro l result cache cur sibs r _ _ _ _ hf' _; omega
  | succ f ih =>
    intro l result cache cur sibs r hl hkeys hlook hrootres hfuel hwalk
    simp only [calcLoop]
    by_cases h2 : nodeIdx (getHeight n) i l = 2
    · have hl' : l = getHeight n - 1 := (nodeIdx_eq_two _ i l hh1 hi1 (by omega)).1 h2
      simp only [h2, beq_self_eq_true, if_true]
      rw [hl', Nat.sub_self] at hwalk
      simp only [walk] at hwalk
      cases hwalk
      exact ⟨result, rfl, hrootres hl'⟩
    · have hne : (nodeIdx (getHeight n) i l == 2) = false := by simpa using h2
      have hl2 : l + 1 ≤ getHeight n - 1 := by
        have : l ≠ getHeight n - 1 := fun e => h2 ((nodeIdx_eq_two _ i l hh1 hi1 (by omega)).2 e)
        omega
      simp only [hne, Bool.false_eq_true, if_false, hlook]
      rw [newLoc_nodeIdx_some _ i l hi1 (by omega) hb]
      simp only
      have hparent : nodeIdx (getHeight n) i l / 2 = nodeIdx (getHeight n) i (l + 1) :=
        nodeIdx_half _ i l (by omega)
      have hpnone : result.lookup (nodeIdx (getHeight n) i (l + 1)) = none := by
        apply lookup_none_of_not_key
        intro v hv
        obtain ⟨s, hs, hs2⟩ := hkeys _ v hv
        have := nodeIdx_lt (getHeight n) i l s hiH hs (by omega)
        omega
      have hfuelw : getHeight n - 1 - l = (getHeight n - 1 - (l + 1)) + 1 := by omega
      rw [hparent, insertIdx_nil]
      rw [hfuelw] at hwalk
      simp only [walk] at hwalk
      have hp2 : nodeIdx (getHeight n) i (l + 1) = 2 ↔ l + 1 = getHeight n - 1 :=
        nodeIdx_eq_two _ i (l + 1) hh1 hi1 (by omega)
      rcases rightSiblingInfo_char n (i / 2 ^ l) l with ⟨hnone, hge⟩ | ⟨l', hl', hsome, hlt⟩
      · rw [hnone]
        simp only
        rw [if_neg (by omega)] at hwalk
        have htop : l + 1 ≠ getHeight n - 1 := by
          intro e
          have hn2 : 2 ≤ n := by
            rcases Nat.lt_or_ge n 2 with h | h
            · have : n = 1 := by omega
              subst this; simp [getHeight, clog2] at e
            · exact h
          have := top_sibling_exists hn2 hi
          rw [show getHeight n - 2 = l by omega] at this
          omega
        have hlook2 : look result (mapSet cache (nodeIdx (getHeight n) i (l + 1)) cur)
            (nodeIdx (getHeight n) i (l + 1)) = some cur := by
          simp [look, hpnone, lookup_mapSet_self]
        exact ih (l + 1) result _ cur sibs r hl2
          (fun key v hv => by obtain ⟨s, hs, hs2⟩ := hkeys key v hv; exact ⟨s, by omega, hs2⟩)
          hlook2 (fun e => absurd e htop) (by omega) hwalk
      · rw [hsome]
        simp only
        rw [if_pos hlt] at hwalk
        have hk' : sibOf (i / 2 ^ l) * 2 ^ (l - l') < 2 ^ (getHeight n - 1 - l') := by
          have hp : sibOf (i / 2 ^ l) * 2 ^ (l - l') * 2 ^ l' = sibOf (i / 2 ^ l) * 2 ^ l := by
            rw [Nat.mul_assoc, ← Nat.pow_add]; congr 2; omega
          have h3 : sibOf (i / 2 ^ l) * 2 ^ (l - l') * 2 ^ l' < 2 ^ (getHeight n - 1 - l') * 2 ^ l' := by
            rw [hp, ← Nat.pow_add, show getHeight n - 1 - l' + l' = getHeight n - 1 by omega]
            omega
          exact Nat.lt_of_mul_lt_mul_right h3
        rw [locIndex_some (getHeight n) l' _ (by omega) hk' hb]
        simp only
        have hsnone : result.lookup (2 ^ (getHeight n - l') + sibOf (i / 2 ^ l) * 2 ^ (l - l')) = none := by
          apply lookup_none_of_not_key
          intro v hv
          obtain ⟨s, hs, hs2⟩ := hkeys _ v hv
          have hk2 : sibOf (i / 2 ^ l) * 2 ^ (l - l') < 2 ^ (getHeight n - l') :=
            Nat.lt_of_lt_of_le hk' (Nat.pow_le_pow_right (by decide) (by omega))
          obtain ⟨e1, e2⟩ := nodeIdx_inj_layer (getHeight n) i s l' _ hiH (by omega) (by omega) hk2 hs2.symm
          subst e1
          have : i / 2 ^ s / 2 ^ (l - s) = sibOf (i / 2 ^ l) := by
            rw [e2, Nat.mul_div_cancel _ (Nat.pow_pos (by decide))]
          rw [Nat.div_div_eq_div_mul, ← Nat.pow_add, show s + (l - s) = l by omega] at this
          exact sibOf_ne _ this.symm
        cases sibs with
        | nil => simp at hwalk
        | cons sb ss =>
          simp only at hwalk
          simp only [takeSibling, hsnone, parentConflict, hpnone, Bool.false_eq_true, if_false]
          have hmod := nodeIdx_mod2 (getHeight n) i l (by omega)
          rw [hmod]
          have hlook2 : ∀ ph : Bytes, look (mapSet result (nodeIdx (getHeight n) i (l + 1)) ph) cache
              (nodeIdx (getHeight n) i (l + 1)) = some ph := by
            intro ph; simp [look, lookup_mapSet_self]
          exact ih (l + 1) _ cache _ ss r hl2
            (fun key v hv => by
              rcases mem_mapSet _ _ _ _ _ hv with h | h
              · exact ⟨l + 1, Nat.le_refl _, h⟩
              · obtain ⟨s, hs, hs2⟩ := hkeys key v h; exact ⟨s, by omega, hs2⟩)
            (hlook2 _)
            (fun e => by rw [← hp2.2 e]; exact lookup_mapSet_self _ _ _)
            (by omega) hwalk

theorem walk_of_foldProof (hf : HashFns) (n i : Nat) :
    ∀ (f l : Nat) (cur : Bytes) (p : List (Bool × Bytes)) (extra : List Bytes),
      p.map (·.1) = sidesFrom n i f l →
      walk hf n i f l cur (p.map (·.2) ++ extra) = some (foldProof hf cur p) := by
  intro f
  induction f with
  | zero =>
    intro l cur p extra h
    simp only [sidesFrom, List.map_eq_nil_iff] at h
    subst h; simp [walk, foldProof]
  | succ f ih =>
    intro l cur p extra h
    simp only [sidesFrom] at h
    simp only [walk]
    by_cases hc : sibOf (i / 2 ^ l) * 2 ^ l < n
    · rw [if_pos hc] at h ⊢
      cases p with
      | nil => simp at h
      | cons a p' =>
        obtain ⟨b, s⟩ := a
        simp only [List.map_cons, List.cons_append, List.cons.injEq] at h ⊢
        obtain ⟨hb, hp⟩ := h
        subst hb
        rw [ih (l + 1) _ p' extra hp]
        simp [foldProof]
    · rw [if_neg hc] at h ⊢
      simp only [List.nil_append] at h
      exact ih (l + 1) cur p extra h

theorem verify_single_complete (hf : HashFns) (n i : Nat) (hn : 1 ≤ n) (hi : i < n) (hb : getHeight n ≤ 30)
    (q : Bytes) (sibs : List Bytes) (r : Bytes)
    (h : walk hf n i (getHeight n - 1) 0 q sibs = some r) :
    verifyProof hf [q] ⟨n, [2 ^ getHeight n + i], sibs⟩ r = true := by
  have hidx : nodeIdx (getHeight n) i 0 = 2 ^ getHeight n + i := by simp [nodeIdx]
  have hne : (2 ^ getHeight n + i != 0) = true := by simp
  have hi1 := lt_pow_height hn hi
  have hiH : i < 2 ^ getHeight n :=
    Nat.lt_of_lt_of_le hi1 (Nat.pow_le_pow_right (by decide) (by omega))
  rw [verifyProof_eq, Bool.and_eq_true]
  refine ⟨by simpa using idxsValid_leaves hn hb [i] (by simp) (by simpa using hi), ?_⟩
  unfold verifyProofOrig
  simp only [show ¬ n = 0 by omega, if_false]
  unfold calcPathNodes
  simp only [List.length_cons, List.length_nil, bne_self_eq_false, Bool.false_eq_true, if_false]
  have hsort : sortIdx ([2 ^ getHeight n + i].filter (· != 0)) = [2 ^ getHeight n + i] := by
    simp [List.filter, hne, sortIdx, isort, insertBy]
  have hinit : initResult [q] [2 ^ getHeight n + i] [] = [(2 ^ getHeight n + i, q)] := by
    have : (2 ^ getHeight n + i == 0) = false := by simp
    simp [initResult, this, mapSet]
  have hfuel : sumBitLen [2 ^ getHeight n + i] = getHeight n + 1 := by
    have := nodeIdx_log2 (getHeight n) i 0 hiH (by omega)
    rw [hidx] at this
    simp [sumBitLen, bitLen, this]
  simp only [hsort, hinit, hfuel]
  rw [← hidx]
  have hlook : look [(nodeIdx (getHeight n) i 0, q)] [] (nodeIdx (getHeight n) i 0) = some q := by
    simp [look, List.lookup]
  obtain ⟨res, hres, hr⟩ := calcLoop_single_complete hf n i hn hi hb (getHeight n + 1 + 1) 0
    [(nodeIdx (getHeight n) i 0, q)] [] q sibs r (by omega)
    (fun key v hv => by simp at hv; exact ⟨0, Nat.le_refl _, hv.1⟩)
    hlook
    (fun e => by
      have : nodeIdx (getHeight n) i 0 = 2 := (nodeIdx_eq_two _ i 0 (by simp [getHeight]) hi1 (by omega)).2 e
      rw [this]; simp [List.lookup])
    (by omega) (by simpa using h)
  rw [hres]
  simp [hr]

end LiskVerif.RMT
