/-
Atomicity criterion on synchronisation skeletons (property C20): "no unlock–relock between dependent
accesses".

Lock discipline (criteria 1–4 of `Model/Locks.lean`) excludes deadlocks and data races, but not
*atomicity violations*: a function that reads a guarded field in one critical section, releases the
guard, and writes the same field in a later critical section is race-free and deadlock-free, yet another
goroutine's write can fall between the two sections and be overwritten (lost update / check-then-act).

This file contains (core Lean only)
  * the path criterion `pathAtomic`: a two-set automaton run along a path. `rd` = the guarded fields read
    so far, `stale` = the fields read *before the last lock operation on their guard* (Lock, RLock,
    Unlock, RUnlock of that mutex). A write of a stale field is a violation: the read that may feed it
    happened in another critical section;
  * `pathAtomic_quiet`: on a path satisfying the criterion there is no lock operation on the guard of `f`
    between a read of `f` and any later write of `f`;
  * the decidable check `atomicOk` on a skeleton: an abstract interpreter `atAn` runs the same automaton
    on the skeleton (calls inlined through the table with the callee's deferred unlocks released at its
    exit, alternatives joined, loop bodies iterated to a checked invariant, spawned goroutines analysed
    from the empty state);
  * its soundness `atomicOk_paths` w.r.t. the path semantics `den` (calls inlined to any depth, every
    loop iterated any number of times, spawned goroutines included): every thread path of a skeleton
    that passes the check satisfies `pathAtomic`.
The interleaving consequence and the obligations over the regenerated skeletons are in
`Props/C20_Atomic.lean`.
-/
import LiskVerif.Lemmas.LocksSound

namespace LiskVerif.Locks

/-! ## the automaton on paths -/

/-- the mutex a primitive operates on -/
def lockOf : Prim → Option String
  | .acq m => some m
  | .racq m => some m
  | .rel m => some m
  | .rrel m => some m
  | _ => none

/-- automaton state: fields read so far / fields read before the last lock operation on their guard -/
structure AtSt where
  rd : List String
  stale : List String
  deriving DecidableEq, Repr

namespace AtSt

def bot : AtSt := ⟨[], []⟩

/-- componentwise inclusion -/
def le (a b : AtSt) : Prop := (∀ x ∈ a.rd, x ∈ b.rd) ∧ (∀ x ∈ a.stale, x ∈ b.stale)

def sub (a b : AtSt) : Bool := subsetD a.rd b.rd && subsetD a.stale b.stale

def union (a b : AtSt) : AtSt := ⟨unionD a.rd b.rd, unionD a.stale b.stale⟩

theorem le_refl (a : AtSt) : le a a := ⟨fun _ h => h, fun _ h => h⟩

theorem le_trans {a b c : AtSt} (h1 : le a b) (h2 : le b c) : le a c :=
  ⟨fun x h => h2.1 x (h1.1 x h), fun x h => h2.2 x (h1.2 x h)⟩

theorem bot_le (a : AtSt) : le bot a := ⟨(by intro x h; cases h), by intro x h; cases h⟩

theorem sub_iff {a b : AtSt} : sub a b = true ↔ le a b := by
  simp only [sub, Bool.and_eq_true, subsetD_iff, le]

theorem le_union_left (a b : AtSt) : le a (union a b) :=
  ⟨fun _ h => mem_unionD.mpr (Or.inl h), fun _ h => mem_unionD.mpr (Or.inl h)⟩

theorem le_union_right (a b : AtSt) : le b (union a b) :=
  ⟨fun _ h => mem_unionD.mpr (Or.inr h), fun _ h => mem_unionD.mpr (Or.inr h)⟩

end AtSt

def guardedBy (g : List (String × String)) (m : String) (x : String) : Bool := g.lookup x == some m

/-- one primitive: a read is recorded; a lock operation on `m` makes every recorded field guarded by `m`
stale -/
def stepAt (g : List (String × String)) (a : AtSt) (p : Prim) : AtSt :=
  match lockOf p with
  | some m => ⟨a.rd, unionD a.stale (a.rd.filter (guardedBy g m))⟩
  | none =>
    match p with
    | .read x => ⟨insertD x a.rd, a.stale⟩
    | _ => a

/-- a write of a stale field is a violation -/
def okAt (a : AtSt) : Prim → Bool
  | .write x => !a.stale.contains x
  | _ => true

def runAt (g : List (String × String)) (a : AtSt) : Path → AtSt
  | [] => a
  | p :: ps => runAt g (stepAt g a p) ps

def okFromAt (g : List (String × String)) (a : AtSt) : Path → Bool
  | [] => true
  | p :: ps => okAt a p && okFromAt g (stepAt g a p) ps

/-- **The criterion on a path**: no write of a field whose earlier read on this path is separated from
the write by a lock operation on the field's guard. -/
def pathAtomic (g : List (String × String)) (p : Path) : Bool := okFromAt g AtSt.bot p

theorem mem_stepAt_rd {g : List (String × String)} {a : AtSt} {p : Prim} {x : String} :
    x ∈ (stepAt g a p).rd ↔ x ∈ a.rd ∨ p = Prim.read x := by
  cases p <;> simp [stepAt, lockOf, mem_insertD, or_comm, eq_comm]

theorem mem_stepAt_stale {g : List (String × String)} {a : AtSt} {p : Prim} {x : String} :
    x ∈ (stepAt g a p).stale ↔ x ∈ a.stale ∨ (x ∈ a.rd ∧ ∃ m, lockOf p = some m ∧ g.lookup x = some m) := by
  cases p <;> simp [stepAt, lockOf, mem_unionD, guardedBy]

theorem le_stepAt (g : List (String × String)) (a : AtSt) (p : Prim) : AtSt.le a (stepAt g a p) :=
  ⟨fun _ h => mem_stepAt_rd.mpr (Or.inl h), fun _ h => mem_stepAt_stale.mpr (Or.inl h)⟩

theorem stepAt_mono {g : List (String × String)} {a b : AtSt} (h : AtSt.le a b) (p : Prim) :
    AtSt.le (stepAt g a p) (stepAt g b p) := by
  constructor
  · intro x hx
    rcases mem_stepAt_rd.mp hx with hx | hx
    · exact mem_stepAt_rd.mpr (Or.inl (h.1 x hx))
    · exact mem_stepAt_rd.mpr (Or.inr hx)
  · intro x hx
    rcases mem_stepAt_stale.mp hx with hx | ⟨hx, hm⟩
    · exact mem_stepAt_stale.mpr (Or.inl (h.2 x hx))
    · exact mem_stepAt_stale.mpr (Or.inr ⟨h.1 x hx, hm⟩)

theorem okAt_anti {a b : AtSt} (h : AtSt.le a b) (p : Prim) (hb : okAt b p = true) : okAt a p = true := by
  cases p with
  | write x =>
    simp only [okAt, Bool.not_eq_true', List.contains_eq_mem, decide_eq_false_iff_not] at hb ⊢
    exact fun hx => hb (h.2 x hx)
  | _ => rfl

theorem runAt_append (g : List (String × String)) (a : AtSt) (p q : Path) :
    runAt g a (p ++ q) = runAt g (runAt g a p) q := by
  induction p generalizing a with
  | nil => rfl
  | cons x p ih => simp only [List.cons_append, runAt, ih]

theorem okFromAt_append (g : List (String × String)) (a : AtSt) (p q : Path) :
    okFromAt g a (p ++ q) = (okFromAt g a p && okFromAt g (runAt g a p) q) := by
  induction p generalizing a with
  | nil => simp [okFromAt, runAt]
  | cons x p ih => simp only [List.cons_append, okFromAt, runAt, ih, Bool.and_assoc]

theorem runAt_mono {g : List (String × String)} {a b : AtSt} (h : AtSt.le a b) (p : Path) :
    AtSt.le (runAt g a p) (runAt g b p) := by
  induction p generalizing a b with
  | nil => exact h
  | cons x p ih => exact ih (stepAt_mono h x)

theorem le_runAt (g : List (String × String)) (a : AtSt) (p : Path) : AtSt.le a (runAt g a p) := by
  induction p generalizing a with
  | nil => exact AtSt.le_refl a
  | cons x p ih => exact AtSt.le_trans (le_stepAt g a x) (ih _)

theorem okFromAt_anti {g : List (String × String)} {a b : AtSt} (h : AtSt.le a b) (p : Path)
    (hb : okFromAt g b p = true) : okFromAt g a p = true := by
  induction p generalizing a b with
  | nil => rfl
  | cons x p ih =>
    simp only [okFromAt, Bool.and_eq_true] at hb ⊢
    exact ⟨okAt_anti h x hb.1, ih (stepAt_mono h x) hb.2⟩

/-! ### paths of lock operations only (deferred releases) -/

def LockOnly (d : Path) : Prop := ∀ p ∈ d, (lockOf p).isSome = true

def lockOnlyB (d : Path) : Bool := d.all (fun p => (lockOf p).isSome)

theorem lockOnlyB_iff {d : Path} : lockOnlyB d = true ↔ LockOnly d := by
  simp [lockOnlyB, LockOnly, List.all_eq_true]

theorem LockOnly.append {d e : Path} (hd : LockOnly d) (he : LockOnly e) : LockOnly (d ++ e) := by
  intro p hp
  rcases List.mem_append.mp hp with h | h
  · exact hd p h
  · exact he p h

theorem lockOnly_nil : LockOnly [] := by intro p hp; cases hp

theorem mem_runAt_lockOnly {g : List (String × String)} {d : Path} (hd : LockOnly d) (a : AtSt) (x : String) :
    (x ∈ (runAt g a d).rd ↔ x ∈ a.rd) ∧
    (x ∈ (runAt g a d).stale ↔
      x ∈ a.stale ∨ (x ∈ a.rd ∧ ∃ p ∈ d, ∃ m, lockOf p = some m ∧ g.lookup x = some m)) := by
  induction d generalizing a with
  | nil => simp [runAt]
  | cons q d ih =>
    have hq := hd q (List.mem_cons_self ..)
    have hd' : LockOnly d := fun p hp => hd p (List.mem_cons_of_mem _ hp)
    obtain ⟨i1, i2⟩ := ih hd' (stepAt g a q)
    have hrd : x ∈ (stepAt g a q).rd ↔ x ∈ a.rd := by
      rw [mem_stepAt_rd]
      constructor
      · rintro (h | h)
        · exact h
        · subst h; simp [lockOf] at hq
      · exact Or.inl
    simp only [runAt]
    refine ⟨i1.trans hrd, ?_⟩
    rw [i2, hrd, mem_stepAt_stale]
    constructor
    · rintro ((h | ⟨h1, m, h2, h3⟩) | ⟨h1, p, hp, m, h2, h3⟩)
      · exact Or.inl h
      · exact Or.inr ⟨h1, q, List.mem_cons_self .., m, h2, h3⟩
      · exact Or.inr ⟨h1, p, List.mem_cons_of_mem _ hp, m, h2, h3⟩
    · rintro (h | ⟨h1, p, hp, m, h2, h3⟩)
      · exact Or.inl (Or.inl h)
      · rcases List.mem_cons.mp hp with rfl | hp
        · exact Or.inl (Or.inr ⟨h1, m, h2, h3⟩)
        · exact Or.inr ⟨h1, p, hp, m, h2, h3⟩

/-- the deferred releases actually registered by a run (`d`, any order, any multiplicity) do no more than
the releases `ds` the analysis collected -/
theorem runAt_defers_le {g : List (String × String)} {d ds : Path} (hds : LockOnly ds)
    (hsub : ∀ p ∈ d, p ∈ ds) {c a : AtSt} (h : AtSt.le c a) : AtSt.le (runAt g c d) (runAt g a ds) := by
  have hd : LockOnly d := fun p hp => hds p (hsub p hp)
  constructor
  · intro x hx
    exact ((mem_runAt_lockOnly hds a x).1).mpr (h.1 x (((mem_runAt_lockOnly hd c x).1).mp hx))
  · intro x hx
    rcases ((mem_runAt_lockOnly hd c x).2).mp hx with hx | ⟨h1, p, hp, m, h2, h3⟩
    · exact ((mem_runAt_lockOnly hds a x).2).mpr (Or.inl (h.2 x hx))
    · exact ((mem_runAt_lockOnly hds a x).2).mpr (Or.inr ⟨h.1 x h1, p, hsub p hp, m, h2, h3⟩)

theorem okFromAt_lockOnly {g : List (String × String)} {d : Path} (hd : LockOnly d) (a : AtSt) :
    okFromAt g a d = true := by
  induction d generalizing a with
  | nil => rfl
  | cons q d ih =>
    have hq := hd q (List.mem_cons_self ..)
    have hd' : LockOnly d := fun p hp => hd p (List.mem_cons_of_mem _ hp)
    simp only [okFromAt, Bool.and_eq_true]
    refine ⟨?_, ih hd' _⟩
    cases q <;> first | rfl | simp [lockOf] at hq

/-! ### what the criterion says about a path -/

/-- on a path satisfying the criterion there is no lock operation on the guard of `f` between a read of
`f` and a later write of `f` -/
theorem okFromAt_quiet {g : List (String × String)} {a : AtSt} {pre mid rest : Path} {f m : String}
    (h : okFromAt g a (pre ++ Prim.read f :: (mid ++ Prim.write f :: rest)) = true)
    (hg : g.lookup f = some m) : ∀ q ∈ mid, lockOf q ≠ some m := by
  intro q hq hl
  obtain ⟨m1, m2, rfl⟩ := List.append_of_mem hq
  rw [okFromAt_append] at h
  simp only [Bool.and_eq_true] at h
  have h2 := h.2
  -- after the read, f is recorded
  have hcons : Prim.read f :: ((m1 ++ q :: m2) ++ Prim.write f :: rest) =
      ([Prim.read f] ++ m1) ++ ([q] ++ (m2 ++ Prim.write f :: rest)) := by simp
  rw [hcons, okFromAt_append] at h2
  simp only [Bool.and_eq_true] at h2
  have h3 := h2.2
  rw [okFromAt_append] at h3
  simp only [Bool.and_eq_true] at h3
  have h4 := h3.2
  rw [okFromAt_append] at h4
  simp only [Bool.and_eq_true] at h4
  have h5 := h4.2
  -- the state when the write is reached
  have hrd : f ∈ (runAt g (runAt g a pre) ([Prim.read f] ++ m1)).rd := by
    rw [runAt_append]
    exact (le_runAt g _ m1).1 f (by simp only [runAt]; exact mem_stepAt_rd.mpr (Or.inr rfl))
  have hst : f ∈ (runAt g (runAt g (runAt g a pre) ([Prim.read f] ++ m1)) [q]).stale := by
    simp only [runAt]
    exact mem_stepAt_stale.mpr (Or.inr ⟨hrd, m, hl, hg⟩)
  have hst2 := (le_runAt g _ m2).2 f hst
  simp only [okFromAt, okAt, Bool.and_eq_true, Bool.not_eq_true', List.contains_eq_mem,
    decide_eq_false_iff_not] at h5
  exact h5.1 hst2

theorem pathAtomic_quiet {g : List (String × String)} {pre mid rest : Path} {f m : String}
    (h : pathAtomic g (pre ++ Prim.read f :: (mid ++ Prim.write f :: rest)) = true)
    (hg : g.lookup f = some m) : ∀ q ∈ mid, lockOf q ≠ some m :=
  okFromAt_quiet h hg

/-- lock operations on other mutexes do not change what is held of `m` -/
theorem mem_heldAfterPath_quiet {m : String} {md : Mode} {mid : Path} (hq : ∀ q ∈ mid, lockOf q ≠ some m)
    (h : Held) : (m, md) ∈ heldAfterPath h mid ↔ (m, md) ∈ h := by
  induction mid generalizing h with
  | nil => rfl
  | cons a mid ih =>
    have ha := hq a (List.mem_cons_self ..)
    simp only [heldAfterPath]
    rw [ih (fun q hq' => hq q (List.mem_cons_of_mem _ hq'))]
    cases a with
    | acq m' =>
      have : m' ≠ m := fun e => ha (by simp [lockOf, e])
      simp [heldAfter, this.symm]
    | racq m' =>
      have : m' ≠ m := fun e => ha (by simp [lockOf, e])
      simp [heldAfter, this.symm]
    | rel m' =>
      have : m' ≠ m := fun e => ha (by simp [lockOf, e])
      simp only [heldAfter]
      constructor
      · exact List.mem_of_mem_erase
      · intro hm
        exact (List.mem_erase_of_ne (by intro e; injection e with e1 _; exact this e1.symm)).mpr hm
    | rrel m' =>
      have : m' ≠ m := fun e => ha (by simp [lockOf, e])
      simp only [heldAfter]
      constructor
      · exact List.mem_of_mem_erase
      · intro hm
        exact (List.mem_erase_of_ne (by intro e; injection e with e1 _; exact this e1.symm)).mpr hm
    | _ => rfl

/-! ## abstract interpretation of skeletons -/

/-- result of analysing an action list from one automaton state -/
structure AtRes where
  ok : Bool          -- no violation found
  fall : AtSt        -- state in which control falls through
  rets : AtSt        -- state in which a `return` was executed
  defs : Path        -- deferred releases that may have been registered
  deriving Repr

/-- a leaf action: the single run `denFirst` gives it, executed on the automaton -/
def atRun (g : List (String × String)) (a : AtSt) (r : Run) : AtRes :=
  ⟨okFromAt g a r.path, if r.returned then AtSt.bot else runAt g a r.path,
    if r.returned then runAt g a r.path else AtSt.bot, r.defers⟩

/-- invariant of a loop body: iterate `I ↦ I ∪ fall(body from I)` until the body maps `I` into itself -/
def loopInv (f : AtSt → Option AtRes) : Nat → AtSt → Option (AtSt × AtRes)
  | 0, _ => none
  | k + 1, I =>
    match f I with
    | none => none
    | some rb => if AtSt.sub rb.fall I then some (I, rb) else loopInv f k (AtSt.union I rb.fall)

def choiceF (f : List Act → Option AtRes) : Option AtRes → List Act → Option AtRes := fun acc alt =>
  match acc, f alt with
  | some r, some ra => some ⟨r.ok && ra.ok, AtSt.union r.fall ra.fall, AtSt.union r.rets ra.rets, r.defs ++ ra.defs⟩
  | _, _ => none

/-- abstract execution of one action from the state `a`; `rec` analyses nested action lists -/
def atFirst (g : List (String × String)) (tbl : Table) (rec : AtSt → List Act → Option AtRes)
    (a : AtSt) (x : Act) : Option AtRes :=
  match x with
  | .call f =>
    match tbl.find f with
    | none => some ⟨true, a, AtSt.bot, []⟩
    | some body =>
      -- the callee runs from the caller's state; its deferred releases run at its exit
      match rec a body with
      | none => none
      | some rb =>
        if lockOnlyB rb.defs then some ⟨rb.ok, runAt g (AtSt.union rb.fall rb.rets) rb.defs, AtSt.bot, []⟩
        else none
  | .go b =>
    -- the spawned goroutine is a thread of its own: analysed from the empty state
    match rec AtSt.bot b with
    | none => none
    | some rb => some ⟨rb.ok && lockOnlyB rb.defs, a, AtSt.bot, []⟩
  | .choice alts => alts.foldl (choiceF (rec a)) (some ⟨true, AtSt.bot, AtSt.bot, []⟩)
  | .loop b =>
    match loopInv (fun I => rec I b) 4 a with
    | none => none
    | some (I, rb) => some ⟨rb.ok, I, rb.rets, rb.defs⟩
  | x =>
    match denFirst [] 0 (fun _ => []) x with
    | [r] => if r.spawns.isEmpty then some (atRun g a r) else none
    | _ => none

/-- `atAn g tbl n a k` — abstract execution of the action list `k` from the automaton state `a`;
`none` when the fuel runs out or a loop invariant is not reached. -/
def atAn (g : List (String × String)) (tbl : Table) : Nat → AtSt → List Act → Option AtRes
  | 0, _, _ => none
  | _ + 1, a, [] => some ⟨true, a, AtSt.bot, []⟩
  | n + 1, a, x :: k =>
    match atFirst g tbl (atAn g tbl n) a x with
    | none => none
    | some r1 =>
      match atAn g tbl n r1.fall k with
      | none => none
      | some r2 => some ⟨r1.ok && r2.ok, r2.fall, AtSt.union r1.rets r2.rets, r1.defs ++ r2.defs⟩

def atomicFuel : Nat := 400

/-- **The decidable check**: the body (and every goroutine it spawns) never writes a guarded field whose
earlier read is separated from the write by a lock operation on the guard. -/
def atomicOk (c : Cfg) (s : Skel) : Bool :=
  match atAn c.guards c.tbl atomicFuel AtSt.bot s with
  | some r => r.ok && lockOnlyB r.defs
  | none => false

/-! ## soundness -/

def AtGood (g : List (String × String)) (tbl : Table) (b : List Act) : Prop :=
  ∃ fa rb, atAn g tbl fa AtSt.bot b = some rb ∧ rb.ok = true ∧ LockOnly rb.defs

/-- the runs `rs` started in any automaton state below `a` are covered by the result `r` -/
def SoundAt (g : List (String × String)) (tbl : Table) (a : AtSt) (rs : List Run) (r : AtRes) : Prop :=
  ∀ run ∈ rs,
    (∀ p ∈ run.defers, p ∈ r.defs) ∧
    (r.ok = true → ∀ b ∈ run.spawns, AtGood g tbl b) ∧
    ∀ c, AtSt.le c a →
      (r.ok = true → okFromAt g c run.path = true) ∧
      (run.returned = false → AtSt.le (runAt g c run.path) r.fall) ∧
      (run.returned = true → AtSt.le (runAt g c run.path) r.rets)

theorem SoundAt.mono {g : List (String × String)} {tbl : Table} {a a' : AtSt} {rs : List Run} {r r' : AtRes}
    (h : SoundAt g tbl a rs r) (ha : AtSt.le a' a) (hok : r'.ok = true → r.ok = true)
    (hf : AtSt.le r.fall r'.fall) (ht : AtSt.le r.rets r'.rets) (hd : ∀ p ∈ r.defs, p ∈ r'.defs) :
    SoundAt g tbl a' rs r' := by
  intro run hrun
  obtain ⟨d1, s1, c1⟩ := h run hrun
  refine ⟨fun p hp => hd p (d1 p hp), fun ho => s1 (hok ho), fun c hc => ?_⟩
  obtain ⟨o1, f1, t1⟩ := c1 c (AtSt.le_trans hc ha)
  exact ⟨fun ho => o1 (hok ho), fun hr => AtSt.le_trans (f1 hr) hf, fun hr => AtSt.le_trans (t1 hr) ht⟩

theorem SoundAt.seq {g : List (String × String)} {tbl : Table} {a : AtSt} {rs1 rs2 : List Run} {r1 r2 : AtRes}
    (h1 : SoundAt g tbl a rs1 r1) (h2 : SoundAt g tbl r1.fall rs2 r2) :
    SoundAt g tbl a (seqRuns rs1 rs2)
      ⟨r1.ok && r2.ok, r2.fall, AtSt.union r1.rets r2.rets, r1.defs ++ r2.defs⟩ := by
  intro run hrun
  simp only [seqRuns, List.mem_flatMap] at hrun
  obtain ⟨x1, hx1, hrun⟩ := hrun
  obtain ⟨d1, s1, c1⟩ := h1 x1 hx1
  by_cases hret : x1.returned = true
  · simp only [hret, if_true, List.mem_singleton] at hrun
    subst hrun
    refine ⟨fun p hp => List.mem_append.mpr (Or.inl (d1 p hp)), ?_, fun c hc => ?_⟩
    · intro ho; simp only [Bool.and_eq_true] at ho; exact s1 ho.1
    · obtain ⟨o1, _, t1⟩ := c1 c hc
      refine ⟨?_, fun h => (by rw [hret] at h; cases h), fun _ => AtSt.le_trans (t1 hret) (AtSt.le_union_left _ _)⟩
      intro ho; simp only [Bool.and_eq_true] at ho; exact o1 ho.1
  · have hret' : x1.returned = false := by cases h : x1.returned <;> simp_all
    simp only [hret', Bool.false_eq_true, if_false, List.mem_map] at hrun
    obtain ⟨x2, hx2, rfl⟩ := hrun
    obtain ⟨d2, s2, c2⟩ := h2 x2 hx2
    refine ⟨?_, ?_, fun c hc => ?_⟩
    · intro p hp
      rcases List.mem_append.mp hp with hp | hp
      · exact List.mem_append.mpr (Or.inr (d2 p hp))
      · exact List.mem_append.mpr (Or.inl (d1 p hp))
    · intro ho b hb
      simp only [Bool.and_eq_true] at ho
      rcases List.mem_append.mp hb with hb | hb
      · exact s1 ho.1 b hb
      · exact s2 ho.2 b hb
    · obtain ⟨o1, f1, _⟩ := c1 c hc
      obtain ⟨o2, f2, t2⟩ := c2 (runAt g c x1.path) (f1 hret')
      refine ⟨?_, ?_, ?_⟩
      · intro ho
        simp only [Bool.and_eq_true] at ho
        rw [okFromAt_append, o1 ho.1, o2 ho.2]; rfl
      · intro hr; rw [runAt_append]; exact f2 hr
      · intro hr; rw [runAt_append]; exact AtSt.le_trans (t2 hr) (AtSt.le_union_right _ _)

theorem soundAt_skip (g : List (String × String)) (tbl : Table) (a : AtSt) :
    SoundAt g tbl a [⟨[], [], false, []⟩] ⟨true, a, AtSt.bot, []⟩ := by
  intro run hrun
  simp only [List.mem_singleton] at hrun
  subst hrun
  exact ⟨(by intro p hp; cases hp), (by intro _ b hb; cases hb),
    fun c hc => ⟨fun _ => rfl, fun _ => hc, fun h => by cases h⟩⟩

/-- a leaf action -/
theorem soundAt_run (g : List (String × String)) (tbl : Table) (a : AtSt) (r : Run)
    (hs : r.spawns = []) : SoundAt g tbl a [r] (atRun g a r) := by
  intro run hrun
  simp only [List.mem_singleton] at hrun
  subst hrun
  refine ⟨fun p hp => hp, (by intro _ b hb; rw [hs] at hb; cases hb), fun c hc => ⟨?_, ?_, ?_⟩⟩
  · intro ho; exact okFromAt_anti hc _ ho
  · intro hr; simp only [atRun, hr, Bool.false_eq_true, if_false]; exact runAt_mono hc _
  · intro hr; simp only [atRun, hr, if_true]; exact runAt_mono hc _

theorem loopInv_spec (f : AtSt → Option AtRes) : ∀ (k : Nat) (a I : AtSt) (rb : AtRes),
    loopInv f k a = some (I, rb) → f I = some rb ∧ AtSt.le rb.fall I ∧ AtSt.le a I := by
  intro k
  induction k with
  | zero => intro a I rb h; simp [loopInv] at h
  | succ k ih =>
    intro a I rb h
    simp only [loopInv] at h
    cases hf : f a with
    | none => simp [hf] at h
    | some r =>
      simp only [hf] at h
      by_cases hsub : AtSt.sub r.fall a = true
      · simp only [hsub, if_true, Option.some.injEq, Prod.mk.injEq] at h
        obtain ⟨rfl, rfl⟩ := h
        exact ⟨hf, AtSt.sub_iff.mp hsub, AtSt.le_refl _⟩
      · simp only [hsub, Bool.false_eq_true, if_false] at h
        obtain ⟨h1, h2, h3⟩ := ih _ I rb h
        exact ⟨h1, h2, AtSt.le_trans (AtSt.le_union_left _ _) h3⟩

theorem soundAt_iter {g : List (String × String)} {tbl : Table} {I : AtSt} {body : List Run} {rb : AtRes}
    (hb : SoundAt g tbl I body rb) (hsub : AtSt.le rb.fall I) (i : Nat) :
    SoundAt g tbl I (iterRuns body i) ⟨rb.ok, I, rb.rets, rb.defs⟩ := by
  induction i with
  | zero =>
    exact (soundAt_skip g tbl I).mono (AtSt.le_refl _) (fun _ => rfl) (AtSt.le_refl _) (AtSt.bot_le _)
      (by intro p hp; cases hp)
  | succ i ih =>
    have h2 : SoundAt g tbl (AtRes.fall ⟨rb.ok, I, rb.rets, rb.defs⟩) body rb := hb
    refine (SoundAt.seq ih h2).mono (AtSt.le_refl _) ?_ hsub ?_ ?_
    · intro ho; have ho' : rb.ok = true := ho; simp [ho']
    · exact ⟨fun x hx => by rcases mem_unionD.mp hx with h | h <;> exact h,
        fun x hx => by rcases mem_unionD.mp hx with h | h <;> exact h⟩
    · intro p hp; rcases List.mem_append.mp hp with h | h <;> exact h

private theorem foldl_choiceF_none (f : List Act → Option AtRes) (alts : List (List Act)) :
    alts.foldl (choiceF f) none = none := by
  induction alts with
  | nil => rfl
  | cons a alts ih => simp only [List.foldl_cons, choiceF, ih]

/-- join of alternatives: every alternative's result is below the fold's result -/
theorem foldChoiceAt_spec (f : List Act → Option AtRes) (alts : List (List Act)) (r0 r : AtRes)
    (h : alts.foldl (choiceF f) (some r0) = some r) :
    ((r.ok = true → r0.ok = true) ∧ AtSt.le r0.fall r.fall ∧ AtSt.le r0.rets r.rets ∧
      (∀ p ∈ r0.defs, p ∈ r.defs)) ∧
    ∀ alt ∈ alts, ∃ ra, f alt = some ra ∧ (r.ok = true → ra.ok = true) ∧ AtSt.le ra.fall r.fall ∧
      AtSt.le ra.rets r.rets ∧ (∀ p ∈ ra.defs, p ∈ r.defs) := by
  induction alts generalizing r0 with
  | nil =>
    simp only [List.foldl_nil, Option.some.injEq] at h
    subst h
    exact ⟨⟨fun h => h, AtSt.le_refl _, AtSt.le_refl _, fun _ h => h⟩, by intro alt halt; cases halt⟩
  | cons alt alts ih =>
    simp only [List.foldl_cons] at h
    cases hf : f alt with
    | none => simp only [choiceF, hf] at h; rw [foldl_choiceF_none] at h; cases h
    | some ra =>
      simp only [choiceF, hf] at h
      obtain ⟨⟨i1, i2, i3, i4⟩, i6⟩ := ih _ h
      refine ⟨⟨?_, AtSt.le_trans (AtSt.le_union_left _ _) i2, AtSt.le_trans (AtSt.le_union_left _ _) i3,
        fun p hp => i4 p (List.mem_append.mpr (Or.inl hp))⟩, ?_⟩
      · intro ho; have := i1 ho; simp only [Bool.and_eq_true] at this; exact this.1
      · intro alt' halt'
        rcases List.mem_cons.mp halt' with rfl | halt'
        · refine ⟨ra, hf, ?_, AtSt.le_trans (AtSt.le_union_right _ _) i2,
            AtSt.le_trans (AtSt.le_union_right _ _) i3, fun p hp => i4 p (List.mem_append.mpr (Or.inr hp))⟩
          intro ho; have := i1 ho; simp only [Bool.and_eq_true] at this; exact this.2
        · exact i6 alt' halt'

/-- soundness of one action -/
theorem atFirst_sound (g : List (String × String)) (tbl : Table) (u : Nat)
    (recA : AtSt → List Act → Option AtRes) (recD : List Act → List Run)
    (H : ∀ a k r, recA a k = some r → SoundAt g tbl a (recD k) r)
    (HG : ∀ b rb, recA AtSt.bot b = some rb → rb.ok = true → LockOnly rb.defs → AtGood g tbl b)
    (a : AtSt) (x : Act) (r1 : AtRes) (h : atFirst g tbl recA a x = some r1) :
    SoundAt g tbl a (denFirst tbl u recD x) r1 := by
  cases x
  case call f =>
    simp only [atFirst, denFirst] at h ⊢
    cases hf : tbl.find f with
    | none =>
      simp only [hf, Option.some.injEq] at h ⊢
      subst h
      intro run hrun
      simp only [List.mem_singleton] at hrun
      subst hrun
      refine ⟨(by intro p hp; cases hp), (by intro _ b hb; cases hb),
        fun c hc => ⟨fun _ => rfl, fun _ => ?_, fun h => by cases h⟩⟩
      simpa [runAt, stepAt, lockOf] using hc
    | some body =>
      simp only [hf] at h ⊢
      cases hrec : recA a body with
      | none => simp [hrec] at h
      | some rb =>
        simp only [hrec] at h
        by_cases hlo : lockOnlyB rb.defs = true
        · simp only [hlo, if_true, Option.some.injEq] at h
          subst h
          have hs := H _ _ _ hrec
          have hlo' := lockOnlyB_iff.mp hlo
          intro run hrun
          simp only [List.mem_map] at hrun
          obtain ⟨rbody, hrb, rfl⟩ := hrun
          obtain ⟨d1, s1, c1⟩ := hs rbody hrb
          refine ⟨(by intro p hp; cases hp), s1, fun c hc => ?_⟩
          obtain ⟨o1, f1, t1⟩ := c1 c hc
          have hdl : LockOnly rbody.defers := fun p hp => hlo' p (d1 p hp)
          refine ⟨?_, ?_, fun h => by cases h⟩
          · intro ho
            rw [okFromAt_append, o1 ho, okFromAt_lockOnly hdl]; rfl
          · intro _
            rw [runAt_append]
            apply runAt_defers_le hlo' d1
            cases hr : rbody.returned with
            | false => exact AtSt.le_trans (f1 hr) (AtSt.le_union_left _ _)
            | true => exact AtSt.le_trans (t1 hr) (AtSt.le_union_right _ _)
        · simp [hlo] at h
  case go b =>
    simp only [atFirst, denFirst] at h ⊢
    cases hrec : recA AtSt.bot b with
    | none => simp [hrec] at h
    | some rb =>
      simp only [hrec, Option.some.injEq] at h
      subst h
      intro run hrun
      simp only [List.mem_singleton] at hrun
      subst hrun
      refine ⟨(by intro p hp; cases hp), ?_, fun c hc => ⟨fun _ => rfl, fun _ => hc, fun h => by cases h⟩⟩
      intro ho b' hb'
      simp only [List.mem_singleton] at hb'
      subst hb'
      simp only [Bool.and_eq_true] at ho
      exact HG _ _ hrec ho.1 (lockOnlyB_iff.mp ho.2)
  case choice alts =>
    simp only [atFirst, denFirst] at h ⊢
    obtain ⟨_, i6⟩ := foldChoiceAt_spec _ alts _ r1 h
    intro run hrun
    simp only [List.mem_flatMap] at hrun
    obtain ⟨alt, halt, hrun⟩ := hrun
    obtain ⟨ra, hra, j1, j2, j3, j4⟩ := i6 alt halt
    exact ((H _ _ _ hra).mono (AtSt.le_refl _) j1 j2 j3 j4) run hrun
  case loop b =>
    simp only [atFirst, denFirst] at h ⊢
    cases hli : loopInv (fun I => recA I b) 4 a with
    | none => simp [hli] at h
    | some Irb =>
      obtain ⟨I, rb⟩ := Irb
      simp only [hli, Option.some.injEq] at h
      subst h
      obtain ⟨k1, k2, k3⟩ := loopInv_spec _ _ _ _ _ hli
      have hb := H _ _ _ k1
      intro run hrun
      simp only [List.mem_flatMap] at hrun
      obtain ⟨i, _, hrun⟩ := hrun
      exact ((soundAt_iter hb k2 i).mono k3 (fun h => h) (AtSt.le_refl _) (AtSt.le_refl _) (fun _ h => h)) run hrun
  all_goals
    simp only [atFirst, denFirst, List.isEmpty_nil, if_true, Option.some.injEq] at h ⊢
    subst h
    exact soundAt_run g tbl a _ rfl

/-- **Soundness of the atomicity analysis** w.r.t. the path semantics: for every fuel of the analysis and
of the path semantics, every loop bound `u`. -/
theorem atAn_sound (g : List (String × String)) (tbl : Table) (u : Nat) :
    ∀ (n fa : Nat) (a : AtSt) (k : List Act) (r : AtRes),
      atAn g tbl fa a k = some r → SoundAt g tbl a (den tbl u n k) r := by
  intro n
  induction n with
  | zero => intro fa a k r _ run hrun; simp [den] at hrun
  | succ n ih =>
    intro fa a k r h
    cases fa with
    | zero => simp [atAn] at h
    | succ fa =>
      cases k with
      | nil =>
        simp only [atAn, Option.some.injEq] at h
        subst h
        simp only [den]
        exact soundAt_skip g tbl a
      | cons x k =>
        simp only [atAn] at h
        cases h1 : atFirst g tbl (atAn g tbl fa) a x with
        | none => simp [h1] at h
        | some r1 =>
          simp only [h1] at h
          cases h2 : atAn g tbl fa r1.fall k with
          | none => simp [h2] at h
          | some r2 =>
            simp only [h2, Option.some.injEq] at h
            subst h
            simp only [den]
            have s1 := atFirst_sound g tbl u (atAn g tbl fa) (den tbl u n) (fun a k r hr => ih fa a k r hr)
              (fun b rb hb ho hl => ⟨fa, rb, hb, ho, hl⟩) a x r1 h1
            exact SoundAt.seq s1 (ih fa r1.fall k r2 h2)

/-! ### from the check to the threads of a function -/

theorem atGood_paths {g : List (String × String)} {tbl : Table} {b : List Act} (hb : AtGood g tbl b)
    (u n : Nat) : ∀ p ∈ bodyPaths tbl u n b, pathAtomic g p = true := by
  obtain ⟨fa, rb, hrb, hok, hl⟩ := hb
  intro p hp
  simp only [bodyPaths, List.mem_map] at hp
  obtain ⟨run, hrun, rfl⟩ := hp
  obtain ⟨d1, _, c1⟩ := atAn_sound g tbl u n fa _ b rb hrb run hrun
  obtain ⟨o1, _, _⟩ := c1 AtSt.bot (AtSt.le_refl _)
  have hdl : LockOnly run.defers := fun p hp => hl p (d1 p hp)
  simp only [pathAtomic]
  rw [okFromAt_append, o1 hok, okFromAt_lockOnly hdl]; rfl

theorem atGood_spawns {g : List (String × String)} {tbl : Table} {b b' : List Act} (hb : AtGood g tbl b)
    {u n : Nat} {run : Run} (hrun : run ∈ den tbl u n b) (hb' : b' ∈ run.spawns) : AtGood g tbl b' := by
  obtain ⟨fa, rb, hrb, hok, _⟩ := hb
  exact (atAn_sound g tbl u n fa _ b rb hrb run hrun).2.1 hok b' hb'

theorem atomicOk_atGood {c : Cfg} {s : Skel} (h : atomicOk c s = true) : AtGood c.guards c.tbl s := by
  unfold atomicOk at h
  cases hr : atAn c.guards c.tbl atomicFuel AtSt.bot s with
  | none => simp [hr] at h
  | some r =>
    simp only [hr, Bool.and_eq_true] at h
    exact ⟨_, r, hr, h.1, lockOnlyB_iff.mp h.2⟩

theorem spawned_atGood {g : List (String × String)} {tbl : Table} {u : Nat} {root b : List Act}
    (hg : AtGood g tbl root) (hsp : Spawned tbl u root b) : AtGood g tbl b := by
  induction hsp with
  | direct hrun hb => exact atGood_spawns hg hrun hb
  | trans _ hrun hb ih => exact atGood_spawns ih hrun hb

/-- **The check is sound for every thread of the function**: the invoking goroutine and every goroutine
spawned (transitively) along some run, calls inlined to any depth, loops iterated up to any bound. -/
theorem atomicOk_paths (c : Cfg) (s : Skel) (h : atomicOk c s = true) (u : Nat) (p : Path)
    (hp : IsThreadPath c.tbl u s p) : pathAtomic c.guards p = true := by
  have hg := atomicOk_atGood h
  rcases hp with ⟨n, hp⟩ | ⟨b, n, hsp, hp⟩
  · exact atGood_paths hg u n p hp
  · exact atGood_paths (spawned_atGood hg hsp) u n p hp

end LiskVerif.Locks
