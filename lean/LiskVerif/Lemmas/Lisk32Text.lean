/-
Helper lemmas for `Model/Lisk32Text.lean`: the rune-level reading of a text (what Go's `range` / `string(c)` /
`strings.Index` do) and the byte-level alphabet lookup of `Model/Lisk32.lean` agree on every byte string.
-/
import LiskVerif.Model.Lisk32Text
import LiskVerif.Lemmas.Lisk32

namespace LiskVerif.Lisk32Text
open LiskVerif LiskVerif.Lisk32

/-! ### the alphabet is ASCII; lookups of single ASCII characters -/

theorem charset_ascii : ∀ c ∈ charset, c.toNat < 0x80 := by
  rw [charset_eq]; decide

/-- on ASCII runes `strings.Index(charset, string(c))` is the byte-level `charIndex` -/
theorem charIdx_ascii_nat : ∀ n, n < 128 →
    charIdx n = (match charIndex (UInt8.ofNat n) with | some k => (k : Int) | none => -1) := by
  decide +kernel

theorem charIndex_high_nat : ∀ n, n < 256 → 128 ≤ n → charIndex (UInt8.ofNat n) = none := by
  decide +kernel

theorem charIdx_range_nat : ∀ n, n < 128 → charIdx n = -1 ∨ (0 ≤ charIdx n ∧ charIdx n < 32) := by
  decide +kernel

theorem charOf_ascii : ∀ a, a < 32 → (charOf a).toNat < 128 ∧ charIdx (charOf a).toNat = (a : Int) := by
  decide +kernel

theorem tableGet_charset : ∀ a, a < 32 → tableGet charset a = .ok (charOf a) := by
  decide +kernel

theorem ofNat_toNat (c : UInt8) : UInt8.ofNat c.toNat = c := by
  cases c; rename_i v
  simp [UInt8.ofNat, UInt8.toNat]

theorem charIdx_ascii (c : UInt8) (h : c.toNat < 0x80) :
    charIdx c.toNat = (match charIndex c with | some k => (k : Int) | none => -1) := by
  have := charIdx_ascii_nat c.toNat h
  rwa [ofNat_toNat] at this

theorem charIndex_high (c : UInt8) (h : 0x80 ≤ c.toNat) : charIndex c = none := by
  have := charIndex_high_nat c.toNat c.toNat_lt h
  rwa [ofNat_toNat] at this

/-! ### non-ASCII runes are never found in the alphabet -/

theorem indexFrom_head_absent (n0 : UInt8) (ns hay : Bytes) (i : Nat) (h : ∀ c ∈ hay, c ≠ n0) :
    indexFrom (n0 :: ns) hay i = -1 := by
  induction hay generalizing i with
  | nil => simp [indexFrom]
  | cons a t ih =>
    have ha : a ≠ n0 := h a (by simp)
    have hp : hasPrefix (a :: t) (n0 :: ns) = false := by
      simp [hasPrefix, ha]
    simp only [indexFrom, hp, Bool.false_eq_true, if_false]
    exact ih (i + 1) (fun c hc => h c (by simp [hc]))

theorem toNat_ofNat_lt (n : Nat) (h : n < 256) : (UInt8.ofNat n).toNat = n := by
  simp [UInt8.toNat_ofNat', Nat.mod_eq_of_lt h]

theorem encodeRune_head_high (r : Nat) (h : 0x80 ≤ r) :
    ∃ c cs, encodeRune r = c :: cs ∧ 0x80 ≤ c.toNat := by
  unfold encodeRune
  rw [if_neg (by omega)]
  split
  · refine ⟨_, _, rfl, ?_⟩
    rw [toNat_ofNat_lt _ (by omega)]; omega
  · split
    · exact ⟨_, _, rfl, by decide⟩
    · split
      · refine ⟨_, _, rfl, ?_⟩
        rw [toNat_ofNat_lt _ (by omega)]; omega
      · refine ⟨_, _, rfl, ?_⟩
        rename_i h1 h2 h3
        have : r ≤ 0x10FFFF := by omega
        rw [toNat_ofNat_lt _ (by omega)]; omega

theorem charIdx_of_ge (r : Nat) (h : 0x80 ≤ r) : charIdx r = -1 := by
  obtain ⟨c, cs, he, hc⟩ := encodeRune_head_high r h
  unfold charIdx index
  rw [he]
  apply indexFrom_head_absent
  intro x hx hxc
  have := charset_ascii x hx
  rw [hxc] at this
  omega

/-- **the guard**: whatever rune is looked up, the result is -1 or a position inside the 32-entry alphabet
(a valid 5-bit value), and only ASCII runes are ever found -/
theorem charIdx_guard (r : Nat) : charIdx r = -1 ∨ (0 ≤ charIdx r ∧ charIdx r < 32 ∧ r < 0x80) := by
  rcases Nat.lt_or_ge r 0x80 with h | h
  · rcases charIdx_range_nat r h with h1 | ⟨h1, h2⟩
    · exact Or.inl h1
    · exact Or.inr ⟨h1, h2, h⟩
  · exact Or.inl (charIdx_of_ge r h)

/-! ### decoding the first rune -/

theorem decodeRune_ascii (c : UInt8) (rest : Bytes) (h : c.toNat < 0x80) :
    decodeRune (c :: rest) = (c.toNat, 1) := by
  simp [decodeRune, h]

theorem runeError_ge : 0x80 ≤ runeError := by decide

theorem decodeRune_high (c : UInt8) (rest : Bytes) (h : 0x80 ≤ c.toNat) :
    0x80 ≤ (decodeRune (c :: rest)).1 := by
  have hlt := c.toNat_lt
  unfold decodeRune
  simp only
  rw [if_neg (by omega)]
  repeat' split
  all_goals (simp only [Bool.and_eq_true, decide_eq_true_eq, isCont, runeError] at *; omega)

/-! ### the loops -/

theorem runesFuel_nil (fuel : Nat) : runesFuel fuel [] = [] := by
  cases fuel <;> rfl

theorem runesFuel_ascii (fuel : Nat) (c : UInt8) (rest : Bytes) (h : c.toNat < 0x80) :
    runesFuel (fuel + 1) (c :: rest) = c.toNat :: runesFuel fuel rest := by
  simp [runesFuel, decodeRune_ascii c rest h]

theorem runesFuel_high (fuel : Nat) (c : UInt8) (rest : Bytes) (h : 0x80 ≤ c.toNat) :
    ∃ r tl, runesFuel (fuel + 1) (c :: rest) = r :: tl ∧ 0x80 ≤ r :=
  ⟨_, _, rfl, decodeRune_high c rest h⟩

/-- the `ValidateLisk32` loop over the runes of `w` computes the byte-level `mapM charIndex` -/
theorem lookupAll_runes (fuel : Nat) (w : Bytes) (hf : w.length ≤ fuel) :
    lookupAll (runesFuel fuel w) = (w.mapM charIndex).map (·.map Int.ofNat) := by
  induction fuel generalizing w with
  | zero =>
    have : w = [] := List.length_eq_zero_iff.mp (by omega)
    subst this; rfl
  | succ fuel ih =>
    cases w with
    | nil => rfl
    | cons c rest =>
      have hrest : rest.length ≤ fuel := by simpa using hf
      rw [mapM_cons_option]
      rcases Nat.lt_or_ge c.toNat 0x80 with h | h
      · rw [runesFuel_ascii fuel c rest h]
        simp only [lookupAll]
        rw [charIdx_ascii c h, ih rest hrest]
        cases hc : charIndex c with
        | none => simp
        | some k =>
          have : ¬ ((k : Int) < 0) := by omega
          simp only [this, if_false, Option.bind_some]
          cases rest.mapM charIndex <;> simp
      · obtain ⟨r, tl, he, hr⟩ := runesFuel_high fuel c rest h
        rw [he, charIndex_high c h]
        simp [lookupAll, charIdx_of_ge r hr]

/-- on a text made of alphabet characters the unchecked loop of `Lisk32ToBytes` reads the same values -/
theorem map_charIdx_runes (fuel : Nat) (u : List Nat) (hu : ∀ v ∈ u, v < 32) (hf : u.length ≤ fuel) :
    (runesFuel fuel (u.map charOf)).map charIdx = u.map Int.ofNat := by
  induction fuel generalizing u with
  | zero =>
    have : u = [] := List.length_eq_zero_iff.mp (by omega)
    subst this; rfl
  | succ fuel ih =>
    cases u with
    | nil => rfl
    | cons a rest =>
      obtain ⟨h1, h2⟩ := charOf_ascii a (hu a (by simp))
      rw [List.map_cons, runesFuel_ascii fuel _ _ h1, List.map_cons, h2,
        ih rest (fun v hv => hu v (by simp [hv])) (by simpa using hf)]
      rfl

theorem map_toNat_ofNat_int (u : List Nat) : (u.map Int.ofNat).map Int.toNat = u := by
  induction u with
  | nil => rfl
  | cons a r ih => simp [ih]

theorem any_neg_ofNat (u : List Nat) : (u.map Int.ofNat).any (· < 0) = false := by
  induction u with
  | nil => rfl
  | cons a r ih =>
    simp only [List.map_cons, List.any_cons, ih, Bool.or_false]
    have : ¬ ((a : Int) < 0) := by omega
    simp

theorem convertInts_ofNat (u : List Nat) (f t : Nat) :
    convertInts (u.map Int.ofNat) f t = convertUIntArray u f t := by
  unfold convertInts
  rw [any_neg_ofNat, map_toNat_ofNat_int]
  simp

theorem lookupTable_ok (l : List Nat) (h : ∀ v ∈ l, v < 32) : lookupTable l = .ok (l.map charOf) := by
  induction l with
  | nil => rfl
  | cons a r ih =>
    simp only [lookupTable, tableGet_charset a (h a (by simp)), ih (fun v hv => h v (by simp [hv])),
      List.map_cons]

end LiskVerif.Lisk32Text
