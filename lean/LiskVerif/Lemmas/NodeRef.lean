/-
Refinement: every reachable node state is determined, outside the volatile keys, by the chain of
blocks applied on top of a base state (`Ref`). Preservation by `apply` and `deleteTip`.
-/
import LiskVerif.Lemmas.NodeSpec

namespace LiskVerif.Node
open LiskVerif LiskVerif.DiffDB

/-! ### hypotheses on the inputs -/

/-- what the codecs guarantee for a block (C08: header / bytesList round trip, transaction id =
hash of the bytes so equal ids mean equal bytes, 32-byte ids) and the `uint32` range of its height -/
structure BlockOK (cd : Codecs) (b : Block) : Prop where
  hdrOk : cd.decHdr b.hdrBytes = some b.hdr
  heightPos : 0 < b.hdr.height
  heightLt : b.hdr.height < u32
  txIdLen : ∀ t ∈ b.txs, t.1.length = 32
  txConsistent : ∀ t ∈ b.txs, ∀ t' ∈ b.txs, t.1 = t'.1 → t.2 = t'.2
  assetsRt : b.assets ≠ [] → cd.decList (encList b.assets) = some b.assets

/-- `(b, x)` may be applied on top of the chain `c`: `x` is the result of executing `b` on the
consensus store that `c` produces, and no key of `b` is in use (fresh block id, transactions not
yet included in the chain). -/
structure StepOK (cd : Codecs) (base : Store) (c : Chain) (b : Block) (x : Exec) : Prop where
  block : BlockOK cd b
  ov : OverlayOK x.overlay
  stateKeys : ∀ e ∈ x.overlay, e.1.head? = some pState
  initOk : ∀ k cv, clookup x.overlay k = some cv → cv.init = spec cd base c k
  mhpcLe : x.mhpc ≤ b.hdr.height
  fresh : ∀ k ∈ allKeys b, spec cd base c k = none
  diffRt : cd.decDiff (cd.encDiff (diffOf x.overlay)) = some (diffOf x.overlay)

def tipH (baseH : Nat) : Chain → Nat
  | [] => baseH
  | (b, _) :: _ => b.hdr.height

def ChainWF (cd : Codecs) (base : Store) (baseH : Nat) : Chain → Prop
  | [] => True
  | (b, x) :: c => StepOK cd base c b x ∧ b.hdr.height = tipH baseH c + 1 ∧ ChainWF cd base baseH c

theorem chain_heights {cd : Codecs} {base : Store} {baseH : Nat} : ∀ {c : Chain},
    ChainWF cd base baseH c → ∀ bx ∈ c, baseH < bx.1.hdr.height ∧ bx.1.hdr.height ≤ tipH baseH c := by
  intro c
  induction c with
  | nil => intro _ bx h; cases h
  | cons e r ih =>
    obtain ⟨b, x⟩ := e
    intro hwf bx hm
    obtain ⟨_, hh, hr⟩ := hwf
    have hbase : baseH ≤ tipH baseH r := by
      cases r with
      | nil => exact Nat.le_refl _
      | cons e' r' => exact Nat.le_of_lt (ih hr e' List.mem_cons_self).1
    simp only [List.mem_cons] at hm
    rcases hm with rfl | hm
    · simp only [tipH]; omega
    · have := ih hr bx hm
      simp only [tipH]; omega

theorem tipH_ge {cd : Codecs} {base : Store} {baseH : Nat} {c : Chain}
    (h : ChainWF cd base baseH c) : baseH ≤ tipH baseH c := by
  cases c with
  | nil => exact Nat.le_refl _
  | cons e r => exact Nat.le_of_lt (chain_heights h e List.mem_cons_self).1

/-- cached blocks have consecutive heights, newest first -/
def Consec : List Block → Prop
  | [] => True
  | [_] => True
  | a :: b :: r => a.hdr.height = b.hdr.height + 1 ∧ Consec (b :: r)

theorem consec_tail {a : Block} {r : List Block} (h : Consec (a :: r)) : Consec r := by
  cases r with
  | nil => trivial
  | cons b r' => exact h.2

theorem consec_le {a : Block} {r : List Block} (h : Consec (a :: r)) :
    ∀ t ∈ a :: r, t.hdr.height ≤ a.hdr.height := by
  induction r generalizing a with
  | nil => intro t ht; simp at ht; subst ht; exact Nat.le_refl _
  | cons b r' ih =>
    intro t ht
    simp only [List.mem_cons] at ht
    rcases ht with rfl | ht
    · exact Nat.le_refl _
    · have := ih h.2 t (by simpa using ht)
      have := h.1
      omega

theorem consec_dropLast : ∀ (l : List Block), Consec l → Consec l.dropLast
  | [], _ => trivial
  | [_], _ => trivial
  | [_, _], _ => trivial
  | a :: b :: c :: r, h => by
    have ih := consec_dropLast (b :: c :: r) h.2
    simp only [List.dropLast_cons_cons] at ih ⊢
    exact ⟨h.1, ih⟩

/-! ### the refinement relation -/

/-- `GetBlockHeaderByHeight` answered from the database alone -/
def hdrDB (cd : Codecs) (db : Store) (h : Nat) : Option Hdr :=
  match slookup db (kHeight h) with
  | none => none
  | some id => headerOf cd db id

/-- the database `db` is, outside the volatile keys, what the chain `c` on top of `base` produces -/
structure DbRef (cd : Codecs) (base : Store) (baseH : Nat) (db : Store) (c : Chain) : Prop where
  nodup : NoDupKeys db
  finOk : ∃ f, finOf db = some f ∧ baseH ≤ f ∧ f ≤ tipH baseH c
  agree : ∀ f, finOf db = some f → ∀ k, ¬ Vol f k → slookup db k = spec cd base c k
  wf : ChainWF cd base baseH c
  tipLt : tipH baseH c < u32

/-- the block cache holds the newest blocks of the chain (and below them blocks of the base) -/
structure CacheRef (cd : Codecs) (base : Store) (baseH : Nat) (cache : List Block) (c : Chain) : Prop where
  head : ∀ t, cache.head? = some t → t.hdr.height = tipH baseH c
  consec : Consec cache
  chain : ∀ t ∈ cache, ∀ bx ∈ c, bx.1.hdr.height = t.hdr.height → t = bx.1
  baseHdr : ∀ t ∈ cache, t.hdr.height ≤ baseH → hdrDB cd base t.hdr.height = some t.hdr

structure Ref (cd : Codecs) (base : Store) (baseH : Nat) (s : St) (c : Chain) : Prop where
  db : DbRef cd base baseH s.db c
  cache : CacheRef cd base baseH s.cache c

/-! ### processValidated -/

theorem eventPrune_head (cfg : Cfg) (db : Store) (h nf : Nat) :
    ∀ op ∈ eventPruneOps cfg db h nf, op.key.head? = some 9 := by
  intro op hop
  rcases eventPrune_vol cfg db h nf op hop with h1 | h1 | ⟨h1, _⟩ | ⟨m, _, h2⟩
  · exfalso
    unfold eventPruneOps at hop
    split at hop
    · simp only at hop
      split at hop
      · simp only [List.mem_map] at hop
        obtain ⟨kv, hmem, rfl⟩ := hop
        have := (C12_db_range_mem db _ _ false kv).mp hmem
        have hh := head_of_between 9 _ _ kv.1 this.2.1 this.2.2
        simp only [BOp.key] at h1
        rw [h1] at hh
        simp [kFin] at hh
      · cases hop
    · cases hop
  · exfalso
    unfold eventPruneOps at hop
    split at hop
    · simp only at hop
      split at hop
      · simp only [List.mem_map] at hop
        obtain ⟨kv, hmem, rfl⟩ := hop
        have := (C12_db_range_mem db _ _ false kv).mp hmem
        have hh := head_of_between 9 _ _ kv.1 this.2.1 this.2.2
        simp only [BOp.key] at h1
        rw [h1] at hh
        simp at hh
      · cases hop
    · cases hop
  · exfalso
    unfold eventPruneOps at hop
    split at hop
    · simp only at hop
      split at hop
      · simp only [List.mem_map] at hop
        obtain ⟨kv, hmem, rfl⟩ := hop
        have := (C12_db_range_mem db _ _ false kv).mp hmem
        have hh := head_of_between 9 _ _ kv.1 this.2.1 this.2.2
        simp only [BOp.key] at h1
        rw [h1] at hh
        simp at hh
      · cases hop
    · cases hop
  · exact inRange_events_head h2

theorem applyOps_bval_fin (cd : Codecs) (cfg : Cfg) (db : Store) (fin : Nat) (b : Block) (x : Exec)
    (rt : Bool) :
    bval (applyOps cd cfg db fin b x rt) kFin = some (some (encU32 (nextFin fin x.mhpc))) := by
  have h2 : bval (eventPruneOps cfg db b.hdr.height (nextFin fin x.mhpc)) kFin = none := by
    apply bval_none
    intro op hop he
    have := eventPrune_head cfg db _ _ op hop
    rw [he] at this
    simp [kFin] at this
  have h3 : bval (if rt = true then [BOp.del (kTemp b.hdr.height)] else []) kFin = none := by
    apply bval_none
    intro op hop
    split at hop
    · simp only [List.mem_cons, List.not_mem_nil, or_false] at hop
      subst hop
      simp [BOp.key, kTemp, kFin]
    · cases hop
  unfold applyOps saveBlockOps
  simp only [nextFin] at h2 ⊢
  simp only [decide_eq_true_eq, bval_append, h2, h3]
  simp [bval, BOp.key, BOp.val]

/-- the database after a successful `processValidated` -/
def applyDb (cd : Codecs) (cfg : Cfg) (db : Store) (fin : Nat) (b : Block) (x : Exec) (rt : Bool) :
    Store :=
  applyBatch (commitCache x.overlay db {}).1 (applyOps cd cfg db fin b x rt)

def applyCache (cfg : Cfg) (cache : List Block) (b : Block) : List Block :=
  b :: (if cache.length ≥ cfg.maxCache then cache.dropLast else cache)

def applyLog (fin : Nat) (b : Block) (x : Exec) : List Ev :=
  if fin < x.mhpc then [Ev.new b.hdr.id b.hdr.height, Ev.finalize fin x.mhpc b.hdr.id]
  else [Ev.new b.hdr.id b.hdr.height]

/-- inversion of a successful `apply` -/
theorem apply_ok_inv {cd : Codecs} {cfg : Cfg} {s s' : St} {b : Block} {valid : Bool} {x : Exec}
    {rt : Bool} (h : apply cd cfg s b valid x rt = (s', .ok)) :
    ∃ tip rest fin, s.cache = tip :: rest ∧ b.hdr.height = (tip.hdr.height + 1) % u32 ∧
      b.hdr.previousBlockID = tip.hdr.id ∧ valid = true ∧ finOf s.db = some fin ∧
      s' = { db := applyDb cd cfg s.db fin b x rt, cache := applyCache cfg s.cache b,
             log := applyLog fin b x ++ s.log } := by
  unfold apply at h
  cases hc : s.cache with
  | nil => rw [hc] at h; simp at h
  | cons tip rest =>
    rw [hc] at h
    simp only at h
    by_cases h1 : b.hdr.height ≠ (tip.hdr.height + 1) % u32
    · simp [h1] at h
    · simp only [h1, if_false] at h
      by_cases h2 : b.hdr.previousBlockID ≠ tip.hdr.id
      · simp [h2] at h
      · simp only [h2, if_false] at h
        cases hv : valid with
        | false => simp [hv] at h
        | true =>
          simp only [hv, Bool.not_true, Bool.false_eq_true, if_false] at h
          cases hf : finOf s.db with
          | none => simp [hf] at h
          | some fin =>
            simp only [hf] at h
            have hpush : push cfg (tip :: rest) b =
                some (b :: (if (tip :: rest).length ≥ cfg.maxCache then (tip :: rest).dropLast else tip :: rest)) := by
              simp only [push, h1, if_false]
            rw [hpush] at h
            simp only [Prod.mk.injEq, and_true] at h
            refine ⟨tip, rest, fin, rfl, by simpa using h1, by simpa using h2, rfl, rfl, ?_⟩
            rw [← h]
            simp only [applyDb, applyCache, applyLog]

theorem finOf_applyDb (cd : Codecs) (cfg : Cfg) (db : Store) (fin : Nat) (b : Block) (x : Exec)
    (rt : Bool) (hfin : fin < u32) (hm : x.mhpc < u32) :
    finOf (applyDb cd cfg db fin b x rt) = some (nextFin fin x.mhpc) := by
  unfold finOf applyDb
  rw [slookup_applyBatch, applyOps_bval_fin]
  simp only [Option.map_some]
  rw [decU32_encU32_of_lt]
  unfold nextFin; split <;> assumption

theorem applyDb_lookup (cd : Codecs) (cfg : Cfg) (db : Store) (fin : Nat) (b : Block) (x : Exec)
    (rt : Bool) (hnd : NoDupKeys x.overlay) (k : Bytes) (hk : ¬ Vol (nextFin fin x.mhpc) k) :
    slookup (applyDb cd cfg db fin b x rt) k =
      match bval (persistOps cd b x) k with
      | some v => v
      | none =>
        match stateVal x.overlay k with
        | some v => v
        | none => slookup db k := by
  unfold applyDb
  rw [slookup_applyBatch, applyOps_bval cd cfg db fin b x rt k hk, commitCache_lookup _ _ _ hnd]
  rfl

end LiskVerif.Node

namespace LiskVerif.Node
open LiskVerif LiskVerif.DiffDB

theorem finOf_lt {db : Store} {f : Nat} (h : finOf db = some f) : f < u32 := by
  unfold finOf at h
  cases hl : slookup db kFin with
  | none => simp [hl] at h
  | some v => simp [hl] at h; rw [← h]; exact decU32_lt v

theorem nodup_applyDb (cd : Codecs) (cfg : Cfg) (db : Store) (fin : Nat) (b : Block) (x : Exec)
    (rt : Bool) (h : NoDupKeys db) : NoDupKeys (applyDb cd cfg db fin b x rt) :=
  nodup_applyBatch _ _ (nodup_commitCache _ _ _ h)

/-- `DbRef` is preserved by a successful `processValidated`: the chain grows by `(b, x)`. -/
theorem dbRef_apply {cd : Codecs} {cfg : Cfg} {base : Store} {baseH : Nat} {db : Store} {c : Chain}
    {b : Block} {x : Exec} {rt : Bool} {f0 : Nat}
    (hR : DbRef cd base baseH db c) (hstep : StepOK cd base c b x) (hf : finOf db = some f0)
    (hheight : b.hdr.height = tipH baseH c + 1) :
    DbRef cd base baseH (applyDb cd cfg db f0 b x rt) ((b, x) :: c) ∧
      finOf (applyDb cd cfg db f0 b x rt) = some (nextFin f0 x.mhpc) := by
  obtain ⟨f1, hf1, hb0, ht0⟩ := hR.finOk
  have hfeq : f1 = f0 := by rw [hf] at hf1; exact (Option.some.inj hf1).symm
  subst hfeq
  have hfl : f1 < u32 := finOf_lt hf
  have hml : x.mhpc < u32 := Nat.lt_of_le_of_lt hstep.mhpcLe hstep.block.heightLt
  have hfin' : finOf (applyDb cd cfg db f1 b x rt) = some (nextFin f1 x.mhpc) :=
    finOf_applyDb cd cfg db f1 b x rt hfl hml
  refine ⟨⟨nodup_applyDb _ _ _ _ _ _ _ hR.nodup, ⟨nextFin f1 x.mhpc, hfin', ?_, ?_⟩, ?_, ?_, ?_⟩, hfin'⟩
  · have := le_nextFin f1 x.mhpc; omega
  · simp only [tipH]
    have := hstep.mhpcLe
    unfold nextFin; split <;> omega
  · intro f hf' k hk
    rw [hfin'] at hf'
    have hfe : f = nextFin f1 x.mhpc := (Option.some.inj hf').symm
    subst hfe
    rw [applyDb_lookup cd cfg db f1 b x rt hstep.ov.nodup k hk]
    simp only [spec]
    rw [hR.agree f1 hf k (fun hv => hk (Vol_mono (le_nextFin f1 x.mhpc) hv))]
    rfl
  · exact ⟨hstep, hheight, hR.wf⟩
  · simp only [tipH]; exact hstep.block.heightLt

theorem cacheRef_push {cd : Codecs} {cfg : Cfg} {base : Store} {baseH : Nat} {cache : List Block}
    {c : Chain} {b : Block} {x : Exec} {tip : Block} {rest : List Block}
    (hC : CacheRef cd base baseH cache c) (hwf : ChainWF cd base baseH c) (hc : cache = tip :: rest)
    (hheight : b.hdr.height = tipH baseH c + 1) :
    CacheRef cd base baseH (applyCache cfg cache b) ((b, x) :: c) := by
  have htip : tip.hdr.height = tipH baseH c := hC.head tip (by rw [hc]; rfl)
  have hcl : ∀ t ∈ cache, t.hdr.height ≤ tipH baseH c := by
    intro t ht
    rw [hc] at ht
    have := consec_le (hc ▸ hC.consec) t ht
    omega
  have hsubm : ∀ t, t ∈ (if cache.length ≥ cfg.maxCache then cache.dropLast else cache) → t ∈ cache := by
    intro t ht
    split at ht
    · exact List.dropLast_subset _ ht
    · exact ht
  refine ⟨?_, ?_, ?_, ?_⟩
  · intro t ht
    simp only [applyCache, List.head?_cons, Option.some.injEq] at ht
    subst ht
    rfl
  · simp only [applyCache]
    have hcons : Consec cache := hC.consec
    have hsub : Consec (if cache.length ≥ cfg.maxCache then cache.dropLast else cache) := by
      split
      · exact consec_dropLast _ hcons
      · exact hcons
    cases hl : (if cache.length ≥ cfg.maxCache then cache.dropLast else cache) with
    | nil => trivial
    | cons a r =>
      rw [hl] at hsub
      refine ⟨?_, hsub⟩
      have ha : a = tip := by
        split at hl
        · rw [hc] at hl
          cases rest with
          | nil => simp at hl
          | cons r1 r2 => simp only [List.dropLast_cons_cons, List.cons.injEq] at hl; exact hl.1.symm
        · rw [hc] at hl; simp only [List.cons.injEq] at hl; exact hl.1.symm
      rw [ha, htip, hheight]
  · intro t ht bx hbx hhe
    simp only [applyCache, List.mem_cons] at ht
    simp only [List.mem_cons] at hbx
    rcases ht with rfl | ht
    · rcases hbx with rfl | hbx
      · rfl
      · have := (chain_heights hwf bx hbx).2
        omega
    · have htm : t ∈ cache := hsubm t ht
      rcases hbx with rfl | hbx
      · have := hcl t htm
        simp only at hhe
        omega
      · exact hC.chain t htm bx hbx hhe
  · intro t ht hle
    simp only [applyCache, List.mem_cons] at ht
    rcases ht with rfl | ht
    · have := tipH_ge hwf; omega
    · exact hC.baseHdr t (hsubm t ht) hle

/-- `Ref` is preserved by a successful `processValidated`: the chain grows by `(b, x)`. -/
theorem ref_apply {cd : Codecs} {cfg : Cfg} {base : Store} {baseH : Nat} {s s' : St} {c : Chain}
    {b : Block} {valid : Bool} {x : Exec} {rt : Bool}
    (hR : Ref cd base baseH s c) (hstep : StepOK cd base c b x)
    (hok : apply cd cfg s b valid x rt = (s', .ok)) : Ref cd base baseH s' ((b, x) :: c) := by
  obtain ⟨tip, rest, fin, hc, hh, _, _, hf, rfl⟩ := apply_ok_inv hok
  have htip : tip.hdr.height = tipH baseH c := hR.cache.head tip (by rw [hc]; rfl)
  have hheight : b.hdr.height = tipH baseH c + 1 := by
    have hp := hstep.block.heightPos
    have hl := hR.db.tipLt
    rw [htip] at hh
    by_cases hw : tipH baseH c + 1 < u32
    · rw [Nat.mod_eq_of_lt hw] at hh; exact hh
    · have : tipH baseH c + 1 = u32 := by omega
      rw [this, Nat.mod_self] at hh; omega
  exact ⟨(dbRef_apply hR.db hstep hf hheight).1, cacheRef_push hR.cache hR.db.wf hc hheight⟩

end LiskVerif.Node
