/-
More about the node model (helpers of Props/C04_More.lean and Props/C05_More.lean):

* `Executer.process` is a (state dependent) sequence of `processValidated` / `deleteBlock` calls:
  every operation sequence has the same effect as a sequence of *primitive* operations
  (`flat`), also on the ghost chain and on the hypotheses `RunOK`;
* the *effect trace* of a history (`trace`): which blocks were applied (with which flags), which
  were removed; the finalized height, the event log and the ghost chain as functions of the trace;
* finalized blocks stay members of the ghost chain.
-/
import LiskVerif.Lemmas.NodeTrans
import LiskVerif.Lemmas.NodeVolatile

namespace LiskVerif.Node
open LiskVerif LiskVerif.DiffDB

/-! ### `process` as a sequence of primitive operations -/

/-- an operation other than `process` -/
def Op.prim : Op → Prop
  | .process _ => False
  | _ => True

/-- the `processValidated` / `deleteBlock` calls `Executer.process` makes in state `s` -/
def processOps (cd : Codecs) (cfg : Cfg) (slot : Slot) (s : St) (i : Incoming) : List Op :=
  match s.cache with
  | [] => []
  | tip :: _ =>
    match forkChoice slot tip.hdr i.block.hdr i.flags with
    | .valid => if !i.staticValid then [] else [.apply i.block i.valid i.exec false]
    | .tieBreak =>
      if !i.staticValid then []
      else if (deleteTip cd cfg s false).2 = .ok then
        if (apply cd cfg (deleteTip cd cfg s false).1 i.block i.valid i.exec false).2 = .ok then
          [.deleteTip false, .apply i.block i.valid i.exec false]
        else
          [.deleteTip false, .apply i.block i.valid i.exec false, .apply tip i.oldValid i.oldExec false]
      else [.deleteTip false]
    | _ => []

theorem processOps_prim (cd : Codecs) (cfg : Cfg) (slot : Slot) (s : St) (i : Incoming) :
    ∀ op ∈ processOps cd cfg slot s i, op.prim := by
  intro op hop
  unfold processOps at hop
  split at hop
  · cases hop
  · split at hop
    · split at hop
      · cases hop
      · simp only [List.mem_cons, List.not_mem_nil, or_false] at hop; subst hop; trivial
    · split at hop
      · cases hop
      · split at hop
        · split at hop <;>
            (simp only [List.mem_cons, List.not_mem_nil, or_false] at hop
             rcases hop with h | h | h <;> (try subst h) <;> trivial)
        · simp only [List.mem_cons, List.not_mem_nil, or_false] at hop; subst hop; trivial
    · cases hop

theorem run_nil (cd : Codecs) (cfg : Cfg) (slot : Slot) (s : St) : run cd cfg slot s [] = s := rfl

/-- **`Executer.process` writes only through `processValidated` and `deleteBlock`.** -/
theorem process_eq_run (cd : Codecs) (cfg : Cfg) (slot : Slot) (s : St) (i : Incoming) :
    (process cd cfg slot s i).1 = run cd cfg slot s (processOps cd cfg slot s i) := by
  unfold process processOps
  cases hc : s.cache with
  | nil => rfl
  | cons tip rest =>
    simp only
    cases hv : forkChoice slot tip.hdr i.block.hdr i.flags with
    | identical => rfl
    | doubleForging => rfl
    | differentChain => rfl
    | discard => rfl
    | valid =>
      simp only
      cases hsv : i.staticValid with
      | false => rfl
      | true =>
        simp only [Bool.not_true, Bool.false_eq_true, if_false]
        rw [run_cons, run_nil]
        simp only [step]
        cases ha : apply cd cfg s i.block i.valid i.exec false with
        | mk s' r => cases r <;> rfl
    | tieBreak =>
      simp only
      cases hsv : i.staticValid with
      | false => rfl
      | true =>
        simp only [Bool.not_true, Bool.false_eq_true, if_false]
        cases hd : deleteTip cd cfg s false with
        | mk s1 r1 =>
          cases r1 with
          | err => simp only [reduceCtorEq, if_false]; rw [run_cons, run_nil]; simp only [step, hd]
          | panic => simp only [reduceCtorEq, if_false]; rw [run_cons, run_nil]; simp only [step, hd]
          | errWritten =>
            simp only [reduceCtorEq, if_false]; rw [run_cons, run_nil]; simp only [step, hd]
          | ok =>
            simp only [if_true]
            cases ha : apply cd cfg s1 i.block i.valid i.exec false with
            | mk s2 r2 =>
              cases r2 with
              | ok =>
                simp only [if_true]
                rw [run_cons, run_cons, run_nil]
                simp only [step, hd, ha]
              | err =>
                simp only [reduceCtorEq, if_false]
                rw [run_cons, run_cons, run_cons, run_nil]
                simp only [step, hd, ha]
                cases ha2 : apply cd cfg s2 tip i.oldValid i.oldExec false with
                | mk s3 r3 => cases r3 <;> rfl
              | panic =>
                simp only [reduceCtorEq, if_false]
                rw [run_cons, run_cons, run_cons, run_nil]
                simp only [step, hd, ha]
                cases ha2 : apply cd cfg s2 tip i.oldValid i.oldExec false with
                | mk s3 r3 => cases r3 <;> rfl
              | errWritten =>
                simp only [reduceCtorEq, if_false]
                rw [run_cons, run_cons, run_cons, run_nil]
                simp only [step, hd, ha]
                cases ha2 : apply cd cfg s2 tip i.oldValid i.oldExec false with
                | mk s3 r3 => cases r3 <;> rfl

theorem runC_cons (cd : Codecs) (cfg : Cfg) (slot : Slot) (s : St) (c : Chain) (op : Op) (r : List Op) :
    runC cd cfg slot s c (op :: r) =
      runC cd cfg slot (step cd cfg slot s op) (stepC cd cfg slot s c op) r := rfl

theorem runC_nil (cd : Codecs) (cfg : Cfg) (slot : Slot) (s : St) (c : Chain) :
    runC cd cfg slot s c [] = c := rfl

/-- the ghost chain after `process` is the ghost chain after its primitive operations -/
theorem processC_eq_runC (cd : Codecs) (cfg : Cfg) (slot : Slot) (s : St) (c : Chain) (i : Incoming) :
    processC cd cfg slot s c i = runC cd cfg slot s c (processOps cd cfg slot s i) := by
  unfold processC processOps
  cases hc : s.cache with
  | nil => rfl
  | cons tip rest =>
    simp only
    cases hv : forkChoice slot tip.hdr i.block.hdr i.flags with
    | identical => rfl
    | doubleForging => rfl
    | differentChain => rfl
    | discard => rfl
    | valid =>
      simp only
      cases hsv : i.staticValid with
      | false => rfl
      | true =>
        simp only [Bool.not_true, Bool.false_eq_true, if_false]
        rw [runC_cons, runC_nil]
        simp only [stepC]
    | tieBreak =>
      simp only
      cases hsv : i.staticValid with
      | false => rfl
      | true =>
        simp only [Bool.not_true, Bool.false_eq_true, if_false]
        cases hd : deleteTip cd cfg s false with
        | mk s1 r1 =>
          cases r1 with
          | err =>
            simp only [reduceCtorEq, if_false]; rw [runC_cons, runC_nil]
            simp only [stepC, hd, reduceCtorEq, or_self, if_false]
          | panic =>
            simp only [reduceCtorEq, if_false]; rw [runC_cons, runC_nil]
            simp only [stepC, hd, reduceCtorEq, or_self, if_false]
          | errWritten =>
            simp only [reduceCtorEq, if_false, if_true]; rw [runC_cons, runC_nil]
            simp only [stepC, hd, or_true, if_true]
          | ok =>
            simp only [reduceCtorEq, if_false, if_true]
            cases ha : apply cd cfg s1 i.block i.valid i.exec false with
            | mk s2 r2 =>
              cases r2 with
              | ok =>
                simp only [if_true]
                rw [runC_cons, runC_cons, runC_nil]
                simp only [stepC, step, hd, ha, true_or, if_true]
              | err =>
                simp only [reduceCtorEq, if_false]
                rw [runC_cons, runC_cons, runC_cons, runC_nil]
                simp only [stepC, step, hd, ha, true_or, if_true, reduceCtorEq, if_false]
              | panic =>
                simp only [reduceCtorEq, if_false]
                rw [runC_cons, runC_cons, runC_cons, runC_nil]
                simp only [stepC, step, hd, ha, true_or, if_true, reduceCtorEq, if_false]
              | errWritten =>
                simp only [reduceCtorEq, if_false]
                rw [runC_cons, runC_cons, runC_cons, runC_nil]
                simp only [stepC, step, hd, ha, true_or, if_true, reduceCtorEq, if_false]

/-- the hypotheses on a `process` step give the hypotheses on its primitive operations -/
theorem opOK_processOps {cd : Codecs} {cfg : Cfg} {slot : Slot} {base : Store} {s : St} {c : Chain}
    {i : Incoming} (hok : OpOK cd cfg slot base s c (.process i)) :
    RunOK cd cfg slot base s c (processOps cd cfg slot s i) := by
  unfold OpOK at hok
  unfold processOps
  cases hc : s.cache with
  | nil => trivial
  | cons tip rest =>
    rw [hc] at hok
    simp only at hok ⊢
    cases hv : forkChoice slot tip.hdr i.block.hdr i.flags with
    | identical => trivial
    | doubleForging => trivial
    | differentChain => trivial
    | discard => trivial
    | valid =>
      rw [hv] at hok
      simp only at hok ⊢
      cases hsv : i.staticValid with
      | false => trivial
      | true =>
        simp only [Bool.not_true, Bool.false_eq_true, if_false]
        exact ⟨fun _ => hok, trivial⟩
    | tieBreak =>
      rw [hv] at hok
      simp only at hok ⊢
      cases hsv : i.staticValid with
      | false => trivial
      | true =>
        simp only [Bool.not_true, Bool.false_eq_true, if_false]
        cases hd : deleteTip cd cfg s false with
        | mk s1 r1 =>
          cases r1 with
          | err => simp only [reduceCtorEq, if_false]; exact ⟨trivial, trivial⟩
          | panic => simp only [reduceCtorEq, if_false]; exact ⟨trivial, trivial⟩
          | errWritten => simp only [reduceCtorEq, if_false]; exact ⟨trivial, trivial⟩
          | ok =>
            simp only [if_true]
            have hc1 : stepC cd cfg slot s c (.deleteTip false) = c.tail := by
              simp only [stepC, hd, true_or, if_true]
            have hs1 : step cd cfg slot s (.deleteTip false) = s1 := by simp only [step, hd]
            cases ha : apply cd cfg s1 i.block i.valid i.exec false with
            | mk s2 r2 =>
              cases r2 with
              | ok =>
                simp only [if_true]
                refine ⟨trivial, ?_, trivial⟩
                rw [hc1, hs1]
                exact fun _ => hok.1
              | err =>
                simp only [reduceCtorEq, if_false]
                refine ⟨trivial, ?_, ?_, trivial⟩
                · rw [hc1, hs1]; exact fun _ => hok.1
                · rw [hc1, hs1]
                  simp only [stepC, step, ha, reduceCtorEq, if_false]
                  exact fun _ => hok.2
              | panic =>
                simp only [reduceCtorEq, if_false]
                refine ⟨trivial, ?_, ?_, trivial⟩
                · rw [hc1, hs1]; exact fun _ => hok.1
                · rw [hc1, hs1]
                  simp only [stepC, step, ha, reduceCtorEq, if_false]
                  exact fun _ => hok.2
              | errWritten =>
                simp only [reduceCtorEq, if_false]
                refine ⟨trivial, ?_, ?_, trivial⟩
                · rw [hc1, hs1]; exact fun _ => hok.1
                · rw [hc1, hs1]
                  simp only [stepC, step, ha, reduceCtorEq, if_false]
                  exact fun _ => hok.2


/-! ### flattening an operation sequence -/

/-- the primitive operations one operation consists of -/
def primOps (cd : Codecs) (cfg : Cfg) (slot : Slot) (s : St) : Op → List Op
  | .process i => processOps cd cfg slot s i
  | .apply b v x rt => [.apply b v x rt]
  | .deleteTip st => [.deleteTip st]
  | .restart => [.restart]
  | .clearTemp => [.clearTemp]

/-- the primitive operations (`processValidated`, `deleteBlock`, `PrepareCache`,
`ClearTempBlocks`) a history consists of -/
def flat (cd : Codecs) (cfg : Cfg) (slot : Slot) : St → List Op → List Op
  | _, [] => []
  | s, op :: r => primOps cd cfg slot s op ++ flat cd cfg slot (step cd cfg slot s op) r

theorem primOps_prim (cd : Codecs) (cfg : Cfg) (slot : Slot) (s : St) (op : Op) :
    ∀ o ∈ primOps cd cfg slot s op, o.prim := by
  cases op with
  | process i => exact processOps_prim cd cfg slot s i
  | apply b v x rt => intro o ho; simp only [primOps, List.mem_cons, List.not_mem_nil, or_false] at ho; subst ho; trivial
  | deleteTip st => intro o ho; simp only [primOps, List.mem_cons, List.not_mem_nil, or_false] at ho; subst ho; trivial
  | restart => intro o ho; simp only [primOps, List.mem_cons, List.not_mem_nil, or_false] at ho; subst ho; trivial
  | clearTemp => intro o ho; simp only [primOps, List.mem_cons, List.not_mem_nil, or_false] at ho; subst ho; trivial

theorem flat_prim (cd : Codecs) (cfg : Cfg) (slot : Slot) : ∀ (ops : List Op) (s : St),
    ∀ o ∈ flat cd cfg slot s ops, o.prim := by
  intro ops
  induction ops with
  | nil => intro s o ho; cases ho
  | cons op r ih =>
    intro s o ho
    simp only [flat, List.mem_append] at ho
    rcases ho with ho | ho
    · exact primOps_prim cd cfg slot s op o ho
    · exact ih _ o ho

theorem step_eq_run_prim (cd : Codecs) (cfg : Cfg) (slot : Slot) (s : St) (op : Op) :
    step cd cfg slot s op = run cd cfg slot s (primOps cd cfg slot s op) := by
  cases op with
  | process i => simp only [step, primOps]; exact process_eq_run cd cfg slot s i
  | apply b v x rt => rfl
  | deleteTip st => rfl
  | restart => rfl
  | clearTemp => rfl

theorem stepC_eq_runC_prim (cd : Codecs) (cfg : Cfg) (slot : Slot) (s : St) (c : Chain) (op : Op) :
    stepC cd cfg slot s c op = runC cd cfg slot s c (primOps cd cfg slot s op) := by
  cases op with
  | process i => simp only [stepC, primOps]; exact processC_eq_runC cd cfg slot s c i
  | apply b v x rt => rfl
  | deleteTip st => rfl
  | restart => rfl
  | clearTemp => rfl

theorem opOK_primOps {cd : Codecs} {cfg : Cfg} {slot : Slot} {base : Store} {s : St} {c : Chain}
    {op : Op} (hok : OpOK cd cfg slot base s c op) :
    RunOK cd cfg slot base s c (primOps cd cfg slot s op) := by
  cases op with
  | process i => exact opOK_processOps hok
  | apply b v x rt => exact ⟨hok, trivial⟩
  | deleteTip st => exact ⟨trivial, trivial⟩
  | restart => exact ⟨trivial, trivial⟩
  | clearTemp => exact ⟨trivial, trivial⟩

theorem runOK_append_intro (cd : Codecs) (cfg : Cfg) (slot : Slot) (base : Store) :
    ∀ (a b : List Op) (s : St) (c : Chain), RunOK cd cfg slot base s c a →
      RunOK cd cfg slot base (run cd cfg slot s a) (runC cd cfg slot s c a) b →
      RunOK cd cfg slot base s c (a ++ b) := by
  intro a
  induction a with
  | nil => intro b s c _ h; exact h
  | cons op r ih =>
    intro b s c h1 h2
    exact ⟨h1.1, ih b _ _ h1.2 h2⟩

theorem run_flat (cd : Codecs) (cfg : Cfg) (slot : Slot) : ∀ (ops : List Op) (s : St),
    run cd cfg slot s ops = run cd cfg slot s (flat cd cfg slot s ops) := by
  intro ops
  induction ops with
  | nil => intro s; rfl
  | cons op r ih =>
    intro s
    simp only [flat]
    rw [run_cons, run_append, ← step_eq_run_prim, ih]

theorem runC_flat (cd : Codecs) (cfg : Cfg) (slot : Slot) : ∀ (ops : List Op) (s : St) (c : Chain),
    runC cd cfg slot s c ops = runC cd cfg slot s c (flat cd cfg slot s ops) := by
  intro ops
  induction ops with
  | nil => intro s c; rfl
  | cons op r ih =>
    intro s c
    simp only [flat]
    rw [runC_cons, runC_append, ← step_eq_run_prim, ← stepC_eq_runC_prim, ih]

theorem runOK_flat (cd : Codecs) (cfg : Cfg) (slot : Slot) (base : Store) :
    ∀ (ops : List Op) (s : St) (c : Chain), RunOK cd cfg slot base s c ops →
      RunOK cd cfg slot base s c (flat cd cfg slot s ops) := by
  intro ops
  induction ops with
  | nil => intro s c _; trivial
  | cons op r ih =>
    intro s c h
    simp only [flat]
    apply runOK_append_intro
    · exact opOK_primOps h.1
    · rw [← step_eq_run_prim, ← stepC_eq_runC_prim]
      exact ih _ _ h.2

theorem flat_append (cd : Codecs) (cfg : Cfg) (slot : Slot) : ∀ (a b : List Op) (s : St),
    flat cd cfg slot s (a ++ b) = flat cd cfg slot s a ++ flat cd cfg slot (run cd cfg slot s a) b := by
  intro a
  induction a with
  | nil => intro b s; rfl
  | cons op r ih =>
    intro b s
    simp only [List.cons_append, flat, run_cons, ih, List.append_assoc]

/-! ### the effect trace of a history -/

/-- what a primitive operation did -/
inductive Eff where
  | applied (b : Block) (x : Exec) (removeTemp : Bool)   -- `processValidated` succeeded
  | deleted (b : Block) (saveTemp : Bool) (published : Bool)  -- `deleteBlock` removed the tip
  | cleared                                               -- `ClearTempBlocks`

def effOf (cd : Codecs) (cfg : Cfg) (s : St) : Op → List Eff
  | .apply b v x rt => if (apply cd cfg s b v x rt).2 = .ok then [.applied b x rt] else []
  | .deleteTip st =>
    match s.cache with
    | [] => []
    | tip :: _ =>
      if (deleteTip cd cfg s st).2 = .ok then [.deleted tip st true]
      else if (deleteTip cd cfg s st).2 = .errWritten then [.deleted tip st false] else []
  | .restart => []
  | .process _ => []
  | .clearTemp => [.cleared]

def tracePrim (cd : Codecs) (cfg : Cfg) (slot : Slot) : St → List Op → List Eff
  | _, [] => []
  | s, op :: r => effOf cd cfg s op ++ tracePrim cd cfg slot (step cd cfg slot s op) r

/-- the effect trace of a history: every successful `processValidated` (also those inside
`Executer.process`: valid block, tie-break replacement, tie-break revert), every `deleteBlock` that
removed the tip, every `ClearTempBlocks`, in order -/
def trace (cd : Codecs) (cfg : Cfg) (slot : Slot) (s : St) (ops : List Op) : List Eff :=
  tracePrim cd cfg slot s (flat cd cfg slot s ops)

theorem tracePrim_append (cd : Codecs) (cfg : Cfg) (slot : Slot) : ∀ (a b : List Op) (s : St),
    tracePrim cd cfg slot s (a ++ b) =
      tracePrim cd cfg slot s a ++ tracePrim cd cfg slot (run cd cfg slot s a) b := by
  intro a
  induction a with
  | nil => intro b s; rfl
  | cons op r ih =>
    intro b s
    simp only [List.cons_append, tracePrim, run_cons, ih, List.append_assoc]

theorem trace_append (cd : Codecs) (cfg : Cfg) (slot : Slot) (a b : List Op) (s : St) :
    trace cd cfg slot s (a ++ b) =
      trace cd cfg slot s a ++ trace cd cfg slot (run cd cfg slot s a) b := by
  unfold trace
  rw [flat_append, tracePrim_append, ← run_flat]

/-- the finalized height after a trace -/
def finAfter : Nat → List Eff → Nat
  | f, [] => f
  | f, .applied _ x _ :: r => finAfter (max f x.mhpc) r
  | f, .deleted _ _ _ :: r => finAfter f r
  | f, .cleared :: r => finAfter f r

/-- the events published along a trace, oldest first -/
def evsOf : Nat → List Eff → List Ev
  | _, [] => []
  | f, .applied b x _ :: r =>
    (if f < x.mhpc then [Ev.finalize f x.mhpc b.hdr.id] else [])
      ++ Ev.new b.hdr.id b.hdr.height :: evsOf (max f x.mhpc) r
  | f, .deleted b _ p :: r => (if p then [Ev.delete b.hdr.id b.hdr.height] else []) ++ evsOf f r
  | f, .cleared :: r => evsOf f r

/-- the ghost chain after a trace -/
def chainOf : Chain → List Eff → Chain
  | c, [] => c
  | c, .applied b x _ :: r => chainOf ((b, x) :: c) r
  | c, .deleted _ _ _ :: r => chainOf c.tail r
  | c, .cleared :: r => chainOf c r

theorem finAfter_append : ∀ (a b : List Eff) (f : Nat),
    finAfter f (a ++ b) = finAfter (finAfter f a) b := by
  intro a
  induction a with
  | nil => intro b f; rfl
  | cons e r ih => intro b f; cases e <;> simp only [List.cons_append, finAfter, ih]

theorem evsOf_append : ∀ (a b : List Eff) (f : Nat),
    evsOf f (a ++ b) = evsOf f a ++ evsOf (finAfter f a) b := by
  intro a
  induction a with
  | nil => intro b f; rfl
  | cons e r ih =>
    intro b f
    cases e <;> simp only [List.cons_append, evsOf, finAfter, ih, List.append_assoc]

theorem chainOf_append : ∀ (a b : List Eff) (c : Chain),
    chainOf c (a ++ b) = chainOf (chainOf c a) b := by
  intro a
  induction a with
  | nil => intro b c; rfl
  | cons e r ih => intro b c; cases e <;> simp only [List.cons_append, chainOf, ih]

theorem le_finAfter : ∀ (tr : List Eff) (f : Nat), f ≤ finAfter f tr := by
  intro tr
  induction tr with
  | nil => intro f; exact Nat.le_refl _
  | cons e r ih =>
    intro f
    cases e with
    | applied b x rt => simp only [finAfter]; have := ih (max f x.mhpc); omega
    | deleted b st p => exact ih f
    | cleared => exact ih f

/-- a history `s, c ⟶ s', c'` with trace `tr`, started at finalized height `f` -/
structure Hist (f : Nat) (s : St) (c : Chain) (tr : List Eff) (s' : St) (c' : Chain) : Prop where
  fin : finOf s'.db = some (finAfter f tr)
  log : s'.log = (evsOf f tr).reverse ++ s.log
  chain : c' = chainOf c tr

theorem hist_refl {f : Nat} {s : St} {c : Chain} (hf : finOf s.db = some f) : Hist f s c [] s c :=
  ⟨hf, rfl, rfl⟩

theorem hist_trans {f : Nat} {s1 s2 s3 : St} {c1 c2 c3 : Chain} {t1 t2 : List Eff}
    (h1 : Hist f s1 c1 t1 s2 c2) (h2 : Hist (finAfter f t1) s2 c2 t2 s3 c3) :
    Hist f s1 c1 (t1 ++ t2) s3 c3 := by
  refine ⟨?_, ?_, ?_⟩
  · rw [finAfter_append]; exact h2.fin
  · rw [h2.log, h1.log, evsOf_append, List.reverse_append, List.append_assoc]
  · rw [chainOf_append, ← h1.chain]; exact h2.chain

theorem hist_step {cd : Codecs} {cfg : Cfg} {slot : Slot} {base : Store} {baseH : Nat} {s : St}
    {c : Chain} {f : Nat} (hbase : BaseOK cd base baseH) (hR : Ref cd base baseH s c)
    (hf : finOf s.db = some f) (op : Op) (hp : op.prim) (hok : OpOK cd cfg slot base s c op) :
    Hist f s c (effOf cd cfg s op) (step cd cfg slot s op) (stepC cd cfg slot s c op) := by
  cases op with
  | process i => exact absurd hp (by simp [Op.prim])
  | apply b v x rt =>
    simp only [step, stepC, effOf]
    simp only [OpOK] at hok
    cases ha : apply cd cfg s b v x rt with
    | mk s' r =>
      by_cases hr : r = .ok
      · subst hr
        simp only [if_true]
        have hstep := hok (by rw [ha])
        obtain ⟨tip, rest, fin, _, _, _, _, hf0, hs'⟩ := apply_ok_inv ha
        have hfe : fin = f := by rw [hf] at hf0; exact (Option.some.inj hf0).symm
        subst hfe
        have hml : x.mhpc < u32 := Nat.lt_of_le_of_lt hstep.mhpcLe hstep.block.heightLt
        refine ⟨?_, ?_, rfl⟩
        · rw [hs']
          simp only [finAfter]
          rw [← nextFin_eq_max]
          exact finOf_applyDb cd cfg s.db fin b x rt (finOf_lt hf) hml
        · rw [hs']
          simp only [evsOf, applyLog]
          split <;> simp
      · simp only [hr, if_false]
        rw [apply_not_ok ha hr]
        exact hist_refl hf
  | deleteTip st =>
    simp only [step, stepC, effOf]
    cases hd : deleteTip cd cfg s st with
    | mk s' r =>
      by_cases hr : r.removed
      · obtain ⟨b, x, c', hc0, _, hfin, _, _, _, _⟩ := ref_delete hbase hR hd hr
        obtain ⟨tip, rest, fin, bytes, d, hc, _, _, _, _, _, hrest⟩ := deleteTip_done_inv hd hr
        have htb : tip = b := by
          have htip : tip.hdr.height = tipH baseH c := hR.cache.head tip (by rw [hc]; rfl)
          subst hc0
          exact hR.cache.chain tip (by rw [hc]; exact List.mem_cons_self) (b, x) List.mem_cons_self
            htip.symm
        subst htb
        rw [hc]
        simp only
        rcases hrest with ⟨hrok, hlog, _⟩ | ⟨hrw, hlog, _⟩
        · subst hrok
          simp only [true_or, if_true]
          exact ⟨by simp only [finAfter]; rw [hfin]; exact hf, by rw [hlog]; simp [evsOf], by
            subst hc0; rfl⟩
        · subst hrw
          simp only [reduceCtorEq, if_false, or_true, if_true]
          exact ⟨by simp only [finAfter]; rw [hfin]; exact hf, by rw [hlog]; simp [evsOf], by
            subst hc0; rfl⟩
      · have hr' : r = .err ∨ r = .panic := by
          unfold Res.removed at hr
          cases r <;> simp at hr ⊢
        have hs : s' = s := deleteTip_not_ok hd hr'
        subst hs
        have e2 : ¬ r = Res.ok := fun h => hr (Or.inl h)
        have e3 : ¬ r = Res.errWritten := fun h => hr (Or.inr h)
        simp only [e2, e3, if_false]
        cases s'.cache <;> exact hist_refl hf
  | restart =>
    simp only [step, stepC, effOf]
    obtain ⟨_, h2, h3⟩ := ref_restart (cfg := cfg) hbase hR
    exact ⟨by rw [h2]; exact hf, by rw [h3]; rfl, rfl⟩
  | clearTemp =>
    simp only [step, stepC, effOf]
    obtain ⟨_, h2, h3⟩ := ref_clearTemp hR
    exact ⟨by rw [h2]; exact hf, by rw [h3]; rfl, rfl⟩

theorem hist_runPrim {cd : Codecs} {cfg : Cfg} {slot : Slot} {base : Store} {baseH : Nat}
    (hbase : BaseOK cd base baseH) : ∀ (ops : List Op) (s : St) (c : Chain) (f : Nat),
    (∀ o ∈ ops, o.prim) → Ref cd base baseH s c → finOf s.db = some f →
    RunOK cd cfg slot base s c ops →
    Hist f s c (tracePrim cd cfg slot s ops) (run cd cfg slot s ops) (runC cd cfg slot s c ops) := by
  intro ops
  induction ops with
  | nil => intro s c f _ _ hf _; exact hist_refl hf
  | cons op r ih =>
    intro s c f hp hR hf hok
    have h1 := hist_step (cfg := cfg) (slot := slot) hbase hR hf op (hp op List.mem_cons_self) hok.1
    have hR1 := (trans_step (cfg := cfg) (slot := slot) hbase hR op hok.1).ref
    have h2 := ih _ _ _ (fun o ho => hp o (List.mem_cons_of_mem _ ho)) hR1 h1.fin hok.2
    simp only [tracePrim]
    rw [run_cons, runC_cons]
    exact hist_trans h1 h2

/-- **Every history is determined by its effect trace**: finalized height, published events and
ghost chain. -/
theorem hist_run {cd : Codecs} {cfg : Cfg} {slot : Slot} {base : Store} {baseH : Nat}
    (hbase : BaseOK cd base baseH) (ops : List Op) (s : St) (c : Chain) (f : Nat)
    (hR : Ref cd base baseH s c) (hf : finOf s.db = some f) (hok : RunOK cd cfg slot base s c ops) :
    Hist f s c (trace cd cfg slot s ops) (run cd cfg slot s ops) (runC cd cfg slot s c ops) := by
  rw [run_flat, runC_flat]
  exact hist_runPrim hbase _ s c f (flat_prim cd cfg slot ops s) hR hf (runOK_flat cd cfg slot base ops s c hok)

/-! ### finalized blocks stay in the ghost chain -/

theorem mem_stepC_prim {cd : Codecs} {cfg : Cfg} {slot : Slot} {base : Store} {baseH : Nat} {s : St}
    {c : Chain} {f : Nat} (hbase : BaseOK cd base baseH) (hR : Ref cd base baseH s c)
    (hf : finOf s.db = some f) (op : Op) (hp : op.prim) (bx : Block × Exec) (hm : bx ∈ c)
    (hle : bx.1.hdr.height ≤ f) : bx ∈ stepC cd cfg slot s c op := by
  cases op with
  | process i => exact absurd hp (by simp [Op.prim])
  | apply b v x rt =>
    simp only [stepC]
    split
    · exact List.mem_cons_of_mem _ hm
    · exact hm
  | deleteTip st =>
    simp only [stepC]
    split
    · rename_i hr
      obtain ⟨b, x, c', hc0, _, _, _, _, hlt, _⟩ :=
        ref_delete (s' := (deleteTip cd cfg s st).1) (r := (deleteTip cd cfg s st).2) hbase hR rfl hr
      subst hc0
      simp only [List.tail_cons]
      simp only [List.mem_cons] at hm
      rcases hm with rfl | hm
      · have := hlt f hf; simp only at hle; omega
      · exact hm
    · exact hm
  | restart => exact hm
  | clearTemp => exact hm

theorem mem_runC_prim {cd : Codecs} {cfg : Cfg} {slot : Slot} {base : Store} {baseH : Nat}
    (hbase : BaseOK cd base baseH) : ∀ (ops : List Op) (s : St) (c : Chain) (f : Nat),
    (∀ o ∈ ops, o.prim) → Ref cd base baseH s c → finOf s.db = some f →
    RunOK cd cfg slot base s c ops → ∀ bx ∈ c, bx.1.hdr.height ≤ f →
    bx ∈ runC cd cfg slot s c ops := by
  intro ops
  induction ops with
  | nil => intro s c f _ _ _ _ bx hm _; exact hm
  | cons op r ih =>
    intro s c f hp hR hf hok bx hm hle
    have hT := trans_step (cfg := cfg) (slot := slot) hbase hR op hok.1
    obtain ⟨f0, f1, _, hf0, hf1, _, hch⟩ := hT.fin
    have hfe : f0 = f := by rw [hf] at hf0; exact (Option.some.inj hf0).symm
    subst hfe
    have hmono := isChain_le _ _ _ hch
    rw [runC_cons]
    exact ih _ _ f1 (fun o ho => hp o (List.mem_cons_of_mem _ ho)) hT.ref hf1 hok.2 bx
      (mem_stepC_prim hbase hR hf op (hp op List.mem_cons_self) bx hm hle) (by omega)

/-- a block of the ghost chain at or below the finalized height is in the ghost chain after
every history -/
theorem mem_runC {cd : Codecs} {cfg : Cfg} {slot : Slot} {base : Store} {baseH : Nat}
    (hbase : BaseOK cd base baseH) (ops : List Op) (s : St) (c : Chain) (f : Nat)
    (hR : Ref cd base baseH s c) (hf : finOf s.db = some f) (hok : RunOK cd cfg slot base s c ops)
    (bx : Block × Exec) (hm : bx ∈ c) (hle : bx.1.hdr.height ≤ f) :
    bx ∈ runC cd cfg slot s c ops := by
  rw [runC_flat]
  exact mem_runC_prim hbase _ s c f (flat_prim cd cfg slot ops s) hR hf
    (runOK_flat cd cfg slot base ops s c hok) bx hm hle


/-! ### the finalized height and the finalize events as functions of the applied blocks -/

/-- the blocks whose `processValidated` succeeded, in order -/
def appliedOf : List Eff → List (Block × Exec)
  | [] => []
  | .applied b x _ :: r => (b, x) :: appliedOf r
  | .deleted _ _ _ :: r => appliedOf r
  | .cleared :: r => appliedOf r

theorem finAfter_eq_foldl : ∀ (tr : List Eff) (f : Nat),
    finAfter f tr = ((appliedOf tr).map (·.2.mhpc)).foldl max f := by
  intro tr
  induction tr with
  | nil => intro f; rfl
  | cons e r ih => intro f; cases e <;> simp only [finAfter, appliedOf, List.map_cons, List.foldl_cons, ih]

/-- the finalize events a sequence of applied blocks causes when the finalized height is `f`:
one per strict raise, `Original` = the running maximum, `Next` = the block's
`maxHeightPrecommited`, `Trigger` = the block -/
def finEvsOf : Nat → List (Block × Exec) → List Ev
  | _, [] => []
  | f, (b, x) :: r =>
    if f < x.mhpc then Ev.finalize f x.mhpc b.hdr.id :: finEvsOf x.mhpc r else finEvsOf f r

def Ev.isFinalize : Ev → Bool
  | .finalize _ _ _ => true
  | _ => false

theorem evsOf_finalize : ∀ (tr : List Eff) (f : Nat),
    (evsOf f tr).filter Ev.isFinalize = finEvsOf f (appliedOf tr) := by
  intro tr
  induction tr with
  | nil => intro f; rfl
  | cons e r ih =>
    intro f
    cases e with
    | applied b x rt =>
      simp only [evsOf, appliedOf, finEvsOf]
      by_cases hlt : f < x.mhpc
      · have hm : max f x.mhpc = x.mhpc := by omega
        simp only [hlt, if_true, hm, List.cons_append, List.nil_append, List.filter_cons,
          Ev.isFinalize, if_true, Bool.false_eq_true, if_false, ih]
      · have hm : max f x.mhpc = f := by omega
        simp only [hlt, if_false, hm, List.nil_append, List.filter_cons, Ev.isFinalize,
          Bool.false_eq_true, if_false, ih]
    | deleted b st p =>
      simp only [evsOf, appliedOf]
      cases p <;>
        simp only [if_true, Bool.false_eq_true, if_false, List.nil_append, List.cons_append,
          List.filter_cons, Ev.isFinalize, ih]
    | cleared => simp only [evsOf, appliedOf, ih]

/-- a finalize event is published exactly for a successful `processValidated` whose block raises
the finalized height: `Original` is the height stored before that step, `Next` the block's
`maxHeightPrecommited`, `Trigger` the block -/
theorem evsOf_finalize_mem : ∀ (tr : List Eff) (f o n : Nat) (t : Bytes),
    Ev.finalize o n t ∈ evsOf f tr ↔
      ∃ tr1 b x rt tr2, tr = tr1 ++ Eff.applied b x rt :: tr2 ∧ o = finAfter f tr1 ∧ n = x.mhpc ∧
        o < n ∧ t = b.hdr.id := by
  intro tr
  induction tr with
  | nil =>
    intro f o n t
    simp only [evsOf, List.not_mem_nil, false_iff]
    rintro ⟨tr1, b, x, rt, tr2, h, _⟩
    cases tr1 <;> cases h
  | cons e r ih =>
    intro f o n t
    constructor
    · intro hm
      cases e with
      | applied b x rt =>
        simp only [evsOf, List.mem_append, List.mem_cons] at hm
        rcases hm with hm | hm | hm
        · split at hm
          · rename_i hlt
            simp only [List.mem_cons, List.not_mem_nil, or_false, Ev.finalize.injEq] at hm
            obtain ⟨h1, h2, h3⟩ := hm
            exact ⟨[], b, x, rt, r, rfl, h1, h2, by rw [h1, h2]; exact hlt, h3⟩
          · cases hm
        · cases hm
        · obtain ⟨tr1, b', x', rt', tr2, h1, h2, h3, h4, h5⟩ := (ih _ o n t).mp hm
          exact ⟨Eff.applied b x rt :: tr1, b', x', rt', tr2, by rw [h1]; rfl, h2, h3, h4, h5⟩
      | deleted b st p =>
        simp only [evsOf, List.mem_append] at hm
        rcases hm with hm | hm
        · split at hm
          · simp only [List.mem_cons, List.not_mem_nil, or_false] at hm; cases hm
          · cases hm
        · obtain ⟨tr1, b', x', rt', tr2, h1, h2, h3, h4, h5⟩ := (ih _ o n t).mp hm
          exact ⟨Eff.deleted b st p :: tr1, b', x', rt', tr2, by rw [h1]; rfl, h2, h3, h4, h5⟩
      | cleared =>
        simp only [evsOf] at hm
        obtain ⟨tr1, b', x', rt', tr2, h1, h2, h3, h4, h5⟩ := (ih _ o n t).mp hm
        exact ⟨Eff.cleared :: tr1, b', x', rt', tr2, by rw [h1]; rfl, h2, h3, h4, h5⟩
    · rintro ⟨tr1, b, x, rt, tr2, h1, h2, h3, h4, h5⟩
      cases tr1 with
      | nil =>
        simp only [List.nil_append, List.cons.injEq] at h1
        obtain ⟨he, _⟩ := h1
        subst he
        simp only [finAfter] at h2
        subst h2; subst h3; subst h5
        simp only [evsOf, h4, if_true, List.cons_append, List.nil_append, List.mem_cons, true_or]
      | cons e' tr1' =>
        simp only [List.cons_append, List.cons.injEq] at h1
        obtain ⟨he, hr⟩ := h1
        subst he
        cases e with
        | applied b0 x0 rt0 =>
          simp only [evsOf, List.mem_append, List.mem_cons]
          right; right
          exact (ih _ o n t).mpr ⟨tr1', b, x, rt, tr2, hr, h2, h3, h4, h5⟩
        | deleted b0 st0 p0 =>
          simp only [evsOf, List.mem_append]
          right
          exact (ih _ o n t).mpr ⟨tr1', b, x, rt, tr2, hr, h2, h3, h4, h5⟩
        | cleared =>
          simp only [evsOf]
          exact (ih _ o n t).mpr ⟨tr1', b, x, rt, tr2, hr, h2, h3, h4, h5⟩

/-- the finalized height is at least the `maxHeightPrecommited` of every block of the chain -/
theorem chainOf_mhpc_le : ∀ (tr : List Eff) (c : Chain) (f : Nat),
    (∀ bx ∈ c, bx.2.mhpc ≤ f) → ∀ bx ∈ chainOf c tr, bx.2.mhpc ≤ finAfter f tr := by
  intro tr
  induction tr with
  | nil => intro c f h bx hm; exact h bx hm
  | cons e r ih =>
    intro c f h bx hm
    cases e with
    | applied b x rt =>
      simp only [chainOf, finAfter] at hm ⊢
      apply ih ((b, x) :: c) (max f x.mhpc) _ bx hm
      intro bx' hm'
      simp only [List.mem_cons] at hm'
      rcases hm' with rfl | hm'
      · simp only; omega
      · have := h bx' hm'; omega
    | deleted b st p =>
      simp only [chainOf, finAfter] at hm ⊢
      exact ih c.tail f (fun bx' hm' => h bx' (List.mem_of_mem_tail hm')) bx hm
    | cleared =>
      simp only [chainOf, finAfter] at hm ⊢
      exact ih c f h bx hm


/-! ### `deleteBlock ∘ processValidated` on the database, key by key, without the refinement -/

/-- the keys `deleteBlock` deletes for a block -/
def removedKeys (b : Block) : List Bytes :=
  (BOp.del (kDiff b.hdr.height) :: removeBlockOps b false).map BOp.key

def tempSave (b : Block) (st : Bool) : List BOp :=
  if st then [BOp.set (kTemp b.hdr.height) (encBlock b)] else []

theorem removeOps_split (b : Block) (st : Bool) :
    BOp.del (kDiff b.hdr.height) :: removeBlockOps b st =
      (removedKeys b).map BOp.del ++ tempSave b st := by
  unfold removedKeys removeBlockOps tempSave
  by_cases ht : b.txs.isEmpty = true <;> by_cases ha : b.assets.isEmpty = true <;>
    simp [ht, ha, BOp.key, List.map_map, Function.comp]

theorem mem_removedKeys (b : Block) (k : Bytes) :
    k ∈ removedKeys b ↔
      k = kDiff b.hdr.height ∨ k = kHeader b.hdr.id ∨ k = kHeight b.hdr.height ∨
      (b.txs ≠ [] ∧ ((∃ t ∈ b.txs, k = kTx t.1) ∨ k = kTxs b.hdr.id)) ∨
      (b.assets ≠ [] ∧ k = kAssets b.hdr.id) ∨ k = kEvents b.hdr.height := by
  unfold removedKeys removeBlockOps
  cases htx : b.txs <;> cases has : b.assets <;>
    simp [BOp.key, List.map_map, Function.comp, eq_comm, or_assoc, or_comm, or_left_comm]

theorem removedKeys_allKeys (b : Block) : ∀ k ∈ removedKeys b, k ∈ allKeys b := by
  intro k hk
  unfold removedKeys at hk
  obtain ⟨op, hop, rfl⟩ := List.mem_map.mp hk
  exact removeOps_keys_false b op hop

theorem persist_key_removed (cd : Codecs) (b : Block) (x : Exec) :
    ∀ op ∈ persistOps cd b x, op.key ∈ removedKeys b := by
  intro op hop
  exact persist_keys_removed cd b x false op.key (List.mem_map_of_mem hop)

theorem bval_removeOps (b : Block) (st : Bool) (k : Bytes) :
    bval (BOp.del (kDiff b.hdr.height) :: removeBlockOps b st) k =
      if st = true ∧ k = kTemp b.hdr.height then some (some (encBlock b))
      else if k ∈ removedKeys b then some none else none := by
  rw [removeOps_split, bval_append, bval_dels]
  unfold tempSave
  cases st with
  | false => simp [bval]
  | true =>
    by_cases hk : k = kTemp b.hdr.height
    · subst hk; simp [bval, BOp.key, BOp.val]
    · have : ¬ kTemp b.hdr.height = k := fun h => hk h.symm
      simp [bval, BOp.key, hk, this]

theorem allKeys_head {b : Block} {k : Bytes} (h : k ∈ allKeys b) :
    k.head? = some 51 ∨ k.head? = some 3 ∨ k.head? = some 4 ∨ k.head? = some 5 ∨ k.head? = some 8 ∨
      k.head? = some 9 ∨ k.head? = some 6 := by
  unfold allKeys at h
  simp only [List.cons_append, List.nil_append, List.mem_cons, List.mem_map] at h
  rcases h with h | h | h | h | h | h | ⟨t, _, h⟩ <;> (subst h; simp [kDiff, kHeader, kHeight, kTxs, kAssets, kEvents, kTx])

theorem diffPrune_key (db : Store) (mh : Nat) : ∀ op ∈ diffPruneOps db mh,
    op.key.head? = some 51 ∧ decU32 (op.key.drop 1) < mh ∧ ∃ v, slookup db op.key = some v := by
  intro op hop
  unfold diffPruneOps at hop
  simp only [List.mem_map, List.mem_filter, decide_eq_true_eq] at hop
  obtain ⟨kv, ⟨hmem, hlt⟩, rfl⟩ := hop
  have h := (C12_db_iterate_mem db [51] false kv).mp hmem
  refine ⟨(hasPrefix_one kv.1 51).mp h.2, hlt, ?_⟩
  have : ∀ (s : Store) (kv : KV), kv ∈ s → ∃ v, slookup s kv.1 = some v := by
    intro s
    induction s with
    | nil => intro kv h; cases h
    | cons e r ih =>
      intro kv h
      simp only [slookup]
      by_cases hk : e.1 = kv.1
      · exact ⟨e.2, by simp [hk]⟩
      · simp only [hk, if_false]
        simp only [List.mem_cons] at h
        rcases h with h | h
        · exact absurd (by rw [h]) hk
        · exact ih kv h
  exact this db kv h.1

theorem diffPrune_bval_present (db : Store) (hnd : NoDupKeys db) (mh : Nat) (k v : Bytes)
    (hh : k.head? = some 51) (hlt : decU32 (k.drop 1) < mh) (hl : slookup db k = some v) :
    bval (diffPruneOps db mh) k = some none := by
  unfold diffPruneOps
  have hmap : ∀ l : List KV, l.map (fun kv => BOp.del kv.1) = (l.map (·.1)).map BOp.del := by
    intro l; rw [List.map_map]; rfl
  rw [hmap, bval_dels]
  have : k ∈ ((dbIterate db [51] (-1) false).filter
      (fun kv => decide (decU32 (kv.1.drop 1) < mh))).map (·.1) := by
    refine List.mem_map.mpr ⟨(k, v), ?_, rfl⟩
    simp only [List.mem_filter, decide_eq_true_eq]
    refine ⟨?_, hlt⟩
    apply (C12_db_iterate_mem db [51] false (k, v)).mpr
    exact ⟨(slookup_iff_mem db hnd k v).mp hl, (hasPrefix_one k 51).mpr hh⟩
  rw [if_pos this]

/-- the store after `processValidated(b)` followed by `deleteBlock(b)` -/
def roundTripDb (cd : Codecs) (cfg : Cfg) (db : Store) (fin : Nat) (b : Block) (x : Exec)
    (rt st : Bool) : Store :=
  deleteDb (applyDb cd cfg db fin b x rt) (diffOf x.overlay) b st

theorem applyOps_not_state (cd : Codecs) (cfg : Cfg) (db : Store) (fin : Nat) (b : Block) (x : Exec)
    (rt : Bool) : ∀ op ∈ applyOps cd cfg db fin b x rt, ¬ isStateKey op.key := by
  intro op hop
  rw [applyOps_split] at hop
  simp only [List.mem_append] at hop
  unfold isStateKey pState
  rcases hop with (hop | hop) | hop
  · rcases applyPre_keys cd db fin b x op hop with h | h | ⟨_, h⟩
    · rcases allKeys_head h with h | h | h | h | h | h | h <;> (rw [h]; simp)
    · rw [h]; simp [kFin]
    · rw [h]; simp
  · rw [eventPrune_head cfg db _ _ op hop]; simp
  · unfold tempOp at hop
    split at hop
    · simp only [List.mem_cons, List.not_mem_nil, or_false] at hop
      subst hop; simp [BOp.key, kTemp]
    · cases hop

/-- the round trip, in terms of the two batches -/
theorem roundTrip_lookup (cd : Codecs) (cfg : Cfg) (db : Store) (fin : Nat) (b : Block) (x : Exec)
    (rt st : Bool) (hnd : NoDupKeys db) (hov : OverlayOK x.overlay)
    (hsk : ∀ e ∈ x.overlay, e.1.head? = some pState)
    (hinit : ∀ k cv, clookup x.overlay k = some cv → cv.init = slookup db k) (k : Bytes) :
    (isStateKey k → slookup (roundTripDb cd cfg db fin b x rt st) k = slookup db k) ∧
    (¬ isStateKey k → slookup (roundTripDb cd cfg db fin b x rt st) k =
        match bval (BOp.del (kDiff b.hdr.height) :: removeBlockOps b st) k with
        | some v => v
        | none =>
          match bval (applyOps cd cfg db fin b x rt) k with
          | some v => v
          | none => slookup db k) := by
  have hX : ∀ k, slookup (applyDb cd cfg db fin b x rt) k =
      match bval (applyOps cd cfg db fin b x rt) k with
      | some v => v
      | none => match stateVal x.overlay k with
        | some v => v
        | none => slookup db k := applyDb_lookup_all cd cfg db fin b x rt hov.nodup
  have hstate_ov : ∀ k cv, clookup x.overlay k = some cv → isStateKey k :=
    fun k cv h => hsk _ (clookup_some_mem _ k cv h)
  have hbs : ∀ k, isStateKey k → bval (applyOps cd cfg db fin b x rt) k = none := by
    intro k hk
    exact bval_none _ _ (fun op hop he => applyOps_not_state cd cfg db fin b x rt op hop (he ▸ hk))
  have hrev : slookup (revertDiff (applyDb cd cfg db fin b x rt) (diffOf x.overlay)) k =
      match clookup x.overlay k with
      | some cv => cv.init
      | none => slookup (applyDb cd cfg db fin b x rt) k := by
    apply revert_after_commit _ x.overlay (nodup_applyDb _ _ _ _ _ _ _ hnd) hov
    intro k
    cases hc : clookup x.overlay k with
    | none => simp [stateVal, hc]
    | some cv =>
      rw [hX k, hbs k (hstate_ov k cv hc)]
      simp only
      cases stateVal x.overlay k with
      | some v => rfl
      | none => simp only; exact (hinit k cv hc).symm
  unfold roundTripDb deleteDb
  rw [slookup_applyBatch, hrev]
  constructor
  · intro hk
    have h1 : bval (BOp.del (kDiff b.hdr.height) :: removeBlockOps b st) k = none := by
      apply bval_none
      intro op hop he
      rcases removeOps_keys b st op hop with h | h
      · exact allKeys_not_state (he ▸ h) hk
      · rw [he] at h; rw [h] at hk; simp [isStateKey, kTemp, pState] at hk
    rw [h1]
    simp only
    cases hc : clookup x.overlay k with
    | some cv => exact hinit k cv hc
    | none =>
      simp only
      rw [hX k, hbs k hk, stateVal_none_of_not_key _ _ hc]
  · intro hk
    have hc : clookup x.overlay k = none := by
      cases hc : clookup x.overlay k with
      | none => rfl
      | some cv => exact absurd (hstate_ov k cv hc) hk
    rw [hc]
    simp only
    rw [hX k, stateVal_none_of_not_key _ _ hc]
    cases bval (BOp.del (kDiff b.hdr.height) :: removeBlockOps b st) k <;>
      cases bval (applyOps cd cfg db fin b x rt) k <;> rfl

/-- `processValidated` stores the state diff under the block's height -/
theorem applyDb_diff (cd : Codecs) (cfg : Cfg) (db : Store) (fin : Nat) (b : Block) (x : Exec)
    (rt : Bool) (hov : NoDupKeys x.overlay) (hb : b.hdr.height < u32) (hm : x.mhpc ≤ b.hdr.height) :
    slookup (applyDb cd cfg db fin b x rt) (kDiff b.hdr.height) =
      some (cd.encDiff (diffOf x.overlay)) := by
  rw [applyDb_lookup_all cd cfg db fin b x rt hov, applyOps_split, bval_append, bval_append]
  have h1 : bval (tempOp b rt) (kDiff b.hdr.height) = none := by
    apply bval_none
    intro op hop he
    unfold tempOp at hop
    split at hop
    · simp only [List.mem_cons, List.not_mem_nil, or_false] at hop
      subst hop; simp [BOp.key, kTemp, kDiff] at he
    · cases hop
  have h2 : bval (eventPruneOps cfg db b.hdr.height (nextFin fin x.mhpc)) (kDiff b.hdr.height) = none := by
    apply bval_none
    intro op hop he
    have := eventPrune_head cfg db _ _ op hop
    rw [he] at this; simp [kDiff] at this
  rw [h1, h2]
  simp only
  unfold applyPre
  rw [bval_append]
  have h3 : bval (blockSetOps b x.events ++ [BOp.set kFin (encU32 (nextFin fin x.mhpc))])
      (kDiff b.hdr.height) = none := by
    apply bval_none
    intro op hop he
    simp only [List.mem_append, List.mem_cons, List.not_mem_nil, or_false] at hop
    rcases hop with hop | hop
    · have hm' := (mem_persistOps cd b x op).mp (List.mem_cons_of_mem _ hop)
      rcases hm' with h | h | h | ⟨_, ⟨t, _, h⟩ | h⟩ | ⟨_, h⟩ | ⟨_, h⟩ <;> subst h <;>
        first
        | (simp [BOp.key, kHeader, kDiff, kHeight, kTx, kTxs, kEvents, kAssets] at he)
        | skip
      -- the remaining case: `op` is the diff write itself, which is not in `blockSetOps`
      unfold blockSetOps at hop
      by_cases ht : b.txs.isEmpty = true <;> by_cases hev : x.events.isEmpty = true <;>
        by_cases ha : b.assets.isEmpty = true <;>
        simp [ht, hev, ha, kDiff, kHeader, kHeight, kTx, kTxs, kEvents, kAssets] at hop
    · subst hop; simp [BOp.key, kFin, kDiff] at he
  rw [h3]
  simp only
  rw [bval_append]
  have h4 : bval (if decide (fin < x.mhpc) = true then diffPruneOps db x.mhpc else [])
      (kDiff b.hdr.height) = none := by
    apply bval_none
    intro op hop he
    split at hop
    · have := (diffPrune_key db x.mhpc op hop).2.1
      rw [he] at this
      simp only [kDiff, List.drop_succ_cons, List.drop_zero] at this
      rw [decU32_encU32_of_lt hb] at this
      omega
    · cases hop
  rw [h4]
  simp [bval, BOp.key, BOp.val]


theorem applyOps_bval_other (cd : Codecs) (cfg : Cfg) (db : Store) (fin : Nat) (b : Block) (x : Exec)
    (rt : Bool) (k : Bytes) (h1 : k ≠ kFin) (h2 : k ≠ kTemp b.hdr.height) (h3 : k ∉ removedKeys b) :
    bval (applyOps cd cfg db fin b x rt) k =
      match bval (eventPruneOps cfg db b.hdr.height (nextFin fin x.mhpc)) k with
      | some v => some v
      | none => bval (if decide (fin < x.mhpc) = true then diffPruneOps db x.mhpc else []) k := by
  rw [applyOps_split, bval_append, bval_append]
  have ht : bval (tempOp b rt) k = none := by
    apply bval_none
    intro op hop he
    unfold tempOp at hop
    split at hop
    · simp only [List.mem_cons, List.not_mem_nil, or_false] at hop
      subst hop; exact h2 he.symm
    · cases hop
  rw [ht]
  simp only
  cases bval (eventPruneOps cfg db b.hdr.height (nextFin fin x.mhpc)) k with
  | some v => rfl
  | none =>
    simp only
    unfold applyPre
    rw [bval_append]
    have h4 : bval (blockSetOps b x.events ++ [BOp.set kFin (encU32 (nextFin fin x.mhpc))]) k = none := by
      apply bval_none
      intro op hop he
      simp only [List.mem_append, List.mem_cons, List.not_mem_nil, or_false] at hop
      rcases hop with hop | hop
      · exact h3 (he ▸ persist_key_removed cd b x op (List.mem_cons_of_mem _ hop))
      · subst hop; exact h1 he.symm
    rw [h4]
    simp only
    rw [bval_append]
    cases bval (if decide (fin < x.mhpc) = true then diffPruneOps db x.mhpc else []) k with
    | some v => rfl
    | none =>
      simp only
      apply bval_none
      intro op hop he
      simp only [List.mem_cons, List.not_mem_nil, or_false] at hop
      subst hop
      exact h3 (he ▸ persist_key_removed cd b x _ List.mem_cons_self)

/-- **`deleteBlock ∘ processValidated`, every key of the database** (no refinement needed: any
database, any block, any overlay that was built over this database). -/
theorem roundTrip_exact (cd : Codecs) (cfg : Cfg) (db : Store) (fin : Nat) (b : Block) (x : Exec)
    (rt st : Bool) (hnd : NoDupKeys db) (hov : OverlayOK x.overlay)
    (hsk : ∀ e ∈ x.overlay, e.1.head? = some pState)
    (hinit : ∀ k cv, clookup x.overlay k = some cv → cv.init = slookup db k) :
    slookup (roundTripDb cd cfg db fin b x rt st) kFin = some (encU32 (nextFin fin x.mhpc)) ∧
    slookup (roundTripDb cd cfg db fin b x rt st) (kTemp b.hdr.height) =
      (if st = true then some (encBlock b) else if rt = true then none
       else slookup db (kTemp b.hdr.height)) ∧
    (∀ k ∈ removedKeys b, slookup (roundTripDb cd cfg db fin b x rt st) k = none) ∧
    (∀ k, k ≠ kFin → k ≠ kTemp b.hdr.height → k ∉ removedKeys b →
      (((fin < x.mhpc ∧ k.head? = some 51 ∧ decU32 (k.drop 1) < x.mhpc) ∨
          Pruned cfg b.hdr.height (nextFin fin x.mhpc) k) →
        slookup (roundTripDb cd cfg db fin b x rt st) k = none) ∧
      (¬ ((fin < x.mhpc ∧ k.head? = some 51 ∧ decU32 (k.drop 1) < x.mhpc) ∨
          Pruned cfg b.hdr.height (nextFin fin x.mhpc) k) →
        slookup (roundTripDb cd cfg db fin b x rt st) k = slookup db k)) := by
  have hL := fun k => roundTrip_lookup cd cfg db fin b x rt st hnd hov hsk hinit k
  have hnotrem : ∀ k, k ∈ removedKeys b → k.head? ≠ some 7 ∧ k.head? ≠ some 27 ∧ ¬ isStateKey k := by
    intro k hk
    have hak := removedKeys_allKeys b k hk
    refine ⟨?_, ?_, allKeys_not_state hak⟩ <;>
      (rcases allKeys_head hak with h | h | h | h | h | h | h <;> (rw [h]; simp))
  refine ⟨?_, ?_, ?_, ?_⟩
  · have hns : ¬ isStateKey kFin := by simp [isStateKey, kFin, pState]
    rw [(hL kFin).2 hns, bval_removeOps]
    have h1 : ¬ (st = true ∧ kFin = kTemp b.hdr.height) := by simp [kFin, kTemp]
    have h2 : kFin ∉ removedKeys b := fun h => (hnotrem _ h).2.1 (by simp [kFin])
    simp only [h1, h2, if_false]
    rw [applyOps_bval_fin]
  · have hns : ¬ isStateKey (kTemp b.hdr.height) := by simp [isStateKey, kTemp, pState]
    rw [(hL _).2 hns, bval_removeOps]
    have h2 : kTemp b.hdr.height ∉ removedKeys b := fun h => (hnotrem _ h).1 (by simp [kTemp])
    cases st with
    | true => simp
    | false =>
      simp only [Bool.false_eq_true, false_and, if_false, h2]
      rw [applyOps_split, bval_append, bval_append]
      have hev : bval (eventPruneOps cfg db b.hdr.height (nextFin fin x.mhpc)) (kTemp b.hdr.height) = none := by
        apply bval_none
        intro op hop he
        have := eventPrune_head cfg db _ _ op hop
        rw [he] at this; simp [kTemp] at this
      have hpre : bval (applyPre cd db fin b x) (kTemp b.hdr.height) = none := by
        apply bval_none
        intro op hop he
        rcases applyPre_keys cd db fin b x op hop with h | h | ⟨_, h⟩
        · rcases allKeys_head h with h | h | h | h | h | h | h <;> (rw [he] at h; simp [kTemp] at h)
        · rw [he] at h; simp [kTemp, kFin] at h
        · rw [he] at h; simp [kTemp] at h
      cases rt with
      | true => simp [tempOp, bval, BOp.key, BOp.val]
      | false => simp [tempOp, bval, hev, hpre]
  · intro k hk
    obtain ⟨h7, _, hns⟩ := hnotrem k hk
    rw [(hL k).2 hns, bval_removeOps]
    have h1 : ¬ (st = true ∧ k = kTemp b.hdr.height) := by
      rintro ⟨_, rfl⟩; exact h7 (by simp [kTemp])
    simp only [h1, hk, if_false, if_true]
  · intro k h1 h2 h3
    by_cases hst : isStateKey k
    · have hnA : ¬ ((fin < x.mhpc ∧ k.head? = some 51 ∧ decU32 (k.drop 1) < x.mhpc) ∨
          Pruned cfg b.hdr.height (nextFin fin x.mhpc) k) := by
        unfold isStateKey pState at hst
        rintro (⟨_, h, _⟩ | h)
        · rw [hst] at h; simp at h
        · have := inRange_events_head h.2.2
          rw [hst] at this; simp at this
      exact ⟨fun h => absurd h hnA, fun _ => (hL k).1 hst⟩
    · have hY : slookup (roundTripDb cd cfg db fin b x rt st) k =
          match bval (applyOps cd cfg db fin b x rt) k with
          | some v => v
          | none => slookup db k := by
        rw [(hL k).2 hst, bval_removeOps]
        have h1' : ¬ (st = true ∧ k = kTemp b.hdr.height) := fun h => h2 h.2
        simp only [h1', h3, if_false]
      rw [hY, applyOps_bval_other cd cfg db fin b x rt k h1 h2 h3]
      have hDPabs : slookup db k = none →
          bval (if decide (fin < x.mhpc) = true then diffPruneOps db x.mhpc else []) k = none := by
        intro hl
        apply bval_none
        intro op hop he
        split at hop
        · obtain ⟨_, _, v, hv⟩ := diffPrune_key db x.mhpc op hop
          rw [he, hl] at hv; cases hv
        · cases hop
      constructor
      · rintro (⟨hr, hh, hlt⟩ | hp)
        · cases hl : slookup db k with
          | none =>
            rw [eventPrune_bval_absent cfg db _ _ k hl, hDPabs hl]
          | some v =>
            cases hev : bval (eventPruneOps cfg db b.hdr.height (nextFin fin x.mhpc)) k with
            | some w =>
              obtain ⟨op, hop, _, hval⟩ := bval_some_mem _ _ _ hev
              have : op.val = none := by
                unfold eventPruneOps at hop
                split at hop
                · simp only at hop
                  split at hop
                  · obtain ⟨kv, _, rfl⟩ := List.mem_map.mp hop; rfl
                  · cases hop
                · cases hop
              rw [this] at hval; subst hval; rfl
            | none =>
              simp only [hr, decide_true, if_true]
              rw [diffPrune_bval_present db hnd x.mhpc k v hh hlt hl]
        · cases hl : slookup db k with
          | none => rw [eventPrune_bval_absent cfg db _ _ k hl, hDPabs hl]
          | some v => rw [eventPrune_bval_present cfg db hnd _ _ k v hp hl]
      · intro hn
        have hev : bval (eventPruneOps cfg db b.hdr.height (nextFin fin x.mhpc)) k = none := by
          apply bval_none
          intro op hop he
          exact hn (Or.inr (he ▸ eventPrune_pruned cfg db _ _ op hop))
        have hdp : bval (if decide (fin < x.mhpc) = true then diffPruneOps db x.mhpc else []) k = none := by
          apply bval_none
          intro op hop he
          split at hop
          · rename_i hr
            obtain ⟨hh, hlt, _⟩ := diffPrune_key db x.mhpc op hop
            exact hn (Or.inl ⟨by simpa using hr, he ▸ hh, he ▸ hlt⟩)
          · cases hop
        rw [hev, hdp]


/-! ### `deleteBlock` of the tip of a refined state -/

/-- the database a successful `deleteBlock` leaves, for the tip of a refined state -/
theorem delete_db_eq {cd : Codecs} {cfg : Cfg} {base : Store} {baseH : Nat} {s s' : St} {c : Chain}
    {b : Block} {x : Exec} {st : Bool} {r : Res} (hR : Ref cd base baseH s ((b, x) :: c))
    (hok : deleteTip cd cfg s st = (s', r)) (hr : r.removed) :
    s'.db = deleteDb s.db (diffOf x.overlay) b st ∧ s.cache.head? = some b ∧
      ∃ fin, finOf s.db = some fin ∧ fin < b.hdr.height := by
  obtain ⟨tip, rest, fin, bytes, d, hc, hf, hlt, hl, hd, hdb, _⟩ := deleteTip_done_inv hok hr
  have htip : tip.hdr.height = b.hdr.height := hR.cache.head tip (by rw [hc]; rfl)
  have hte : tip = b :=
    hR.cache.chain tip (by rw [hc]; exact List.mem_cons_self) (b, x) List.mem_cons_self htip.symm
  subst hte
  obtain ⟨hstep, _, _⟩ := hR.db.wf
  have hdiff : d = diffOf x.overlay := by
    have hnv : ¬ Vol fin (kDiff tip.hdr.height) := kDiff_not_vol hstep.block.heightLt (by omega)
    rw [hR.db.agree fin hf _ hnv, spec_head_persist (bval_persist_diff cd tip x)] at hl
    have : bytes = cd.encDiff (diffOf x.overlay) := (Option.some.inj hl).symm
    rw [this, hstep.diffRt] at hd
    exact (Option.some.inj hd).symm
  subst hdiff
  exact ⟨hdb, by rw [hc]; rfl, fin, hf, hlt⟩

theorem hdrSpec_tip_some {cd : Codecs} {base : Store} {baseH : Nat} {c : Chain}
    (hwf : ChainWF cd base baseH c) (hb : c = [] → ∃ hd, hdrDB cd base baseH = some hd) :
    ∃ hd, hdrSpec cd base c (tipH baseH c) = some hd := by
  cases c with
  | nil =>
    obtain ⟨hd, h⟩ := hb rfl
    refine ⟨hd, ?_⟩
    rw [← h]
    unfold hdrSpec hdrDB headerOf
    simp only [spec, tipH]
    cases slookup base (kHeight baseH) <;> rfl
  | cons e r =>
    obtain ⟨b, x⟩ := e
    have hs := stored_member hwf (b, x) List.mem_cons_self
    refine ⟨b.hdr, ?_⟩
    unfold hdrSpec
    simp only [tipH]
    rw [hs.height]
    simp only
    rw [hs.header]
    exact hwf.1.block.hdrOk

/-- **Above the finalized height `deleteBlock` always goes through**: for the tip of a refined
state the only reasons to refuse are the finality guard and the genesis guard — the previous header,
the state diff and its decoding are always there. -/
theorem delete_succeeds {cd : Codecs} {cfg : Cfg} {base : Store} {baseH : Nat} {s : St} {c : Chain}
    {b : Block} {x : Exec} (st : Bool) (hbase : BaseOK cd base baseH)
    (hR : Ref cd base baseH s ((b, x) :: c)) (hne : s.cache ≠ []) {f : Nat}
    (hf : finOf s.db = some f) (hlt : f < b.hdr.height) (hg : b.hdr.height ≠ cfg.genesisHeight)
    (hb0 : c = [] → ∃ hd, hdrDB cd base baseH = some hd) :
    (deleteTip cd cfg s st).2.removed := by
  obtain ⟨hstep, hheight, hwf⟩ := hR.db.wf
  cases hc : s.cache with
  | nil => exact absurd hc hne
  | cons tip rest =>
    have htip : tip.hdr.height = b.hdr.height := hR.cache.head tip (by rw [hc]; rfl)
    have hte : tip = b :=
      hR.cache.chain tip (by rw [hc]; exact List.mem_cons_self) (b, x) List.mem_cons_self htip.symm
    subst hte
    obtain ⟨hd, hhd⟩ := hdrSpec_tip_some hwf hb0
    have hprev : headerAt cd s (tip.hdr.height - 1) = some hd := by
      rw [headerAt_ref hbase hR, hheight]
      have : tipH baseH c + 1 - 1 = tipH baseH c := by omega
      rw [this, hdrSpec_cons hR.db.wf hbase (Nat.le_refl _)]
      exact hhd
    have hdiff : slookup s.db (kDiff tip.hdr.height) = some (cd.encDiff (diffOf x.overlay)) := by
      have hnv : ¬ Vol f (kDiff tip.hdr.height) := kDiff_not_vol hstep.block.heightLt (by omega)
      rw [hR.db.agree f hf _ hnv, spec_head_persist (bval_persist_diff cd tip x)]
    unfold deleteTip
    rw [hc]
    have hnle : ¬ tip.hdr.height ≤ f := by omega
    simp only [hf, hnle, if_false, hprev, hdiff, hstep.diffRt, hg]
    cases rest with
    | cons r1 r2 => exact Or.inl rfl
    | nil =>
      simp only
      split
      · exact Or.inr rfl
      · exact Or.inl rfl

/-! ### successful operation sequences -/

/-- every `processValidated` of the sequence succeeds and every `deleteBlock` removes the tip -/
def Succ (cd : Codecs) (cfg : Cfg) (slot : Slot) : St → List Op → Prop
  | _, [] => True
  | s, op :: r =>
    (match op with
      | .apply b v x rt => (apply cd cfg s b v x rt).2 = .ok
      | .deleteTip st => (deleteTip cd cfg s st).2.removed
      | _ => True) ∧ Succ cd cfg slot (step cd cfg slot s op) r

theorem succ_append (cd : Codecs) (cfg : Cfg) (slot : Slot) : ∀ (a b : List Op) (s : St),
    Succ cd cfg slot s (a ++ b) ↔ Succ cd cfg slot s a ∧ Succ cd cfg slot (run cd cfg slot s a) b := by
  intro a
  induction a with
  | nil => intro b s; simp [Succ, run]
  | cons op r ih =>
    intro b s
    simp only [List.cons_append, Succ, run_cons, ih, and_assoc]

theorem runC_applies (cd : Codecs) (cfg : Cfg) (slot : Slot) :
    ∀ (bs : List (Block × Bool × Exec × Bool)) (s : St) (c : Chain),
    Succ cd cfg slot s (bs.map fun a => Op.apply a.1 a.2.1 a.2.2.1 a.2.2.2) →
    runC cd cfg slot s c (bs.map fun a => Op.apply a.1 a.2.1 a.2.2.1 a.2.2.2) =
      (bs.map fun a => (a.1, a.2.2.1)).reverse ++ c := by
  intro bs
  induction bs with
  | nil => intro s c _; rfl
  | cons a r ih =>
    intro s c h
    simp only [List.map_cons, Succ] at h
    simp only [List.map_cons, runC_cons, List.reverse_cons, List.append_assoc]
    rw [ih _ _ h.2]
    simp only [stepC, h.1, if_true, List.cons_append, List.nil_append]

theorem runC_deletes (cd : Codecs) (cfg : Cfg) (slot : Slot) :
    ∀ (sts : List Bool) (s : St) (c : Chain), Succ cd cfg slot s (sts.map Op.deleteTip) →
    runC cd cfg slot s c (sts.map Op.deleteTip) = c.drop sts.length := by
  intro sts
  induction sts with
  | nil => intro s c _; rfl
  | cons a r ih =>
    intro s c h
    simp only [List.map_cons, Succ] at h
    simp only [List.map_cons, runC_cons, List.length_cons]
    rw [ih _ _ h.2]
    have : (deleteTip cd cfg s a).2 = .ok ∨ (deleteTip cd cfg s a).2 = .errWritten := h.1
    simp only [stepC, this, if_true]
    cases c <;> simp

/-! ### temporary blocks -/

theorem apply_temp (cd : Codecs) (cfg : Cfg) (db : Store) (fin : Nat) (b : Block) (x : Exec) (rt : Bool)
    (hnd : NoDupKeys x.overlay) (hsk : ∀ e ∈ x.overlay, e.1.head? = some pState) (k : Bytes)
    (hk : k.head? = some 7) :
    slookup (applyDb cd cfg db fin b x rt) k =
      if rt = true ∧ k = kTemp b.hdr.height then none else slookup db k := by
  have hns : ¬ isStateKey k := by simp [isStateKey, hk, pState]
  rw [applyDb_lookup_all cd cfg db fin b x rt hnd k, applyOps_split, bval_append, bval_append]
  have hev : bval (eventPruneOps cfg db b.hdr.height (nextFin fin x.mhpc)) k = none := by
    apply bval_none
    intro op hop he
    have := eventPrune_head cfg db _ _ op hop
    rw [he, hk] at this; simp at this
  have hpre : bval (applyPre cd db fin b x) k = none := by
    apply bval_none
    intro op hop he
    rcases applyPre_keys cd db fin b x op hop with h | h | ⟨_, h⟩
    · rcases allKeys_head h with h | h | h | h | h | h | h <;> (rw [he, hk] at h; simp at h)
    · rw [he] at h; rw [h] at hk; simp [kFin] at hk
    · rw [he, hk] at h; simp at h
  rw [hev, hpre, stateVal_none_of_not_state _ hsk k hns]
  unfold tempOp
  cases rt with
  | false => simp [bval]
  | true =>
    by_cases hkt : k = kTemp b.hdr.height
    · subst hkt; simp [bval, BOp.key, BOp.val]
    · have : ¬ kTemp b.hdr.height = k := fun h => hkt h.symm
      simp [bval, BOp.key, hkt, this]

theorem delete_temp {cd : Codecs} {base : Store} {baseH : Nat} {db : Store} {c : Chain}
    {b : Block} {x : Exec} {fin : Nat} (st : Bool)
    (hR : DbRef cd base baseH db ((b, x) :: c)) (hf : finOf db = some fin) (k : Bytes)
    (hk : k.head? = some 7) :
    slookup (deleteDb db (diffOf x.overlay) b st) k =
      if st = true ∧ k = kTemp b.hdr.height then some (encBlock b) else slookup db k := by
  rw [deleteDb_lookup st hR hf k, bval_removeOps]
  have hnr : k ∉ removedKeys b := by
    intro h
    rcases allKeys_head (removedKeys_allKeys b k h) with h | h | h | h | h | h | h <;>
      (rw [hk] at h; simp at h)
  have hc : clookup x.overlay k = none := by
    cases hc : clookup x.overlay k with
    | none => rfl
    | some cv =>
      have := hR.wf.1.stateKeys _ (clookup_some_mem _ k cv hc)
      rw [hk] at this; simp [pState] at this
  by_cases h : st = true ∧ k = kTemp b.hdr.height
  · simp only [h, and_self, if_true]
  · simp only [h, hnr, if_false, hc]

theorem clearTemp_temp (s : St) (hnd : NoDupKeys s.db) (k : Bytes) (hk : k.head? = some 7) :
    slookup (clearTemp s).db k = none := by
  unfold clearTemp
  simp only
  rw [slookup_applyBatch]
  have hmap : (dbIterate s.db [7] (-1) true).map (fun kv => BOp.del kv.1) =
      ((dbIterate s.db [7] (-1) true).map (·.1)).map BOp.del := by rw [List.map_map]; rfl
  rw [hmap, bval_dels]
  cases hl : slookup s.db k with
  | none =>
    by_cases hm : k ∈ (dbIterate s.db [7] (-1) true).map (·.1)
    · rw [if_pos hm]
    · rw [if_neg hm]
  | some v =>
    have : k ∈ (dbIterate s.db [7] (-1) true).map (·.1) := by
      refine List.mem_map.mpr ⟨(k, v), ?_, rfl⟩
      apply (C12_db_iterate_mem s.db [7] true (k, v)).mpr
      exact ⟨(slookup_iff_mem s.db hnd k v).mp hl, (hasPrefix_one k 7).mpr hk⟩
    rw [if_pos this]

/-- the table of temporary blocks after a trace -/
def tempAfter : (Bytes → Option Bytes) → List Eff → Bytes → Option Bytes
  | t, [], k => t k
  | t, .applied b _ rt :: r, k =>
    tempAfter (fun k' => if rt = true ∧ k' = kTemp b.hdr.height then none else t k') r k
  | t, .deleted b st _ :: r, k =>
    tempAfter (fun k' => if st = true ∧ k' = kTemp b.hdr.height then some (encBlock b) else t k') r k
  | _, .cleared :: r, k => tempAfter (fun _ => none) r k

theorem tempAfter_append : ∀ (a b : List Eff) (t : Bytes → Option Bytes) (k : Bytes),
    tempAfter t (a ++ b) k = tempAfter (tempAfter t a) b k := by
  intro a
  induction a with
  | nil => intro b t k; rfl
  | cons e r ih => intro b t k; cases e <;> simp only [List.cons_append, tempAfter, ih]

theorem tempAfter_congr : ∀ (tr : List Eff) (t t' : Bytes → Option Bytes),
    (∀ k, k.head? = some 7 → t k = t' k) → ∀ k, k.head? = some 7 → tempAfter t tr k = tempAfter t' tr k := by
  intro tr
  induction tr with
  | nil => intro t t' h k hk; exact h k hk
  | cons e r ih =>
    intro t t' h k hk
    cases e with
    | applied b x rt =>
      simp only [tempAfter]
      exact ih _ _ (fun k' hk' => by simp only [h k' hk']) k hk
    | deleted b st p =>
      simp only [tempAfter]
      exact ih _ _ (fun k' hk' => by simp only [h k' hk']) k hk
    | cleared => rfl

theorem temp_step {cd : Codecs} {cfg : Cfg} {slot : Slot} {base : Store} {baseH : Nat} {s : St}
    {c : Chain} (hR : Ref cd base baseH s c) (op : Op) (hp : op.prim)
    (hok : OpOK cd cfg slot base s c op) (k : Bytes) (hk : k.head? = some 7) :
    slookup (step cd cfg slot s op).db k = tempAfter (slookup s.db) (effOf cd cfg s op) k := by
  cases op with
  | process i => exact absurd hp (by simp [Op.prim])
  | apply b v x rt =>
    simp only [step, effOf]
    simp only [OpOK] at hok
    cases ha : apply cd cfg s b v x rt with
    | mk s' r =>
      by_cases hr : r = .ok
      · subst hr
        simp only [if_true, tempAfter]
        have hstep := hok (by rw [ha])
        obtain ⟨_, _, fin, _, _, _, _, _, hs'⟩ := apply_ok_inv ha
        rw [hs']
        exact apply_temp cd cfg s.db fin b x rt hstep.ov.nodup hstep.stateKeys k hk
      · simp only [hr, if_false, tempAfter]
        rw [apply_not_ok ha hr]
  | deleteTip st =>
    simp only [step, effOf]
    cases hd : deleteTip cd cfg s st with
    | mk s' r =>
      by_cases hr : r.removed
      · obtain ⟨tip, rest, fin, _, _, hc, hf, _, _, _, _, _⟩ := deleteTip_done_inv hd hr
        cases c with
        | nil =>
          exfalso
          have htip : tip.hdr.height = baseH := hR.cache.head tip (by rw [hc]; rfl)
          obtain ⟨f0, hf0, hb0, _⟩ := hR.db.finOk
          obtain ⟨_, _, fin', _, _, hc', hf', hlt', _⟩ := deleteTip_done_inv hd hr
          rw [hc] at hc'
          simp only [List.cons.injEq] at hc'
          rw [hf'] at hf0
          have : f0 = fin' := (Option.some.inj hf0).symm
          rw [← hc'.1] at hlt'
          omega
        | cons e c' =>
          obtain ⟨b, x⟩ := e
          obtain ⟨hdb, hhead, _⟩ := delete_db_eq hR hd hr
          have htb : tip = b := by
            rw [hc] at hhead; simpa using hhead
          subst htb
          rw [hc]
          simp only
          have hval : slookup s'.db k =
              if st = true ∧ k = kTemp tip.hdr.height then some (encBlock tip) else slookup s.db k := by
            rw [hdb]; exact delete_temp st hR.db hf k hk
          rcases hr with hr | hr <;> subst hr
          · simp only [if_true, tempAfter]; exact hval
          · simp only [reduceCtorEq, if_false, if_true, tempAfter]; exact hval
      · have hr' : r = .err ∨ r = .panic := by
          unfold Res.removed at hr
          cases r <;> simp at hr ⊢
        have hs : s' = s := deleteTip_not_ok hd hr'
        subst hs
        have e2 : ¬ r = Res.ok := fun h => hr (Or.inl h)
        have e3 : ¬ r = Res.errWritten := fun h => hr (Or.inr h)
        simp only [e2, e3, if_false]
        cases s'.cache <;> rfl
  | restart =>
    simp only [step, effOf, tempAfter]
    unfold restart
    split <;> rfl
  | clearTemp =>
    simp only [step, effOf, tempAfter]
    exact clearTemp_temp s hR.db.nodup k hk

theorem temp_runPrim {cd : Codecs} {cfg : Cfg} {slot : Slot} {base : Store} {baseH : Nat}
    (hbase : BaseOK cd base baseH) : ∀ (ops : List Op) (s : St) (c : Chain),
    (∀ o ∈ ops, o.prim) → Ref cd base baseH s c → RunOK cd cfg slot base s c ops →
    ∀ k, k.head? = some 7 →
      slookup (run cd cfg slot s ops).db k = tempAfter (slookup s.db) (tracePrim cd cfg slot s ops) k := by
  intro ops
  induction ops with
  | nil => intro s c _ _ _ k _; rfl
  | cons op r ih =>
    intro s c hp hR hok k hk
    have hR1 := (trans_step (cfg := cfg) (slot := slot) hbase hR op hok.1).ref
    rw [run_cons, ih _ _ (fun o ho => hp o (List.mem_cons_of_mem _ ho)) hR1 hok.2 k hk]
    simp only [tracePrim]
    rw [tempAfter_append]
    exact tempAfter_congr _ _ _
      (fun k' hk' => temp_step hR op (hp op List.mem_cons_self) hok.1 k' hk') k hk

/-- **The table of temporary blocks is a function of the effect trace.** -/
theorem temp_run {cd : Codecs} {cfg : Cfg} {slot : Slot} {base : Store} {baseH : Nat}
    (hbase : BaseOK cd base baseH) (ops : List Op) (s : St) (c : Chain)
    (hR : Ref cd base baseH s c) (hok : RunOK cd cfg slot base s c ops) (k : Bytes)
    (hk : k.head? = some 7) :
    slookup (run cd cfg slot s ops).db k = tempAfter (slookup s.db) (trace cd cfg slot s ops) k := by
  rw [run_flat]
  exact temp_runPrim hbase _ s c (flat_prim cd cfg slot ops s) hR
    (runOK_flat cd cfg slot base ops s c hok) k hk


/-! ### which keys of a new block can be in use -/

theorem kDiff_mem_allKeys (h : Nat) (b : Block) (hlt : h < u32) (hb : b.hdr.height < u32) :
    kDiff h ∈ allKeys b ↔ h = b.hdr.height := by
  simp only [allKeys, kHeader, kDiff, kHeight, kTxs, kAssets, kEvents, kTx, List.cons_append,
    List.nil_append, List.mem_cons, List.cons.injEq, List.mem_map]
  constructor
  · intro hm
    rcases hm with h1 | h1 | h1 | h1 | h1 | h1 | ⟨t, _, h1⟩
    · exact encU32_inj hlt hb h1.2
    · simp at h1
    · simp at h1
    · simp at h1
    · simp at h1
    · simp at h1
    · simp at h1
  · intro he; subst he; simp

theorem kEvents_mem_allKeys (h : Nat) (b : Block) (hlt : h < u32) (hb : b.hdr.height < u32) :
    kEvents h ∈ allKeys b ↔ h = b.hdr.height := by
  simp only [allKeys, kHeader, kDiff, kHeight, kTxs, kAssets, kEvents, kTx, List.cons_append,
    List.nil_append, List.mem_cons, List.cons.injEq, List.mem_map]
  constructor
  · intro hm
    rcases hm with h1 | h1 | h1 | h1 | h1 | h1 | ⟨t, _, h1⟩
    · simp at h1
    · simp at h1
    · simp at h1
    · simp at h1
    · simp at h1
    · exact encU32_inj hlt hb h1.2
    · simp at h1
  · intro he; subst he; simp

/-- the base database holds no state diff / events above its tip and no transaction-id list or
asset list of a block whose header it does not hold (true of the database right after the genesis
block, and of every database this node software wrote) -/
structure BaseClean (base : Store) (baseH : Nat) : Prop where
  diff : ∀ h, baseH < h → slookup base (kDiff h) = none
  events : ∀ h, baseH < h → slookup base (kEvents h) = none
  txs : ∀ id v, slookup base (kTxs id) = some v → ∃ hb, slookup base (kHeader id) = some hb
  assets : ∀ id v, slookup base (kAssets id) = some v → ∃ hb, slookup base (kHeader id) = some hb

/-- **The freshness hypothesis is about transaction ids only**: for a block at height tip + 1
whose id is not stored, all its database keys are free iff none of its transactions is stored. -/
theorem fresh_iff_no_shared_tx {cd : Codecs} {base : Store} {baseH : Nat} {c : Chain}
    (hbase : BaseOK cd base baseH) (hclean : BaseClean base baseH) (hwf : ChainWF cd base baseH c)
    (b : Block) (hh : b.hdr.height = tipH baseH c + 1) (hb : b.hdr.height < u32)
    (hid : spec cd base c (kHeader b.hdr.id) = none) :
    (∀ k ∈ allKeys b, spec cd base c k = none) ↔ (∀ t ∈ b.txs, spec cd base c (kTx t.1) = none) := by
  constructor
  · intro h t ht
    exact h _ (by simp only [allKeys, List.mem_append, List.mem_map]; exact Or.inr ⟨t, ht, rfl⟩)
  · intro htx k hk
    have hge := tipH_ge hwf
    have hchain : ∀ bx ∈ c, bx.1.hdr.height < b.hdr.height ∧ bx.1.hdr.height < u32 := by
      intro bx hbx
      have := (chain_heights hwf bx hbx).2
      omega
    unfold allKeys at hk
    simp only [List.cons_append, List.nil_append, List.mem_cons, List.mem_map] at hk
    rcases hk with h | h | h | h | h | h | ⟨t, ht, h⟩
    · subst h
      cases hs : spec cd base c (kDiff b.hdr.height) with
      | none => rfl
      | some v =>
        exfalso
        have hns : ¬ isStateKey (kDiff b.hdr.height) := by simp [isStateKey, kDiff, pState]
        rcases spec_some_origin hwf hns hs with ⟨bx, hbx, hm⟩ | hb'
        · have := (kDiff_mem_allKeys _ bx.1 hb (hchain bx hbx).2).mp hm
          have := (hchain bx hbx).1
          omega
        · rw [hclean.diff _ (by omega)] at hb'; cases hb'
    · subst h; exact hid
    · subst h
      cases hs : spec cd base c (kHeight b.hdr.height) with
      | none => rfl
      | some v =>
        exfalso
        rcases spec_some_origin hwf (kHeight_not_state _) hs with ⟨bx, hbx, hm⟩ | hb'
        · have := (kHeight_mem_allKeys _ bx.1 hb (hchain bx hbx).2).mp hm
          have := (hchain bx hbx).1
          omega
        · obtain ⟨h', hle, he⟩ := hbase.idxShape _ _ hb' (by simp [kHeight])
          simp only [kHeight, List.cons.injEq, true_and] at he
          have := encU32_inj hb (by omega) he
          omega
    · subst h
      cases hs : spec cd base c (kTxs b.hdr.id) with
      | none => rfl
      | some v =>
        exfalso
        rcases spec_some_origin hwf (kTxs_not_state _) hs with ⟨bx, hbx, hm⟩ | hb'
        · have hide := (kTxs_mem_allKeys _ bx.1).mp hm
          have := (stored_member hwf bx hbx).header
          rw [← hide, hid] at this; cases this
        · obtain ⟨hb0, hhb0⟩ := hclean.txs _ _ hb'
          rw [spec_base_present hwf (kHeader_not_state _) hhb0] at hid; cases hid
    · subst h
      cases hs : spec cd base c (kAssets b.hdr.id) with
      | none => rfl
      | some v =>
        exfalso
        rcases spec_some_origin hwf (kAssets_not_state _) hs with ⟨bx, hbx, hm⟩ | hb'
        · have hide := (kAssets_mem_allKeys _ bx.1).mp hm
          have := (stored_member hwf bx hbx).header
          rw [← hide, hid] at this; cases this
        · obtain ⟨hb0, hhb0⟩ := hclean.assets _ _ hb'
          rw [spec_base_present hwf (kHeader_not_state _) hhb0] at hid; cases hid
    · subst h
      cases hs : spec cd base c (kEvents b.hdr.height) with
      | none => rfl
      | some v =>
        exfalso
        have hns : ¬ isStateKey (kEvents b.hdr.height) := by simp [isStateKey, kEvents, pState]
        rcases spec_some_origin hwf hns hs with ⟨bx, hbx, hm⟩ | hb'
        · have := (kEvents_mem_allKeys _ bx.1 hb (hchain bx hbx).2).mp hm
          have := (hchain bx hbx).1
          omega
        · rw [hclean.events _ (by omega)] at hb'; cases hb'
    · subst h; exact htx t ht


/-! ### unfolding the trace -/

theorem flat_of_prim (cd : Codecs) (cfg : Cfg) (slot : Slot) : ∀ (ops : List Op) (s : St),
    (∀ o ∈ ops, o.prim) → flat cd cfg slot s ops = ops := by
  intro ops
  induction ops with
  | nil => intro s _; rfl
  | cons op r ih =>
    intro s h
    have hp := h op List.mem_cons_self
    simp only [flat]
    rw [ih _ (fun o ho => h o (List.mem_cons_of_mem _ ho))]
    cases op with
    | process i => exact absurd hp (by simp [Op.prim])
    | apply b v x rt => rfl
    | deleteTip st => rfl
    | restart => rfl
    | clearTemp => rfl

theorem trace_cons (cd : Codecs) (cfg : Cfg) (slot : Slot) (s : St) (op : Op) (r : List Op) :
    trace cd cfg slot s (op :: r) =
      trace cd cfg slot s [op] ++ trace cd cfg slot (step cd cfg slot s op) r := by
  have h : op :: r = [op] ++ r := rfl
  rw [h, trace_append]
  rfl

theorem trace_process (cd : Codecs) (cfg : Cfg) (slot : Slot) (s : St) (i : Incoming) :
    trace cd cfg slot s [.process i] = trace cd cfg slot s (processOps cd cfg slot s i) := by
  unfold trace
  rw [flat_of_prim cd cfg slot (processOps cd cfg slot s i) s (processOps_prim cd cfg slot s i)]
  simp only [flat, primOps, List.append_nil]

end LiskVerif.Node
