/-
Transitions between refined states: what every operation (and therefore every operation sequence)
guarantees about the finalized height, the finalized prefix of the chain and the finalize events.
-/
import LiskVerif.Lemmas.NodeOps

namespace LiskVerif.Node
open LiskVerif LiskVerif.DiffDB

/-! ### the header served for a height, as a function of the chain -/

def hdrSpec (cd : Codecs) (base : Store) (c : Chain) (h : Nat) : Option Hdr :=
  match spec cd base c (kHeight h) with
  | none => none
  | some id =>
    match spec cd base c (kHeader id) with
    | none => none
    | some hb => cd.decHdr hb

theorem hdrDB_eq_hdrSpec {cd : Codecs} {base : Store} {baseH : Nat} {db : Store} {c : Chain}
    (hR : DbRef cd base baseH db c) (h : Nat) : hdrDB cd db h = hdrSpec cd base c h := by
  obtain ⟨f, hf, _, _⟩ := hR.finOk
  unfold hdrDB hdrSpec headerOf
  rw [hR.agree f hf _ (kHeight_not_vol f h)]
  cases spec cd base c (kHeight h) with
  | none => rfl
  | some id => simp only; rw [hR.agree f hf _ (kHeader_not_vol f id)]; rfl

/-- an index entry up to the tip points to a stored header -/
theorem index_has_header {cd : Codecs} {base : Store} {baseH : Nat} {c : Chain}
    (hwf : ChainWF cd base baseH c) (hbase : BaseOK cd base baseH) (hT : tipH baseH c < u32)
    {h : Nat} (hle : h ≤ tipH baseH c) {id : Bytes} (hi : spec cd base c (kHeight h) = some id) :
    ∃ hb, spec cd base c (kHeader id) = some hb := by
  by_cases hb : baseH < h
  · obtain ⟨bx, hbx, hh⟩ := chain_covers hwf h hb hle
    have hs := stored_member hwf bx hbx
    have := hs.height
    rw [hh, hi] at this
    have hid : id = bx.1.hdr.id := Option.some.inj this
    exact ⟨_, hid ▸ hs.header⟩
  · rcases spec_some_origin hwf (kHeight_not_state h) hi with ⟨bx, hbx, hm⟩ | hbs
    · exfalso
      have hbl := chain_heights hwf bx hbx
      have := (kHeight_mem_allKeys h bx.1 (by omega) (by omega)).mp hm
      omega
    · obtain ⟨hb0, hhb0⟩ := hbase.idxHasHdr h id (by omega) hbs
      exact ⟨hb0, spec_base_present hwf (kHeader_not_state id) hhb0⟩

theorem hdrSpec_cons {cd : Codecs} {base : Store} {baseH : Nat} {c : Chain} {b : Block} {x : Exec}
    (hwf : ChainWF cd base baseH ((b, x) :: c)) (hbase : BaseOK cd base baseH)
    {h : Nat} (hle : h ≤ tipH baseH c) : hdrSpec cd base ((b, x) :: c) h = hdrSpec cd base c h := by
  obtain ⟨hstep, hheight, hwf'⟩ := hwf
  have hbl := hstep.block.heightLt
  have hk1 : kHeight h ∉ allKeys b := fun hm => by
    have := (kHeight_mem_allKeys h b (by omega) hbl).mp hm
    omega
  unfold hdrSpec
  rw [spec_cons_other cd base b x c _ hstep.stateKeys hk1 (kHeight_not_state h)]
  cases hi : spec cd base c (kHeight h) with
  | none => rfl
  | some id =>
    simp only
    obtain ⟨hb, hhb⟩ := index_has_header hwf' hbase (by omega) hle hi
    rw [spec_present_cons hstep (kHeader_not_state id) hhb, hhb]

theorem cacheAt_some {c : List Block} {h : Nat} {t : Block} (hc : cacheAt c h = some t) :
    t ∈ c ∧ t.hdr.height = h := by
  unfold cacheAt at hc
  exact ⟨List.mem_of_find?_eq_some hc, by simpa using List.find?_some hc⟩

/-- the header the node serves for a height (cache first, then database) is the chain's -/
theorem headerAt_ref {cd : Codecs} {base : Store} {baseH : Nat} {s : St} {c : Chain}
    (hbase : BaseOK cd base baseH) (hR : Ref cd base baseH s c) (h : Nat) :
    headerAt cd s h = hdrSpec cd base c h := by
  have hdbspec := hdrDB_eq_hdrSpec hR.db h
  unfold headerAt
  cases hc : cacheAt s.cache h with
  | none =>
    simp only
    rw [← hdbspec]
    rfl
  | some t =>
    simp only
    obtain ⟨htm, hth⟩ := cacheAt_some hc
    have htT : h ≤ tipH baseH c := by
      cases hcache : s.cache with
      | nil => rw [hcache] at htm; cases htm
      | cons t0 r =>
        have h1 := hR.cache.head t0 (by rw [hcache]; rfl)
        have h2 := consec_le (hcache ▸ hR.cache.consec) t (hcache ▸ htm)
        omega
    by_cases hb : baseH < h
    · obtain ⟨bx, hbx, hh⟩ := chain_covers hR.db.wf h hb htT
      have hte : t = bx.1 := hR.cache.chain t htm bx hbx (by rw [hh, hth])
      have hs := stored_member hR.db.wf bx hbx
      have hbok : cd.decHdr bx.1.hdrBytes = some bx.1.hdr := by
        obtain ⟨hg, _⟩ := getBlock_member hR.db hbx
        obtain ⟨hb1, h1, h2⟩ := getBlock_some_hdr hg
        obtain ⟨f, hf, _, _⟩ := hR.db.finOk
        rw [hR.db.agree f hf _ (kHeader_not_vol f _), hs.header] at h1
        rw [← Option.some.inj h1] at h2
        exact h2
      unfold hdrSpec
      rw [← hh, hs.height]
      simp only
      rw [hs.header]
      simp only
      rw [hbok, hte]
    · have hle : h ≤ baseH := by omega
      have hbh := hR.cache.baseHdr t htm (by omega)
      rw [hth] at hbh
      rw [← hbh, ← hdbspec]
      -- the database agrees with the base on the header of a base height
      unfold hdrDB
      rw [db_index_base hR.db hle]
      cases hi : slookup base (kHeight h) with
      | none => rfl
      | some id =>
        simp only
        obtain ⟨hb0, hhb0⟩ := hbase.idxHasHdr h id hle hi
        obtain ⟨f, hf, _, _⟩ := hR.db.finOk
        unfold headerOf
        rw [hR.db.agree f hf _ (kHeader_not_vol f id),
          spec_base_present hR.db.wf (kHeader_not_state id) hhb0, hhb0]

/-! ### finalize events -/

/-- `[(f0,f1),(f1,f2),…]`: consecutive strict raises from `a` to `b` -/
def IsChain : Nat → List (Nat × Nat) → Nat → Prop
  | a, [], b => a = b
  | a, (o, n) :: r, b => o = a ∧ a < n ∧ IsChain n r b

/-- the (original, next) pairs of the finalize events of a log (newest first), oldest first -/
def finPairs : List Ev → List (Nat × Nat)
  | [] => []
  | .finalize o n _ :: r => finPairs r ++ [(o, n)]
  | .new _ _ :: r => finPairs r
  | .delete _ _ :: r => finPairs r

theorem isChain_append : ∀ (l1 l2 : List (Nat × Nat)) (a b c : Nat),
    IsChain a l1 b → IsChain b l2 c → IsChain a (l1 ++ l2) c := by
  intro l1
  induction l1 with
  | nil => intro l2 a b c h1 h2; simp only [IsChain] at h1; subst h1; exact h2
  | cons e r ih =>
    obtain ⟨o, n⟩ := e
    intro l2 a b c h1 h2
    exact ⟨h1.1, h1.2.1, ih l2 n b c h1.2.2 h2⟩

theorem finPairs_append (l1 l2 : List Ev) : finPairs (l1 ++ l2) = finPairs l2 ++ finPairs l1 := by
  induction l1 with
  | nil => simp [finPairs]
  | cons e r ih =>
    cases e <;> simp [finPairs, ih]

theorem isChain_le : ∀ (l : List (Nat × Nat)) (a b : Nat), IsChain a l b → a ≤ b := by
  intro l
  induction l with
  | nil => intro a b h; simp only [IsChain] at h; omega
  | cons e r ih =>
    obtain ⟨o, n⟩ := e
    intro a b h
    have := ih n b h.2.2
    have := h.2.1
    omega

/-! ### transitions -/

structure Trans (cd : Codecs) (base : Store) (baseH : Nat) (s : St) (c : Chain) (s' : St)
    (c' : Chain) : Prop where
  ref : Ref cd base baseH s' c'
  fin : ∃ f f' evs, finOf s.db = some f ∧ finOf s'.db = some f' ∧ s'.log = evs ++ s.log ∧
    IsChain f (finPairs evs) f'
  pre : ∀ f, finOf s.db = some f → ∀ h, h ≤ f → hdrSpec cd base c' h = hdrSpec cd base c h

theorem trans_refl {cd : Codecs} {base : Store} {baseH : Nat} {s : St} {c : Chain}
    (hR : Ref cd base baseH s c) : Trans cd base baseH s c s c := by
  obtain ⟨f, hf, _, _⟩ := hR.db.finOk
  exact ⟨hR, ⟨f, f, [], hf, hf, rfl, rfl⟩, fun _ _ _ _ => rfl⟩

theorem trans_trans {cd : Codecs} {base : Store} {baseH : Nat} {s1 s2 s3 : St} {c1 c2 c3 : Chain}
    (h12 : Trans cd base baseH s1 c1 s2 c2) (h23 : Trans cd base baseH s2 c2 s3 c3) :
    Trans cd base baseH s1 c1 s3 c3 := by
  obtain ⟨f1, f2, e1, hf1, hf2, hl1, hc1⟩ := h12.fin
  obtain ⟨f2', f3, e2, hf2', hf3, hl2, hc2⟩ := h23.fin
  have : f2' = f2 := by rw [hf2] at hf2'; exact (Option.some.inj hf2').symm
  subst this
  refine ⟨h23.ref, ⟨f1, f3, e2 ++ e1, hf1, hf3, ?_, ?_⟩, ?_⟩
  · rw [hl2, hl1, List.append_assoc]
  · rw [finPairs_append]; exact isChain_append _ _ _ _ _ hc1 hc2
  · intro f hf h hle
    have hfe : f = f1 := by rw [hf1] at hf; exact (Option.some.inj hf).symm
    subst hfe
    have := isChain_le _ _ _ hc1
    rw [h23.pre f2' hf2 h (by omega), h12.pre f hf1 h hle]

theorem trans_same_db {cd : Codecs} {base : Store} {baseH : Nat} {s s' : St} {c : Chain}
    (hR' : Ref cd base baseH s' c) (hfin : finOf s'.db = finOf s.db) (hlog : s'.log = s.log) :
    Trans cd base baseH s c s' c := by
  obtain ⟨f, hf, _, _⟩ := hR'.db.finOk
  exact ⟨hR', ⟨f, f, [], hfin ▸ hf, hf, by simp [hlog], rfl⟩, fun _ _ _ _ => rfl⟩

theorem trans_apply {cd : Codecs} {cfg : Cfg} {base : Store} {baseH : Nat} {s s' : St} {c : Chain}
    {b : Block} {valid : Bool} {x : Exec} {rt : Bool} (hbase : BaseOK cd base baseH)
    (hR : Ref cd base baseH s c) (hstep : StepOK cd base c b x)
    (hok : apply cd cfg s b valid x rt = (s', .ok)) : Trans cd base baseH s c s' ((b, x) :: c) := by
  have hR' := ref_apply hR hstep hok
  obtain ⟨tip, rest, fin, hc, hh, _, _, hf, hs'⟩ := apply_ok_inv hok
  obtain ⟨f0, hf0, _, hle0⟩ := hR.db.finOk
  have hfe : f0 = fin := by rw [hf] at hf0; exact (Option.some.inj hf0).symm
  subst hfe
  have htip : tip.hdr.height = tipH baseH c := hR.cache.head tip (by rw [hc]; rfl)
  have hheight : b.hdr.height = tipH baseH c + 1 := hR'.db.wf.2.1
  have hfin' := (dbRef_apply (cfg := cfg) (rt := rt) hR.db hstep hf hheight).2
  refine ⟨hR', ⟨f0, nextFin f0 x.mhpc, applyLog f0 b x, hf, by rw [hs']; exact hfin', by rw [hs'], ?_⟩, ?_⟩
  · unfold applyLog nextFin
    split
    · rename_i hlt
      simp only [finPairs, List.nil_append, IsChain]
      exact ⟨trivial, hlt, trivial⟩
    · simp only [finPairs, IsChain]
  · intro f hf' h hle
    have hfe : f = f0 := by rw [hf] at hf'; exact (Option.some.inj hf').symm
    subst hfe
    exact hdrSpec_cons hR'.db.wf hbase (by omega)

theorem trans_delete {cd : Codecs} {cfg : Cfg} {base : Store} {baseH : Nat} {s s' : St} {c0 : Chain}
    {st : Bool} {r : Res} (hbase : BaseOK cd base baseH)
    (hR : Ref cd base baseH s c0) (hok : deleteTip cd cfg s st = (s', r)) (hr : r.removed) :
    Trans cd base baseH s c0 s' c0.tail := by
  obtain ⟨b, x, c, hc0, hR', hfin, hlog, _, hlt, _⟩ := ref_delete hbase hR hok hr
  subst hc0
  obtain ⟨f, hf, _, _⟩ := hR.db.finOk
  have hfin2 : ∃ evs, s'.log = evs ++ s.log ∧ finPairs evs = [] := by
    rcases hlog with h | h
    · exact ⟨[Ev.delete b.hdr.id b.hdr.height], by rw [h]; rfl, rfl⟩
    · exact ⟨[], by rw [h]; rfl, rfl⟩
  obtain ⟨evs, he1, he2⟩ := hfin2
  refine ⟨hR', ⟨f, f, evs, hf, by rw [hfin]; exact hf, he1, by rw [he2]; rfl⟩, ?_⟩
  intro f' hf' h hle
  have := hlt f' hf'
  have hh : b.hdr.height = tipH baseH c + 1 := hR.db.wf.2.1
  exact (hdrSpec_cons hR.db.wf hbase (by omega)).symm

end LiskVerif.Node

namespace LiskVerif.Node
open LiskVerif LiskVerif.DiffDB

/-! ### operations that do not succeed -/

/-- `processValidated` either succeeds or leaves the node unchanged -/
theorem apply_not_ok {cd : Codecs} {cfg : Cfg} {s s' : St} {b : Block} {valid : Bool} {x : Exec}
    {rt : Bool} {r : Res} (h : apply cd cfg s b valid x rt = (s', r)) (hr : r ≠ .ok) : s' = s := by
  unfold apply at h
  cases hc : s.cache with
  | nil => rw [hc] at h; simp only [Prod.mk.injEq] at h; exact h.1.symm
  | cons tip rest =>
    rw [hc] at h
    simp only at h
    by_cases h1 : b.hdr.height ≠ (tip.hdr.height + 1) % u32
    · rw [if_pos h1] at h; simp only [Prod.mk.injEq] at h; exact h.1.symm
    · rw [if_neg h1] at h
      by_cases h2 : b.hdr.previousBlockID ≠ tip.hdr.id
      · rw [if_pos h2] at h; simp only [Prod.mk.injEq] at h; exact h.1.symm
      · rw [if_neg h2] at h
        cases hv : valid with
        | false => simp only [hv, Bool.not_false, if_true, Prod.mk.injEq] at h; exact h.1.symm
        | true =>
          simp only [hv, Bool.not_true, Bool.false_eq_true, if_false] at h
          cases hf : finOf s.db with
          | none => simp only [hf, Prod.mk.injEq] at h; exact h.1.symm
          | some fin =>
            simp only [hf] at h
            have hpush : push cfg (tip :: rest) b =
                some (b :: (if (tip :: rest).length ≥ cfg.maxCache then (tip :: rest).dropLast else tip :: rest)) := by
              simp only [push, h1, if_false]
            rw [hpush] at h
            simp only [Prod.mk.injEq] at h
            exact absurd h.2.symm hr

/-! ### the chain after an operation (ghost state) -/

/-- the chain after `Executer.process` -/
def processC (cd : Codecs) (cfg : Cfg) (slot : Slot) (s : St) (c : Chain) (i : Incoming) : Chain :=
  match s.cache with
  | [] => c
  | tip :: _ =>
    match forkChoice slot tip.hdr i.block.hdr i.flags with
    | .valid =>
      if !i.staticValid then c
      else if (apply cd cfg s i.block i.valid i.exec false).2 = .ok then (i.block, i.exec) :: c else c
    | .tieBreak =>
      if !i.staticValid then c
      else if (deleteTip cd cfg s false).2 = .errWritten then c.tail
      else if (deleteTip cd cfg s false).2 = .ok then
        let s1 := (deleteTip cd cfg s false).1
        if (apply cd cfg s1 i.block i.valid i.exec false).2 = .ok then (i.block, i.exec) :: c.tail
        else
          let s2 := (apply cd cfg s1 i.block i.valid i.exec false).1
          if (apply cd cfg s2 tip i.oldValid i.oldExec false).2 = .ok then (tip, i.oldExec) :: c.tail
          else c.tail
      else c
    | _ => c

def stepC (cd : Codecs) (cfg : Cfg) (slot : Slot) (s : St) (c : Chain) : Op → Chain
  | .apply b v x rt => if (apply cd cfg s b v x rt).2 = .ok then (b, x) :: c else c
  | .deleteTip st =>
    if (deleteTip cd cfg s st).2 = .ok ∨ (deleteTip cd cfg s st).2 = .errWritten then c.tail else c
  | .restart => c
  | .process i => processC cd cfg slot s c i
  | .clearTemp => c

/-- hypotheses on the inputs of one operation, relative to the chain it is applied to -/
def OpOK (cd : Codecs) (cfg : Cfg) (slot : Slot) (base : Store) (s : St) (c : Chain) : Op → Prop
  | .apply b v x rt => (apply cd cfg s b v x rt).2 = .ok → StepOK cd base c b x
  | .process i =>
    match s.cache with
    | [] => True
    | tip :: _ =>
      match forkChoice slot tip.hdr i.block.hdr i.flags with
      | .valid => StepOK cd base c i.block i.exec
      | .tieBreak => StepOK cd base c.tail i.block i.exec ∧ StepOK cd base c.tail tip i.oldExec
      | _ => True
  | _ => True

theorem trans_process {cd : Codecs} {cfg : Cfg} {slot : Slot} {base : Store} {baseH : Nat} {s : St}
    {c : Chain} {i : Incoming} (hbase : BaseOK cd base baseH)
    (hR : Ref cd base baseH s c) (hok : OpOK cd cfg slot base s c (.process i)) :
    Trans cd base baseH s c (process cd cfg slot s i).1 (processC cd cfg slot s c i) := by
  unfold process processC
  unfold OpOK at hok
  cases hc : s.cache with
  | nil => simp only; exact trans_refl hR
  | cons tip rest =>
    rw [hc] at hok
    simp only at hok ⊢
    cases hv : forkChoice slot tip.hdr i.block.hdr i.flags with
    | identical => exact trans_refl hR
    | doubleForging => exact trans_refl hR
    | differentChain => exact trans_refl hR
    | discard => exact trans_refl hR
    | valid =>
      rw [hv] at hok
      simp only at hok ⊢
      cases hsv : i.staticValid with
      | false => simp only [Bool.not_false, if_true]; exact trans_refl hR
      | true =>
        simp only [Bool.not_true, Bool.false_eq_true, if_false]
        cases ha : apply cd cfg s i.block i.valid i.exec false with
        | mk s' r =>
          cases r with
          | ok => simp only [if_true]; exact trans_apply hbase hR hok ha
          | err => simp only [reduceCtorEq, if_false]; rw [apply_not_ok ha (by simp)]; exact trans_refl hR
          | panic => simp only [reduceCtorEq, if_false]; rw [apply_not_ok ha (by simp)]; exact trans_refl hR
          | errWritten =>
            simp only [reduceCtorEq, if_false]; rw [apply_not_ok ha (by simp)]; exact trans_refl hR
    | tieBreak =>
      rw [hv] at hok
      simp only at hok ⊢
      cases hsv : i.staticValid with
      | false => simp only [Bool.not_false, if_true]; exact trans_refl hR
      | true =>
        simp only [Bool.not_true, Bool.false_eq_true, if_false]
        cases hd : deleteTip cd cfg s false with
        | mk s1 r1 =>
          cases r1 with
          | err => simp only [reduceCtorEq, if_false]; rw [deleteTip_not_ok hd (Or.inl rfl)]; exact trans_refl hR
          | panic => simp only [reduceCtorEq, if_false]; rw [deleteTip_not_ok hd (Or.inr rfl)]; exact trans_refl hR
          | errWritten =>
            simp only [if_true]
            exact trans_delete hbase hR hd (Or.inr rfl)
          | ok =>
            simp only [reduceCtorEq, if_false, if_true]
            have h1 := trans_delete hbase hR hd (Or.inl rfl)
            cases ha : apply cd cfg s1 i.block i.valid i.exec false with
            | mk s2 r2 =>
              cases r2 with
              | ok =>
                simp only [if_true]
                exact trans_trans h1 (trans_apply hbase h1.ref hok.1 ha)
              | err =>
                simp only [reduceCtorEq, if_false]
                have hs2 : s2 = s1 := apply_not_ok ha (by simp)
                subst hs2
                cases ha2 : apply cd cfg s2 tip i.oldValid i.oldExec false with
                | mk s3 r3 =>
                  cases r3 with
                  | ok => simp only [if_true]; exact trans_trans h1 (trans_apply hbase h1.ref hok.2 ha2)
                  | err => simp only [reduceCtorEq, if_false]; rw [apply_not_ok ha2 (by simp)]; exact h1
                  | panic => simp only [reduceCtorEq, if_false]; rw [apply_not_ok ha2 (by simp)]; exact h1
                  | errWritten => simp only [reduceCtorEq, if_false]; rw [apply_not_ok ha2 (by simp)]; exact h1
              | panic =>
                simp only [reduceCtorEq, if_false]
                have hs2 : s2 = s1 := apply_not_ok ha (by simp)
                subst hs2
                cases ha2 : apply cd cfg s2 tip i.oldValid i.oldExec false with
                | mk s3 r3 =>
                  cases r3 with
                  | ok => simp only [if_true]; exact trans_trans h1 (trans_apply hbase h1.ref hok.2 ha2)
                  | err => simp only [reduceCtorEq, if_false]; rw [apply_not_ok ha2 (by simp)]; exact h1
                  | panic => simp only [reduceCtorEq, if_false]; rw [apply_not_ok ha2 (by simp)]; exact h1
                  | errWritten => simp only [reduceCtorEq, if_false]; rw [apply_not_ok ha2 (by simp)]; exact h1
              | errWritten =>
                simp only [reduceCtorEq, if_false]
                have hs2 : s2 = s1 := apply_not_ok ha (by simp)
                subst hs2
                cases ha2 : apply cd cfg s2 tip i.oldValid i.oldExec false with
                | mk s3 r3 =>
                  cases r3 with
                  | ok => simp only [if_true]; exact trans_trans h1 (trans_apply hbase h1.ref hok.2 ha2)
                  | err => simp only [reduceCtorEq, if_false]; rw [apply_not_ok ha2 (by simp)]; exact h1
                  | panic => simp only [reduceCtorEq, if_false]; rw [apply_not_ok ha2 (by simp)]; exact h1
                  | errWritten => simp only [reduceCtorEq, if_false]; rw [apply_not_ok ha2 (by simp)]; exact h1

end LiskVerif.Node

namespace LiskVerif.Node
open LiskVerif LiskVerif.DiffDB

/-! ### every operation, every operation sequence -/

theorem trans_step {cd : Codecs} {cfg : Cfg} {slot : Slot} {base : Store} {baseH : Nat} {s : St}
    {c : Chain} (hbase : BaseOK cd base baseH) (hR : Ref cd base baseH s c)
    (op : Op) (hok : OpOK cd cfg slot base s c op) :
    Trans cd base baseH s c (step cd cfg slot s op) (stepC cd cfg slot s c op) := by
  cases op with
  | apply b v x rt =>
    simp only [step, stepC]
    simp only [OpOK] at hok
    cases ha : apply cd cfg s b v x rt with
    | mk s' r =>
      cases r with
      | ok => simp only [if_true]; exact trans_apply hbase hR (hok (by rw [ha])) ha
      | err => simp only [reduceCtorEq, if_false]; rw [apply_not_ok ha (by simp)]; exact trans_refl hR
      | panic => simp only [reduceCtorEq, if_false]; rw [apply_not_ok ha (by simp)]; exact trans_refl hR
      | errWritten => simp only [reduceCtorEq, if_false]; rw [apply_not_ok ha (by simp)]; exact trans_refl hR
  | deleteTip st =>
    simp only [step, stepC]
    cases hd : deleteTip cd cfg s st with
    | mk s' r =>
      cases r with
      | ok => simp only [true_or, if_true]; exact trans_delete hbase hR hd (Or.inl rfl)
      | errWritten => simp only [or_true, if_true]; exact trans_delete hbase hR hd (Or.inr rfl)
      | err =>
        simp only [reduceCtorEq, or_self, if_false]
        rw [deleteTip_not_ok hd (Or.inl rfl)]; exact trans_refl hR
      | panic =>
        simp only [reduceCtorEq, or_self, if_false]
        rw [deleteTip_not_ok hd (Or.inr rfl)]; exact trans_refl hR
  | restart =>
    simp only [step, stepC]
    obtain ⟨h1, h2, h3⟩ := ref_restart (cfg := cfg) hbase hR
    exact trans_same_db h1 (by rw [h2]) h3
  | process i => exact trans_process hbase hR hok
  | clearTemp =>
    simp only [step, stepC]
    obtain ⟨h1, h2, h3⟩ := ref_clearTemp hR
    exact trans_same_db h1 h2 h3

def runC (cd : Codecs) (cfg : Cfg) (slot : Slot) : St → Chain → List Op → Chain
  | _, c, [] => c
  | s, c, op :: r => runC cd cfg slot (step cd cfg slot s op) (stepC cd cfg slot s c op) r

/-- the hypotheses `OpOK` along an operation sequence -/
def RunOK (cd : Codecs) (cfg : Cfg) (slot : Slot) (base : Store) : St → Chain → List Op → Prop
  | _, _, [] => True
  | s, c, op :: r =>
    OpOK cd cfg slot base s c op ∧
      RunOK cd cfg slot base (step cd cfg slot s op) (stepC cd cfg slot s c op) r

theorem run_cons (cd : Codecs) (cfg : Cfg) (slot : Slot) (s : St) (op : Op) (r : List Op) :
    run cd cfg slot s (op :: r) = run cd cfg slot (step cd cfg slot s op) r := rfl

theorem trans_run {cd : Codecs} {cfg : Cfg} {slot : Slot} {base : Store} {baseH : Nat}
    (hbase : BaseOK cd base baseH) : ∀ (ops : List Op) (s : St) (c : Chain),
    Ref cd base baseH s c → RunOK cd cfg slot base s c ops →
    Trans cd base baseH s c (run cd cfg slot s ops) (runC cd cfg slot s c ops) := by
  intro ops
  induction ops with
  | nil => intro s c hR _; exact trans_refl hR
  | cons op r ih =>
    intro s c hR hok
    have h1 := trans_step (cfg := cfg) (slot := slot) hbase hR op hok.1
    rw [run_cons]
    exact trans_trans h1 (ih _ _ h1.ref hok.2)

theorem run_append (cd : Codecs) (cfg : Cfg) (slot : Slot) (s : St) (a b : List Op) :
    run cd cfg slot s (a ++ b) = run cd cfg slot (run cd cfg slot s a) b := by
  unfold run; rw [List.foldl_append]

theorem runC_append (cd : Codecs) (cfg : Cfg) (slot : Slot) : ∀ (a b : List Op) (s : St) (c : Chain),
    runC cd cfg slot s c (a ++ b) =
      runC cd cfg slot (run cd cfg slot s a) (runC cd cfg slot s c a) b := by
  intro a
  induction a with
  | nil => intro b s c; rfl
  | cons op r ih => intro b s c; simp only [List.cons_append, runC, run_cons]; exact ih b _ _

theorem runOK_append (cd : Codecs) (cfg : Cfg) (slot : Slot) (base : Store) :
    ∀ (a b : List Op) (s : St) (c : Chain), RunOK cd cfg slot base s c (a ++ b) →
      RunOK cd cfg slot base s c a ∧
      RunOK cd cfg slot base (run cd cfg slot s a) (runC cd cfg slot s c a) b := by
  intro a
  induction a with
  | nil => intro b s c h; exact ⟨trivial, h⟩
  | cons op r ih =>
    intro b s c h
    simp only [List.cons_append, RunOK] at h
    obtain ⟨h1, h2⟩ := ih b _ _ h.2
    exact ⟨⟨h.1, h1⟩, h2⟩

end LiskVerif.Node
