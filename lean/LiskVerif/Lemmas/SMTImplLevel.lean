/-
One stored level of the trie refines the specification: `updateNodes` over a subtree that arranges the entries `es`
returns a layout tree arranging `applyE es ops`, and `updateSubtree` stores and returns the collapsed tree, whose
root is the specification root of the updated entries – provided the level below does the same (`BottomOK`).
-/
import LiskVerif.Lemmas.SMTImplNode
import LiskVerif.Lemmas.SMTImplCollapse

namespace LiskVerif.SMTImpl
open LiskVerif LiskVerif.SMT

/-- how the loop `updateNodes` continues after the nodes of the tree `t` were replaced by those of `t'` -/
def contNodes (x : St (NS × Nat)) (t' : LT) (dpt : Nat) : St (NS × Nat) :=
  match x with
  | (db2, .error e) => (db2, .error e)
  | (db2, .ok (rs, off)) => (db2, .ok ((t'.nodes ++ rs.1, t'.depths dpt ++ rs.2), off))

theorem contNodes_br (x : St (NS × Nat)) (tl tr : LT) (dpt : Nat) :
    contNodes (contNodes x tr (dpt + 1)) tl (dpt + 1) = contNodes x (.br tl tr) dpt := by
  obtain ⟨db2, r⟩ := x
  cases r with
  | error e => rfl
  | ok v => obtain ⟨rs, off⟩ := v; simp [contNodes, LT.nodes, LT.depths]

/-- **the loop over the nodes of a subtree arranges the updated entries** -/
theorem updateNodes_arr (c : Cfg) (W : World) (lower : DB → List KV → SubTree → Nat → St SubTree) (height dB : Nat)
    (hB : BottomOK c W lower height dB) :
    ∀ (T : LT) (rem d : Nat) (es : List Entry) (db : DB), Arr c.H (W.S db) rem d T es →
    ∀ (dpt : Nat) (pre : Bits) (ns : List Node) (hs : List Nat) (binsT binsRest : List (List KV)) (off : Nat)
      (ops : List Entry),
      rem = c.sth - dpt → dpt ≤ c.sth → pre.length = height + dpt → d = rem + dB →
      WFE d es → WFE d ops → (∀ e ∈ es, Under pre e) → (∀ o ∈ ops, Under pre o) →
      (∀ e ∈ es, W.EOK e.key e.value) → (∀ o ∈ ops, W.OOK o.key o.value) →
      W.IOK d es → W.IOK d (applyE es ops) →
      BinsOK rem binsT ops →
      ∃ db1 T', updateNodes c lower height (T.nodes ++ ns) (T.depths dpt ++ hs) db (binsT ++ binsRest) off =
          contNodes (updateNodes c lower height ns hs db1 binsRest (off + 2 ^ (c.sth - dpt))) T' dpt ∧
        Arr c.H (W.S db1) rem d T' (applyE es ops) ∧ W.F pre db db1 := by
  intro T
  induction T with
  | tip n =>
    intro rem d es db hA dpt pre ns hs binsT binsRest off ops hrem hdpt hpre hrd he ho hue huo hev hov hie hia hb
    cases hA with
    | tip _ _ _ _ ht =>
      have hbl := hb.length
      obtain ⟨db1, t, e1, a1, f1⟩ := updateNode_arr c W lower height dB hB rem d pre db binsT n es ops (by omega)
        (by rw [hpre]; omega) hrd ht he ho hue huo hev hov hie hia hb
      refine ⟨db1, t, ?_, a1, f1⟩
      simp only [LT.nodes, LT.depths, List.cons_append, List.nil_append]
      rw [updateNodes]
      rw [if_neg (by omega)]
      simp only
      have hlen : (binsT ++ binsRest).length ≥ 2 ^ (c.sth - dpt) := by simp [hbl, hrem]
      rw [if_neg (by omega)]
      have htake : (binsT ++ binsRest).take (2 ^ (c.sth - dpt)) = binsT := by
        rw [← hrem, ← hbl]; exact List.take_left
      have hdrop : (binsT ++ binsRest).drop (2 ^ (c.sth - dpt)) = binsRest := by
        rw [← hrem, ← hbl]; exact List.drop_left
      rw [htake, hdrop, ← hrem, e1]
      have : c.sth - rem = dpt := by omega
      simp only [this]
      cases hx : updateNodes c lower height ns hs db1 binsRest (off + 2 ^ rem) with
      | mk db2 r =>
        cases r with
        | error e => simp [contNodes]
        | ok v => obtain ⟨rs, off'⟩ := v; simp [contNodes]
  | br l r ihl ihr =>
    intro rem d es db hA dpt pre ns hs binsT binsRest off ops hrem hdpt hpre hrd he ho hue huo hev hov hie hia hb
    cases hA with
    | br rem d _ _ _ al ar =>
      obtain ⟨bl, br, rfl, hbll, hbL, hbR⟩ := hb
      have hevL : ∀ e ∈ goL es, W.EOK e.key e.value := fun e' he' => by
        obtain ⟨e, hm, _, hk, hv⟩ := mem_goL.mp he'; rw [hk, hv]; exact hev e hm
      have hevR : ∀ e ∈ goR es, W.EOK e.key e.value := fun e' he' => by
        obtain ⟨e, hm, _, hk, hv⟩ := mem_goR.mp he'; rw [hk, hv]; exact hev e hm
      have hovL : ∀ e ∈ goL ops, W.OOK e.key e.value := fun e' he' => by
        obtain ⟨e, hm, _, hk, hv⟩ := mem_goL.mp he'; rw [hk, hv]; exact hov e hm
      have hovR : ∀ e ∈ goR ops, W.OOK e.key e.value := fun e' he' => by
        obtain ⟨e, hm, _, hk, hv⟩ := mem_goR.mp he'; rw [hk, hv]; exact hov e hm
      have hieL := W.IOK_goL d es he hie
      have hieR := W.IOK_goR d es he hie
      have hiaL : W.IOK d (applyE (goL es) (goL ops)) := by
        rw [← goL_applyE]; exact W.IOK_goL d _ (wfe_applyE he ho) hia
      have hiaR : W.IOK d (applyE (goR es) (goR ops)) := by
        rw [← goR_applyE]; exact W.IOK_goR d _ (wfe_applyE he ho) hia
      obtain ⟨db1, tl, e1, a1, f1⟩ := ihl rem d (goL es) db al (dpt + 1) (pre ++ [false]) (r.nodes ++ ns) (r.depths (dpt + 1) ++ hs)
        bl (br ++ binsRest) off (goL ops) (by omega) (by omega) (by simp; omega) (by omega)
        (wfe_goL he) (wfe_goL ho) (under_goL hue) (under_goL huo) hevL hovL hieL hiaL hbL
      have ar' : Arr c.H (W.S db1) rem d r (goR es) :=
        Arr.frame W f1 (diverge_children pre false) (under_goR hue) ar
      obtain ⟨db2, tr, e2, a2, f2⟩ := ihr rem d (goR es) db1 ar' (dpt + 1) (pre ++ [true]) ns hs
        br binsRest (off + 2 ^ (c.sth - (dpt + 1))) (goR ops) (by omega) (by omega) (by simp; omega) (by omega)
        (wfe_goR he) (wfe_goR ho) (under_goR hue) (under_goR huo) hevR hovR hieR hiaR hbR
      refine ⟨db2, .br tl tr, ?_, ?_, ?_⟩
      · simp only [LT.nodes, LT.depths, List.append_assoc]
        rw [e1, e2, contNodes_br]
        have hp : off + 2 ^ (c.sth - (dpt + 1)) + 2 ^ (c.sth - (dpt + 1)) = off + 2 ^ (c.sth - dpt) := by
          have : c.sth - dpt = (c.sth - (dpt + 1)) + 1 := by omega
          rw [this, Nat.pow_succ]; omega
        rw [hp]
      · refine Arr.br rem d tl tr _ ?_ ?_
        · rw [goL_applyE]
          exact Arr.frame W f2 (diverge_children pre true) (under_applyE (under_goL hue) (under_goL huo)) a1
        · rw [goR_applyE]; exact a2
      · exact W.F_trans _ _ _ _ (W.F_ext _ _ _ _ f1) (W.F_ext _ _ _ _ f2)


/-- **one stored level**: `updateSubtree` on a subtree arranging `es` stores and returns the collapsed layout tree of
`applyE es ops`; its root is the specification root of the updated entries. -/
theorem updateSubtree_level (c : Cfg) (W : World) (fuel height dB : Nat)
    (hB : BottomOK c W (updateSubtree c fuel) height dB)
    (hs : (c.sth = 8 ∧ height % 8 = 0) ∨ (c.sth = 4 ∧ (height % 8 = 0 ∨ height % 8 = 4)))
    (d : Nat) (T : LT) (es : List Entry) (db : DB) (rt : Bytes) (pre : Bits) (kvs : List KV)
    (hA : Arr c.H (W.S db) c.sth d T es) (hpre : pre.length = height) (hd : d = c.sth + dB)
    (he : WFE d es) (ho : WFE d (kvs.map (opOf height)))
    (hue : ∀ e ∈ es, Under pre e) (huo : ∀ o ∈ kvs.map (opOf height), Under pre o)
    (hev : ∀ e ∈ es, W.EOK e.key e.value) (hov : ∀ o ∈ kvs.map (opOf height), W.OOK o.key o.value)
    (hie : W.IOK d es) (hia : W.IOK d (applyE es (kvs.map (opOf height))))
    (hk : ∀ kv ∈ kvs, height + c.sth ≤ 8 * kv.1.length) (hne : kvs ≠ []) :
    ∃ db1 T', updateSubtree c (fuel + 1) db kvs ⟨T.depths 0, rt, T.nodes⟩ height =
        (dbSet db1 (root c.H d (applyE es (kvs.map (opOf height))))
            (SubTree.encode ⟨T'.collapse.depths 0, root c.H d (applyE es (kvs.map (opOf height))), T'.collapse.nodes⟩),
          .ok ⟨T'.collapse.depths 0, root c.H d (applyE es (kvs.map (opOf height))), T'.collapse.nodes⟩) ∧
      Arr c.H (W.S db1) c.sth d T' (applyE es (kvs.map (opOf height))) ∧ W.F pre db db1 := by
  obtain ⟨ikvs, hbi, hbins⟩ := mkBins_ok c height kvs hs hk
  obtain ⟨db1, T', e1, a1, f1⟩ := updateNodes_arr c W (updateSubtree c fuel) height dB hB T c.sth d es db hA 0 pre [] []
    (mkBins c.maxNodes ikvs) [] 0 (kvs.map (opOf height)) (by omega) (by omega) (by simpa using hpre) hd he ho hue huo hev hov hie hia hbins
  refine ⟨db1, T', ?_, a1, f1⟩
  have hwf := wfe_applyE he ho
  obtain ⟨hh, _⟩ := collapse_exp c.H d T' _ hwf a1.exp
  rw [updateSubtree]
  rw [if_neg (by simpa [List.isEmpty_iff] using hne), hbi]
  simp only [List.append_nil] at e1
  simp only
  rw [e1]
  simp only [updateNodes, contNodes, List.append_nil]
  rw [if_neg (by simp [Cfg.maxNodes])]
  rw [maxStructure_depths]
  simp only [bind, Except.bind]
  rw [calculateSubTree_tree c.H T' a1.noTemp, newSubtreeFromData_tree, hh]

end LiskVerif.SMTImpl
