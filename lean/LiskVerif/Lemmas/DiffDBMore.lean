/-
More helper lemmas for the diffdb model (Props/C12_More.lean): the order / prefix algebra of
prefixed keys, insertion sort through an order embedding, the closed form of the diff computed by
`commitCache`, lookup congruence of `revertDiff`.
-/
import LiskVerif.Lemmas.DiffDBScan

namespace LiskVerif.DiffDB

/-! ### byte order and prefixes -/

theorem bcmp_append_left (p a b : Bytes) : bcmp (p ++ a) (p ++ b) = bcmp a b := by
  induction p with
  | nil => rfl
  | cons x xs ih => simp [bcmp, UInt8.lt_irrefl, ih]

theorem ble_append_left (p a b : Bytes) : ble (p ++ a) (p ++ b) = ble a b := by
  unfold ble; rw [bcmp_append_left]

theorem hasPrefix_nil (k : Bytes) : hasPrefix k [] = true := by
  cases k <;> rfl

theorem hasPrefix_append (p k : Bytes) : hasPrefix (p ++ k) p = true := by
  induction p with
  | nil => exact hasPrefix_nil _
  | cons x xs ih => simp [hasPrefix, ih]

theorem hasPrefix_eq_append (k p : Bytes) (h : hasPrefix k p = true) : k = p ++ k.drop p.length := by
  induction p generalizing k with
  | nil => rfl
  | cons x xs ih =>
    cases k with
    | nil => simp [hasPrefix] at h
    | cons y ys =>
      simp only [hasPrefix, Bool.and_eq_true, beq_iff_eq] at h
      obtain ⟨rfl, h2⟩ := h
      simp only [List.cons_append, List.length_cons, List.drop_succ_cons, List.cons.injEq, true_and]
      exact ih ys h2

theorem hasPrefix_iff (k p : Bytes) : hasPrefix k p = true ↔ ∃ r, k = p ++ r :=
  ⟨fun h => ⟨_, hasPrefix_eq_append k p h⟩, fun ⟨r, hr⟩ => hr ▸ hasPrefix_append p r⟩

theorem hasPrefix_append_left (p k q : Bytes) : hasPrefix (p ++ k) (p ++ q) = hasPrefix k q := by
  induction p with
  | nil => rfl
  | cons x xs ih => simp [hasPrefix, ih]

/-- prefix of a prefix -/
theorem hasPrefix_append_iff (k p q : Bytes) :
    hasPrefix k (p ++ q) = true ↔ hasPrefix k p = true ∧ hasPrefix (k.drop p.length) q = true := by
  constructor
  · intro h
    obtain ⟨r, rfl⟩ := (hasPrefix_iff _ _).mp h
    rw [List.append_assoc]
    refine ⟨hasPrefix_append _ _, ?_⟩
    simp [hasPrefix_append]
  · rintro ⟨h1, h2⟩
    rw [hasPrefix_eq_append k p h1, hasPrefix_append_left]
    exact h2

/-- every key between `p ++ s` and `p ++ e` has the prefix `p` (what makes `key[prefixLength:]` in
`Database.Range` well defined) -/
theorem hasPrefix_of_between (p s e k : Bytes) (h1 : ble (p ++ s) k = true) (h2 : ble k (p ++ e) = true) :
    hasPrefix k p = true := by
  induction p generalizing k with
  | nil => exact hasPrefix_nil _
  | cons x xs ih =>
    cases k with
    | nil => simp [ble, bcmp] at h1
    | cons y ys =>
      simp only [List.cons_append, ble, bcmp] at h1 h2
      have hyx : ¬ y < x := by
        intro h
        have hxy : ¬ x < y := fun h' => absurd (UInt8.lt_trans h h') (UInt8.lt_irrefl _)
        simp [h, hxy] at h1
      have hxy : ¬ x < y := by
        intro h
        simp [h, hyx] at h2
      have : x = y := u8_eq_of_not_lt hxy hyx
      subst this
      simp only [UInt8.lt_irrefl, if_false] at h1 h2
      simp only [hasPrefix, beq_self_eq_true, Bool.true_and]
      exact ih ys h1 h2

/-! ### insertion sort through an order embedding -/

theorem insertBy_mapEmbed {α β : Type} (f : α → β) (le : α → α → Bool) (le' : β → β → Bool) (a : α)
    (l : List α) (h : ∀ b ∈ l, le' (f a) (f b) = le a b) :
    insertBy le' (f a) (l.map f) = (insertBy le a l).map f := by
  induction l with
  | nil => rfl
  | cons b r ih =>
    simp only [List.map_cons, insertBy, h b List.mem_cons_self]
    split
    · rfl
    · simp only [List.map_cons]
      rw [ih (fun c hc => h c (List.mem_cons_of_mem _ hc))]

theorem isort_mapEmbed {α β : Type} (f : α → β) (le : α → α → Bool) (le' : β → β → Bool) (l : List α)
    (h : ∀ a ∈ l, ∀ b ∈ l, le' (f a) (f b) = le a b) :
    isort le' (l.map f) = (isort le l).map f := by
  induction l with
  | nil => rfl
  | cons a r ih =>
    simp only [List.map_cons, isort]
    rw [ih (fun x hx y hy => h x (List.mem_cons_of_mem _ hx) y (List.mem_cons_of_mem _ hy))]
    apply insertBy_mapEmbed
    intro b hb
    exact h a List.mem_cons_self b (List.mem_cons_of_mem _ ((mem_isort le r b).mp hb))

theorem applyLimit_map {α β : Type} (f : α → β) (l : List α) (limit : Int) :
    applyLimit (l.map f) limit = (applyLimit l limit).map f := by
  unfold applyLimit
  split
  · rfl
  · exact (List.map_take ..).symm

theorem mem_sortDir' (l : List KV) (rev : Bool) (e : KV) : e ∈ sortDir l rev ↔ e ∈ l := by
  unfold sortDir; cases rev <;> simp [mem_isort]

/-- stripping a common prefix commutes with the key sort -/
theorem sortDir_strip (p : Bytes) (l : List KV) (rev : Bool)
    (h : ∀ e ∈ l, hasPrefix e.1 p = true) :
    sortDir (l.map fun kv => (kv.1.drop p.length, kv.2)) rev =
      (sortDir l rev).map fun kv => (kv.1.drop p.length, kv.2) := by
  have key : ∀ a ∈ l, ∀ b ∈ l, ble (a.1.drop p.length) (b.1.drop p.length) = ble a.1 b.1 := by
    intro a ha b hb
    conv => rhs; rw [hasPrefix_eq_append a.1 p (h a ha), hasPrefix_eq_append b.1 p (h b hb)]
    rw [ble_append_left]
  unfold sortDir
  cases rev with
  | false =>
    simp only [Bool.false_eq_true, if_false]
    apply isort_mapEmbed
    intro a ha b hb
    exact key a ha b hb
  | true =>
    simp only [if_true]
    apply isort_mapEmbed
    intro a ha b hb
    exact key b hb a ha

/-! ### the diff computed by `cacheDB.commit`, in closed form -/

def diffAdded (c : Cache) : List Bytes :=
  c.filterMap fun e => match e.2.init with | none => some e.1 | some _ => none
def diffDeleted (c : Cache) : List KV :=
  c.filterMap fun e => match e.2.init with
    | some i => if e.2.deleted then some (e.1, i) else none | none => none
def diffUpdated (c : Cache) : List KV :=
  c.filterMap fun e => match e.2.init with
    | some i => if e.2.deleted then none else if e.2.dirty then some (e.1, i) else none | none => none

theorem commitCache_diff' (c : Cache) : ∀ (s : Store) (d : Diff),
    (commitCache c s d).2 =
      { added := d.added ++ diffAdded c, updated := d.updated ++ diffUpdated c,
        deleted := d.deleted ++ diffDeleted c } := by
  induction c with
  | nil => intro s d; simp [commitCache, diffAdded, diffUpdated, diffDeleted]
  | cons e r ih =>
    intro s d
    obtain ⟨k0, cv⟩ := e
    unfold commitCache
    cases hi : cv.init with
    | none => simp [ih, diffAdded, diffUpdated, diffDeleted, hi]
    | some i =>
      cases hd : cv.deleted <;> cases hdi : cv.dirty <;>
        simp [ih, diffAdded, diffUpdated, diffDeleted, hi, hd, hdi]

/-- the diff of `Commit` depends on the overlay only -/
theorem commit_diff (st : St) :
    (commit st).2 = { added := diffAdded st.cache, updated := diffUpdated st.cache,
                      deleted := diffDeleted st.cache } := by
  unfold commit
  simp only
  rw [commitCache_diff']
  simp

theorem mem_diffAdded (c : Cache) (hnd : NoDupKeys c) (k : Bytes) :
    k ∈ diffAdded c ↔ ∃ cv, clookup c k = some cv ∧ cv.init = none := by
  unfold diffAdded
  simp only [List.mem_filterMap]
  constructor
  · rintro ⟨⟨k0, cv⟩, he, h2⟩
    cases hi : cv.init with
    | none =>
      simp [hi] at h2; subst h2
      exact ⟨cv, (clookup_iff_mem c hnd k0 cv).mpr he, hi⟩
    | some i => simp [hi] at h2
  · rintro ⟨cv, hl, hi⟩
    exact ⟨(k, cv), (clookup_iff_mem c hnd k cv).mp hl, by simp [hi]⟩

theorem mem_diffDeleted (c : Cache) (hnd : NoDupKeys c) (k i : Bytes) :
    (k, i) ∈ diffDeleted c ↔ ∃ cv, clookup c k = some cv ∧ cv.init = some i ∧ cv.deleted = true := by
  unfold diffDeleted
  simp only [List.mem_filterMap]
  constructor
  · rintro ⟨⟨k0, cv⟩, he, h2⟩
    cases hi : cv.init with
    | none => simp [hi] at h2
    | some j =>
      cases hd : cv.deleted with
      | false => simp [hi, hd] at h2
      | true =>
        simp [hi, hd] at h2
        obtain ⟨rfl, rfl⟩ := h2
        exact ⟨cv, (clookup_iff_mem c hnd k0 cv).mpr he, hi, hd⟩
  · rintro ⟨cv, hl, hi, hd⟩
    exact ⟨(k, cv), (clookup_iff_mem c hnd k cv).mp hl, by simp [hi, hd]⟩

theorem mem_diffUpdated (c : Cache) (hnd : NoDupKeys c) (k i : Bytes) :
    (k, i) ∈ diffUpdated c ↔
      ∃ cv, clookup c k = some cv ∧ cv.init = some i ∧ cv.deleted = false ∧ cv.dirty = true := by
  unfold diffUpdated
  simp only [List.mem_filterMap]
  constructor
  · rintro ⟨⟨k0, cv⟩, he, h2⟩
    cases hi : cv.init with
    | none => simp [hi] at h2
    | some j =>
      cases hd : cv.deleted with
      | true => simp [hi, hd] at h2
      | false =>
        cases hdi : cv.dirty with
        | false => simp [hi, hd, hdi] at h2
        | true =>
          simp [hi, hd, hdi] at h2
          obtain ⟨rfl, rfl⟩ := h2
          exact ⟨cv, (clookup_iff_mem c hnd k0 cv).mpr he, hi, hd, hdi⟩
  · rintro ⟨cv, hl, hi, hd, hdi⟩
    exact ⟨(k, cv), (clookup_iff_mem c hnd k cv).mp hl, by simp [hi, hd, hdi]⟩

/-- the keys of the three diff lists, in cache order, form a sublist of the overlay's keys -/
theorem diff_keys_nodup (c : Cache) (hnd : NoDupKeys c) :
    (diffAdded c ++ (diffUpdated c).map (·.1) ++ (diffDeleted c).map (·.1)).Nodup := by
  induction c with
  | nil => simp [diffAdded, diffUpdated, diffDeleted]
  | cons e r ih =>
    obtain ⟨k0, cv⟩ := e
    unfold NoDupKeys at hnd
    simp only [List.map_cons, List.nodup_cons] at hnd
    have ihr := ih hnd.2
    have hk0 : k0 ∉ diffAdded r ++ (diffUpdated r).map (·.1) ++ (diffDeleted r).map (·.1) := by
      intro hm
      apply hnd.1
      simp only [List.mem_append, List.mem_map] at hm
      rcases hm with (hm | ⟨x, hx, rfl⟩) | ⟨x, hx, rfl⟩
      · obtain ⟨cv', hl, _⟩ := (mem_diffAdded r hnd.2 k0).mp hm
        exact List.mem_map.mpr ⟨(k0, cv'), (clookup_iff_mem r hnd.2 k0 cv').mp hl, rfl⟩
      · obtain ⟨cv', hl, _⟩ := (mem_diffUpdated r hnd.2 x.1 x.2).mp hx
        exact List.mem_map.mpr ⟨(x.1, cv'), (clookup_iff_mem r hnd.2 x.1 cv').mp hl, rfl⟩
      · obtain ⟨cv', hl, _⟩ := (mem_diffDeleted r hnd.2 x.1 x.2).mp hx
        exact List.mem_map.mpr ⟨(x.1, cv'), (clookup_iff_mem r hnd.2 x.1 cv').mp hl, rfl⟩
    have hperm : ∀ (A B C : List Bytes), (A ++ (k0 :: B) ++ C).Perm (k0 :: (A ++ B ++ C)) := by
      intro A B C
      simp only [List.append_assoc, List.cons_append]
      exact List.perm_middle
    have hperm2 : ∀ (A B C : List Bytes), (A ++ B ++ (k0 :: C)).Perm (k0 :: (A ++ B ++ C)) := by
      intro A B C
      exact List.perm_middle
    have hcons : (k0 :: (diffAdded r ++ (diffUpdated r).map (·.1) ++ (diffDeleted r).map (·.1))).Nodup :=
      List.nodup_cons.mpr ⟨hk0, ihr⟩
    cases hi : cv.init with
    | none =>
      have : diffAdded ((k0, cv) :: r) = k0 :: diffAdded r := by simp [diffAdded, hi]
      have h2 : diffUpdated ((k0, cv) :: r) = diffUpdated r := by simp [diffUpdated, hi]
      have h3 : diffDeleted ((k0, cv) :: r) = diffDeleted r := by simp [diffDeleted, hi]
      rw [this, h2, h3]
      exact hcons
    | some i =>
      have h1 : diffAdded ((k0, cv) :: r) = diffAdded r := by simp [diffAdded, hi]
      cases hd : cv.deleted with
      | true =>
        have h2 : diffUpdated ((k0, cv) :: r) = diffUpdated r := by simp [diffUpdated, hi, hd]
        have h3 : diffDeleted ((k0, cv) :: r) = (k0, i) :: diffDeleted r := by simp [diffDeleted, hi, hd]
        rw [h1, h2, h3]
        exact (hperm2 _ _ _).nodup_iff.mpr hcons
      | false =>
        have h3 : diffDeleted ((k0, cv) :: r) = diffDeleted r := by simp [diffDeleted, hi, hd]
        cases hdi : cv.dirty with
        | true =>
          have h2 : diffUpdated ((k0, cv) :: r) = (k0, i) :: diffUpdated r := by
            simp [diffUpdated, hi, hd, hdi]
          rw [h1, h2, h3]
          exact (hperm _ _ _).nodup_iff.mpr hcons
        | false =>
          have h2 : diffUpdated ((k0, cv) :: r) = diffUpdated r := by simp [diffUpdated, hi, hd, hdi]
          rw [h1, h2, h3]
          exact ihr

/-! ### lookups after `commitCache` and `revertDiff` -/

/-- what `cacheDB.commit` writes for one entry, as the resulting lookup -/
def writtenBy (cv : CV) (old : Option Bytes) : Option Bytes :=
  match cv.init with
  | none => some cv.value
  | some _ => if cv.deleted then none else if cv.dirty then some cv.value else old

theorem clookup_none_of_not_mem' (c : Cache) (k : Bytes) (h : k ∉ c.map (·.1)) :
    clookup c k = none := by
  induction c with
  | nil => rfl
  | cons e r ih =>
    obtain ⟨a, b⟩ := e
    simp only [List.map_cons, List.mem_cons, not_or] at h
    simp only [clookup]
    rw [if_neg (Ne.symm h.1)]
    exact ih h.2

theorem commitCache_lookup' (c : Cache) : ∀ (s : Store) (d : Diff), NoDupKeys c → ∀ k,
    slookup (commitCache c s d).1 k =
      match clookup c k with
      | some cv => writtenBy cv (slookup s k)
      | none => slookup s k := by
  induction c with
  | nil => intro s d _ k; rfl
  | cons e r ih =>
    intro s d hnd k
    obtain ⟨k0, cv⟩ := e
    unfold NoDupKeys at hnd
    simp only [List.map_cons, List.nodup_cons] at hnd
    have hr : NoDupKeys r := hnd.2
    simp only [clookup]
    by_cases hk : k0 = k
    · subst hk
      have hnone : clookup r k0 = none := clookup_none_of_not_mem' r k0 hnd.1
      simp only [if_true]
      unfold commitCache writtenBy
      cases hi : cv.init with
      | none => simp only; rw [ih _ _ hr k0, hnone]; simp
      | some i =>
        simp only
        cases hd : cv.deleted <;> cases hdi : cv.dirty <;>
          simp only [Bool.false_eq_true, if_false, if_true] <;>
          rw [ih _ _ hr k0, hnone] <;> simp
    · simp only [hk, if_false]
      unfold commitCache
      cases hi : cv.init with
      | none => simp only; rw [ih _ _ hr k]; simp [hk]
      | some i =>
        simp only
        cases hd : cv.deleted <;> cases hdi : cv.dirty <;>
          simp only [Bool.false_eq_true, if_false, if_true] <;>
          rw [ih _ _ hr k] <;> simp [hk]

/-- two stores holding the same value under every key -/
def SameMap (s s' : Store) : Prop := ∀ k, slookup s k = slookup s' k

theorem SameMap.sset {s s' : Store} (h : SameMap s s') (k v : Bytes) : SameMap (sset s k v) (sset s' k v) := by
  intro k'; simp [h k']

theorem SameMap.sdel {s s' : Store} (h : SameMap s s') (k : Bytes) : SameMap (sdel s k) (sdel s' k) := by
  intro k'; simp [h k']

theorem sameMap_foldl_sset (kvs : List KV) : ∀ {s s' : Store}, SameMap s s' →
    SameMap (kvs.foldl (fun s kv => sset s kv.1 kv.2) s) (kvs.foldl (fun s kv => sset s kv.1 kv.2) s') := by
  induction kvs with
  | nil => intro s s' h; exact h
  | cons a r ih => intro s s' h; exact ih (h.sset a.1 a.2)

theorem sameMap_foldl_sdel (ks : List Bytes) : ∀ {s s' : Store}, SameMap s s' →
    SameMap (ks.foldl (fun s k => sdel s k) s) (ks.foldl (fun s k => sdel s k) s') := by
  induction ks with
  | nil => intro s s' h; exact h
  | cons a r ih => intro s s' h; exact ih (h.sdel a)

/-- `RevertDiff` respects equality of contents -/
theorem sameMap_revertDiff {s s' : Store} (h : SameMap s s') (d : Diff) :
    SameMap (revertDiff s d) (revertDiff s' d) := by
  unfold revertDiff
  exact sameMap_foldl_sset _ (sameMap_foldl_sset _ (sameMap_foldl_sdel _ h))

theorem nodup_foldl_sset (kvs : List KV) : ∀ {s : Store}, NoDupKeys s →
    NoDupKeys (kvs.foldl (fun s kv => sset s kv.1 kv.2) s) := by
  induction kvs with
  | nil => intro s h; exact h
  | cons a r ih => intro s h; exact ih (nodup_sset s a.1 a.2 h)

theorem nodup_foldl_sdel (ks : List Bytes) : ∀ {s : Store}, NoDupKeys s →
    NoDupKeys (ks.foldl (fun s k => sdel s k) s) := by
  induction ks with
  | nil => intro s h; exact h
  | cons a r ih => intro s h; exact ih (nodup_sdel s a h)

theorem nodup_revertDiff {s : Store} (h : NoDupKeys s) (d : Diff) : NoDupKeys (revertDiff s d) := by
  unfold revertDiff
  exact nodup_foldl_sset _ (nodup_foldl_sset _ (nodup_foldl_sdel _ h))

/-- stores with distinct keys and the same contents are permutations of each other -/
theorem SameMap.perm {s s' : Store} (h : SameMap s s') (hs : NoDupKeys s) (hs' : NoDupKeys s') :
    s.Perm s' := by
  apply (List.perm_ext_iff_of_nodup (nodup_of_nodupKeys s hs) (nodup_of_nodupKeys s' hs')).mpr
  intro ⟨k, v⟩
  rw [← slookup_iff_mem s hs, ← slookup_iff_mem s' hs', h k]

theorem sameMap_of_perm {s s' : Store} (hp : s.Perm s') (hs : NoDupKeys s) : SameMap s s' := by
  have hs' : NoDupKeys s' := by
    unfold NoDupKeys at *
    exact (hp.map _).nodup_iff.mp hs
  intro k
  cases h : slookup s k with
  | some v =>
    exact ((slookup_iff_mem s' hs' k v).mpr (hp.mem_iff.mp ((slookup_iff_mem s hs k v).mp h))).symm
  | none =>
    cases h' : slookup s' k with
    | none => rfl
    | some v =>
      have := (slookup_iff_mem s hs k v).mpr (hp.mem_iff.mpr ((slookup_iff_mem s' hs' k v).mp h'))
      rw [h] at this; cases this

/-- scans of stores with the same contents are identical -/
theorem sortDir_filter_sameMap {s s' : Store} (h : SameMap s s') (hs : NoDupKeys s) (hs' : NoDupKeys s')
    (f : KV → Bool) (rev : Bool) : sortDir (s.filter f) rev = sortDir (s'.filter f) rev := by
  apply sortDir_eq_of_mem_iff _ _ (nodup_filter _ _ hs) (nodup_filter _ _ hs')
  intro ⟨k, v⟩
  simp only [List.mem_filter]
  rw [← slookup_iff_mem s hs, ← slookup_iff_mem s' hs', h k]

end LiskVerif.DiffDB
