/-
Further lemmas about the certificate model (Model/Cert.lean) used by Props/C06_More.lean:

* distinctness of the pool entries (one entry per (block id, signer)) as a property of the pool
  operations alone - no hypothesis on the chain state, the block context or the keys;
* the exact description of the candidate loop of `GetAggregateCommit` (`gacLoop_char`): it returns the
  aggregate for the LARGEST certifiable height of its window, the empty commit when there is none;
* the loop only reads `Pool.Get h` for heights of its window (`gacLoop_congr`), `Pool.Get` after
  `Pool.Cleanup`;
* the weight loop of `GetAggregateCommit` computes the weight of the SET of signing validators when the
  signers are distinct (`commitsWeight_eq_signedWeight`);
* the assembly bound `gacStart` is exactly the verification bound (`gacStart_iff`).
-/
import LiskVerif.Lemmas.Cert
import LiskVerif.Lemmas.CertPool

namespace LiskVerif.Cert

/-! ## distinct entries -/

/-- at most one entry per (block id, signer): the second half of `PoolInv`, on a list -/
def Distinct (l : List Commit) : Prop :=
  l.Pairwise (fun a b => ¬ (a.block = b.block ∧ a.signer = b.signer))

theorem Distinct.nodup {l : List Commit} (h : Distinct l) : l.Nodup :=
  List.Pairwise.imp (fun hab he => hab ⟨by rw [he], by rw [he]⟩) h

theorem Distinct.perm {l l' : List Commit} (h : Distinct l) (hp : l.Perm l') : Distinct l' :=
  List.Pairwise.perm h hp (fun hxy hh => hxy ⟨hh.1.symm, hh.2.symm⟩)

theorem Distinct.sublist {l l' : List Commit} (h : Distinct l) (hs : l'.Sublist l) : Distinct l' :=
  List.Pairwise.sublist hs h

theorem distinct_add {pool : Pool} {c : Commit} (h : Distinct pool.all) (hn : pool.has c = false) :
    Distinct (pool.add c).all := by
  unfold Distinct
  rw [pool_add_all hn]
  refine List.pairwise_append.mpr ⟨h, List.pairwise_singleton _ _, ?_⟩
  intro a ha b hb hh
  rw [List.mem_singleton.mp hb] at hh
  exact pool_has_false hn a ha hh

theorem scvOne_distinct (st : State) (pool : Pool) (m : Incoming) (h : Distinct pool.all) :
    Distinct (scvOne st pool m).1.all := by
  rcases (scvOne_spec st pool m).1 with h1 | ⟨h1, _, _, hn⟩
  · rw [h1]; exact h
  · rw [h1]; exact distinct_add h hn

theorem scv_distinct (st : State) (msgs : List Incoming) :
    ∀ pool, Distinct pool.all → Distinct (singleCommitValidator st pool msgs).1.all := by
  induction msgs with
  | nil => intro pool h; exact h
  | cons m r ih =>
    intro pool h
    rw [scv_step]
    have hi := scvOne_distinct st pool m h
    split
    · exact ih _ hi
    · exact hi

theorem certifyAt_distinct (st : State) (pool : Pool) (h addr sk : Nat) (hd : Distinct pool.all) :
    Distinct (certifyAt st pool h addr sk).1.all := by
  rcases certifyAt_spec st pool h addr sk with h1 | ⟨c, h1, _, _, hn⟩
  · rw [h1]; exact hd
  · rw [h1]; exact distinct_add hd hn

theorem certifyLoop_distinct (st : State) (addr sk : Nat) (hs : List Nat) :
    ∀ pool, Distinct pool.all → Distinct (certifyLoop st addr sk pool hs).1.all := by
  induction hs with
  | nil => intro pool hi; exact hi
  | cons i r ih =>
    intro pool hi
    rw [certifyLoop_cons]
    apply ih
    split
    · exact certifyAt_distinct st pool i addr sk hi
    · exact hi

theorem certify_distinct (st : State) (pool : Pool) (frm to addr sk : Nat) (h : Distinct pool.all) :
    Distinct (certify st pool frm to addr sk).1.all := by
  rcases certify_pool st pool frm to addr sk with h1 | ⟨_, h1 | ⟨_, h1⟩⟩ <;> rw [h1]
  · exact h
  · exact certifyLoop_distinct st addr sk _ pool h
  · exact certifyAt_distinct st _ to addr sk (certifyLoop_distinct st addr sk _ pool h)

/-! ## entries on the current chain -/

/-- the entry's block id is the id of the chain's block at the entry's HEIGHT FIELD -/
def OnChain (st : State) (c : Commit) : Prop := ∃ hd, st.blockAt c.height = some hd ∧ hd.id = c.block

theorem VerifiedOnChain.onChain {st : State} {c : Commit} (h : VerifiedOnChain st c) : OnChain st c := by
  obtain ⟨hd, _, _, hb, hid, _⟩ := h
  exact ⟨hd, hb, hid⟩

/-- on one chain, one entry per (block, signer) means one entry per (height, signer) -/
theorem distinct_height_signer {st : State} {l : List Commit} (hon : ∀ c ∈ l, OnChain st c) (hd : Distinct l) :
    l.Pairwise (fun a b => ¬ (a.height = b.height ∧ a.signer = b.signer)) := by
  refine List.Pairwise.imp_of_mem ?_ hd
  intro a b ha hb hab hh
  obtain ⟨ha', h1, h2⟩ := hon a ha
  obtain ⟨hb', h3, h4⟩ := hon b hb
  rw [hh.1, h3] at h1
  cases h1
  exact hab ⟨by rw [← h2, ← h4], hh.2⟩

/-! ## `Pool.Get` and `Pool.Cleanup` -/

theorem filter_keep_height (l : List Commit) (keep : Nat → Bool) (h : Nat) :
    (l.filter (fun c => keep c.height)).filter (fun c => c.height == h) =
      if keep h then l.filter (fun c => c.height == h) else [] := by
  induction l with
  | nil => simp
  | cons c r ih =>
    by_cases hh : c.height = h
    · subst hh
      cases hk : keep c.height
      · simp only [hk] at ih
        simp [hk, ih]
      · simp only [hk] at ih
        simp [hk, ih]
    · have hb : (c.height == h) = false := by simpa using hh
      cases hk : keep c.height <;> simp [hk, hb, ih]

theorem cleanup_get (pool : Pool) (keep : Nat → Bool) (h : Nat) :
    (pool.cleanup keep).get h = if keep h then pool.get h else [] := by
  simp only [Pool.cleanup, Pool.get, filter_keep_height]
  split <;> simp

theorem cleanup_mem (pool : Pool) (keep : Nat → Bool) (c : Commit) :
    (c ∈ (pool.cleanup keep).gossiped ↔ c ∈ pool.gossiped ∧ keep c.height = true) ∧
    (c ∈ (pool.cleanup keep).nonGossiped ↔ c ∈ pool.nonGossiped ∧ keep c.height = true) := by
  simp [Pool.cleanup, List.mem_filter]

/-! ## the candidate loop of `GetAggregateCommit` -/

/-- height `h` is certifiable from the pool, as the code computes it: the pool holds commits for the
chain's block at `h` and the summed weight of their signers reaches the threshold of `h` -/
def Certifiable (st : State) (pool : Pool) (h : Nat) : Prop :=
  ∃ hd p w, st.blockAt h = some hd ∧ forBlock (pool.get h) hd.id ≠ [] ∧ getParams st.params h = some p ∧
    commitsWeight p.validators (forBlock (pool.get h) hd.id) = some w ∧ p.threshold ≤ w

/-- what a successful run of the candidate loop over the heights `(mhc, bound]` returns -/
def GacChar (le : Validator → Validator → Bool) (st : State) (pool : Pool) (bound : Nat) (ac : AggCommit) : Prop :=
  (ac = emptyCommit st ∧ ∀ h, st.mhc < h → h ≤ bound → ¬ Certifiable st pool h) ∨
  (∃ h hd p, st.mhc < h ∧ h ≤ bound ∧ Certifiable st pool h ∧
    (∀ h', h < h' → h' ≤ bound → ¬ Certifiable st pool h') ∧
    st.blockAt h = some hd ∧ getParams st.params h = some p ∧
    aggregateOrd le (forBlock (pool.get h) hd.id) p.validators = .ok ac)

theorem GacChar.extend {le : Validator → Validator → Bool} {st : State} {pool : Pool} {b : Nat} {ac : AggCommit}
    (hn : ¬ Certifiable st pool (b + 1)) (h : GacChar le st pool b ac) : GacChar le st pool (b + 1) ac := by
  rcases h with ⟨h1, h2⟩ | ⟨h, hd, p, h1, h2, h3, h4, h5⟩
  · refine Or.inl ⟨h1, ?_⟩
    intro x hx1 hx2
    by_cases hx : x = b + 1
    · rw [hx]; exact hn
    · exact h2 x hx1 (by omega)
  · refine Or.inr ⟨h, hd, p, h1, by omega, h3, ?_, h5⟩
    intro x hx1 hx2
    by_cases hx : x = b + 1
    · rw [hx]; exact hn
    · exact h4 x hx1 (by omega)

theorem gacLoop_char (le : Validator → Validator → Bool) (st : State) (pool : Pool) (ac : AggCommit) (d : Nat)
    (hg : gacLoop le st pool d = .ok ac) : GacChar le st pool (st.mhc + d) ac := by
  induction d with
  | zero =>
    simp only [gacLoop, GacResult.ok.injEq] at hg
    refine Or.inl ⟨hg.symm, ?_⟩
    intro h h1 h2
    omega
  | succ d ih =>
    unfold gacLoop at hg
    simp only at hg
    split at hg
    · cases hg
    · rename_i hd hb
      split at hg
      · rename_i hem
        have hn : ¬ Certifiable st pool (st.mhc + d + 1) := by
          rintro ⟨hd', p, w, h1, h2, _⟩
          rw [hb] at h1
          cases h1
          apply h2
          simpa using hem
        exact GacChar.extend hn (ih hg)
      · rename_i hne
        split at hg
        · cases hg
        · rename_i p hp
          split at hg
          · cases hg
          · rename_i w hw
            split at hg
            · rename_i hlt
              have hn : ¬ Certifiable st pool (st.mhc + d + 1) := by
                rintro ⟨hd', p', w', h1, _, h3, h4, h5⟩
                rw [hb] at h1
                cases h1
                rw [hp] at h3
                cases h3
                rw [hw] at h4
                cases h4
                omega
              exact GacChar.extend hn (ih hg)
            · rename_i hge
              have hne' : forBlock (pool.get (st.mhc + d + 1)) hd.id ≠ [] := by
                intro h; rw [h] at hne; simp at hne
              refine Or.inr ⟨st.mhc + d + 1, hd, p, by omega, by omega, ⟨hd, p, w, hb, hne', hp, hw, by omega⟩, ?_, hb, hp, hg⟩
              intro h' h1 h2
              omega

/-- the loop reads the pool only through `Pool.Get h` for the heights of its window -/
theorem gacLoop_congr (le : Validator → Validator → Bool) (st : State) (p1 p2 : Pool) (d : Nat)
    (h : ∀ x, st.mhc < x → x ≤ st.mhc + d → p1.get x = p2.get x) :
    gacLoop le st p1 d = gacLoop le st p2 d := by
  induction d with
  | zero => rfl
  | succ d ih =>
    unfold gacLoop
    simp only
    rw [h (st.mhc + d + 1) (by omega) (by omega), ih (fun x h1 h2 => h x h1 (by omega))]

theorem aggregateOrd_ok {le : Validator → Validator → Bool} {commits : List Commit} {vals : List Validator}
    {ac : AggCommit} (h : aggregateOrd le commits vals = .ok ac) :
    ∃ c0 rest sig, commits = c0 :: rest ∧ ac.height = c0.height ∧ ac.sig = some sig := by
  unfold aggregateOrd at h
  split at h
  · cases h
  · rename_i c0 rest
    simp only at h
    split at h
    · cases h
    · cases h
      exact ⟨c0, rest, _, rfl, rfl, rfl⟩

/-! ## the assembly bound -/

/-- `gacStart` is the largest height allowed by both upper bounds of `verifyAggregateCommit` -/
theorem gacStart_iff (st : State) (h : Nat) :
    h ≤ gacStart st ↔ (h ≤ st.mhpc ∧ ∀ e ∈ st.params, st.mhc + 1 < e.1 → h < e.1) := by
  unfold gacStart
  split
  · rename_i nh hnh
    obtain ⟨h1, ⟨p, hp⟩, h3⟩ := nextHeightParams_some hnh
    constructor
    · intro hle
      have := Nat.le_min.mp hle
      refine ⟨this.2, ?_⟩
      intro e he hlt
      have := h3 e he hlt
      omega
    · rintro ⟨h4, h5⟩
      have := h5 (nh, p) hp h1
      simp only at this
      exact Nat.le_min.mpr ⟨by omega, h4⟩
  · rename_i hnh
    constructor
    · intro hle
      exact ⟨hle, fun e he hlt => absurd hlt (nextHeightParams_none hnh e he)⟩
    · intro h4
      exact h4.1

/-! ## the weight loop -/

/-- the weight of the SET of validators of `p` that signed one of the commits -/
def signedWeight (p : Params) (commits : List Commit) : Nat :=
  ((p.validators.filter (fun v => commits.any (fun c => c.signer == v.addr))).map (·.weight)).sum

theorem commits_vals (vals : List Validator) (commits : List Commit)
    (h : ∀ c ∈ commits, ∃ v, findValidator vals c.signer = some v) :
    ∃ cv : List Validator, cv.map (·.addr) = commits.map (·.signer) ∧ (∀ v ∈ cv, v ∈ vals) ∧
      commitsWeight vals commits = some ((cv.map (·.weight)).sum) := by
  induction commits with
  | nil => exact ⟨[], by simp [commitsWeight]⟩
  | cons c r ih =>
    obtain ⟨v, hv⟩ := h c List.mem_cons_self
    obtain ⟨cv, h1, h2, h3⟩ := ih (fun d hd => h d (List.mem_cons_of_mem _ hd))
    refine ⟨v :: cv, ?_, ?_, ?_⟩
    · simp [h1, (findValidator_some hv).2]
    · intro u hu
      rcases List.mem_cons.mp hu with rfl | hu
      · exact (findValidator_some hv).1
      · exact h2 u hu
    · simp [commitsWeight, hv, h3]

/-- **No double counting.**  With distinct signers that are validators of well-formed parameters, the
weight loop of `GetAggregateCommit` yields the weight of the set of signing validators. -/
theorem commitsWeight_eq_signedWeight (p : Params) (hwf : ParamsWf p) (commits : List Commit)
    (hok : ∀ c ∈ commits, ∃ v, findValidator p.validators c.signer = some v)
    (hdist : commits.Pairwise (fun a b => a.signer ≠ b.signer)) :
    commitsWeight p.validators commits = some (signedWeight p commits) := by
  obtain ⟨cv, h1, h2, h3⟩ := commits_vals p.validators commits hok
  rw [h3]
  congr 1
  have hcvnd : cv.Nodup := by
    apply nodup_of_nodup_map (·.addr)
    rw [h1]
    unfold List.Nodup
    rw [List.pairwise_map]
    exact hdist
  have hvnd : p.validators.Nodup := nodup_of_nodup_map (·.addr) hwf.2
  have hperm : (p.validators.filter (fun v => commits.any (fun c => c.signer == v.addr))).Perm cv := by
    rw [List.perm_ext_iff_of_nodup (List.Pairwise.filter _ hvnd) hcvnd]
    intro v
    simp only [List.mem_filter, List.any_eq_true, beq_iff_eq]
    constructor
    · rintro ⟨hv, c, hc, hcv⟩
      have : v.addr ∈ cv.map (·.addr) := by
        rw [h1, ← hcv]
        exact List.mem_map.mpr ⟨c, hc, rfl⟩
      obtain ⟨u, hu, hua⟩ := List.mem_map.mp this
      have : u = v := inj_of_nodup_map (·.addr) hwf.2 (h2 u hu) hv hua
      exact this ▸ hu
    · intro hv
      refine ⟨h2 v hv, ?_⟩
      have : v.addr ∈ commits.map (·.signer) := by
        rw [← h1]
        exact List.mem_map.mpr ⟨v, hv, rfl⟩
      obtain ⟨c, hc, hcs⟩ := List.mem_map.mp this
      exact ⟨c, hc, hcs⟩
  unfold signedWeight
  exact ((hperm.map (·.weight)).sum_nat).symm

/-- the commits `GetAggregateCommit` reads for a height of the chain, in a pool satisfying the invariant:
all by validators of that height, with pairwise distinct signers -/
theorem cand_facts {st : State} {ctx : BlockCtx} {pool : Pool} {h : Nat} {hd : Header} {p : Params}
    (hcons : Consistent st ctx) (hinv : PoolInv ctx st.chainId pool)
    (hb : st.blockAt h = some hd) (hp : getParams st.params h = some p) :
    (∀ c ∈ forBlock (pool.get h) hd.id, ∃ v, findValidator p.validators c.signer = some v) ∧
    (forBlock (pool.get h) hd.id).Pairwise (fun a b => a.signer ≠ b.signer) := by
  have hctx : ctx hd.id = some (h, p) := (hcons _ _ hb).1 p hp
  constructor
  · intro c hc
    obtain ⟨hca, hch, hcb⟩ := mem_forBlock_get hc
    obtain ⟨p', v, hc', hf, _⟩ := hinv.1 c hca
    rw [hcb, hctx] at hc'
    simp only [Option.some.injEq, Prod.mk.injEq] at hc'
    rw [← hc'.2] at hf
    exact ⟨v, hf⟩
  · unfold forBlock
    rw [pool_get_eq]
    refine (((hinv.2.filter _).filter _).imp_of_mem ?_)
    intro a b ha hb' hab he
    simp only [List.mem_filter, beq_iff_eq] at ha hb'
    exact hab ⟨by rw [ha.2, hb'.2], he⟩

end LiskVerif.Cert
