/-
Helper lemmas for Props/C03_Roots.lean: big-endian encoding, the event keys, and — the new fact about the
LIP-0039 specification — that the root of a sparse Merkle tree determines its set of entries when the hash
function has no collision among the finitely many inputs hashed for the two trees.
-/
import LiskVerif.Model.Roots
import LiskVerif.Lemmas.SMT
import LiskVerif.Lemmas.Sort
import LiskVerif.Lemmas.Order

namespace LiskVerif.Roots
open LiskVerif LiskVerif.SMT

/-! ### `be32` -/

theorem u8_ofNat_inj {a b : Nat} (ha : a < 256) (hb : b < 256) (h : UInt8.ofNat a = UInt8.ofNat b) : a = b := by
  have := congrArg UInt8.toNat h
  simp only [UInt8.toNat_ofNat'] at this
  omega

theorem be32_length (n : Nat) : (be32 n).length = 4 := rfl

theorem be32_inj {a b : Nat} (ha : a < 4294967296) (hb : b < 4294967296) (h : be32 a = be32 b) : a = b := by
  simp only [be32, List.cons.injEq, and_true] at h
  obtain ⟨h3, h2, h1, h0⟩ := h
  have e3 := u8_ofNat_inj (Nat.mod_lt _ (by decide)) (Nat.mod_lt _ (by decide)) h3
  have e2 := u8_ofNat_inj (Nat.mod_lt _ (by decide)) (Nat.mod_lt _ (by decide)) h2
  have e1 := u8_ofNat_inj (Nat.mod_lt _ (by decide)) (Nat.mod_lt _ (by decide)) h1
  have e0 := u8_ofNat_inj (Nat.mod_lt _ (by decide)) (Nat.mod_lt _ (by decide)) h0
  omega

/-! ### event keys -/

theorem keyIndex_lt (i t : Nat) : keyIndex i t < 4294967296 := Nat.mod_lt _ (by decide)

/-- inside the bounds the key index is the plain `4 * index + topic position` -/
theorem keyIndex_in_bounds {i t : Nat} (hi : i < 1073741824) (ht : t < 4) : keyIndex i t = 4 * i + t := by
  unfold keyIndex; omega

theorem eventKey_length (H : HashFn) {n : Nat} (hlen : ∀ x, (H x).length = n) (hn : 8 ≤ n) (i : Nat) (tp : Bytes)
    (t : Nat) : (eventKey H i tp t).length = 12 := by
  simp [eventKey, eventTopicHashLengthBytes, be32_length, List.length_take, hlen]; omega

theorem keyPairsFrom_mem {H : HashFn} {index : Nat} {value : Bytes} :
    ∀ {start : Nat} {topics : List Bytes} {kv : KV}, kv ∈ keyPairsFrom H index value start topics →
      ∃ j, j < topics.length ∧ kv = (eventKey H index (topics.getD j []) (start + j), value) := by
  intro start topics
  induction topics generalizing start with
  | nil => intro kv h; simp [keyPairsFrom] at h
  | cons tp rest ih =>
    intro kv h
    simp only [keyPairsFrom, List.mem_cons] at h
    rcases h with h | h
    · exact ⟨0, by simp, by simpa using h⟩
    · obtain ⟨j, hj, hkv⟩ := ih h
      refine ⟨j + 1, by simpa using hj, ?_⟩
      rw [hkv]
      simp only [List.getD_cons_succ, Prod.mk.injEq, and_true]
      congr 1; omega

theorem mem_keyPairsFrom {H : HashFn} {index : Nat} {value : Bytes} :
    ∀ {start : Nat} {topics : List Bytes} (j : Nat) (hj : j < topics.length),
      (eventKey H index (topics.getD j []) (start + j), value) ∈ keyPairsFrom H index value start topics := by
  intro start topics
  induction topics generalizing start with
  | nil => intro j hj; simp at hj
  | cons tp rest ih =>
    intro j hj
    cases j with
    | zero => simp [keyPairsFrom]
    | succ j =>
      simp only [keyPairsFrom, List.mem_cons, List.getD_cons_succ]
      right
      have := @ih (start + 1) j (by simpa using hj)
      have e : start + 1 + j = start + (j + 1) := by omega
      rw [e] at this
      exact this

/-! ### the root of a sparse Merkle tree determines its entries -/

/-- the entries below a node with `d` bits left carry keys of `keyLen` bytes whose last `d` bits are the path -/
def KeyOK (keyLen d : Nat) (es : List Entry) : Prop :=
  ∀ e ∈ es, e.key.length = keyLen ∧ e.path = (keyBits e.key).drop (8 * keyLen - d)

theorem keyOK_entriesOf {keyLen : Nat} {m : List KV} (hl : KeysLen keyLen m) : KeyOK keyLen (8 * keyLen) (entriesOf m) := by
  intro e he
  simp only [entriesOf, List.mem_map] at he
  obtain ⟨kv, hkv, rfl⟩ := he
  exact ⟨hl kv hkv, by simp⟩

theorem keyOK_goL {keyLen d : Nat} {es : List Entry} (hw : WFE (d + 1) es) (hd : d + 1 ≤ 8 * keyLen)
    (h : KeyOK keyLen (d + 1) es) : KeyOK keyLen d (goL es) := by
  intro e' he'
  obtain ⟨e, he, hp, hk, hv⟩ := mem_goL.mp he'
  obtain ⟨h1, h2⟩ := h e he
  refine ⟨by rw [hk]; exact h1, ?_⟩
  rw [hk]
  have hlen : (keyBits e.key).length = 8 * keyLen := by rw [keyBits_length, h1]
  have : (keyBits e.key).drop (8 * keyLen - d) = ((keyBits e.key).drop (8 * keyLen - (d + 1))).drop 1 := by
    rw [List.drop_drop]; congr 1; omega
  rw [this, ← h2, hp]; rfl

theorem keyOK_goR {keyLen d : Nat} {es : List Entry} (hw : WFE (d + 1) es) (hd : d + 1 ≤ 8 * keyLen)
    (h : KeyOK keyLen (d + 1) es) : KeyOK keyLen d (goR es) := by
  intro e' he'
  obtain ⟨e, he, hp, hk, hv⟩ := mem_goR.mp he'
  obtain ⟨h1, h2⟩ := h e he
  refine ⟨by rw [hk]; exact h1, ?_⟩
  rw [hk]
  have hlen : (keyBits e.key).length = 8 * keyLen := by rw [keyBits_length, h1]
  have : (keyBits e.key).drop (8 * keyLen - d) = ((keyBits e.key).drop (8 * keyLen - (d + 1))).drop 1 := by
    rw [List.drop_drop]; congr 1; omega
  rw [this, ← h2, hp]; rfl

theorem noColl_symm {H : HashFn} {A B : List Bytes} (h : NoColl H A B) : NoColl H B A :=
  fun b hb a ha e => (h a ha b hb e.symm).symm

/-- **one inclusion**: equal roots, no collision between the inputs hashed for the two trees ⟹ every entry
of the first tree is an entry of the second -/
theorem root_sub {H : HashFn} {n : Nat} (hlen : ∀ x, (H x).length = n) (keyLen : Nat) :
    ∀ (d : Nat) (es₁ es₂ : List Entry), d ≤ 8 * keyLen → WFE d es₁ → WFE d es₂ →
      KeyOK keyLen d es₁ → KeyOK keyLen d es₂ →
      NoColl H (treeInputs H d es₁) (treeInputs H d es₂) → root H d es₁ = root H d es₂ →
      ∀ e ∈ es₁, e ∈ es₂ := by
  intro d
  induction d with
  | zero =>
    intro es₁ es₂ _ h₁ h₂ k₁ k₂ hnc hr e he
    rcases root_pre H h₁ with ⟨rfl, _, _⟩ | ⟨e1, rfl, r1, m1⟩ | ⟨_, d1, hd1, _⟩
    · cases he
    · rcases root_pre H h₂ with ⟨rfl, r2, m2⟩ | ⟨e2, rfl, r2, m2⟩ | ⟨_, d2, hd2, _⟩
      · have := hnc _ m1 _ m2 (by rw [← r1, ← r2, hr]); simp at this
      · have := hnc _ m1 _ m2 (by rw [← r1, ← r2, hr])
        simp only [List.cons.injEq, true_and] at this
        have hk1 := k₁ e1 (by simp)
        have hk2 := k₂ e2 (by simp)
        obtain ⟨hkey, hval⟩ := List.append_inj this (by rw [hk1.1, hk2.1])
        rw [List.mem_singleton] at he
        subst he
        rw [List.mem_singleton]
        have hp : e.path = e2.path := by rw [hk1.2, hk2.2, hkey]
        cases e; cases e2; simp_all
      · omega
    · omega
  | succ d ih =>
    intro es₁ es₂ hd h₁ h₂ k₁ k₂ hnc hr e he
    rcases root_pre H h₁ with ⟨rfl, _, _⟩ | ⟨e1, rfl, r1, m1⟩ | ⟨_, d1, hd1, r1, m1, sL1, sR1⟩
    · cases he
    · rcases root_pre H h₂ with ⟨rfl, r2, m2⟩ | ⟨e2, rfl, r2, m2⟩ | ⟨_, d2, hd2, r2, m2, _, _⟩
      · have := hnc _ m1 _ m2 (by rw [← r1, ← r2, hr]); simp at this
      · have := hnc _ m1 _ m2 (by rw [← r1, ← r2, hr])
        simp only [List.cons.injEq, true_and] at this
        have hk1 := k₁ e1 (by simp)
        have hk2 := k₂ e2 (by simp)
        obtain ⟨hkey, hval⟩ := List.append_inj this (by rw [hk1.1, hk2.1])
        rw [List.mem_singleton] at he
        subst he
        rw [List.mem_singleton]
        have hp : e.path = e2.path := by rw [hk1.2, hk2.2, hkey]
        cases e; cases e2; simp_all
      · have := hnc _ m1 _ m2 (by rw [← r1, ← r2, hr]); simp at this
    · rcases root_pre H h₂ with ⟨rfl, r2, m2⟩ | ⟨e2, rfl, r2, m2⟩ | ⟨_, d2, hd2, r2, m2, sL2, sR2⟩
      · have := hnc _ m1 _ m2 (by rw [← r1, ← r2, hr]); simp at this
      · have := hnc _ m1 _ m2 (by rw [← r1, ← r2, hr]); simp at this
      · have e1 : d1 = d := by omega
        have e2 : d2 = d := by omega
        subst e1; subst e2
        have := hnc _ m1 _ m2 (by rw [← r1, ← r2, hr])
        simp only [List.cons.injEq, true_and] at this
        obtain ⟨hL, hR⟩ := List.append_inj this (by rw [root_length hlen, root_length hlen])
        have subL := ih (goL es₁) (goL es₂) (by omega) (wfe_goL h₁) (wfe_goL h₂) (keyOK_goL h₁ hd k₁)
          (keyOK_goL h₂ hd k₂) (hnc.mono sL1 sL2) hL
        have subR := ih (goR es₁) (goR es₂) (by omega) (wfe_goR h₁) (wfe_goR h₂) (keyOK_goR h₁ hd k₁)
          (keyOK_goR h₂ hd k₂) (hnc.mono sR1 sR2) hR
        have hne := wfe_path_ne_nil h₁ e he
        match hp : e.path with
        | [] => exact absurd hp hne
        | false :: r =>
          have hm : (⟨r, e.key, e.value⟩ : Entry) ∈ goL es₁ := mem_goL.mpr ⟨e, he, hp, rfl, rfl⟩
          obtain ⟨e0, he0, hp0, hk0, hv0⟩ := mem_goL.mp (subL _ hm)
          have : e0 = e := by cases e0; cases e; simp_all
          rw [← this]; exact he0
        | true :: r =>
          have hm : (⟨r, e.key, e.value⟩ : Entry) ∈ goR es₁ := mem_goR.mpr ⟨e, he, hp, rfl, rfl⟩
          obtain ⟨e0, he0, hp0, hk0, hv0⟩ := mem_goR.mp (subR _ hm)
          have : e0 = e := by cases e0; cases e; simp_all
          rw [← this]; exact he0

/-- **the root determines the map**: two stored maps (distinct keys of `keyLen` bytes) with the same root and no
collision of `H` between the inputs hashed for the two trees hold the same pairs -/
theorem mapRoot_determines {H : HashFn} {n : Nat} (hlen : ∀ x, (H x).length = n) (keyLen : Nat) (m₁ m₂ : List KV)
    (n₁ : NoDupKeys m₁) (n₂ : NoDupKeys m₂) (l₁ : KeysLen keyLen m₁) (l₂ : KeysLen keyLen m₂)
    (hnc : NoColl H (treeInputs H (8 * keyLen) (entriesOf m₁)) (treeInputs H (8 * keyLen) (entriesOf m₂)))
    (hr : mapRoot H keyLen m₁ = mapRoot H keyLen m₂) : ∀ kv, kv ∈ m₁ ↔ kv ∈ m₂ := by
  have w₁ := wfe_entriesOf n₁ l₁
  have w₂ := wfe_entriesOf n₂ l₂
  have back : ∀ {m : List KV} {kv : KV}, (⟨keyBits kv.1, kv.1, kv.2⟩ : Entry) ∈ entriesOf m → kv ∈ m := by
    intro m kv h
    simp only [entriesOf, List.mem_map] at h
    obtain ⟨kv', hkv', he⟩ := h
    have h1 : kv'.1 = kv.1 := by injection he
    have h2 : kv'.2 = kv.2 := by injection he
    have : kv' = kv := Prod.ext h1 h2
    rw [← this]; exact hkv'
  intro kv
  constructor
  · intro h
    have he : (⟨keyBits kv.1, kv.1, kv.2⟩ : Entry) ∈ entriesOf m₁ := List.mem_map.mpr ⟨kv, h, rfl⟩
    exact back (root_sub hlen keyLen _ _ _ (Nat.le_refl _) w₁ w₂ (keyOK_entriesOf l₁) (keyOK_entriesOf l₂) hnc hr _ he)
  · intro h
    have he : (⟨keyBits kv.1, kv.1, kv.2⟩ : Entry) ∈ entriesOf m₂ := List.mem_map.mpr ⟨kv, h, rfl⟩
    exact back (root_sub hlen keyLen _ _ _ (Nat.le_refl _) w₂ w₁ (keyOK_entriesOf l₂) (keyOK_entriesOf l₁) (noColl_symm hnc) hr.symm _ he)

end LiskVerif.Roots
